"""C20 — executor life cycles leak no parent-side resources."""
import json
import os
import random
import re
import sys

import vlib

sys.path.insert(0, os.path.join(vlib.VERIF, "corr", "real"))
import runner  # noqa: E402
import ledger_scen  # noqa: E402

PROP_FILE = "Props/C20.v"
THEOREMS = ["C20_no_accumulation", "C20_released_owns_nothing", "C20_exits_release", "C20_abstraction_sound", "C20_structure",
            "C20_forced_shutdown_ends_the_feeder_thread", "C20_collected_executor_reaches_the_manager"]
ASSUME = [
    "an object that no thread, no registry and no user reference reaches is collected, and its descriptors / semaphores go with it "
    "(CPython reference counting + gc; measured, not proved)",
    "workers that were sent a sentinel, or killed, do exit (C05 / C06)",
    "multiprocessing keeps un-joined Process objects in its child table and drops the reaped ones at the next Process.start()",
    "counts are taken after the feeder thread, which is told to stop but not joined in the creating process, has ended",
]
ALL = ["plain", "with", "nowait", "kill", "broken_exit", "broken_kill", "timeout", "gc", "gc_contended", "never_started", "errors",
       "reusable_resize", "reusable_broken", "reusable_timeout", "nested", "nested_kill", "kill_bigargs", "broken_bigargs", "bad_initargs"]
QUICK = ["plain", "nowait", "kill", "kill_bigargs", "broken_bigargs", "bad_initargs", "nested_kill", "broken_exit", "gc", "gc_contended", "never_started", "reusable_resize", "reusable_broken"]


def model_ledgers(hists, psutil):
    txt = ("From Coq Require Import List Arith Bool.\nFrom LokyV Require Import Lib.LedgerLib Gen.Ledger Model.Ledger.\nImport ListNotations.\n"
           "Definition show (c : counts) := [fds c; threads c; children c; sems c].\n"
           "Eval vm_compute in map (fun h => show (ledger (run %s h world0))) [\n  %s].\n"
           % ("true" if psutil else "false", ";\n  ".join("[" + "; ".join(h) + "]" for h in hists)))
    ok, out = vlib.coq_eval(f"c20_cases_{os.getpid()}", txt)
    if not ok:
        return None, out[-600:]
    flat = out[out.index("="):out.rindex(":")].replace("\n", " ")
    rows = re.findall(r"\[([0-9; ]*)\]", flat)
    return [[int(x) for x in r.split(";")] for r in rows if r.strip()], None


def run(ctx):
    pr = vlib.prove(ctx, PROP_FILE, ["Ledger", "Pool"])
    fails = []
    # (a) the model's ledger against measured counts at observation points of real life cycles
    tres = runner.run_script(ledger_scen.SCRIPT, vlib.REPO, timeout=300, args=("--trace",), spare_trackers=True)
    tr = runner.last_json(tres)
    trace_ok = None
    if tr is None:
        fails.append((("trace",), ["the trace scenario did not complete: " + tres["stderr"][-300:]], None))
    elif os.path.exists(os.path.join(vlib.COQ, "Model", "Ledger.vo")) and os.path.exists(os.path.join(vlib.COQ, "Gen", "Ledger.vo")):
        rows, err = model_ledgers([h for _, h, _ in tr["trace"]], tr["psutil"])
        if rows is None or len(rows) != len(tr["trace"]):
            trace_ok = False
            ctx.log("model evaluation failed", err)
        else:
            diffs = [(l, h, m, d) for (l, h, d), m in zip(tr["trace"], rows) if m != d]
            trace_ok = not diffs
            for l, h, m, d in diffs:
                released = l.endswith("dropped")
                # a disagreement at a released point where the measured counts are not what one run leaves is a leak
                fails.append((("trace", l), [f"at '{l}' the model's ledger says {m} (fds, threads, children, semaphores above the baseline) "
                                             f"but the real parent has {d}" + ("" if released else " (executor still held)")], {"history": h}))
    # (b) 1x against (1+k)x of whole life cycles, one process per plan
    names = QUICK if ctx.tier == "quick" else ALL
    k = 3 if ctx.tier == "quick" else 8
    plans = [([n], k, 1) for n in names]
    rng = random.Random(20)
    if ctx.tier == "thorough":
        for i in range(10):
            plans.append((rng.sample(ALL, rng.choice([2, 3, 4])), 3, 100 + i))
    else:
        plans.append((["broken_kill", "plain", "timeout"], 2, 7))

    def one(p):
        res = runner.run_script(ledger_scen.SCRIPT, vlib.REPO, timeout=600, args=(",".join(p[0]), p[1], p[2]), spare_trackers=True)
        return p, runner.last_json(res), res
    from concurrent.futures import ThreadPoolExecutor
    results = []
    with ThreadPoolExecutor(max_workers=8) as ex:
        for p, got, res in ex.map(one, plans):
            bad = []
            if got is None:
                bad.append("no result: " + res["stderr"][-300:])
            elif not got["equal"]:
                grow = {c: (got["A"][c], got["B"][c]) for c in got["A"] if got["A"][c] != got["B"][c]}
                bad.append(f"counts after 1 run vs after {1 + p[1]} runs differ: {grow}")
            results.append({"plan": p, "ok": not bad, "A": got and got["A"], "B": got and got["B"]})
            if bad:
                fails.append((("repeat", p), bad, got))
    if fails:
        plan, bad, got = fails[0]
        rp = vlib.write_replay(ctx, "real", {"kind": "parent-side resources accumulate / the ledger deviates", "plan": plan, "why": bad,
                                             "observed": got, "all": [[str(p), b] for p, b, _ in fails]})
        ctx.violations.append((f"{len(fails)} scenarios deviate: {bad[0][:160]}", rp, False))
    if not pr["ok"] and not ctx.violations:
        rp = vlib.write_replay(ctx, "broken", {"kind": "proof obligation / generated operation lists no longer check", "detail": pr.get("broken"),
                                               "searched": f"{len(plans)} repeated life-cycle plans and {len(tr['trace']) if tr else 0} "
                                                           "observation points on the real code: no failing input"})
        what = pr["broken"].get("lemma") or pr["broken"].get("kind")
        ctx.violations.append((f"{pr['broken']['kind']} ({what}) no longer checks", rp, True))
    ctx.coverage = {
        "obligations": pr.get("obligations", 0) or 1, "discharged": pr.get("obligations", 0) if pr["ok"] else 0,
        "checker_cmd": "cd /verif/coq && make Props/C20.vo + Print Assumptions",
        "trusted_base": vlib.TRUSTED_BASE, "theorems": THEOREMS, "print_assumptions": pr.get("assumptions"),
        "generated_from": {k_: v.get("manifest") for k_, v in pr.get("gen", {}).items()},
        "evaluations": len(plans) + (len(tr["trace"]) if tr else 0), "distinct_nontrivial": len(plans) + (len(tr["trace"]) if tr else 0),
        "rule": "repeat plans: one fresh process each; history (sequence of named life cycles: plain, context manager, shutdown(wait=False), "
                "kill_workers, worker os._exit, worker SIGKILL, idle time-out, collected without shutdown, never started, failing / "
                "unpicklable tasks and results, reusable resize / broken / time-out, nested, nested+kill) run once as warm-up, once more "
                "-> A, k more times -> B; A == B component-wise for fds (/proc/self/fd), threads, children incl. zombies (/proc), "
                "/dev/shm/sem.loky-<pid>-*.  trace: 14 observation points of single life cycles, measured delta to the baseline "
                "compared with the Coq model's ledger of the corresponding event history (vm_compute)",
        "model_vs_real_observation_points": {"agree": trace_ok, "points": tr and [[l, d] for l, _, d in tr["trace"]], "psutil": tr and tr["psutil"]},
        "traces_validated_against_impl": len(plans) + 1, "samples": results[:4],
    }
    return vlib.finish(ctx, ASSUME)


def replay(ctx, path):
    r = json.load(open(path))
    print(json.dumps(r, indent=1)[:3000])
    return 0
