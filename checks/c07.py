"""C07 — simulation-based check (real executor code on the simulated kernel) + monitors."""
from checks import simcommon as S

FAMILIES = ['timeout', 'shutdown', 'resize']
PER_FAMILY = (600, 8000)


PROOF = dict(prop_file='Props/C07.v', gen=['Ledger', 'Pool', 'Worker', 'Flow'], theorems=['C07_no_duplicate_execution', 'C07_token_unique', 'C07_sentinel_exit_holds_no_task', 'C07_idle_exit_is_not_a_break', 'C07_reap_refills_when_work_waits', 'C07_submit_registers_before_topping_up', 'C07_registered_job_always_has_a_worker_coming', 'C07_structure', 'C07_idle_exit_protocol', 'C07_token_flow_follows_the_source'], tf_families=['timeout', 'shutdown', 'resize'], tf_per_family=(100, 1500),
             note="'never marked broken' and 're-spawn keeps work flowing' are decided by the simulation monitors (H2 is a known finding); the theorems cover no-duplicate / no-task-held-at-exit")


def run(ctx):
    return S.sim_check(ctx, FAMILIES, FAMILIES, PER_FAMILY, S.SIM_ASSUME, proof=PROOF)


def replay(ctx, path):
    return S.replay(ctx, path)
