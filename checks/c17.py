"""C17 — cpu_count = max(1, min(all limits))."""
import json
import os
import random
import sys
from concurrent.futures import ThreadPoolExecutor

import vlib

sys.path.insert(0, os.path.join(vlib.VERIF, "corr", "diff"))
import c17_cpu as T  # noqa: E402

PROP_FILE = "Props/C17.v"
THEOREMS = ["C17_formula", "C17_affinity_limit", "C17_cgroup_limit", "C17_env_limit", "C17_ge_1",
            "C17_value_is_int", "C17_physical", "C17_warn_once", "C17_raises_iff"]
ASSUME = [
    "sys.platform == 'linux' (win32/darwin branches folded away by the translator)",
    "math.ceil(q / p) is modelled as the exact integer ceiling; they agree for q, p < 2^52 (kernel limits: q < 2^44, p <= 10^6)",
    "cgroup files and the override contain ASCII text (str.strip / int() are modelled on ASCII)",
    "the inputs (os.cpu_count, sched_getaffinity, psutil, files, environment, lscpu probe) are an oracle record",
]


def explore(ctx, n):
    rng = random.Random(ctx.seed * 7919 + 17)
    cases, fails, undef, kinds, distinct = [], [], 0, {}, set()
    for i in range(n):
        cfg, calls = T.gen_cfg(rng, rng.random() < 0.15)
        outs = T.run_real(vlib.REPO, cfg, calls)
        cache = cfg["cache"]
        nphys = 0
        for flag, o in zip(calls, outs):
            exp = T.oracle(cfg, flag, cache)
            k = "undefined-input" if exp is None else ("physical" if flag else "logical")
            kinds[k] = kinds.get(k, 0) + 1
            if exp is None:
                undef += 1
                if o[0][0] != "raise":
                    pass      # e.g. int(' 7 ') succeeds where the oracle is conservative: not a failure
            elif o[0] != ["int", exp]:
                fails.append((cfg, calls, flag, cache, o, exp))
            elif exp < 1:
                fails.append((cfg, calls, flag, cache, o, ">=1"))
            cache = o[2]
        cases.append((cfg, calls, outs))
        distinct.add(vlib.sha(json.dumps([cfg, calls], sort_keys=True, default=str)))
    return cases, fails, undef, kinds, distinct


def model_compare(cases):
    shard = 150
    starts = list(range(0, len(cases), shard))

    def one(s):
        ok, out = vlib.coq_eval(f"c17_cases_{os.getpid()}_{s}", T.cases_file(cases[s:s + shard]))
        if not ok:
            return None, out[-800:]
        txt = out.split("=", 1)[1].split(":")[0] if "=" in out else ""
        idx = [int(x) for x in txt.replace("[", " ").replace("]", " ").replace(";", " ").split() if x.isdigit()]
        return [s + i for i in idx], None
    bad = []
    with ThreadPoolExecutor(max_workers=12) as ex:
        for b, err in ex.map(one, starts):
            if b is None:
                return None, err
            bad += b
    return bad, None


def probe_interruptions(ctx):
    """histories the sequential grid cannot express: the physical-core probe of the FIRST call is still running when another thread
    calls, or is interrupted (KeyboardInterrupt, handled by the application); every completed call must return the formula's value"""
    import sys, threading, types, warnings
    if sys.path[0] != vlib.REPO:
        sys.path.insert(0, vlib.REPO)
    import loky.backend.context as C
    fake_os = types.SimpleNamespace(cpu_count=lambda: 8, sched_getaffinity=lambda pid: set(range(8)), environ={}, path=types.SimpleNamespace(exists=lambda p: False),
                                    name="posix", getpid=lambda: 1)
    saved = (C.os, C._count_physical_cores_linux, C.physical_cores_cache)
    bad = []
    try:
        C.os = fake_os
        # (a) interrupted probe
        C.physical_cores_cache = None
        state = {"n": 0}
        def probe_a():
            state["n"] += 1
            if state["n"] == 1:
                raise KeyboardInterrupt()
            return 4
        C._count_physical_cores_linux = probe_a
        with warnings.catch_warnings(record=True):
            warnings.simplefilter("always")
            try:
                C.cpu_count(only_physical_cores=True)
                first = "returned"
            except KeyboardInterrupt:
                first = "KeyboardInterrupt"
            later = [C.cpu_count(only_physical_cores=True) for _ in range(2)]
        if later != [4, 4]:
            bad.append({"history": "first probe interrupted by KeyboardInterrupt (handled), then two more calls; 8 logical / 4 physical cores, no other limit",
                        "first_call": first, "later_calls_returned": later, "expected": [4, 4]})
        # (b) a second caller while the first probe is still running
        C.physical_cores_cache = None
        started, release = threading.Event(), threading.Event()
        def probe_b():
            if threading.current_thread().name == "first-caller":
                started.set()
                release.wait(10)
            return 4
        C._count_physical_cores_linux = probe_b
        res = {}
        t = threading.Thread(target=lambda: res.__setitem__("a", C.cpu_count(only_physical_cores=True)), name="first-caller")
        with warnings.catch_warnings(record=True):
            warnings.simplefilter("always")
            t.start()
            started.wait(10)
            res["b"] = C.cpu_count(only_physical_cores=True)
            release.set()
            t.join(10)
        if res.get("a") != 4 or res.get("b") != 4:
            bad.append({"history": "a second thread calls cpu_count(only_physical_cores=True) while the first caller's probe is still running",
                        "returned": res, "expected": {"a": 4, "b": 4}})
    finally:
        C.os, C._count_physical_cores_linux, C.physical_cores_cache = saved
    return bad


def run(ctx):
    n = 5000 if ctx.tier == "quick" else 200000
    pr = vlib.prove(ctx, PROP_FILE, ["Cpu"])
    cases, fails, undef, kinds, distinct = explore(ctx, n)
    pbad = probe_interruptions(ctx)
    if pbad:
        rp = vlib.write_replay(ctx, "probe", {"kind": "cpu_count(only_physical_cores=True) returns another value than the formula after an interrupted / concurrent probe", "cases": pbad})
        ctx.violations.append((f"physical-core probe: {pbad[0]['history'][:110]}: got {pbad[0].get('later_calls_returned', pbad[0].get('returned'))}", rp, False))
    disagreements = 0
    if fails:
        cfg, calls, flag, cache, o, exp = min(fails, key=lambda f: len(json.dumps(f[0], default=str)))
        rp = vlib.write_replay(ctx, "property", {
            "kind": "configuration on which cpu_count() violates max(1, min(limits))",
            "cfg": cfg, "calls": calls, "failing_flag_only_physical_cores": flag, "cache_before": cache,
            "got": o, "expected": exp, "how_to_replay": "./check C17 --replay <this file>"})
        ctx.violations.append((f"cpu_count differs from the formula on {len(fails)} configurations", rp, False))
    if pr["ok"]:
        bad, err = model_compare(cases)
        if bad is None:
            rp = vlib.write_replay(ctx, "cases", {"kind": "case evaluation failed in Coq", "error": err})
            ctx.violations.append(("model evaluation failed", rp, True))
        elif bad:
            disagreements = len(bad)
            cfg, calls, outs = cases[bad[0]]
            rp = vlib.write_replay(ctx, "correspondence", {
                "kind": "generated model (Gen/Cpu.v) and real cpu_count disagree",
                "cfg": cfg, "calls": calls, "real": outs})
            if not fails:
                ctx.violations.append((f"model/implementation correspondence broken on {len(bad)} configurations", rp, True))
    elif not fails:
        rp = vlib.write_replay(ctx, "broken", {
            "kind": "proof obligation / translation no longer checks", "detail": pr.get("broken"),
            "searched": f"{n} generated configurations against the property oracle on the real cpu_count: no failing input"})
        what = pr["broken"].get("lemma") or pr["broken"].get("kind")
        ctx.violations.append((f"{pr['broken']['kind']} ({what}) no longer checks", rp, True))
    ctx.coverage = {
        "obligations": pr.get("obligations", 0) or 1,
        "discharged": pr.get("obligations", 0) if pr["ok"] else 0,
        "checker_cmd": "cd /verif/coq && make Props/C17.vo  (coqc 8.16.1, full .vo build) + Print Assumptions",
        "trusted_base": vlib.TRUSTED_BASE,
        "theorems": THEOREMS,
        "print_assumptions": pr.get("assumptions"),
        "generated_from": pr.get("gen", {}).get("Cpu", {}).get("manifest"),
        "evaluations": n,
        "distinct_nontrivial": len(distinct),
        "rule": "configurations: os count (None/0/1..300), affinity (value/unavailable), psutil (missing/no attr/value), "
                "cgroup layout (none, v2 max, v2 quota, v1 files, one v1 file missing, both) with quota/period incl. exact "
                "multiples, fractional ratios, 2^44-1, -1/0; override (absent, positive, 0/negative); probe (fail/0/value); "
                "initial cache; 15% malformed inputs of 12 kinds; 1-3 successive calls sharing the cache. "
                "distinct by hash of (cfg, calls); every configuration is non-trivial (>= 1 limit source varies)",
        "call_kinds": kinds,
        "inputs_outside_property_domain": undef,
        "traces_validated_against_impl": n if pr["ok"] else 0,
        "disagreements_model_vs_impl": disagreements,
        "property_oracle_failures": len(fails),
        "samples": [{"cfg": cases[2][0], "calls": cases[2][1], "real": cases[2][2]}],
    }
    return vlib.finish(ctx, ASSUME)


def replay(ctx, path):
    r = json.load(open(path))
    outs = T.run_real(vlib.REPO, r["cfg"], r["calls"])
    print("real:", outs)
    cache = r["cfg"]["cache"]
    rc = 0
    for flag, o in zip(r["calls"], outs):
        exp = T.oracle(r["cfg"], flag, cache)
        print(f"only_physical_cores={flag}: got {o[0]}, property says {exp}")
        if exp is not None and o[0] != ["int", exp]:
            rc = 1
        cache = o[2]
    return rc
