"""C11 — the resource tracker's reference counts are exact."""
import json
import os
import random
import sys

import vlib

sys.path.insert(0, os.path.join(vlib.VERIF, "corr", "diff"))
import c11_tracker as T  # noqa: E402

PROP_FILE = "Props/C11.v"
ASSUME = [
    "the byte stream reaches main() split into lines as CPython's BufferedReader.readline does",
    "client writes are atomic (<= 512 bytes, stdlib ResourceTracker._send): interleavings are sequences of whole lines",
    "cleanup functions are oracles that may fail arbitrarily (their failure is swallowed by main())",
    "sys.platform != win32 and os.name == posix (the translator folds these tests)",
]


def explore(ctx, n, with_model):
    rng = random.Random(ctx.seed * 1000003 + 11)
    all_items, cases, fails_prop = [], [], []
    distinct = set()
    for i in range(n):
        items, data = T.gen_case(rng)
        fail_names = set(rng.sample([it[0][2] for it in items if len(it[0]) == 3] or ["-"], 1)) \
            if rng.random() < 0.3 else set()
        events = T.run_real(vlib.REPO, data, fail_names)
        all_items.append(items)
        why = T.check_property(items, events)
        if why:
            fails_prop.append((i, why, data, events))
        key = vlib.sha(data)
        if len(items) >= 3 and key not in distinct:
            distinct.add(key)
        cases.append((T.split_lines(data), [e for e in events if e[0] not in ("returned",)], data))
    return all_items, cases, fails_prop, distinct


def model_compare(ctx, cases):
    """generated Coq model vs the real main() on the same streams; returns list of mismatching indices"""
    from concurrent.futures import ThreadPoolExecutor
    shard = 100
    starts = list(range(0, len(cases), shard))

    def one(s):
        part = cases[s:s + shard]
        ok, out = vlib.coq_eval(f"c11_cases_{os.getpid()}_{s}", T.cases_file([(l, e) for l, e, _ in part]))
        if not ok:
            return None, out[-800:]
        txt = out.split("=", 1)[1] if "=" in out else ""
        txt = txt.split(":")[0]
        idx = [int(x) for x in txt.replace("[", " ").replace("]", " ").replace(";", " ").replace("%nat", "").split()
               if x.isdigit()]
        return [s + i for i in idx], None
    bad = []
    with ThreadPoolExecutor(max_workers=12) as ex:
        for b, err in ex.map(one, starts):
            if b is None:
                return None, err
            bad += b
    return bad, None


def shrink(items, fail_names, pred):
    """greedy removal of requests while the failure persists"""
    cur = list(items)
    changed = True
    while changed and len(cur) > 1:
        changed = False
        for i in range(len(cur)):
            cand = cur[:i] + cur[i + 1:]
            if pred(cand):
                cur = cand
                changed = True
                break
    return cur


def run(ctx):
    n = 600 if ctx.tier == "quick" else 30000
    pr = vlib.prove(ctx, PROP_FILE, ["Tracker"])
    all_items, cases, fails_prop, distinct = explore(ctx, n, pr["ok"])
    disagreements = 0
    if fails_prop:
        i, why, data, events = fails_prop[0]
        items = all_items[i]

        def pred(cand):
            d = b"".join(l for _, l in cand)
            return T.check_property(cand, T.run_real(vlib.REPO, d)) is not None
        small = shrink(items, (), pred) if pred(items) else items
        d = b"".join(l for _, l in small)
        ev = T.run_real(vlib.REPO, d)
        rp = vlib.write_replay(ctx, "property", {
            "kind": "tracker stream violating the refcount law on the real main()",
            "stream_hex": d.hex(), "stream_repr": repr(d),
            "abstract_requests": [list(r) for r, _ in small],
            "why": T.check_property(small, ev) or why, "events": ev,
            "how_to_replay": f"./check C11 --replay <this file>"})
        ctx.violations.append((f"refcount law fails on {len(fails_prop)}/{n} streams", rp, False))
    if pr["ok"]:
        bad, err = model_compare(ctx, cases)
        if bad is None:
            rp = vlib.write_replay(ctx, "cases", {"kind": "case evaluation failed in Coq", "error": err})
            ctx.violations.append(("model evaluation failed", rp, True))
        elif bad:
            disagreements = len(bad)
            lines, events, data = cases[bad[0]]
            rp = vlib.write_replay(ctx, "correspondence", {
                "kind": "generated model (Gen/Tracker.v) and real main() disagree",
                "stream_hex": data.hex(), "stream_repr": repr(data), "real_events": events,
                "note": "the translator or PyLib misrepresents the code on this input, or the code changed "
                        "in a way the translator does not see",
                "how_to_replay": "./check C11 --replay <this file>"})
            if not fails_prop:
                ctx.violations.append((f"model/implementation correspondence broken on {len(bad)} streams", rp, True))
    else:
        if not fails_prop:
            rp = vlib.write_replay(ctx, "broken", {
                "kind": "proof obligation / translation no longer checks", "detail": pr.get("broken"),
                "searched": f"{n} generated request streams against the property oracle on the real main(): no failing input"})
            what = pr["broken"].get("lemma") or pr["broken"].get("kind")
            ctx.violations.append((f"{pr['broken']['kind']} ({what}) no longer checks", rp, True))
    dist = T.distribution(all_items)
    sample = cases[min(3, len(cases) - 1)]
    ctx.coverage = {
        "obligations": pr.get("obligations", 0) or 1,
        "discharged": pr.get("obligations", 0) if pr["ok"] else 0,
        "checker_cmd": "cd /verif/coq && make Props/C11.vo  (coqc 8.16.1, full .vo build) + Print Assumptions",
        "trusted_base": vlib.TRUSTED_BASE,
        "theorems": ["C11_tracker_implements_count_machine", "C11_refcount_law",
                     "C11_at_most_one_cleanup_per_request", "C11_count_definition", "C11_frame"],
        "print_assumptions": pr.get("assumptions"),
        "generated_from": pr.get("gen", {}).get("Tracker", {}).get("manifest"),
        "evaluations": n,
        "distinct_nontrivial": len(distinct),
        "rule": "streams of 0..40 requests over <=6 names (some with ':' / blanks / empty), 3 types, weighted "
                "REGISTER/MAYBE_UNLINK/UNREGISTER/PROBE + 12% malformed lines of 11 kinds, whitespace decoration, "
                "optional missing final newline, 30% with a failing cleanup function; non-trivial = >=3 requests, "
                "distinct by stream hash",
        "request_distribution": dist,
        "traces_validated_against_impl": n if pr["ok"] else 0,
        "disagreements_model_vs_impl": disagreements,
        "property_oracle_failures": len(fails_prop),
        "samples": [{"stream": repr(sample[2]), "real_events": sample[1][:12]}],
    }
    return vlib.finish(ctx, ASSUME)


def replay(ctx, path):
    r = json.load(open(path))
    data = bytes.fromhex(r["stream_hex"])
    ev = T.run_real(vlib.REPO, data)
    print("stream:", repr(data))
    print("events:", ev)
    if "abstract_requests" in r:
        items = [(tuple(q), b"") for q in r["abstract_requests"]]
        why = T.check_property(items, ev)
        print("property oracle:", why or "holds")
        return 1 if why else 0
    return 0
