"""C10 — Coq theorems over coq/Model/Resize.v (the program of _resize regenerated from the source) + simulation of the real
executor code with kills and time-outs at every step of the resize."""
from checks import simcommon as S

FAMILIES = ['resize', 'reuse', 'idleshrink', 'cbreuse', 'growshrink', 'shrinkkill']
PER_FAMILY = (700, 12000)

PROOF = S.pool_proof('C10', ['C10_never_posts_while_work_is_pending', 'C10_resize_returns_as_asked', 'C10_blocked_resize_can_always_progress',
                             'C10_invariant_of_every_history', 'C10_structure', 'C10_posting_refuted_when_idle_workers_are_leaving', 'C10_posting_partial'],
                     'a counter model: which worker takes which sentinel, the identity of the kept processes and wall-clock time are not '
                     'modelled; "terminates" is deadlock-freedom with a strictly decreasing measure, not a bound in seconds; locks held by '
                     'dead processes (H5) are outside the model')
PROOF["gen"] = ["Resize"]
PROOF["model_name"] = "coq/Model/Resize.v"
PROOF["trusted_extra"] = ["the statement table of tr/units_resize.py (anything unrecognised is refused)",
                          "what each instruction / environment event means for the counters (coq/Model/Resize.v), hand-written"]


def run(ctx):
    return S.sim_check(ctx, FAMILIES, FAMILIES, PER_FAMILY, S.SIM_ASSUME, proof=PROOF)


def replay(ctx, path):
    return S.replay(ctx, path)
