"""C14 — synchronisation primitives keep their contracts."""
import json
import os
import subprocess
import sys
import tempfile
from concurrent.futures import ThreadPoolExecutor

import vlib
from checks import simcommon

sys.path.insert(0, os.path.join(vlib.VERIF, "corr", "real"))
import runner  # noqa: E402

PROP_FILE = "Props/C14.v"
THEOREMS = ["C14_asserts_never_fail", "C14_cond_lock_mutex", "C14_wait_returns_holding_the_lock",
            "C14_wait_false_only_after_timeout", "C14_notify_all_wakes_everyone", "C14_notify_all_no_waiter_left_asleep",
            "C14_notify_at_most_one", "C14_tokens_accounted", "C14_wsem_zero_when_quiet", "C14_sleeping_minus_woken",
            "C14_notify_wakes_one_refuted", "C14_constructor_parameters", "C14_bounded_never_above_max",
            "C14_over_release_refused", "C14_semaphore_conservation", "C14_rlock_reentrant_for_owner_only"]
COND = os.path.join(vlib.VERIF, "corr", "sim", "cond_sim.py")
EXTRACT = os.path.join(vlib.COQ, "extract")
ASSUME = simcommon.SIM_ASSUME + [
    "Condition's lock is modelled as a plain mutex (recursion count 1); RLock-based conditions are explored by the monitors only",
    "Event is decided by the monitors (its flag is only changed under the condition's lock)",
]

REAL = r'''
import json, os, sys, time
from loky.backend import get_context
from loky.backend.process import LokyProcess

def child(i, lock, cond, ev, sem, path, rounds):
    ev.wait()
    for _ in range(rounds):
        with lock:
            with open(path) as f:
                n = int(f.read())
            time.sleep(0.001)
            with open(path, "w") as f:
                f.write(str(n + 1))
        with sem:
            pass
    with cond:
        with open(path + ".ready", "a") as f:
            f.write("x")
        r = cond.wait(30)
    sys.exit(0 if r else 3)

if __name__ == "__main__":
    ctx = get_context("loky")
    lock, cond, ev, sem = ctx.Lock(), ctx.Condition(), ctx.Event(), ctx.BoundedSemaphore(2)
    path = os.path.abspath("counter.txt")
    open(path, "w").write("0")
    open(path + ".ready", "w").close()
    N, R = 4, 25
    ps = [ctx.Process(target=child, args=(i, lock, cond, ev, sem, path, R)) for i in range(N)]
    for p in ps:
        p.start()
    ev.set()
    t0 = time.time()
    while len(open(path + ".ready").read()) < N and time.time() - t0 < 60:
        time.sleep(0.01)
    with cond:
        cond.notify_all()
    for p in ps:
        p.join(60)
    over = None
    try:
        sem.release()
        over = "accepted"
    except ValueError:
        over = "refused"
    print(json.dumps({"counter": int(open(path).read()), "expected": N * R, "exitcodes": [p.exitcode for p in ps],
                      "over_release": over, "event_set": ev.is_set()}))
'''


def build():
    with vlib.BuildLock():
        r = subprocess.run(["timeout", "300", "coqc", "-R", "..", "LokyV", "Extract.v"], cwd=EXTRACT,
                           stdout=subprocess.PIPE, stderr=subprocess.STDOUT, text=True)
        if r.returncode != 0:
            return False, r.stdout[-600:]
        r = subprocess.run(["ocamlfind", "ocamlopt", "condcheck.mli", "condcheck.ml", "cond_driver.ml", "-o", "cond_check"],
                           cwd=EXTRACT, stdout=subprocess.PIPE, stderr=subprocess.STDOUT, text=True)
        return r.returncode == 0, r.stdout[-600:]


def run(ctx):
    pr = vlib.prove(ctx, PROP_FILE, ["Sync"])
    n = 1500 if ctx.tier == "quick" else 40000
    chunk = 150 if ctx.tier == "quick" else 2000
    d = tempfile.mkdtemp(prefix="lokyv_c14_")
    if pr["ok"]:
        okb, msg = build()
    else:
        # the property file does not build (e.g. the source tripwire): the model itself may still be usable as an oracle
        okm, _ = vlib.coq_make(["Model/CondCheck.vo"])
        okb, msg = build() if okm else (False, "model not built")
    jobs = [(ctx.seed * 1000000 + s, min(chunk, n - s)) for s in range(0, n, chunk)]

    def one(job):
        s0, c = job
        out = os.path.join(d, f"c_{s0}.json")
        tr = os.path.join(d, f"t_{s0}.txt")
        env = dict(os.environ, VERIF_REPO=vlib.REPO, PYTHONHASHSEED="0", PYTHONPATH=vlib.REPO)
        p = subprocess.Popen([vlib.PY, COND, str(s0), str(c), out, tr], stdout=subprocess.DEVNULL, stderr=subprocess.PIPE,
                             stdin=subprocess.DEVNULL, env=env, start_new_session=True)
        try:
            _, err = p.communicate(timeout=1500)
        except subprocess.TimeoutExpired:
            p.kill()
            return None, None, "timeout"
        if not os.path.exists(out):
            return None, None, err.decode(errors="replace")[-500:]
        return out, tr, None
    with ThreadPoolExecutor(max_workers=14) as ex:
        outs = list(ex.map(one, jobs))
    total = traces = events = 0
    rejected, new, known, harness = [], {}, {}, []
    kinds = {}
    sample = None
    for out, tr, err in outs:
        if err:
            harness.append(err)
            continue
        runs = json.load(open(out))["runs"]
        os.unlink(out)
        for r in runs:
            total += 1
            kinds[r["plan"]["kind"]] = kinds.get(r["plan"]["kind"], 0) + 1
            if r["status"] == "harness-error":
                harness.append(r.get("error"))
                continue
            if sample is None and r.get("waits", 0) >= 2 and r.get("notifies", 0) >= 1:
                sample = {"plan": r["plan"], "seed": r["seed"], "status": r["status"], "steps": r["steps"]}
            for a in r["anomalies"]:
                kf = simcommon.match_known("C14", a["kind"] + ": " + a["sig"])
                if kf is not None:
                    known.setdefault(kf["id"], [kf, 0])[1] += 1
                else:
                    key = a["kind"] + ": " + a["sig"]
                    if key not in new:
                        new[key] = [r, 0]
                    new[key][1] += 1
        if okb and os.path.exists(tr):
            rr = subprocess.run([os.path.join(EXTRACT, "cond_check"), tr], stdout=subprocess.PIPE, text=True, timeout=600)
            for line in rr.stdout.splitlines():
                p = line.split()
                traces += 1
                if p[0] == "OK":
                    events += int(p[2])
                    if p[4] == "true":
                        rejected.append((p[1], "assert-failed-state"))
                else:
                    rejected.append((p[1], int(p[2])))
        if os.path.exists(tr):
            os.unlink(tr)
    try:
        os.rmdir(d)
    except OSError:
        pass
    # real processes: the same objects pickled to loky children
    res = runner.run_script(REAL, vlib.REPO, timeout=180)
    got = runner.last_json(res)
    real_ok = (got is not None and got["counter"] == got["expected"] and all(c == 0 for c in got["exitcodes"])
               and got["over_release"] == "refused" and got["event_set"] is True)
    if not real_ok:
        rp = vlib.write_replay(ctx, "real", {"kind": "primitives shared with loky child processes misbehave", "got": got,
                                             "stderr": res["stderr"][-1200:], "timed_out": res["timed_out"]})
        ctx.violations.append(("cross-process lock/semaphore/event/condition scenario failed", rp, False))
    for kid, (kf, cnt) in sorted(known.items()):
        ctx.known.append(f"{kf['id']} {kf['title']} ({cnt} of {total} schedules)")
    for i, (sig, (r, cnt)) in enumerate(sorted(new.items(), key=lambda kv: -kv[1][1])):
        rp = vlib.write_replay(ctx, f"sim{i}", {"kind": sig, "occurrences": cnt, "plan": r["plan"], "seed": r["seed"],
                                                "choices": r.get("choices"),
                                                "how_to_replay": "corr/sim/cond_sim.py <seed> 1 out.json"})
        ctx.violations.append((sig[:200], rp, False))
    if harness:
        rp = vlib.write_replay(ctx, "harness", {"kind": "harness failure", "detail": harness[:5]})
        ctx.violations.append(("simulation harness failed: " + str(harness[0])[:120], rp, True))
    if not pr["ok"] and not ctx.violations:
        rp = vlib.write_replay(ctx, "broken", {"kind": "proof obligation / source tripwire no longer checks",
                                               "detail": pr.get("broken"),
                                               "searched": f"{total} simulated schedules of the real classes with the monitors: no failing input"})
        what = pr["broken"].get("lemma") or pr["broken"].get("kind")
        ctx.violations.append((f"{pr['broken']['kind']} ({what}) no longer checks", rp, True))
    if rejected and not any(not v[2] for v in ctx.violations):
        ctx.violations = [v for v in ctx.violations if not v[2]]
        rp = vlib.write_replay(ctx, "correspondence", {
            "kind": "a trace of the real Condition is not a behaviour of coq/Model/Cond.v (or drives it into AssertFailed)",
            "rejected": rejected[:10], "proof_status": pr.get("broken"),
            "how_to_replay": "corr/sim/cond_sim.py <seed> 1 out.json tr.txt && coq/extract/cond_check tr.txt"})
        ctx.violations.append((f"the real Condition leaves the proved model on {len(rejected)} of {traces} traces "
                               f"(first: {rejected[0][0]} at event {rejected[0][1]})", rp, False))
    elif pr["ok"] and not okb and not ctx.violations:
        rp = vlib.write_replay(ctx, "correspondence", {"kind": "trace validation against coq/Model/Cond.v failed",
                                                       "rejected": rejected[:10], "build": msg})
        ctx.violations.append((f"model/implementation correspondence broken on {len(rejected)} of {traces} traces (Model/Cond.v)", rp, True))
    ctx.coverage = {
        "obligations": pr.get("obligations", 0) or 1, "discharged": pr.get("obligations", 0) if pr["ok"] else 0,
        "checker_cmd": "cd /verif/coq && make Props/C14.vo + Print Assumptions; extraction of Model/CondCheck.validate",
        "trusted_base": vlib.TRUSTED_BASE + ["ExtrOcamlBasic extraction + coq/extract/cond_driver.ml"],
        "theorems": THEOREMS, "print_assumptions": pr.get("assumptions"),
        "generated_from": pr.get("gen", {}).get("Sync", {}).get("manifest"),
        "evaluations": total, "distinct_nontrivial": sum(v for k, v in kinds.items()),
        "rule": "plans of 2-5 threads x 1-3 operations (wait with/without time-out, notify, notify_all; Event set/clear/wait/"
                "is_set; Lock/RLock/Semaphore/BoundedSemaphore sections) on the real classes over simulated semaphores, one "
                "seeded schedule each (uniform or sticky), time-outs fired by the scheduler; every plan has >= 2 threads; "
                "distinct by seed",
        "plan_kinds": kinds, "traces_validated_against_impl": traces, "trace_events": events,
        "traces_rejected": len(rejected), "known_findings_seen": {k: v[1] for k, v in known.items()},
        "real_process_scenario": got,
        "samples": [sample] if sample else [{"note": "none"}],
    }
    return vlib.finish(ctx, ASSUME)


def replay(ctx, path):
    r = json.load(open(path))
    env = dict(os.environ, VERIF_REPO=vlib.REPO, PYTHONHASHSEED="0", PYTHONPATH=vlib.REPO)
    out = tempfile.mktemp(suffix=".json")
    subprocess.run([vlib.PY, COND, str(r["seed"]), "1", out], env=env, start_new_session=True, timeout=120)
    res = json.load(open(out))["runs"][0]
    os.unlink(out)
    print(json.dumps(res["anomalies"], indent=1))
    return 1 if res["anomalies"] else 0
