"""C14 — synchronisation primitives keep their contracts."""
import json
import os
import subprocess
import sys
import tempfile
from concurrent.futures import ThreadPoolExecutor

import vlib
from checks import simcommon

sys.path.insert(0, os.path.join(vlib.VERIF, "corr", "real"))
import runner  # noqa: E402

PROP_FILE = "Props/C14.v"
THEOREMS = ["C14_asserts_never_fail", "C14_cond_lock_mutex", "C14_wait_returns_holding_the_lock",
            "C14_wait_false_only_after_timeout", "C14_notify_all_wakes_everyone", "C14_notify_all_no_waiter_left_asleep",
            "C14_notify_at_most_one", "C14_tokens_accounted", "C14_wsem_zero_when_quiet", "C14_sleeping_minus_woken",
            "C14_notify_wakes_one_refuted", "C14_constructor_parameters", "C14_bounded_never_above_max",
            "C14_over_release_refused", "C14_semaphore_conservation", "C14_rlock_reentrant_for_owner_only",
            "C14_event_wait_returns_true_iff_set", "C14_event_flag_is_binary_and_no_sleeper_while_set", "C14_event_set_wakes_everyone",
            "C14_event_is_set_and_clear", "C14_event_wait_sleeps_only_on_a_clear_event", "C14_event_untimed_waiter_needs_a_set",
            "C14_event_nothing_gets_stuck"]
COND = os.path.join(vlib.VERIF, "corr", "sim", "cond_sim.py")
EXTRACT = os.path.join(vlib.COQ, "extract")
ASSUME = simcommon.SIM_ASSUME + [
    "Condition's lock is modelled as a plain mutex (recursion count 1); RLock-based conditions are explored by the monitors only",
    "Event (coq/Model/Event.v): CondWait / NotifyAll mean what the Condition theorems say (wait returns holding the lock; notify_all "
    "wakes every registered waiter); a body runs atomically because it is one `with self._cond:` block (checked by the translator)",
]

REAL = r'''
import json, os, sys, time
from loky.backend import get_context
from loky.backend.process import LokyProcess

def child(i, lock, cond, ev, sem, path, rounds):
    ev.wait()
    for _ in range(rounds):
        with lock:
            with open(path) as f:
                n = int(f.read())
            time.sleep(0.001)
            with open(path, "w") as f:
                f.write(str(n + 1))
        with sem:
            pass
    with cond:
        with open(path + ".ready", "a") as f:
            f.write("x")
        r = cond.wait(30)
    sys.exit(0 if r else 3)

if __name__ == "__main__":
    ctx = get_context("loky")
    lock, cond, ev, sem = ctx.Lock(), ctx.Condition(), ctx.Event(), ctx.BoundedSemaphore(2)
    path = os.path.abspath("counter.txt")
    open(path, "w").write("0")
    open(path + ".ready", "w").close()
    N, R = 4, 25
    ps = [ctx.Process(target=child, args=(i, lock, cond, ev, sem, path, R)) for i in range(N)]
    for p in ps:
        p.start()
    ev.set()
    t0 = time.time()
    while len(open(path + ".ready").read()) < N and time.time() - t0 < 60:
        time.sleep(0.01)
    with cond:
        cond.notify_all()
    for p in ps:
        p.join(60)
    over = None
    try:
        sem.release()
        over = "accepted"
    except ValueError:
        over = "refused"
    print(json.dumps({"counter": int(open(path).read()), "expected": N * R, "exitcodes": [p.exitcode for p in ps],
                      "over_release": over, "event_set": ev.is_set()}))
'''


EVENT_DIFF = r'''
import json, random, sys, threading, time
from loky.backend import get_context
seed, nseq = int(sys.argv[1]), int(sys.argv[2])
ctx = get_context("loky")
out = []
lost = [0]          # histories in which a waiter did not come back: after the first one waits are short, after three we stop
for k in range(nseq):
    rng = random.Random(f"event-{seed}-{k}")
    ev = ctx.Event()
    log, sleepers, nxt = [], {}, 1
    if lost[0] >= 3:
        break
    def asleep():
        return ev._cond._sleeping_count._semlock._get_value()
    def collect(expect_all):
        done = []
        t0 = time.time()
        while sleepers and time.time() - t0 < (10 if lost[0] == 0 else 0.5):
            for tid in sorted(sleepers):
                th, box = sleepers[tid]
                if not th.is_alive():
                    done.append([tid, box[0]]); del sleepers[tid]
            if not expect_all:
                break
            time.sleep(0.001)
        return done
    ops = rng.randint(3, 12)
    for _ in range(ops):
        op = rng.choice(["is_set", "set", "clear", "wait0", "spawn", "spawn", "is_set", "set"])
        if op == "is_set":
            log.append(["is_set", ev.is_set()])
        elif op == "clear":
            ev.clear(); log.append(["clear"])
        elif op == "wait0":
            log.append(["wait0", ev.wait(0)])
        elif op == "set":
            n = len(sleepers)
            ev.set()
            woke = collect(True)
            log.append(["set", woke, n - len(woke)])          # threads asleep before the set that did not come back within 10 s
            if n - len(woke):
                lost[0] += 1
                sleepers.clear()
                break
        elif op == "spawn" and len(sleepers) < 3:
            tid, nxt = nxt, nxt + 1
            box = [None]
            before = asleep()
            th = threading.Thread(target=lambda b=box: b.__setitem__(0, ev.wait()), daemon=True)
            th.start()
            t0 = time.time()
            while th.is_alive() and asleep() != before + 1 and time.time() - t0 < 10:
                time.sleep(0.0005)
            if th.is_alive():
                sleepers[tid] = (th, box); log.append(["spawn", tid, "sleeps"])
            else:
                log.append(["spawn", tid, box[0]])
    n = len(sleepers)
    ev.set()
    woke = collect(True)
    log.append(["set", woke, n - len(woke)])
    log.append(["is_set", ev.is_set()])
    out.append(log)
print(json.dumps({"logs": out}))
'''


def event_differential(ctx, nseq):
    """random histories of set / clear / is_set / wait(0) / wait() in threads on the real loky Event; the same histories through
    coq/Model/Event.v (vm_compute); outputs compared event by event"""
    res = runner.run_script(EVENT_DIFF, vlib.REPO, timeout=600, args=(ctx.seed, nseq))
    got = runner.last_json(res)
    out = {"ok": True, "histories": 0, "events": 0, "failed": [], "ops": {}}
    if got is None:
        out.update(ok=False, error="real Event scenario did not complete: " + res["stderr"][-300:])
        return out
    B = {True: "1", False: "0", None: "2"}
    cases, expects = [], []
    for log in got["logs"]:
        evs, exp = [], []
        # the property itself on this (sequential) history, with no model in between: the event is a boolean
        flag, why = False, None
        for e in log:
            if e[0] == "set":
                flag = True
                if any(r is not True for _, r in e[1]):
                    why = f"a waiter woken by set() returned {[r for _, r in e[1]]} although the event was set when it returned"
            elif e[0] == "clear":
                flag = False
            elif e[0] in ("is_set", "wait0") and e[1] is not flag:
                why = f"{e[0]} returned {e[1]} although the event was {'set' if flag else 'clear'}"
            elif e[0] == "spawn" and ((e[2] == "sleeps") == flag or (e[2] != "sleeps" and e[2] is not True)):
                why = f"wait() on a {'set' if flag else 'clear'} event: {e[2]}"
            if why:
                out["failed"].append({"history": log, "why": why})
                break
        for e in log:
            out["ops"][e[0]] = out["ops"].get(e[0], 0) + 1
            if e[0] == "is_set":
                evs.append("Call 0 MIsSet"); exp.append([1, 0, 0, int(B[e[1]])])
            elif e[0] == "clear":
                evs.append("Call 0 MClear"); exp.append([1, 0, 2, 2])
            elif e[0] == "wait0":
                evs.append("Call 0 (MWait true)")
                if e[1]:
                    exp.append([1, 0, 3, 1])
                else:
                    exp.append([2, 0]); evs.append("Resume 0"); exp.append([1, 0, 3, 0])
            elif e[0] == "set":
                evs.append("Call 0 MSet"); exp.append([1, 0, 1, 2])
                for tid, r in e[1]:
                    evs.append(f"Resume {tid}"); exp.append([1, tid, 4, int(B[r])])
                if e[2]:
                    out["failed"].append({"history": log, "why": f"{e[2]} untimed waiter(s) asleep before set() did not return within 10 s"})
            elif e[0] == "spawn":
                evs.append(f"Call {e[1]} (MWait false)")
                exp.append([2, e[1]] if e[2] == "sleeps" else [1, e[1], 4, int(B[e[2]])])
        cases.append("[" + "; ".join(evs) + "]"); expects.append(exp)
        out["events"] += len(evs)
    out["histories"] = len(cases)
    txt = ("From Coq Require Import List ZArith Bool.\nFrom LokyV Require Import Lib.EventLib Gen.Event Model.Event.\nImport ListNotations.\n"
           "Definition mc (m : meth) : nat := match m with MIsSet => 0 | MSet => 1 | MClear => 2 | MWait true => 3 | MWait false => 4 end.\n"
           "Definition rc (r : option bool) : nat := match r with Some true => 1 | Some false => 0 | None => 2 end.\n"
           "Definition show (o : out) : list nat := match o with ORet t m r => [1; t; mc m; rc r] | OSleep t => [2; t] | ONone => [3] | OStuck => [4] end.\n"
           "Eval vm_compute in map (fun es => map show (snd (run es est0))) [\n  " + ";\n  ".join(cases) + "].\n")
    ok, resx = vlib.coq_eval(f"c14_event_{os.getpid()}", txt)
    if not ok:
        out.update(ok=False, error=resx[-400:])
        return out
    import re
    flat = resx[resx.index("="):resx.rindex(":")].replace("\n", " ")
    # parse nested list of lists of lists of nat
    flat = re.sub(r"%nat", "", flat)[1:].strip()
    model = json.loads(flat.replace(";", ","))
    if len(model) != len(expects):
        out.update(ok=False, error=f"{len(model)} results for {len(expects)} histories")
        return out
    for log, m, x in zip(got["logs"], model, expects):
        if m != x:
            i = next((j for j, (a, b) in enumerate(zip(m, x)) if a != b), min(len(m), len(x)))
            out["failed"].append({"history": log, "first_difference_at_event": i, "model_says": m[i] if i < len(m) else None,
                                  "implementation_did": x[i] if i < len(x) else None,
                                  "encoding": "[1, thread, method(0 is_set,1 set,2 clear,3 wait(timeout),4 wait()), result(1 True,0 False,2 None)] | [2, thread] sleeps"})
    out["sample"] = got["logs"][len(got["logs"]) // 2]
    return out


def build():
    with vlib.BuildLock():
        r = subprocess.run(["timeout", "300", "coqc", "-R", "..", "LokyV", "Extract.v"], cwd=EXTRACT,
                           stdout=subprocess.PIPE, stderr=subprocess.STDOUT, text=True)
        if r.returncode != 0:
            return False, r.stdout[-600:]
        r = subprocess.run(["ocamlfind", "ocamlopt", "condcheck.mli", "condcheck.ml", "cond_driver.ml", "-o", "cond_check"],
                           cwd=EXTRACT, stdout=subprocess.PIPE, stderr=subprocess.STDOUT, text=True)
        return r.returncode == 0, r.stdout[-600:]


def run(ctx):
    pr = vlib.prove(ctx, PROP_FILE, ["Sync", "Event"])
    n = 1500 if ctx.tier == "quick" else 40000
    chunk = 150 if ctx.tier == "quick" else 2000
    d = tempfile.mkdtemp(prefix="lokyv_c14_")
    if pr["ok"]:
        okb, msg = build()
    else:
        # the property file does not build (e.g. the source tripwire): the model itself may still be usable as an oracle
        okm, _ = vlib.coq_make(["Model/CondCheck.vo"])
        okb, msg = build() if okm else (False, "model not built")
    jobs = [(ctx.seed * 1000000 + s, min(chunk, n - s)) for s in range(0, n, chunk)]

    def one(job):
        s0, c = job
        out = os.path.join(d, f"c_{s0}.json")
        tr = os.path.join(d, f"t_{s0}.txt")
        env = dict(os.environ, VERIF_REPO=vlib.REPO, PYTHONHASHSEED="0", PYTHONPATH=vlib.REPO)
        p = subprocess.Popen([vlib.PY, COND, str(s0), str(c), out, tr], stdout=subprocess.DEVNULL, stderr=subprocess.PIPE,
                             stdin=subprocess.DEVNULL, env=env, start_new_session=True)
        try:
            _, err = p.communicate(timeout=1500)
        except subprocess.TimeoutExpired:
            p.kill()
            return None, None, "timeout"
        if not os.path.exists(out):
            return None, None, err.decode(errors="replace")[-500:]
        return out, tr, None
    with ThreadPoolExecutor(max_workers=14) as ex:
        outs = list(ex.map(one, jobs))
    total = traces = events = 0
    rejected, new, known, harness = [], {}, {}, []
    kinds = {}
    sample = None
    for out, tr, err in outs:
        if err:
            harness.append(err)
            continue
        runs = json.load(open(out))["runs"]
        os.unlink(out)
        for r in runs:
            total += 1
            kinds[r["plan"]["kind"]] = kinds.get(r["plan"]["kind"], 0) + 1
            if r["status"] == "harness-error":
                harness.append(r.get("error"))
                continue
            if sample is None and r.get("waits", 0) >= 2 and r.get("notifies", 0) >= 1:
                sample = {"plan": r["plan"], "seed": r["seed"], "status": r["status"], "steps": r["steps"]}
            for a in r["anomalies"]:
                kf = simcommon.match_known("C14", a["kind"] + ": " + a["sig"])
                if kf is not None:
                    known.setdefault(kf["id"], [kf, 0])[1] += 1
                else:
                    key = a["kind"] + ": " + a["sig"]
                    if key not in new:
                        new[key] = [r, 0]
                    new[key][1] += 1
        if okb and os.path.exists(tr):
            rr = subprocess.run([os.path.join(EXTRACT, "cond_check"), tr], stdout=subprocess.PIPE, text=True, timeout=600)
            for line in rr.stdout.splitlines():
                p = line.split()
                traces += 1
                if p[0] == "OK":
                    events += int(p[2])
                    if p[4] == "true":
                        rejected.append((p[1], "assert-failed-state"))
                else:
                    rejected.append((p[1], int(p[2])))
        if os.path.exists(tr):
            os.unlink(tr)
    try:
        os.rmdir(d)
    except OSError:
        pass
    # real processes: the same objects pickled to loky children
    res = runner.run_script(REAL, vlib.REPO, timeout=180)
    got = runner.last_json(res)
    real_ok = (got is not None and got["counter"] == got["expected"] and all(c == 0 for c in got["exitcodes"])
               and got["over_release"] == "refused" and got["event_set"] is True)
    if not real_ok:
        rp = vlib.write_replay(ctx, "real", {"kind": "primitives shared with loky child processes misbehave", "got": got,
                                             "stderr": res["stderr"][-1200:], "timed_out": res["timed_out"]})
        ctx.violations.append(("cross-process lock/semaphore/event/condition scenario failed", rp, False))
    ed = event_differential(ctx, 150 if ctx.tier == "quick" else 2500)
    if ed["failed"]:
        rp = vlib.write_replay(ctx, "event", {"kind": "the real Event and coq/Model/Event.v disagree on a history", "failed": ed["failed"][:5]})
        ctx.violations.append((f"Event: model and implementation differ on {len(ed['failed'])} of {ed['histories']} histories: "
                               + str(ed["failed"][0].get("why") or ("event %s: model %s, implementation %s" % (
                                   ed["failed"][0]["first_difference_at_event"], ed["failed"][0]["model_says"], ed["failed"][0]["implementation_did"])))[:160],
                               rp, False))
    elif not ed["ok"] and pr["ok"]:
        rp = vlib.write_replay(ctx, "event", {"kind": "Event differential did not run", "detail": ed.get("error")})
        ctx.violations.append(("Event model/implementation correspondence did not run: " + str(ed.get("error"))[:120], rp, True))
    for kid, (kf, cnt) in sorted(known.items()):
        ctx.known.append(f"{kf['id']} {kf['title']} ({cnt} of {total} schedules)")
    for i, (sig, (r, cnt)) in enumerate(sorted(new.items(), key=lambda kv: -kv[1][1])):
        rp = vlib.write_replay(ctx, f"sim{i}", {"kind": sig, "occurrences": cnt, "plan": r["plan"], "seed": r["seed"],
                                                "choices": r.get("choices"),
                                                "how_to_replay": "corr/sim/cond_sim.py <seed> 1 out.json"})
        ctx.violations.append((sig[:200], rp, False))
    if harness:
        rp = vlib.write_replay(ctx, "harness", {"kind": "harness failure", "detail": harness[:5]})
        ctx.violations.append(("simulation harness failed: " + str(harness[0])[:120], rp, True))
    if not pr["ok"] and not ctx.violations:
        rp = vlib.write_replay(ctx, "broken", {"kind": "proof obligation / source tripwire no longer checks",
                                               "detail": pr.get("broken"),
                                               "searched": f"{total} simulated schedules of the real classes with the monitors: no failing input"})
        what = pr["broken"].get("lemma") or pr["broken"].get("kind")
        ctx.violations.append((f"{pr['broken']['kind']} ({what}) no longer checks", rp, True))
    if rejected and not any(not v[2] for v in ctx.violations):
        ctx.violations = [v for v in ctx.violations if not v[2]]
        rp = vlib.write_replay(ctx, "correspondence", {
            "kind": "a trace of the real Condition is not a behaviour of coq/Model/Cond.v (or drives it into AssertFailed)",
            "rejected": rejected[:10], "proof_status": pr.get("broken"),
            "how_to_replay": "corr/sim/cond_sim.py <seed> 1 out.json tr.txt && coq/extract/cond_check tr.txt"})
        ctx.violations.append((f"the real Condition leaves the proved model on {len(rejected)} of {traces} traces "
                               f"(first: {rejected[0][0]} at event {rejected[0][1]})", rp, False))
    elif pr["ok"] and not okb and not ctx.violations:
        rp = vlib.write_replay(ctx, "correspondence", {"kind": "trace validation against coq/Model/Cond.v failed",
                                                       "rejected": rejected[:10], "build": msg})
        ctx.violations.append((f"model/implementation correspondence broken on {len(rejected)} of {traces} traces (Model/Cond.v)", rp, True))
    ctx.coverage = {
        "obligations": pr.get("obligations", 0) or 1, "discharged": pr.get("obligations", 0) if pr["ok"] else 0,
        "checker_cmd": "cd /verif/coq && make Props/C14.vo + Print Assumptions; extraction of Model/CondCheck.validate",
        "trusted_base": vlib.TRUSTED_BASE + ["ExtrOcamlBasic extraction + coq/extract/cond_driver.ml"],
        "theorems": THEOREMS, "print_assumptions": pr.get("assumptions"),
        "generated_from": pr.get("gen", {}).get("Sync", {}).get("manifest"),
        "evaluations": total, "distinct_nontrivial": sum(v for k, v in kinds.items()),
        "rule": "plans of 2-5 threads x 1-3 operations (wait with/without time-out, notify, notify_all; Event set/clear/wait/"
                "is_set; Lock/RLock/Semaphore/BoundedSemaphore sections) on the real classes over simulated semaphores, one "
                "seeded schedule each (uniform or sticky), time-outs fired by the scheduler; every plan has >= 2 threads; "
                "distinct by seed",
        "plan_kinds": kinds, "traces_validated_against_impl": traces, "trace_events": events,
        "traces_rejected": len(rejected), "known_findings_seen": {k: v[1] for k, v in known.items()},
        "real_process_scenario": got,
        "event_differential": {k: ed.get(k) for k in ("ok", "histories", "events", "ops", "sample", "error")},
        "generated_event_bodies": pr.get("gen", {}).get("Event", {}).get("manifest"),
        "samples": [sample] if sample else [{"note": "none"}],
    }
    return vlib.finish(ctx, ASSUME)


def replay(ctx, path):
    r = json.load(open(path))
    env = dict(os.environ, VERIF_REPO=vlib.REPO, PYTHONHASHSEED="0", PYTHONPATH=vlib.REPO)
    out = tempfile.mktemp(suffix=".json")
    subprocess.run([vlib.PY, COND, str(r["seed"]), "1", out], env=env, start_new_session=True, timeout=120)
    res = json.load(open(out))["runs"][0]
    os.unlink(out)
    print(json.dumps(res["anomalies"], indent=1))
    return 1 if res["anomalies"] else 0
