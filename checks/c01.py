"""C01 — Coq theorems over coq/Model/Pool.v (lists regenerated from the source) + simulation of the real executor code with monitors."""
from checks import simcommon as S

FAMILIES = ['plain', 'kill', 'fatal', 'timeout', 'shutdown', 'killshutdown', 'resize', 'latekill', 'full', 'cancelfail', 'mix', 'cbreuse', 'cancelshutdown']
PER_FAMILY = (150, 4000)


PROOF = S.pool_proof('C01', ['C01_manager_never_leaves_a_future_unresolved', 'C01_nothing_is_accepted_afterwards', 'C01_every_future_is_accounted_for', 'C01_exits_never_join_a_live_worker', 'C01_no_wake_up_is_lost', 'C01_failing_the_table_never_kills_the_manager', 'C01_no_circular_wait', 'C01_lock_order_refuted_with_callbacks_on_a_reusable_executor', 'C01_no_deadlock_on_the_wakeup_pipe'],
                    'liveness itself (every future resolves in finite time) is not a theorem: the hangs of the real code that involve locks kept by dead processes (H2, H4, H5, H7) are outside the models and are searched for by the simulation; proved: the safety core and the absence of circular waits among live threads (lock order read off the source; H15 is the excluded edge)', extra_gen=['LockOrder', 'Detect'])


def wakeup_pipe_scenario(ctx):
    """the real executor with its manager thread kept busy by one slow done-callback while the wake-up pipe would fill up (16384
    submissions), then shutdown(): it must return (finding H18)"""
    import os, sys
    import vlib
    sys.path.insert(0, os.path.join(vlib.VERIF, "corr", "real"))
    import runner
    code = open(os.path.join(vlib.VERIF, "findings", "H18_real.py")).read()
    res = runner.run_script(code, vlib.REPO, timeout=240)
    got = None
    for line in reversed(res["stdout"].splitlines()):
        if line.startswith("{"):
            try:
                got = eval(line, {"__builtins__": {}}, {"True": True, "False": False, "None": None})
            except Exception:  # noqa
                got = None
            break
    return got, res


def run(ctx):
    import vlib
    got, res = wakeup_pipe_scenario(ctx)
    if got is None or not got.get("shutdown_returned"):
        rp = vlib.write_replay(ctx, "wakepipe", {"kind": "shutdown() wedged behind a full wake-up pipe (or the scenario did not complete)", "observed": got,
                                                 "history": "manager busy in one done-callback; 16384 submit(); shutdown(wait=False); the callback returns",
                                                 "stdout_tail": res["stdout"][-1500:], "how_to_replay": "PYTHONPATH=/repo /venv/bin/python findings/H18_real.py"})
        ctx.violations.append(("real executor: shutdown() still blocked 20 s after 16384 wake-ups piled up while the manager was busy: "
                               + str(got)[:120], rp, False))
    return S.sim_check(ctx, FAMILIES, FAMILIES, PER_FAMILY, S.SIM_ASSUME, proof=PROOF, extra_cov={"wakeup_pipe_scenario": got}, weights={'cancelshutdown': 3})


def replay(ctx, path):
    return S.replay(ctx, path)
