"""C01 — Coq theorems over coq/Model/Pool.v (lists regenerated from the source) + simulation of the real executor code with monitors."""
from checks import simcommon as S

FAMILIES = ['plain', 'kill', 'fatal', 'timeout', 'shutdown', 'killshutdown', 'resize', 'latekill', 'full', 'cancelfail', 'mix', 'cbreuse']
PER_FAMILY = (150, 4000)


PROOF = S.pool_proof('C01', ['C01_manager_never_leaves_a_future_unresolved', 'C01_nothing_is_accepted_afterwards', 'C01_every_future_is_accounted_for', 'C01_exits_never_join_a_live_worker', 'C01_no_wake_up_is_lost', 'C01_failing_the_table_never_kills_the_manager', 'C01_no_circular_wait', 'C01_lock_order_refuted_with_callbacks_on_a_reusable_executor'],
                    'liveness itself (every future resolves in finite time) is not a theorem: the hangs of the real code that involve locks kept by dead processes (H2, H4, H5, H7) are outside the models and are searched for by the simulation; proved: the safety core and the absence of circular waits among live threads (lock order read off the source; H15 is the excluded edge)', extra_gen=['LockOrder'])


def run(ctx):
    return S.sim_check(ctx, FAMILIES, FAMILIES, PER_FAMILY, S.SIM_ASSUME, proof=PROOF)


def replay(ctx, path):
    return S.replay(ctx, path)
