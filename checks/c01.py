"""C01 — simulation-based check (real executor code on the simulated kernel) + monitors."""
from checks import simcommon as S

FAMILIES = ['plain', 'kill', 'fatal', 'timeout', 'shutdown', 'killshutdown', 'resize', 'latekill', 'full']
PER_FAMILY = (150, 4000)


def run(ctx):
    return S.sim_check(ctx, FAMILIES, FAMILIES, PER_FAMILY, S.SIM_ASSUME)


def replay(ctx, path):
    return S.replay(ctx, path)
