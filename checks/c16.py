"""C16 — wrap_non_picklable_objects is behaviour-preserving."""
import json
import os
import pickle
import random
import sys

import vlib

PROP_FILE = "Props/C16.v"
THEOREMS = ["C16_callable_iff", "C16_class_instance_callable_iff", "C16_roundtrip", "C16_iterated",
            "C16_arrives_unwrapped", "C16_arrives_wrapped", "C16_getattr_forwarded"]
ASSUME = [
    "cloudpickle is an oracle: loads(dumps(o)) is behaviourally equal to o and as callable as o (Section hypotheses of the theorems)",
    "callable(instance) iff the instance's class defines __call__ (Python data model)",
    "implicit special-method calls (len(w), w + 1, ...) are outside the model: only explicit attribute reads and calls are forwarded",
]


# ---- object zoo (module level so that some of it is picklable by reference and some is not)
def make_zoo():
    k = 7

    def closure(x):
        return x + k

    def outer():
        def nested(x):
            return x * 2
        return nested

    def fact(n):
        return 1 if n <= 1 else n * fact(n - 1)

    def defaults(x, y=2):
        return x + y
    closure._tagged = ("k", 7)          # attribute reads are forwarded whatever the name looks like

    class Adder:
        def __init__(self, a, b=1):
            self.a, self.b = a, b
            self._step = a + 10

        def __call__(self, x):
            return x + self.a + self.b

        def info(self):
            return ("adder", self.a, self.b)

    class Plain:
        tag = "plain"

        def __init__(self, a, b=2):
            self.a, self.b = a, b

        def total(self):
            return self.a + self.b
    class CallMixin:
        def __call__(self, x):
            return ("mixin", x, self.a)

    class Inherits(Adder):            # __call__ comes from the base class
        pass

    class Mixed(Plain, CallMixin):    # ... or from a mixin further down the MRO
        pass

    class Slotted:
        __slots__ = ("a", "b")

        def __init__(self, a, b=2):
            self.a, self.b = a, b
    return {
        "cls_inherits_call": (Inherits, None, None),
        "cls_mixin_call": (Mixed, None, None),
        "cls_slotted": (Slotted, None, None),
        "inherits_instance": (Inherits(1, b=2), [(10,)], ["a", "b"]),
        "lambda": (lambda x: x + 1, [(3,)], ["__name__"]),
        "closure": (closure, [(3,)], ["__name__", "__qualname__", "_tagged", "_missing"]),
        "nested": (outer(), [(4,)], ["__qualname__"]),
        "recursive": (fact, [(5,)], []),
        "defaults": (defaults, [(1,), (1, 5)], ["__defaults__", "__name__"]),
        "callable_instance": (Adder(2, b=3), [(10,)], ["a", "b", "_step"]),
        "plain_instance": (Plain(4), [], ["a", "b", "tag"]),
        "builtin": (len, [([1, 2, 3],)], []),
        "cls_callable": (Adder, None, None),
        "cls_plain": (Plain, None, None),
    }


def shape(v, W, C):
    out = []
    while isinstance(v, W):
        out.append((isinstance(v, C), bool(v._keep_wrapper)))
        v = v._obj
    return out, v


def behaviour(v, calls, attrs):
    out = []
    for a in calls:
        try:
            out.append(("call", a, v(*a)))
        except Exception as e:  # noqa
            out.append(("call", a, type(e).__name__))
    for n in attrs:
        try:
            out.append(("attr", n, getattr(v, n)))
        except Exception as e:  # noqa
            out.append(("attr", n, type(e).__name__))
    return out


def explore(ctx, n):
    if sys.path[0] != vlib.REPO:
        sys.path.insert(0, vlib.REPO)
    import loky.cloudpickle_wrapper as cw
    W, C = cw.CloudpickledObjectWrapper, cw.CallableObjectWrapper
    zoo = make_zoo()
    rng = random.Random(ctx.seed + 16)
    cases, fails = [], []
    names = [k for k in zoo if not k.startswith("cls_")]
    for i in range(n):
        name = rng.choice(list(zoo))
        obj, calls, attrs = zoo[name]
        keeps = [rng.random() < 0.5 for _ in range(rng.choice([1, 1, 1, 2, 3]))]
        trips = rng.choice([1, 1, 2, 3])
        try:
            if name.startswith("cls_"):
                keep = keeps[0]
                Wc = cw.wrap_non_picklable_objects(obj, keep_wrapper=keep)
                inst = Wc(5, b=6)
                ref = obj(5, b=6)
                calls, attrs = ([(1,)] if callable(ref) else []), ["a", "b"]
                v = inst
                layers = [(callable(ref), keep)]
                if callable(v) != callable(ref):
                    fails.append((name, keeps, trips, f"callable(instance of wrapped class)={callable(v)} but callable(instance)={callable(ref)}"))
                if Wc.__name__ != obj.__name__:
                    fails.append((name, keeps, trips, "wrapped class lost its __name__"))
            else:
                ref = obj
                v = obj
                layers = []
                for kflag in keeps:
                    v = cw.wrap_non_picklable_objects(v, keep_wrapper=kflag)
                    layers.append((callable(ref), kflag))
                if callable(v) != callable(ref):
                    fails.append((name, keeps, trips, f"callable(wrapper)={callable(v)} but callable(obj)={callable(ref)}"))
            before = behaviour(v, calls, attrs)
            if before != behaviour(ref, calls, attrs):
                fails.append((name, keeps, trips, f"wrapper behaves differently before pickling: {before}"))
            import cloudpickle
            for _ in range(trips):
                # a wrapper must survive PLAIN pickle; once it has arrived unwrapped the bare object only
                # travels with cloudpickle (that is the oracle of the model)
                v = pickle.loads(pickle.dumps(v)) if isinstance(v, W) else cloudpickle.loads(cloudpickle.dumps(v))
            real_shape, core = shape(v, W, C)
            after = behaviour(v, calls, attrs)
            if after != behaviour(ref, calls, attrs):
                fails.append((name, keeps, trips, f"behaviour changed by the round trip: {after}"))
            if callable(v) != callable(ref):
                fails.append((name, keeps, trips, "callable-ness changed by the round trip"))
            # property oracle for the shape: keep=True layers survive (outermost first), keep=False layers vanish
            exp_shape = [(callable(ref), True) for (_, kf) in reversed(layers) if kf]
            if real_shape != exp_shape:
                fails.append((name, keeps, trips, f"arrived as {real_shape}, expected {exp_shape}"))
            cases.append((callable(ref), layers, trips, real_shape, name))
        except Exception as e:  # noqa
            fails.append((name, keeps, trips, f"{type(e).__name__}: {e}"))
    return cases, fails


def resend(ctx):
    """the SAME wrapper object sent several times while the state its function carries changes in between (closure cell, function
    attribute, defaults): every send must arrive behaving like the wrapped function behaves at that moment"""
    if sys.path[0] != vlib.REPO:
        sys.path.insert(0, vlib.REPO)
    import loky.cloudpickle_wrapper as cw
    fails, n = [], 0

    def counter():
        c = [0]
        def f(x=1):
            c[0] += x
            return c[0]
        return f

    def with_attr():
        def g():
            return g.level
        g.level = 1
        return g

    def with_default():
        def h(a, b="x"):
            return f"{a}-{b}"
        return h
    for keep in (False, True):
        for name, make, poke, call in (
                ("closure cell", counter, lambda f: f(3), lambda f: f(0)),
                ("function attribute", with_attr, lambda f: setattr(f, "level", f.level + 4), lambda f: f()),
                ("defaults", with_default, lambda f: setattr(f, "__defaults__", ("y",)), lambda f: f("a"))):
            fn = make()
            w = cw.wrap_non_picklable_objects(fn, keep_wrapper=keep)
            for send in range(3):
                n += 1
                got = call(pickle.loads(pickle.dumps(w)))
                want = call(fn)
                if name == "closure cell":
                    want = call(fn)          # call(fn) with 0 does not change the count
                if got != want:
                    fails.append((f"function with a {name}", [keep], send + 1,
                                  f"send #{send + 1} of the same wrapper arrived behaving as {got!r}, the wrapped function gives {want!r}"))
                poke(fn)
    return n, fails


def model_compare(cases):
    rows = []
    for c, layers, trips, real_shape, _ in cases:
        v = f"(Obj {'true' if c else 'false'})"
        for (cl, kf) in layers:
            v = f"(gen_wrap bool cv {v} {'true' if kf else 'false'})"
        exp = "[" + "; ".join(f"({'true' if a else 'false'}, {'true' if b else 'false'})" for a, b in real_shape) + "]"
        rows.append(f"(({v}, {trips}), {exp})")
    txt = ("From Coq Require Import List Bool Arith.\nFrom LokyV Require Import Lib.PyLib Lib.WrapLib Gen.Wrapper Proofs.WrapperThm.\n"
           "Import ListNotations.\nDefinition cv := callable_v bool (fun b => b).\n"
           "Fixpoint shape (v : pyv bool) : list (bool * bool) := match v with Obj _ => [] | Wrap c i k => (c, k) :: shape i end.\n"
           "Definition run (x : pyv bool * nat) := shape (rtn bool (fun b => b) (fun b => b) (snd x) (fst x)).\n"
           "Definition peqb (a b : bool * bool) := Bool.eqb (fst a) (fst b) && Bool.eqb (snd a) (snd b).\n"
           f"Definition cases : list ((pyv bool * nat) * list (bool * bool)) := [{'; '.join(rows)}].\n"
           "Eval vm_compute in (mismatches_from (list_eqb peqb) run cases 0).\n")
    ok, out = vlib.coq_eval(f"c16_cases_{os.getpid()}", txt)
    if not ok:
        return None, out[-600:]
    body = out.split("=", 1)[1].split(":")[0] if "=" in out else ""
    return [int(x) for x in body.replace("[", " ").replace("]", " ").replace(";", " ").split() if x.isdigit()], None


def run(ctx):
    n = 400 if ctx.tier == "quick" else 10000
    pr = vlib.prove(ctx, PROP_FILE, ["Wrapper"])
    cases, fails = explore(ctx, n)
    n_resend, rfails = resend(ctx)
    fails = fails + rfails
    disagreements = 0
    if fails:
        name, keeps, trips, why = fails[0]
        rp = vlib.write_replay(ctx, "property", {"kind": "wrapped object misbehaves", "object": name, "keep_wrapper_layers": keeps,
                                                 "round_trips": trips, "why": why, "count": len(fails),
                                                 "how_to_replay": "./check C16 --replay <this file>"})
        ctx.violations.append((f"{len(fails)} zoo cases violate the wrapper contract: {why[:120]}", rp, False))
    if pr["ok"]:
        bad, err = model_compare(cases[:1500])
        if bad is None or bad:
            disagreements = len(bad or [1])
            rp = vlib.write_replay(ctx, "correspondence", {"kind": "generated model and real wrapper disagree on the arrival shape",
                                                           "cases": [cases[i][1:] for i in (bad or [])[:5]], "error": err})
            if not fails:
                ctx.violations.append(("model/implementation correspondence broken", rp, True))
    elif not fails:
        rp = vlib.write_replay(ctx, "broken", {"kind": "proof obligation / translation no longer checks", "detail": pr.get("broken"),
                                               "searched": f"{n} zoo cases: no failing input"})
        what = pr["broken"].get("lemma") or pr["broken"].get("kind")
        ctx.violations.append((f"{pr['broken']['kind']} ({what}) no longer checks", rp, True))
    kinds = {}
    for c in cases:
        kinds[c[4]] = kinds.get(c[4], 0) + 1
    ctx.coverage = {
        "obligations": pr.get("obligations", 0) or 1, "discharged": pr.get("obligations", 0) if pr["ok"] else 0,
        "checker_cmd": "cd /verif/coq && make Props/C16.vo + Print Assumptions",
        "trusted_base": vlib.TRUSTED_BASE, "theorems": THEOREMS, "print_assumptions": pr.get("assumptions"),
        "generated_from": pr.get("gen", {}).get("Wrapper", {}).get("manifest"),
        "evaluations": n, "distinct_nontrivial": len({(c[4], tuple(c[1]), c[2]) for c in cases}),
        "rule": "zoo object (lambda, closure, nested, recursive function, callable / plain instance, builtin, wrapped class with "
                "args+kwargs) x 1-3 stacked wrappers with random keep_wrapper x 1-3 plain-pickle round trips; compared: callable-ness, "
                "call results, attribute reads, and the wrapper layers that arrive; distinct by (object, layers, trips)",
        "zoo_distribution": kinds, "disagreements_model_vs_impl": disagreements, "property_oracle_failures": len(fails),
        "traces_validated_against_impl": len(cases) if pr["ok"] else 0,
        "samples": [{"object": cases[0][4], "layers": cases[0][1], "round_trips": cases[0][2], "arrived_as": cases[0][3]}] if cases else [],
    }
    return vlib.finish(ctx, ASSUME)


def replay(ctx, path):
    r = json.load(open(path))
    print(r)
    cases, fails = explore(ctx, 400)
    for f in fails[:5]:
        print("FAIL", f)
    return 1 if fails else 0
