"""Real-process parts of C06 (forced shutdown of whole trees, with and without psutil) and C02 (abrupt death of a worker)."""
import os
import signal
import sys
from concurrent.futures import ThreadPoolExecutor

import vlib

sys.path.insert(0, os.path.join(vlib.VERIF, "corr", "real"))
import runner  # noqa: E402
import kill_scen  # noqa: E402


def forced(ctx):
    plans = [(1, 1, 0), (0, 1, 0), (1, 0, 1)] if ctx.tier == "quick" else [(p, n, g) for p in (1, 0) for n in (1, 0) for g in (0, 1)]

    def one(p):
        res = runner.run_script(kill_scen.SCRIPT, vlib.REPO, timeout=240, args=("forced",) + p)
        return p, runner.last_json(res), res
    bad, seen = [], []
    with ThreadPoolExecutor(max_workers=4) as ex:
        for p, got, res in ex.map(one, plans):
            why = []
            if got is None:
                why.append("no result: " + res["stderr"][-300:])
            else:
                if got.get("hung"):
                    why.append(f"shutdown(kill_workers=True) had not returned after 25 s; futures {got['outcomes']}; still alive {got['alive_after']}")
                elif got["took_s"] > 5:
                    why.append(f"shutdown(kill_workers=True) took {got['took_s']} s while the tasks sleep for 600 s")
                if got["alive_after"]:
                    why.append(f"processes of the tree survive the forced shutdown: {got['alive_after']} of {got['pids']}")
                if got["zombies"]:
                    why.append(f"unreaped children: {got['zombies']}")
                if not got.get("hung") and any(o[0] != "ShutdownExecutorError" and o[0] != "value" for o in got["outcomes"]):
                    why.append(f"unfinished futures did not fail with ShutdownExecutorError: {got['outcomes']}")
                if bool(got["psutil"]) != bool(p[0]):
                    why.append("psutil switch did not take effect")
            seen.append({"psutil": p[0], "nested": p[1], "after_graceful": p[2], "ok": not why, "took_s": got and got["took_s"]})
            if why:
                bad.append({"plan": {"psutil": p[0], "nested": p[1], "after_graceful_shutdown": p[2]}, "why": why, "observed": got})
    if bad:
        rp = vlib.write_replay(ctx, "realkill", {"kind": "forced shutdown of a real process tree deviates", "cases": bad})
        ctx.violations.append((f"real forced shutdown: {bad[0]['why'][0][:160]}", rp, False))
    return {"real_forced_shutdowns": seen}


def churn(ctx):
    """forced shutdown while the workers' process trees keep changing (children exiting between the listing and their kill)"""
    trials = 6 if ctx.tier == "quick" else 25
    seen, bad = [], []
    for use_psutil in (1, 0) if ctx.tier == "thorough" else (1,):
        res = runner.run_script(kill_scen.SCRIPT, vlib.REPO, timeout=60 + 40 * trials, args=("churn", trials, use_psutil))
        got = runner.last_json(res)
        why = []
        if got is None:
            why.append("no result: " + res["stderr"][-300:])
        else:
            if got["hung"]:
                why.append(f"shutdown(kill_workers=True) had not returned after 10 s in {got['hung']} of {got['trials']} trials with workers "
                           "that keep starting short-lived children")
            if got["workers_alive_after"]:
                why.append(f"workers survive the forced shutdown: {got['workers_alive_after']}")
        seen.append({"psutil": use_psutil, "trials": trials, "ok": not why, "observed": got})
        if why:
            bad.append({"plan": {"psutil": use_psutil, "trials": trials, "workers": "fork short-lived children in a loop"}, "why": why, "observed": got})
    if bad:
        rp = vlib.write_replay(ctx, "churn", {"kind": "forced shutdown of workers with changing process trees deviates", "cases": bad})
        ctx.violations.append((f"real forced shutdown (changing trees): {bad[0]['why'][0][:160]}", rp, False))
    return {"real_forced_shutdowns_changing_trees": seen}


def churn_deaths(ctx):
    """a pool that breaks while another worker's process tree keeps changing: all workers killed and reaped"""
    trials = 8 if ctx.tier == "quick" else 25
    res = runner.run_script(kill_scen.SCRIPT, vlib.REPO, timeout=120 + 60 * trials, args=("churn_death", trials))
    got = runner.last_json(res)
    why = []
    if got is None:
        why.append("no result: " + res["stderr"][-300:])
    else:
        if got["workers_alive_after"]:
            why.append(f"workers survive a broken pool (their process trees were changing while they were killed): {got['workers_alive_after']}")
        if got["unresolved"]:
            why.append(f"{got['unresolved']} futures of a broken pool did not fail with TerminatedWorkerError")
        if got["slow_or_hung"]:
            why.append(f"terminating the broken pool took more than 15 s / shutdown did not return in {got['slow_or_hung']} of {got['trials']} trials")
    if why:
        rp = vlib.write_replay(ctx, "churndeath", {"kind": "broken pool with changing process trees deviates", "why": why, "observed": got,
                                                   "plan": {"trials": trials, "workers": "one forks short-lived children in a loop, the other SIGKILLs itself"}})
        ctx.violations.append((f"real broken pool (changing trees): {why[0][:160]}", rp, False))
    return {"real_broken_pools_changing_trees": {"trials": trials, "ok": not why, "observed": got}}


def deaths(ctx):
    plans = [("signal", 9, 2), ("exit", 3, 0), ("signal", 11, 1), ("signal", 15, 0)]
    if ctx.tier == "thorough":
        plans += [("exit", 255, 1), ("exit", 0, 1), ("signal", 6, 2), ("signal", 1, 0), ("exit", 1, 3)]

    def one(p):
        res = runner.run_script(kill_scen.SCRIPT, vlib.REPO, timeout=240, args=("death",) + p)
        return p, runner.last_json(res), res
    bad, seen = [], []
    with ThreadPoolExecutor(max_workers=4) as ex:
        for p, got, res in ex.map(one, plans):
            why = []
            if got is None:
                why.append("no result: " + res["stderr"][-300:])
            else:
                how, v, _ = p
                want = (f"{signal.Signals(v).name}(-{v})" if how == "signal" else
                        ("UNKNOWN(255)" if v == 255 else f"EXIT({v})"))
                for r in got["results"]:
                    if r[0] != "TerminatedWorkerError":
                        why.append(f"a future unresolved at the death ended as {r[0]} instead of TerminatedWorkerError")
                        break
                if got["results"] and got["results"][0][0] == "TerminatedWorkerError" and want not in got["results"][0][1]:
                    why.append(f"the error does not name the exit code {want}: ...{got['results'][0][1][-160:]}")
                if got["later_submit"] != "TerminatedWorkerError":
                    why.append(f"a later submit() gave {got['later_submit']}")
                if got["earlier_result"] != 41:
                    why.append("a future resolved before the death lost its value")
                if got["alive_after"] or got["zombies"]:
                    why.append(f"workers not killed and reaped: alive {got['alive_after']} zombies {got['zombies']}")
            seen.append({"death": list(p), "ok": not why})
            if why:
                bad.append({"plan": list(p), "why": why, "observed": got})
    if bad:
        rp = vlib.write_replay(ctx, "realdeath", {"kind": "abrupt death of a real worker: the pool does not fail as stated", "cases": bad})
        ctx.violations.append((f"real worker death: {bad[0]['why'][0][:160]}", rp, False))
    return {"real_worker_deaths": seen}


def forkstorm(ctx):
    """forced shutdown of workers that fork long-lived children WHILE their tree is swept.  Model/KillTree.v: every process that exists when
    the call is made is killed (C06_*_kill_reaches_the_whole_tree); one forked during the sweep escapes (C06_fork_during_the_sweep_escapes_refuted:
    known finding H21)."""
    from checks import simcommon
    plans = [(0, 1, 0.02)] if ctx.tier == "quick" else [(0, 2, 0.02), (1, 3, 0.02), (1, 2, 0.002)]
    seen = []
    for use_psutil, trials, delay in plans:
        res = runner.run_script(kill_scen.SCRIPT, vlib.REPO, timeout=120 + 60 * trials, args=("forkstorm", trials, use_psutil, delay))
        got = runner.last_json(res)
        why = []
        if got is None:
            why.append("no result: " + res["stderr"][-300:])
        else:
            for t in got["trials"]:
                if t["hung"]:
                    why.append("shutdown(kill_workers=True) had not returned after 30 s with workers that keep forking children")
                if t["workers_alive_after"]:
                    why.append(f"workers survive the forced shutdown: {t['workers_alive_after']}")
                if t["old_survivors"]:
                    why.append(f"{t['old_survivors']} of {t['children_at_the_call']} children that existed when shutdown(kill_workers=True) was called survive it")
        esc = sum(t["survivors_forked_during_the_sweep"] for t in got["trials"]) if got else 0
        seen.append({"psutil": use_psutil, "trials": trials, "fork_every_s": delay, "ok": not why, "escaped_forked_during_the_sweep": esc, "observed": got})
        if why:
            rp = vlib.write_replay(ctx, "forkstorm", {"kind": "forced shutdown of workers that keep forking deviates from Model/KillTree.v", "why": why,
                                                      "plan": {"psutil": use_psutil, "trials": trials, "fork_every_s": delay}, "observed": got})
            ctx.violations.append((f"real forced shutdown (forking workers): {why[0][:160]}", rp, False))
        elif esc:
            sig = f"descendants-forked-during-the-sweep-survive psutil[{use_psutil}]"
            kf = simcommon.match_known("C06", sig)
            if kf is not None:
                if not any(k.startswith(kf["id"] + " ") for k in ctx.known):
                    ctx.known.append(f"{kf['id']} {kf['title']} ({esc} escaped in {trials} forced shutdowns, psutil={use_psutil})")
            else:
                rp = vlib.write_replay(ctx, "forkstorm", {"kind": "descendants forked during the sweep survive", "signature": sig, "observed": got})
                ctx.violations.append((sig, rp, False))
    return {"real_forced_shutdowns_forking_workers": seen}


def globaljoin(ctx):
    """shutdown(kill_workers=True) of one executor while another thread is inside shutdown(wait=True) of ANOTHER executor whose task is still
    running.  Model/GlobalJoin.v: the effect is immediate (C06_forced_effect_is_prompt_beside_another_shutdown), the call itself returns only when
    the other executor's task has ended (C06_forced_call_waits_for_the_other_executors_task: known finding H22)."""
    from checks import simcommon
    seen = []
    for task_s in ([3.0] if ctx.tier == "quick" else [3.0, 6.0]):
        res = runner.run_script(kill_scen.SCRIPT, vlib.REPO, timeout=120, args=("globaljoin", task_s))
        got = runner.last_json(res)
        why = []
        if got is None:
            why.append("no result: " + res["stderr"][-300:])
        else:
            if got["future_failed_after_s"] is None or got["future_failed_after_s"] > 1.5 or got["workers_dead_after_s"] is None or got["workers_dead_after_s"] > 1.5:
                why.append(f"forced shutdown beside another executor's graceful shutdown: future failed after {got['future_failed_after_s']} s, "
                           f"workers dead after {got['workers_dead_after_s']} s (the task would run 600 s)")
            if got["future_outcome"] != "ShutdownExecutorError":
                why.append(f"the unfinished future ended as {got['future_outcome']}")
            if got["call_returned_after_s"] is None:
                why.append("shutdown(kill_workers=True) had not returned after 30 s")
            if got["other_result"] != task_s:
                why.append(f"the other executor's task did not deliver its result: {got['other_result']}")
        seen.append({"other_task_s": task_s, "ok": not why, "observed": got})
        if why:
            rp = vlib.write_replay(ctx, "globaljoin", {"kind": "forced shutdown beside another executor's graceful shutdown deviates from Model/GlobalJoin.v",
                                                       "why": why, "observed": got})
            ctx.violations.append((f"real forced shutdown (two executors): {why[0][:170]}", rp, False))
        elif got["call_returned_after_s"] > 1.5:
            sig = "forced-call-waits-for-another-executors-graceful-shutdown effect[prompt]"
            kf = simcommon.match_known("C06", sig)
            if kf is not None:
                if not any(k.startswith(kf["id"] + " ") for k in ctx.known):
                    ctx.known.append(f"{kf['id']} {kf['title']} (the call returned after {got['call_returned_after_s']} s; the other executor's task: {task_s} s)")
            else:
                rp = vlib.write_replay(ctx, "globaljoin", {"kind": "the forced call waits for another executor's tasks", "signature": sig, "observed": got})
                ctx.violations.append((sig, rp, False))
    return {"real_forced_shutdown_beside_another_shutdown": seen}


def forced_idle(ctx):
    """a forced shutdown that arrives when every future has finished: idle workers and what their finished tasks left behind (subprocesses)
    must still be killed, promptly -- directly and through get_reusable_executor(kill_workers=True), with and without psutil"""
    plans = [(1, 0), (0, 1)] if ctx.tier == "quick" else [(1, 0), (0, 0), (1, 1), (0, 1)]
    seen, bad = [], []
    for p in plans:
        res = runner.run_script(kill_scen.SCRIPT, vlib.REPO, timeout=180, args=("forced_idle",) + p)
        got = runner.last_json(res)
        why = []
        if got is None:
            why.append("no result: " + res["stderr"][-300:])
        else:
            if got["hung"]:
                why.append(f"the forced shutdown of an idle pool had not returned after 25 s; still alive {got['alive_after']}")
            elif got["took_s"] > 5:
                why.append(f"the forced shutdown of an idle pool took {got['took_s']} s")
            if got["alive_after"]:
                why.append(f"after a forced shutdown of an idle pool, workers / subprocesses left by finished tasks are alive: {got['alive_after']} of {got['pids']}")
            if got["zombies"]:
                why.append(f"unreaped children: {got['zombies']}")
        seen.append({"psutil": p[0], "reusable": p[1], "ok": not why, "took_s": got and got["took_s"]})
        if why:
            bad.append({"plan": {"psutil": p[0], "through_get_reusable_executor": p[1], "history": "three tasks each start a subprocess and return; all results fetched; then the forced shutdown"},
                        "why": why, "observed": got})
    if bad:
        rp = vlib.write_replay(ctx, "forcedidle", {"kind": "forced shutdown of an idle pool deviates", "cases": bad})
        ctx.violations.append((f"real forced shutdown (idle pool): {bad[0]['why'][0][:170]}", rp, False))
    return {"real_forced_shutdowns_idle_pool": seen}
