"""C12 — one resource tracker serves the whole process tree and is self-healing."""
import json
import os
import sys
import tempfile

import vlib

sys.path.insert(0, os.path.join(vlib.VERIF, "corr", "real"))
import runner  # noqa: E402
import tree_scen  # noqa: E402

PROP_FILE = "Props/C12.v"
THEOREMS = ["C12_single_tracker", "C12_signals", "C12_boot_keeps_alive", "C12_sweep_after_last", "C12_heals", "C12_structure"]
ASSUME = [
    "a process holds the tracker pipe's write end iff it is alive and was given the handle (inheritance through fork_exec's keep list: C18)",
    "signal delivery inside CPython's start-up is abstracted to three tracker states (masked / handlers installed / running)",
    "the registry content of a killed tracker is lost (the code warns about it); the property does not ask otherwise",
]


def run_tree(mode, method, maxd, killorder="leaffirst", env=None, timeout=150):
    d = tempfile.mkdtemp(prefix="lokyv_c12_")
    rootp = os.path.join(d, "root.py")
    open(rootp, "w").write(tree_scen.ROOT)
    res = runner.run_script(tree_scen.CONTROLLER, vlib.REPO, env=env, timeout=timeout, args=(rootp, mode, method, maxd, killorder))
    import shutil
    shutil.rmtree(d, ignore_errors=True)
    return runner.last_json(res), res


def judge(mode, maxd, got):
    if got is None:
        return ["no result"]
    bad = []
    if mode == "heal":
        r = got["members"].get("root")
        if not r:
            return ["root did not report"]
        if r["error"] or r["error2"]:
            bad.append(f"tracked operation after the tracker's death raised: {r['error'] or r['error2']}")
        if r["new"] == r["old"] or not r["new_alive"]:
            bad.append("no new live tracker after the kill")
        if not r["warned"]:
            bad.append("no 'died unexpectedly' warning")
        if r["third"] in (r["old"], r["new"]):
            bad.append("second tracker death not healed")
        return bad
    ms = {k: v for k, v in got["members"].items() if not k.endswith("_after_gc")}
    if len(ms) != maxd + 1:
        bad.append(f"only {len(ms)} of {maxd + 1} members reported")
    if len(got.get("tracker_pids", [])) != 1:
        bad.append(f"members report to different trackers: {got.get('tracker_pids')}")
    if len(got.get("tracker_processes_in_tree", [0])) != 1:
        bad.append(f"{len(got['tracker_processes_in_tree'])} tracker processes serve one tree (a member started a private one): "
                   f"{got['tracker_processes_in_tree']}")
    if mode == "signals" and not got.get("tracker_alive_after_signals"):
        bad.append("tracker died of SIGINT/SIGTERM")
    if mode == "sigkill":
        if not all(got.get("tracker_alive_between_kills", [True])):
            bad.append("tracker exited before the last member was gone")
        if not all(got.get("files_exist_between_kills", [True])):
            bad.append("a registered resource was destroyed while a member was still alive")
    if not got.get("tracker_exited"):
        bad.append("tracker still alive 20 s after the tree ended")
    if got.get("files_left"):
        bad.append(f"registered files not destroyed after the tree ended: {got['files_left']}")
    return bad


def judge_threads(got):
    if got is None:
        return ["concurrent-threads scenario did not complete"]
    bad = []
    for r in got["rounds"]:
        what = "first start-up" if r["round"] == 0 else "tracker SIGKILLed"
        if r["launched"] != 1:
            bad.append(f"round {r['round']} ({what}): {r['launched']} trackers were started by concurrent tracked operations instead of exactly 1")
        if r["errors"]:
            bad.append(f"round {r['round']} ({what}): a tracked operation failed: {r['errors'][0]}")
        if r["missing"]:
            bad.append(f"round {r['round']} ({what}): files registered by this living process were destroyed: {r['missing']}")
        if r["alive"] != 1 or not r["current_alive"]:
            bad.append(f"round {r['round']} ({what}): {r['alive']} trackers alive afterwards (current alive: {r['current_alive']})")
    return bad


INTERRUPTED = r'''
import json, os, signal, sys, tempfile, threading, time
import loky.backend.resource_tracker as rt
# a SIGINT reaches the launching process while its tracker is being spawned: the signal is blocked during the spawn and surfaces as
# KeyboardInterrupt when it is unblocked.  The program survives it; the NEXT tracked operation must work, with a live tracker
real = rt.spawnv_passfds
fired = {}
def spawn_and_signal(*a, **k):
    pid = real(*a, **k)
    if not fired:
        fired["pid"] = pid
        signal.pthread_kill(threading.main_thread().ident, signal.SIGINT)
    return pid
rt.spawnv_passfds = spawn_and_signal
out = {}
try:
    rt.ensure_running()
    out["interrupt"] = "not raised"
except KeyboardInterrupt:
    out["interrupt"] = "KeyboardInterrupt"
rt.spawnv_passfds = real
fd, path = tempfile.mkstemp(); os.close(fd)
try:
    rt.register(path, "file"); rt.unregister(path, "file")
    out["next_op"] = "ok"
except BaseException as e:
    out["next_op"] = repr(e)
os.unlink(path)
t = rt._resource_tracker
out["tracker_pid"] = t._pid
out["tracker_alive"] = bool(t._pid) and os.path.isdir(f"/proc/{t._pid}")
print(json.dumps(out))
'''


BADREQUEST = r'''
import json, os, subprocess, sys
# a request the tracker cannot serve (a second UNREGISTER of the same name) must not end it -- also when the process that started it
# runs with warnings turned into errors, which the tracker inherits: the tree keeps its single tracker and nothing is swept early
code = """
import json, os, tempfile, time
import loky.backend.resource_tracker as rt
fd, path = tempfile.mkstemp(); os.close(fd)
rt.register(path, 'file')
pid = rt._resource_tracker._pid
fd2, other = tempfile.mkstemp(); os.close(fd2)
rt.register(other, 'file'); rt.unregister(other, 'file'); rt.unregister(other, 'file')
time.sleep(1.0)
alive = os.path.isdir('/proc/%d' % pid) and open('/proc/%d/stat' % pid).read().split()[2] != 'Z'
print(json.dumps({'tracker_alive': alive, 'registered_file_exists': os.path.exists(path)}), flush=True)
try:
    rt.unregister(path, 'file')
except BaseException:
    pass
for p in (path, other):
    try:
        os.unlink(p)
    except OSError:
        pass
"""
out = {}
for label, flags in (("default", []), ("warnings_as_errors", ["-W", "error::UserWarning"])):
    r = subprocess.run([sys.executable] + flags + ["-c", code], stdout=subprocess.PIPE, stderr=subprocess.DEVNULL, text=True, timeout=60)
    lines = [l for l in r.stdout.splitlines() if l.startswith("{")]
    out[label] = json.loads(lines[-1]) if lines else None
print(json.dumps(out))
'''


def run(ctx):
    pr = vlib.prove(ctx, PROP_FILE, ["Lifecycle", "Tracker"])
    plans = [("normal", "loky", 2, "x"), ("signals", "loky", 1, "x"), ("sigkill", "loky", 2, "leaffirst"),
             ("sigkill", "loky_init_main", 1, "rootfirst"), ("heal", "loky", 0, "x")]
    if ctx.tier == "thorough":
        plans += [("normal", "loky_init_main", 3, "x"), ("sigkill", "loky", 3, "rootfirst"), ("exception", "loky", 2, "x"),
                  ("os_exit", "loky", 2, "x"), ("signals", "loky_init_main", 2, "x"), ("sigkill", "loky", 1, "leaffirst"),
                  ("heal", "loky", 0, "x"), ("normal", "loky", 0, "x")]
    from concurrent.futures import ThreadPoolExecutor
    results, fails = [], []
    with ThreadPoolExecutor(max_workers=5) as ex:
        for plan, (got, res) in zip(plans, ex.map(lambda p: run_tree(*p), plans)):
            bad = judge(plan[0], plan[2], got)
            results.append({"plan": plan, "ok": not bad, "tracker_exit_delay_s": got and got.get("tracker_exit_delay_s")})
            if bad:
                fails.append((plan, bad, got, res["stderr"][-800:]))
    rounds = 25 if ctx.tier == "quick" else 120
    sres = runner.run_script(tree_scen.STORM, vlib.REPO, timeout=200, args=(rounds,))
    storm = runner.last_json(sres)
    if storm is None or storm["died_of_signals"] or storm["distinct_trackers"] < rounds:
        fails.append((("storm", rounds), ["a tracker died of SIGINT/SIGTERM sent while it was starting" if storm and storm["died_of_signals"]
                                          else "signal storm scenario did not complete"], storm, sres["stderr"][-800:]))
    trounds, tthreads = (6, 4) if ctx.tier == "quick" else (25, 6)
    tres = runner.run_script(tree_scen.THREADS, vlib.REPO, timeout=300, args=(trounds, tthreads))
    threads = runner.last_json(tres)
    tbad = judge_threads(threads)
    if tbad:
        fails.append((("threads", trounds, tthreads), tbad, threads, tres["stderr"][-800:]))
    for _attempt in range(6):          # the scenario must really have hit the window (the interrupt surfaced out of ensure_running)
        ires = runner.run_script(INTERRUPTED, vlib.REPO, timeout=120, spare_trackers=True)
        igot = runner.last_json(ires)
        if igot is None or igot.get("interrupt") == "KeyboardInterrupt":
            break
    if igot is None:
        fails.append((("interrupted",), ["interrupted-launch scenario did not complete"], None, ires["stderr"][-800:]))
    elif igot["next_op"] != "ok" or not igot["tracker_alive"]:
        fails.append((("interrupted",), [f"SIGINT during the spawn of the tracker ({igot['interrupt']}), then a tracked operation: {igot['next_op']}; "
                                         f"tracker alive afterwards: {igot['tracker_alive']}"], igot, ires["stderr"][-800:]))
    bres = runner.run_script(BADREQUEST, vlib.REPO, timeout=180, spare_trackers=True)
    bgot = runner.last_json(bres)
    if bgot is None:
        fails.append((("badrequest",), ["bad-request scenario did not complete"], None, bres["stderr"][-800:]))
    else:
        for label, rec in bgot.items():
            if rec is None or not rec["tracker_alive"] or not rec["registered_file_exists"]:
                fails.append((("badrequest", label), [f"a request the tracker cannot serve (second UNREGISTER), interpreter flags {label}: {rec} "
                                                      "(the tracker must survive and sweep nothing while its tree is alive)"], rec, bres["stderr"][-800:]))
    if fails:
        plan, bad, got, err = fails[0]
        rp = vlib.write_replay(ctx, "real", {"kind": "tracker behaviour in a real process tree deviates", "plan": plan, "why": bad,
                                             "observed": got, "stderr": err})
        ctx.violations.append((f"{len(fails)} of {len(plans)} tree scenarios deviate: {bad[0][:140]}", rp, False))
    if not pr["ok"] and not ctx.violations:
        rp = vlib.write_replay(ctx, "broken", {"kind": "proof obligation / extracted facts no longer check", "detail": pr.get("broken"),
                                               "searched": f"{len(plans)} real tree scenarios: no failing input"})
        what = pr["broken"].get("lemma") or pr["broken"].get("kind")
        ctx.violations.append((f"{pr['broken']['kind']} ({what}) no longer checks", rp, True))
    ctx.coverage = {
        "obligations": pr.get("obligations", 0) or 1, "discharged": pr.get("obligations", 0) if pr["ok"] else 0,
        "checker_cmd": "cd /verif/coq && make Props/C12.vo + Print Assumptions",
        "trusted_base": vlib.TRUSTED_BASE, "theorems": THEOREMS, "print_assumptions": pr.get("assumptions"),
        "generated_from": {k: v.get("manifest") for k, v in pr.get("gen", {}).items()},
        "evaluations": len(plans), "distinct_nontrivial": len(set(plans)),
        "rule": "each evaluation = one real process tree (depth 0..3, loky / loky_init_main) whose members report the tracker pid "
                "they talk to, create named semaphores and register a file, then: normal exit / uncaught exception / os._exit / "
                "SIGKILL of every member in leaf-first or root-first order / SIGINT+SIGTERM sent to the tracker / tracker killed "
                "twice followed by tracked operations; observed: tracker identity and liveness, existence of the registered "
                "resources before and after each death, the relaunch warning",
        "signal_storm": storm, "concurrent_threads": {"rounds": trounds, "threads": tthreads, "ok": not tbad},
        "traces_validated_against_impl": len(plans) + 2, "samples": results[:3],
    }
    return vlib.finish(ctx, ASSUME)


def replay(ctx, path):
    r = json.load(open(path))
    if r["plan"][0] == "storm":
        storm = runner.last_json(runner.run_script(tree_scen.STORM, vlib.REPO, timeout=200, args=(r["plan"][1],)))
        print(storm)
        return 1 if (storm is None or storm["died_of_signals"]) else 0
    if r["plan"][0] == "interrupted":
        got = runner.last_json(runner.run_script(INTERRUPTED, vlib.REPO, timeout=120, spare_trackers=True))
        print(got)
        return 1 if (got is None or got["next_op"] != "ok" or not got["tracker_alive"]) else 0
    if r["plan"][0] == "threads":
        got = runner.last_json(runner.run_script(tree_scen.THREADS, vlib.REPO, timeout=300, args=(r["plan"][1], r["plan"][2])))
        bad = judge_threads(got)
        print(bad or "ok")
        return 1 if bad else 0
    got, res = run_tree(*r["plan"])
    bad = judge(r["plan"][0], r["plan"][2], got)
    print(bad or "ok")
    return 1 if bad else 0
