"""C18 — every worker is a fresh, initialised interpreter with only intended inheritance."""
import json
import os
import random
import sys

import vlib

sys.path.insert(0, os.path.join(vlib.VERIF, "corr", "real"))
import runner  # noqa: E402

PROP_FILE = "Props/C18.v"
THEOREMS = ["C18_fds", "C18_keep_list", "C18_env", "C18_status_exit", "C18_status_signal", "C18_structure",
            "C18_prepared_initializer_runs_each_once_in_order", "C18_initializer_structure"]
ASSUME = [
    "_posixsubprocess.fork_exec(close_fds=True, pass_fds=K) leaves exactly stdio and K open in the child (oracle; exercised by the real runs)",
    "'newly exec'ed interpreter' is an OS fact; import-time ordering inside CPython is not modelled",
    "a descriptor counts as inherited iff it names the same pipe inode / file as a parent descriptor",
]

SCEN = r'''
import json, os, signal, sys, tempfile, time
MARK = os.environ.get("C18_MAIN_COUNTER")
if MARK:
    with open(MARK, "a") as f:
        f.write("x")          # side effect of running the parent's script top level

from loky import ProcessPoolExecutor, get_reusable_executor
from loky.backend import get_context

def fd_table():
    out = {}
    for n in os.listdir("/proc/self/fd"):
        try:
            out[int(n)] = os.readlink(f"/proc/self/fd/{n}")
        except OSError:
            pass
    return out

def init(tag):
    import builtins
    builtins.C18_INIT = tag

def probe(keys):
    import builtins
    return {"fds": fd_table(), "env": {k: os.environ.get(k) for k in keys}, "pid": os.getpid(),
            "init": getattr(builtins, "C18_INIT", None), "main_name": sys.modules["__main__"].__name__,
            "main_has_marker": hasattr(sys.modules["__main__"], "SCENARIO_MARKER")}

def die(how, v):
    if how == "exit":
        os._exit(v)
    # an ignored disposition (e.g. SIGINT / SIGQUIT of a shell's background job) survives exec: ask for the default action
    try:
        signal.signal(v, signal.SIG_DFL)
    except (OSError, ValueError):
        pass
    os.kill(os.getpid(), v)
    time.sleep(30)

SCENARIO_MARKER = 1

if __name__ == "__main__":
    plan = json.loads(sys.argv[1])
    extra = []
    tmp = tempfile.mkdtemp()
    for i, (kind, inh, high) in enumerate(plan["fds"]):
        if kind == "pipe":
            r, w = os.pipe()
            fds = [r, w]
        else:
            fds = [os.open(os.path.join(tmp, f"f{i}"), os.O_CREAT | os.O_RDWR)]
        for fd in fds:
            if high:
                nfd = os.dup2(fd, 100 + 7 * len(extra), inheritable=inh) if False else None
                nfd = 100 + 7 * len(extra)
                os.dup2(fd, nfd, inheritable=inh)
                os.close(fd)
                fd = nfd
            else:
                os.set_inheritable(fd, inh)
            extra.append(fd)
    parent_tab = fd_table()
    extra_targets = sorted({parent_tab[fd] for fd in extra})
    env = plan["env"]
    keys = sorted(set(env) | {"PATH", "C18_PARENT_ONLY"})
    os.environ["C18_PARENT_ONLY"] = "parent"
    out = {"extra_targets": extra_targets}
    e = ProcessPoolExecutor(2, timeout=plan.get("timeout"), env=env, initializer=init, initargs=("tagged",))
    r1 = [e.submit(probe, keys).result(60) for _ in range(3)]
    if plan.get("timeout"):
        time.sleep(plan["timeout"] * 6)           # idle time-out: workers leave, next submit re-spawns
        r1 += [e.submit(probe, keys).result(60) for _ in range(2)]
    e.shutdown()
    out["workers"] = r1
    out["parent_env"] = {k: os.environ.get(k) for k in keys}
    # resize brings new workers into a pool with an initializer
    r = get_reusable_executor(max_workers=1, initializer=init, initargs=("reuse",), timeout=20)
    a = r.submit(probe, keys).result(60)
    r = get_reusable_executor(max_workers=3, initializer=init, initargs=("reuse",), timeout=20)
    bs = [f.result(60) for f in [r.submit(probe, keys) for _ in range(9)]]
    out["resize_inits"] = sorted({x["init"] for x in [a] + bs})
    out["resize_pids"] = len({x["pid"] for x in [a] + bs})
    r.shutdown()
    # exit statuses and signals
    ctx = get_context("loky")
    st = []
    for how, v in plan["deaths"]:
        p = ctx.Process(target=die, args=(how, v))
        p.start()
        p.join(30)
        from multiprocessing.connection import wait
        code, _alive = p.exitcode, p.is_alive()            # the status has been collected ...
        extra = [os.pipe() for _ in range(3)]              # ... the parent goes on opening descriptors (pipes, another worker) ...
        q = ctx.Process(target=time.sleep, args=(20,))
        q.start()
        st.append([how, v, code, bool(wait([p.sentinel], 0.5))])   # ... and the dead worker's sentinel must still say "dead"
        q.terminate()
        q.join(10)
        for r_, w_ in extra:
            os.close(r_)
            os.close(w_)
    out["deaths"] = st
    # a failing initializer breaks the pool instead of yielding an uninitialised worker
    def bad_init():
        raise RuntimeError("no")
    e = ProcessPoolExecutor(1, initializer=bad_init)
    try:
        e.submit(probe, keys).result(60)
        out["bad_init"] = "task ran"
    except Exception as ex:
        out["bad_init"] = type(ex).__name__
    e.shutdown()
    if MARK:
        out["main_runs"] = len(open(MARK).read())
    print(json.dumps(out))
'''


def gen_plan(rng):
    fds = [(rng.choice(["pipe", "file"]), rng.random() < 0.5, rng.random() < 0.3) for _ in range(rng.randint(1, 6))]
    env = {}
    for _ in range(rng.randint(0, 3)):
        env[rng.choice(["C18_NEW", "PATH", "C18_EMPTY", "C18_PARENT_ONLY", "LANG"])] = rng.choice(["", "v1", "/x:/y", "0"])
    if rng.random() < 0.6:
        env["C18_COUNT"] = rng.choice([4, 0, 12])           # a value that is not a string (a thread count): it reaches the worker as str(value)
    deaths = [("exit", rng.choice([0, 1, 2, 3, 77, 255])), ("exit", rng.randrange(256)),
              ("signal", rng.choice([9, 15, 11, 6])), ("signal", rng.choice([1, 3, 10, 12, 14]))]
    return {"fds": fds, "env": env, "deaths": deaths, "timeout": rng.choice([None, 0.3])}


def check_one(plan, got, res):
    if got is None:
        return ["scenario produced no result: " + res["stderr"][-400:]]
    bad = []
    stdio_ok = lambda t: True  # noqa: E731
    for w in got["workers"]:
        targets = set(w["fds"].values())
        leaked = [t for t in got["extra_targets"] if t in targets]
        if leaked:
            bad.append(f"worker {w['pid']} inherited parent descriptors {leaked}")
        for k in got["parent_env"]:
            want = str(plan["env"][k]) if k in plan["env"] else got["parent_env"][k]
            if w["env"].get(k) != want:
                bad.append(f"worker env {k}={w['env'].get(k)!r}, expected {want!r}")
        if w["init"] != "tagged":
            bad.append(f"worker {w['pid']} ran a task without the initializer (init={w['init']})")
        if w["main_has_marker"] or w["main_name"] != "__main__" and False:
            bad.append("the parent's __main__ was re-executed in the worker")
    if got.get("main_runs") != 1:
        bad.append(f"parent script top level ran {got.get('main_runs')} times")
    if got["resize_inits"] != ["reuse"]:
        bad.append(f"workers added by resize: initializer markers {got['resize_inits']}")
    for how, v, code, ready in got["deaths"]:
        want = v if how == "exit" else -v
        if code != want or not ready:
            bad.append(f"{how} {v}: exitcode {code}, sentinel ready {ready}")
    if got["bad_init"] not in ("BrokenProcessPool", "TerminatedWorkerError"):
        bad.append(f"failing initializer: {got['bad_init']}")
    return bad


def init_differential(ctx, n):
    """the real _chain_initializers / _ChainedInitializer on random lists of (initializer or None, args): the calls made when the result is
    invoked the way a worker does it, against the specification of C18_prepared_initializer_runs_each_once_in_order"""
    import random, sys
    if sys.path[0] != vlib.REPO:
        sys.path.insert(0, vlib.REPO)
    import loky.initializers as LI
    rng = random.Random(ctx.seed + 81)
    bad = []
    for _ in range(n):
        k = rng.choice([0, 1, 1, 2, 2, 3, 5])
        log = []
        spec = []
        items = []
        for j in range(k):
            args = tuple(rng.randrange(100) for _ in range(rng.choice([0, 1, 2])))
            if rng.random() < 0.3:
                items.append((None, args))
            else:
                items.append(((lambda *a, j=j: log.append((j, a))), args))
                spec.append((j, args))
        try:
            init, initargs = LI._chain_initializers(items)
            if init is not None:
                init(*initargs)
            elif initargs != ():
                log.append(("initargs-without-initializer", initargs))
        except BaseException as e:  # noqa
            log.append(("raised", repr(e)[:80]))
        if log != spec:
            bad.append({"pairs": [("None" if f is None else f"init{j}", a) for j, (f, a) in enumerate(items)], "calls_made": log, "calls_wanted": spec})
    return {"cases": n, "deviations": bad[:5], "n_deviations": len(bad)}


def run(ctx):
    pr = vlib.prove(ctx, PROP_FILE, ["Spawn", "Init"])
    n = 4 if ctx.tier == "quick" else 40
    rng = random.Random(ctx.seed + 18)
    results, fails = [], []
    import tempfile
    from concurrent.futures import ThreadPoolExecutor
    plans = [gen_plan(rng) for _ in range(n)]

    def one(plan):
        mark = tempfile.mktemp(prefix="c18_main_")
        res = runner.run_script(SCEN, vlib.REPO, env={"C18_MAIN_COUNTER": mark}, timeout=300, args=(json.dumps(plan),))
        try:
            os.unlink(mark)
        except OSError:
            pass
        got = runner.last_json(res)
        return plan, got, check_one(plan, got, res)
    with ThreadPoolExecutor(max_workers=4) as ex:
        for plan, got, bad in ex.map(one, plans):
            results.append((plan, got))
            if bad:
                fails.append((plan, bad, got))
    idf = init_differential(ctx, 300 if ctx.tier == "quick" else 5000)
    if idf["n_deviations"]:
        rp = vlib.write_replay(ctx, "initializers", {"kind": "the combined initializer does not run each initializer once, in order, with its own arguments", "detail": idf})
        ctx.violations.append((f"initializer chain: {idf['n_deviations']} of {idf['cases']} lists deviate: {str(idf['deviations'][0])[:160]}", rp, False))
    if fails:
        plan, bad, got = fails[0]
        rp = vlib.write_replay(ctx, "real", {"kind": "worker inheritance / initialisation / status deviates", "plan": plan,
                                             "why": bad[:6], "observed": got})
        ctx.violations.append((f"{len(fails)} of {n} spawn scenarios deviate: {bad[0][:140]}", rp, False))
    # generated model vs the observed world: the model's child-fd set on the observed parent table
    if not pr["ok"] and not ctx.violations:
        rp = vlib.write_replay(ctx, "broken", {"kind": "proof obligation / translation no longer checks", "detail": pr.get("broken"),
                                               "searched": f"{n} real spawn scenarios: no failing input"})
        what = pr["broken"].get("lemma") or pr["broken"].get("kind")
        ctx.violations.append((f"{pr['broken']['kind']} ({what}) no longer checks", rp, True))
    nw = sum(len(g["workers"]) for _, g in results if g)
    ctx.coverage = {
        "obligations": pr.get("obligations", 0) or 1, "discharged": pr.get("obligations", 0) if pr["ok"] else 0,
        "checker_cmd": "cd /verif/coq && make Props/C18.vo + Print Assumptions",
        "trusted_base": vlib.TRUSTED_BASE, "theorems": THEOREMS, "print_assumptions": pr.get("assumptions"),
        "generated_from": pr.get("gen", {}).get("Spawn", {}).get("manifest"),
        "evaluations": n, "distinct_nontrivial": len({json.dumps(p, sort_keys=True) for p, _ in results}),
        "rule": "each evaluation = one real parent process opening 1-6 extra pipes/files (inheritable or not, low or >=100), an env "
                "overlay of 0-3 keys (new, overriding, empty), a pool with an initializer (optionally with idle time-out and "
                "re-spawn), a resize 1->3, 4 deaths (exit codes, signals) and a failing initializer; workers report /proc/self/fd "
                "targets, environment, initializer marker, __main__; every plan is distinct and non-trivial",
        "workers_observed": nw, "traces_validated_against_impl": n,
        "samples": [{"plan": results[0][0], "deaths": results[0][1] and results[0][1].get("deaths")}],
    }
    return vlib.finish(ctx, ASSUME)


def replay(ctx, path):
    r = json.load(open(path))
    import tempfile
    mark = tempfile.mktemp(prefix="c18_main_")
    res = runner.run_script(SCEN, vlib.REPO, env={"C18_MAIN_COUNTER": mark}, timeout=300, args=(json.dumps(r["plan"]),))
    got = runner.last_json(res)
    bad = check_one(r["plan"], got, res)
    print(bad)
    return 1 if bad else 0
