"""Trace validation of the real executor (on the simulated kernel) against coq/Model/TokenFlow.v,
through the extracted OCaml validator, cross-checked by vm_compute inside Coq on a sample."""
import json
import os
import re
import subprocess
import tempfile
from concurrent.futures import ThreadPoolExecutor

import vlib

EXTRACT = os.path.join(vlib.COQ, "extract")
TFB = os.path.join(vlib.VERIF, "corr", "sim", "tf_batch.py")


def build_validator():
    """(re)extract and compile; returns (ok, message)"""
    with vlib.BuildLock():
        r = subprocess.run(["timeout", "300", "coqc", "-R", "..", "LokyV", "Extract.v"], cwd=EXTRACT,
                           stdout=subprocess.PIPE, stderr=subprocess.STDOUT, text=True)
        if r.returncode != 0:
            return False, r.stdout[-800:]
        r = subprocess.run(["ocamlfind", "ocamlopt", "tokenflow.mli", "tokenflow.ml", "tf_driver.ml", "-o", "tf_check"],
                           cwd=EXTRACT, stdout=subprocess.PIPE, stderr=subprocess.STDOUT, text=True)
        if r.returncode != 0:
            return False, r.stdout[-800:]
    return True, ""


def coq_trace_literal(lines, cap):
    """Coq term for one trace (for the in-Coq cross-check)"""
    def nats(s):
        return "[" + "; ".join(x for x in s.split(",") if x) + "]"
    fmap = {"p": "FPending", "r": "FRunning", "c": "FCancelled", "v": "FDone Val", "x": "FDone TaskExc",
            "e": "FDone SendErr", "b": "FDone Broken", "h": "FDone ShutErr"}

    def items(s):
        return "[" + "; ".join("ISent" if x == "s" else f"ICall {x[1:]}" for x in s.split(",") if x) + "]"

    def rm(s):
        return "[" + "; ".join("ROther" if x == "o" else f"RRes {x[1:]}" for x in s.split(",") if x) + "]"
    evs = []
    for ln in lines:
        a, f, p, w, r, b, c, q, s, e = [x.strip() for x in ln.split("|")]
        act = {"U": f"AUser {a[1:]}", "M": "AMgr", "F": "AFdr", "W": f"AWrk {a[1:]}"}[a[0]]
        futs = "[" + "; ".join(f"({x.split(':')[0]}, {fmap[x.split(':')[1]]})" for x in f.split(",") if x) + "]"
        evs.append(f"({act}, mkobs {futs} {nats(p)} {nats(w)} {nats(r)} {items(b)} {items(c)} {rm(q)} {s} {nats(e)})")
    return "[" + ";\n ".join(evs) + "]"


def validate(ctx, families, per_family):
    """returns dict(ok, traces, events, failed=[(id, idx)], cross=..., error=...)"""
    ok, msg = build_validator()
    if not ok:
        return {"ok": False, "error": "validator build failed: " + msg, "traces": 0, "events": 0, "failed": []}
    d = tempfile.mkdtemp(prefix="lokyv_tf_")
    jobs = [(fam, ctx.seed * 100000 + k * 50, min(50, per_family - k * 50))
            for fam in families for k in range((per_family + 49) // 50)]

    def one(job):
        fam, s0, n = job
        out = os.path.join(d, f"{fam}_{s0}.txt")
        env = dict(os.environ, VERIF_REPO=vlib.REPO, PYTHONHASHSEED="0", PYTHONPATH=vlib.REPO)
        p = subprocess.Popen([vlib.PY, TFB, fam, str(s0), str(n), out], stdout=subprocess.DEVNULL,
                             stderr=subprocess.PIPE, stdin=subprocess.DEVNULL, env=env, start_new_session=True)
        try:
            _, err = p.communicate(timeout=1200)
        except subprocess.TimeoutExpired:
            p.kill()
            return out, "timeout"
        return out, None if os.path.exists(out + ".idx") else err.decode(errors="replace")[-600:]
    with ThreadPoolExecutor(max_workers=14) as ex:
        outs = list(ex.map(one, jobs))
    res = {"ok": True, "traces": 0, "events": 0, "failed": [], "harness": [], "sample": None, "cross": None}
    small = None
    for out, err in outs:
        if err:
            res["harness"].append(err)
            continue
        idx = {e["id"]: e for e in json.load(open(out + ".idx"))}
        r = subprocess.run([os.path.join(EXTRACT, "tf_check"), out], stdout=subprocess.PIPE, stderr=subprocess.STDOUT,
                           text=True, timeout=600)
        for line in r.stdout.splitlines():
            parts = line.split()
            if parts[0] == "OK":
                res["traces"] += 1
                res["events"] += int(parts[2])
            elif parts[0] == "FAIL":
                res["traces"] += 1
                res["failed"].append((parts[1], int(parts[2]), idx.get(parts[1], {}).get("plan"),
                                      idx.get(parts[1], {}).get("seed")))
            else:
                res["harness"].append(line[:300])
        # pick a short trace for the in-Coq cross-check and a sample for the evidence
        txt = open(out).read().split("END\n")
        for blk in txt:
            lines = [l for l in blk.strip().splitlines()]
            if not lines or not lines[0].startswith("TRACE"):
                continue
            n = len(lines) - 1
            if 25 <= n <= 70 and (small is None or n < small[2]):
                small = (lines[0].split()[1], int(lines[0].split()[2]), n, lines[1:])
        os.unlink(out)
        os.unlink(out + ".idx")
    try:
        os.rmdir(d)
    except OSError:
        pass
    if small is not None:
        tid, cap, n, lines = small
        res["sample"] = {"trace": tid, "events": n, "first_events": lines[:6]}
        lit = coq_trace_literal(lines, cap)
        txt = ("From Coq Require Import List Arith Bool.\nFrom LokyV Require Import Model.TokenFlow Model.TokenFlowCheck.\n"
               "Import ListNotations.\n"
               f"Definition tr : list (actor * obs) :=\n {lit}.\n"
               f"Eval vm_compute in (fst (validate [init {cap}] tr 0)).\n")
        ok2, out2 = vlib.coq_eval(f"tf_cross_{os.getpid()}", txt, timeout=600)
        coq_says = "None" in out2.split("=")[-1] if ok2 else None
        ocaml_says = not any(f[0] == tid for f in res["failed"])
        res["cross"] = {"trace": tid, "coq_vm_compute_accepts": coq_says, "ocaml_accepts": ocaml_says}
        if not ok2 or coq_says != ocaml_says:
            res["ok"] = False
            res["error"] = f"extracted validator and vm_compute disagree on trace {tid}: {out2[-300:]}"
    if res["harness"]:
        res["ok"] = False
        res["error"] = "trace harness failure: " + res["harness"][0][:300]
    return res
