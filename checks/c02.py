"""C02 — Coq theorems over coq/Model/Pool.v (lists regenerated from the source) + simulation of the real executor code with monitors."""
from checks import simcommon as S

FAMILIES = ['kill', 'fatal', 'latekill', 'resize']
PER_FAMILY = (300, 6000)


PROOF = S.pool_proof('C02', ['C02_loud_before_any_broken_future', 'C02_broken_pool_refuses', 'C02_death_fails_everything_loudly', 'C02_manager_gone_means_all_settled', 'C02_unguarded_resize_refuted', 'C02_structure', 'C02_worker_never_leaves_silently'],
                    "detection itself (the sentinel of a dead worker becomes ready) is the OS's; the identity of the failed futures is Model/TokenFlow.v's; exit codes in the message are not modelled", extra_gen=['Worker'])


def run(ctx):
    from checks import realkill
    extra = realkill.deaths(ctx)
    return S.sim_check(ctx, FAMILIES, FAMILIES, PER_FAMILY, S.SIM_ASSUME, proof=PROOF, extra_cov=extra)


def replay(ctx, path):
    return S.replay(ctx, path)
