"""C02 — Coq theorems over coq/Model/Pool.v (lists regenerated from the source) + simulation of the real executor code with monitors."""
from checks import simcommon as S

FAMILIES = ['kill', 'fatal', 'latekill', 'resize', 'idlefatal', 'cancelfail']
PER_FAMILY = (300, 6000)


PROOF = S.pool_proof('C02', ['C02_loud_before_any_broken_future', 'C02_broken_pool_refuses', 'C02_death_fails_everything_loudly', 'C02_manager_gone_means_all_settled', 'C02_unguarded_resize_refuted', 'C02_structure', 'C02_worker_never_leaves_silently', 'C02_error_names_every_exit_code', 'C02_exit_code_names', 'C02_exit_codes_structure', 'C02_every_registered_worker_is_watched', 'C02_failing_the_table_never_kills_the_manager'],
                    "detection itself (the sentinel of a dead worker becomes ready) is the OS's; the identity of the failed futures is Model/TokenFlow.v's; signal names are the OS's table (a parameter of the theorems)", extra_gen=['Worker', 'Exit', 'Resize'])


def exit_differential(ctx, n):
    """random lists of exit codes: the real _format_exitcodes vs the generated program evaluated in Coq (signal names: this OS's table)"""
    import os, random, signal, sys
    import vlib
    if sys.path[0] != vlib.REPO:
        sys.path.insert(0, vlib.REPO)
    import loky.backend.utils as U
    rng = random.Random(ctx.seed + 2)
    pool = [None, 0, 1, 2, 3, 127, 254, 255, 256, -1, -2, -6, -9, -11, -15, -31, -34, -64, -65, -77, -128, -1000]
    cases = [[rng.choice(pool) if rng.random() < 0.7 else rng.randint(-300, 400) for _ in range(rng.randint(0, 6))] for _ in range(n)]
    real = [U._format_exitcodes(c) for c in cases]
    names = sorted({(int(sg), sg.name) for sg in signal.Signals})
    # the property itself, with no model in between
    table = dict(names)
    def want(c):
        return "{" + ", ".join((table.get(-e, "UNKNOWN") if e < 0 else ("UNKNOWN" if e == 255 else "EXIT")) + f"({e})" for e in c if e is not None) + "}"
    spec_bad = [{"codes": c, "implementation": r, "property_says": want(c)} for c, r in zip(cases, real) if r != want(c)]
    def z(v):
        return f"({v})%Z"
    sig = "fun n => " + "".join(f"if (n =? {k})%Z then Some \"{nm}\" else " for k, nm in names) + "None"
    rows = ";\n  ".join("([" + "; ".join("None" if v is None else f"Some {z(v)}" for v in c) + f"], \"{r}\")" for c, r in zip(cases, real))
    txt = ("From Coq Require Import List String ZArith Bool.\nFrom LokyV Require Import Lib.PyLib Lib.ExitLib Gen.Exit Proofs.ExitThm.\n"
           "Import ListNotations.\nOpen Scope string_scope.\n"
           f"Definition sig : Z -> option string := {sig}.\n"
           f"Definition cases : list (list (option Z) * string) := [\n  {rows}].\n"
           "Eval vm_compute in (mismatches_from String.eqb (format_exitcodes sig) cases 0).\n")
    ok, out = vlib.coq_eval(f"c02_exit_{os.getpid()}", txt)
    body = out.split("=", 1)[1].split(":")[0] if ok and "=" in out else None
    idx = [int(x) for x in (body or "").replace("[", " ").replace("]", " ").replace(";", " ").split() if x.isdigit()]
    return {"ok": ok, "cases": n, "mismatches": [{"codes": cases[i], "implementation": real[i]} for i in idx[:5]], "n_mismatches": len(idx),
            "error": None if ok else out[-300:], "against_the_property": spec_bad[:5], "n_against_the_property": len(spec_bad), "sample": {"codes": cases[0], "message_part": real[0]}}


def run(ctx):
    from checks import realkill
    import vlib
    extra = realkill.deaths(ctx)
    extra.update(realkill.churn_deaths(ctx))
    ed = exit_differential(ctx, 300 if ctx.tier == "quick" else 3000)
    extra["exit_code_formatting_differential"] = ed
    if ed["n_against_the_property"]:
        rp = vlib.write_replay(ctx, "exitcodes", {"kind": "the error message does not name the exit codes as the property says", "detail": ed})
        ctx.violations.append((f"exit codes named wrongly on {ed['n_against_the_property']} of {ed['cases']} lists: "
                               + str(ed["against_the_property"][0])[:140], rp, False))
    elif ed["n_mismatches"] or not ed["ok"]:
        rp = vlib.write_replay(ctx, "exitcodes", {"kind": "the generated exit-code formatting and the real _format_exitcodes differ (or the comparison did not run)", "detail": ed})
        ctx.violations.append((f"exit-code formatting: model and implementation differ on {ed['n_mismatches']} of {ed['cases']} lists"
                               if ed["n_mismatches"] else "exit-code formatting comparison did not run: " + str(ed["error"])[:100], rp, not ed["n_mismatches"]))
    return S.sim_check(ctx, FAMILIES, FAMILIES, PER_FAMILY, S.SIM_ASSUME, proof=PROOF, extra_cov=extra)


def replay(ctx, path):
    return S.replay(ctx, path)
