"""C02 — Coq theorems over coq/Model/Pool.v (lists regenerated from the source) + simulation of the real executor code with monitors."""
from checks import simcommon as S

FAMILIES = ['kill', 'fatal', 'latekill', 'resize', 'idlefatal', 'cancelfail', 'busyfatal']
PER_FAMILY = (300, 6000)


PROOF = S.pool_proof('C02', ['C02_loud_before_any_broken_future', 'C02_broken_pool_refuses', 'C02_death_fails_everything_loudly', 'C02_manager_gone_means_all_settled', 'C02_unguarded_resize_refuted', 'C02_structure', 'C02_worker_never_leaves_silently', 'C02_error_names_every_exit_code', 'C02_exit_code_names', 'C02_exit_codes_structure', 'C02_every_registered_worker_is_watched', 'C02_failing_the_table_never_kills_the_manager', 'C02_round_decision', 'C02_death_is_outprioritised_only_by_messages', 'C02_wakeup_pipe_structure'],
                    "detection itself (the sentinel of a dead worker becomes ready) is the OS's; the identity of the failed futures is Model/TokenFlow.v's; signal names are the OS's table (a parameter of the theorems)", extra_gen=['Worker', 'Exit', 'Resize', 'Detect'])


def exit_differential(ctx, n):
    """random lists of exit codes: the real _format_exitcodes vs the generated program evaluated in Coq (signal names: this OS's table)"""
    import os, random, signal, sys
    import vlib
    if sys.path[0] != vlib.REPO:
        sys.path.insert(0, vlib.REPO)
    import loky.backend.utils as U
    rng = random.Random(ctx.seed + 2)
    pool = [None, 0, 1, 2, 3, 127, 254, 255, 256, -1, -2, -6, -9, -11, -15, -31, -34, -64, -65, -77, -128, -1000]
    cases = [[rng.choice(pool) if rng.random() < 0.7 else rng.randint(-300, 400) for _ in range(rng.randint(0, 6))] for _ in range(n)]
    def call(c):
        try:
            return U._format_exitcodes(c)
        except BaseException as e:  # noqa  (in the executor this call runs in the manager thread, while it builds the error: raising there kills it)
            return f"<raises {type(e).__name__}: {e}>"
    real = [call(c) for c in cases]
    names = sorted({(int(sg), sg.name) for sg in signal.Signals})
    # the property itself, with no model in between
    table = dict(names)
    def want(c):
        return "{" + ", ".join((table.get(-e, "UNKNOWN") if e < 0 else ("UNKNOWN" if e == 255 else "EXIT")) + f"({e})" for e in c if e is not None) + "}"
    spec_bad = [{"codes": c, "implementation": r, "property_says": want(c)} for c, r in zip(cases, real) if r != want(c)]
    def z(v):
        return f"({v})%Z"
    sig = "fun n => " + "".join(f"if (n =? {k})%Z then Some \"{nm}\" else " for k, nm in names) + "None"
    rows = ";\n  ".join("([" + "; ".join("None" if v is None else f"Some {z(v)}" for v in c) + f"], \"{r}\")" for c, r in zip(cases, real))
    txt = ("From Coq Require Import List String ZArith Bool.\nFrom LokyV Require Import Lib.PyLib Lib.ExitLib Gen.Exit Proofs.ExitThm.\n"
           "Import ListNotations.\nOpen Scope string_scope.\n"
           f"Definition sig : Z -> option string := {sig}.\n"
           f"Definition cases : list (list (option Z) * string) := [\n  {rows}].\n"
           "Eval vm_compute in (mismatches_from String.eqb (format_exitcodes sig) cases 0).\n")
    ok, out = vlib.coq_eval(f"c02_exit_{os.getpid()}", txt)
    body = out.split("=", 1)[1].split(":")[0] if ok and "=" in out else None
    idx = [int(x) for x in (body or "").replace("[", " ").replace("]", " ").replace(";", " ").split() if x.isdigit()]
    return {"ok": ok, "cases": n, "mismatches": [{"codes": cases[i], "implementation": real[i]} for i in idx[:5]], "n_mismatches": len(idx),
            "error": None if ok else out[-300:], "against_the_property": spec_bad[:5], "n_against_the_property": len(spec_bad), "sample": {"codes": cases[0], "message_part": real[0]}}


def round_differential(ctx):
    """one round of the REAL wait_result_broken_or_wakeup for each of the 12 behaviours of its environment (which pipes wait() reports
    ready, what recv() yields; a dead worker's sentinel always ready) against the generated program evaluated in Coq and against the
    decision table of C02_round_decision"""
    import os, sys, types
    import vlib
    if sys.path[0] != vlib.REPO:
        sys.path.insert(0, vlib.REPO)
    import loky.process_executor as pe

    class Reader:
        def __init__(self, out):
            self.out, self.recvs = out, 0

        def recv(self):
            self.recvs += 1
            if self.out == "RItem":
                return pe._ResultItem(7, result=1)
            if self.out == "RTraceback":
                return pe._RemoteTraceback("tb")
            raise EOFError("undecodable")

    class Wake:
        def __init__(self):
            self._reader, self.cleared = object(), 0

        def clear(self):
            self.cleared += 1

    class Proc:
        sentinel, exitcode, name = object(), -9, "LokyProcess-1"
    rows, real = [], []
    saved_wait, saved_codes = pe.wait, pe.get_exitcodes_terminated_worker
    try:
        for rr in (True, False):
            for wr in (True, False):
                for rc in ("RItem", "RTraceback", "RRaises"):
                    rd, wk, proc = Reader(rc), Wake(), Proc()
                    me = types.SimpleNamespace(result_queue=types.SimpleNamespace(_reader=rd), thread_wakeup=wk, processes={1: proc})
                    seen = {}

                    def fake_wait(objs, timeout=None, rd=rd, wk=wk, proc=proc, rr=rr, wr=wr, seen=seen):
                        seen["objs"], seen["timeout"] = list(objs), timeout
                        return ([rd] if rr else []) + ([wk._reader] if wr else []) + [proc.sentinel]
                    pe.wait = fake_wait
                    pe.get_exitcodes_terminated_worker = lambda procs: "{SIGKILL(-9)}"
                    try:
                        item, broken, bpe = pe._ExecutorManagerThread.wait_result_broken_or_wakeup(me)
                    except BaseException as e:  # noqa  (the method no longer runs on the stub: it reads state the generated program does not know)
                        pe.wait, pe.get_exitcodes_terminated_worker = saved_wait, saved_codes
                        return {"ok": False, "rounds": 0, "against_the_property": [], "against_the_model": None,
                                "error": f"wait_result_broken_or_wakeup cannot be run on the stub manager any more: {type(e).__name__}: {e}", "sample": None}
                    kind = None if bpe is None else ("BTerminatedWorker" if isinstance(bpe, pe.TerminatedWorkerError) else
                                                     "BTaskUnserialize" if "task has failed to un-serialize" in str(bpe) else
                                                     "BResultUnserialize" if "result has failed to un-serialize" in str(bpe) else "?")
                    ik = "INone" if item is None else "ITrace" if isinstance(item, pe._RemoteTraceback) else "IItem"
                    waits_on_all = set(map(id, seen["objs"])) == {id(rd), id(wk._reader), id(proc.sentinel)} and seen["timeout"] is None
                    real.append({"res_ready": rr, "wake_ready": wr, "recv": rc, "broken": bool(broken), "bpe": kind, "item": ik,
                                 "recvs": rd.recvs, "cleared": wk.cleared, "waits_on_all_without_timeout": waits_on_all})
                    rows.append((rr, wr, rc))
    finally:
        pe.wait, pe.get_exitcodes_terminated_worker = saved_wait, saved_codes
    # the property's own table
    def want(rr, wr, rc):
        if rr:
            return (rc != "RItem", {"RItem": None, "RTraceback": "BTaskUnserialize", "RRaises": "BResultUnserialize"}[rc],
                    {"RItem": "IItem", "RTraceback": "ITrace", "RRaises": "INone"}[rc], 1)
        return (not wr, None if wr else "BTerminatedWorker", "INone", 0)
    against_table = [r for r, k in zip(real, rows) if (r["broken"], r["bpe"], r["item"], r["recvs"]) != want(*k)
                     or r["cleared"] != 1 or not r["waits_on_all_without_timeout"]]
    # the generated program, evaluated inside Coq: code = broken*1000 + bpe*100 + item*10 + recvs
    b = lambda x: "true" if x else "false"  # noqa: E731
    txt = ("From Coq Require Import List Bool.\nFrom LokyV Require Import Lib.DetectLib Gen.Detect Model.Detect.\nImport ListNotations.\n"
           "Definition code (e : denv) : nat := let o := outcome e in\n"
           "  (match d_broken o with Some true => 1000 | _ => 0 end) + (match d_bpe o with Some (Some BTaskUnserialize) => 100 | Some (Some BResultUnserialize) => 200 "
           "| Some (Some BTerminatedWorker) => 300 | _ => 0 end) + (match d_item o with IItem => 10 | ITrace => 20 | _ => 0 end) + d_recvs o.\n"
           "Eval vm_compute in map code [" + "; ".join(f"mkdenv {b(rr)} {b(wr)} {rc}" for rr, wr, rc in rows) + "].\n")
    ok, out = vlib.coq_eval(f"c02_round_{os.getpid()}", txt)
    codes = [int(x) for x in (out.split("=", 1)[1].split(":")[0] if ok and "=" in out else "").replace("[", " ").replace("]", " ").replace(";", " ").split() if x.isdigit()]
    def code(r):
        return (1000 if r["broken"] else 0) + {None: 0, "BTaskUnserialize": 100, "BResultUnserialize": 200, "BTerminatedWorker": 300}.get(r["bpe"], 900) \
            + {"IItem": 10, "ITrace": 20, "INone": 0}[r["item"]] + r["recvs"]
    against_model = [dict(r, model_code=c) for r, c in zip(real, codes) if code(r) != c] if len(codes) == len(real) else None
    return {"ok": ok and against_model is not None, "rounds": len(real), "against_the_property": against_table, "against_the_model": against_model,
            "error": None if ok else out[-300:], "sample": real[0]}


def run(ctx):
    from checks import realkill
    import vlib
    extra = realkill.deaths(ctx)
    extra.update(realkill.churn_deaths(ctx))
    ed = exit_differential(ctx, 300 if ctx.tier == "quick" else 3000)
    extra["exit_code_formatting_differential"] = ed
    if ed["n_against_the_property"]:
        rp = vlib.write_replay(ctx, "exitcodes", {"kind": "the error message does not name the exit codes as the property says", "detail": ed})
        ctx.violations.append((f"exit codes named wrongly on {ed['n_against_the_property']} of {ed['cases']} lists: "
                               + str(ed["against_the_property"][0])[:140], rp, False))
    elif ed["n_mismatches"] or not ed["ok"]:
        rp = vlib.write_replay(ctx, "exitcodes", {"kind": "the generated exit-code formatting and the real _format_exitcodes differ (or the comparison did not run)", "detail": ed})
        ctx.violations.append((f"exit-code formatting: model and implementation differ on {ed['n_mismatches']} of {ed['cases']} lists"
                               if ed["n_mismatches"] else "exit-code formatting comparison did not run: " + str(ed["error"])[:100], rp, not ed["n_mismatches"]))
    rd = round_differential(ctx)
    extra["wait_decision_differential"] = rd
    if rd["against_the_property"]:
        rp = vlib.write_replay(ctx, "round", {"kind": "one round of the real wait_result_broken_or_wakeup decides otherwise than the property says", "detail": rd})
        ctx.violations.append((f"manager's wait decides wrongly in {len(rd['against_the_property'])} of {rd['rounds']} environments: "
                               + str(rd["against_the_property"][0])[:160], rp, False))
    elif not rd["ok"] or rd["against_the_model"]:
        rp = vlib.write_replay(ctx, "round", {"kind": "the generated wait program and the real wait_result_broken_or_wakeup differ (or the comparison did not run)", "detail": rd})
        ctx.violations.append(("wait decision: model and implementation differ" if rd["against_the_model"] else "wait decision comparison did not run: " + str(rd["error"])[:100],
                               rp, not rd["against_the_model"]))
    return S.sim_check(ctx, FAMILIES, FAMILIES, PER_FAMILY, S.SIM_ASSUME, proof=PROOF, extra_cov=extra, weights={'busyfatal': 4})


def replay(ctx, path):
    return S.replay(ctx, path)
