"""C05 — Coq theorems over coq/Model/Pool.v (lists regenerated from the source) + simulation of the real executor code with monitors."""
from checks import simcommon as S

FAMILIES = ['shutdown', 'latekill', 'cancelshutdown']
PER_FAMILY = (500, 10000)


PROOF = S.pool_proof('C05', ['C05_graceful_never_drops', 'C05_graceful_delivers_everything', 'C05_submit_after_shutdown_raises', 'C05_structure', 'C05_shutting_down_manager_is_never_stuck', 'C05_manager_leaves_an_empty_table', 'C05_worker_leaves_through_the_handshake', 'C05_interpreter_exit_order', 'C05_collected_executor_is_shut_down_gracefully', 'C05_sentinel_loop'],
                    'the sentinel hand-shake through a full call queue (more sentinels than slots) and the GC / interpreter-exit triggers are exercised by the simulation, not modelled beyond the flags', extra_gen=['Worker'])


def sentinel_loop_differential(ctx, n_cases):
    """the REAL shutdown_workers() on a scripted queue (full or not at each put_nowait) and scripted workers (how many alive at each
    test) against Model/SentinelLoop.v evaluated in Coq: sentinels posted, sleeps, normal end or queue.Full re-raised"""
    import os, queue, random, sys, types
    import vlib
    if sys.path[0] != vlib.REPO:
        sys.path.insert(0, vlib.REPO)
    import loky.process_executor as pe
    rng = random.Random(ctx.seed + 5)
    K = 47
    cases, bad = [], []
    saved_sleep = pe.sleep
    try:
        for _ in range(n_cases):
            n = rng.choice([0, 1, 2, 3, 5, 8])
            pfull = rng.choice([0.0, 0.1, 0.5, 0.9, 0.97, 1.0])
            palive0 = rng.choice([0.0, 0.05, 0.3])
            alive_stream = [0 if rng.random() < palive0 else rng.randint(1, max(1, n)) for _ in range(400)]
            put_stream = [rng.random() < pfull for _ in range(400)]          # True = queue.Full
            ai, pi = [0], [0]
            sleeps, released = [], [0]

            class Lock:
                def __enter__(self): return self
                def __exit__(self, *a): return False

            class P:
                name = "p"
                _worker_exit_lock = types.SimpleNamespace(release=lambda: released.__setitem__(0, released[0] + 1))

            class Q:
                _maxsize = 3
                posted = 0
                def full(self): return True
                def put_nowait(self, obj):
                    f = put_stream[pi[0]]; pi[0] += 1
                    if f:
                        raise queue.Full()
                    Q.posted += 1

            def alive():
                v = alive_stream[ai[0]]; ai[0] += 1
                return v
            me = types.SimpleNamespace(processes_management_lock=Lock(), processes={i: P() for i in range(n)}, call_queue=Q(), get_n_children_alive=alive)
            pe.sleep = lambda t: sleeps.append(t)
            raised = False
            try:
                pe._ExecutorManagerThread.shutdown_workers(me)
            except queue.Full:
                raised = True
            real = (Q.posted, len(sleeps), "Raised" if raised else "Done", released[0])
            # reference walk of the model on the same two streams; builds the merged answer list for Coq
            sent = grown = 0
            phase, merged, a2, p2, saw0 = "Outer", [], 0, 0, False
            while phase not in ("Done", "Raised"):
                if phase == "Outer":
                    if sent < n:
                        al = alive_stream[a2]; a2 += 1
                        merged.append((al, False))
                        if al > 0:
                            phase = ("Inner", n - sent)
                        else:
                            phase, saw0 = "Done", True
                    else:
                        merged.append((1, False)); phase = "Done"
                elif phase[1] == 0:
                    merged.append((1, False)); phase = "Outer"
                else:
                    f = put_stream[p2]; p2 += 1
                    merged.append((1, f))
                    if not f:
                        sent += 1; phase = ("Inner", phase[1] - 1)
                    elif K <= grown:
                        phase = "Raised"
                    else:
                        grown += 1; phase = "Outer"
            ref = (sent, grown, phase, n)
            if real != ref:
                bad.append({"workers": n, "real": real, "model_walk": ref, "alive_answers": alive_stream[:a2], "full_answers": put_stream[:p2]})
            cases.append((n, merged, sent, grown, phase))
    finally:
        pe.sleep = saved_sleep
    rows = ";\n  ".join("(%d, [%s])" % (n, "; ".join(f"mkans {al} {'PFull' if f else 'POk'}" for al, f in m)) for n, m, *_ in cases[:120])
    txt = ("From Coq Require Import List Arith Bool.\nFrom LokyV Require Import Model.SentinelLoop.\nImport ListNotations.\n"
           "Definition code (c : nat * list answer) : list nat := let s := run (fst c) 47 (snd c) sl0 in\n"
           "  [sent s; grown s; match ph s with Done => 1 | Raised => 2 | _ => 0 end].\n"
           f"Eval vm_compute in map code [\n  {rows}].\n")
    ok, out = vlib.coq_eval(f"c05_loop_{os.getpid()}", txt)
    codes = [int(x) for x in (out.split("=", 1)[1].split(":")[0] if ok and "=" in out else "").replace("[", " ").replace("]", " ").replace(";", " ").split() if x.isdigit()]
    want = [x for _, _, s_, g, ph in cases[:120] for x in (s_, g, 1 if ph == "Done" else 2)]
    model_bad = [i // 3 for i, (a, b) in enumerate(zip(codes, want)) if a != b] if len(codes) == len(want) else None
    return {"ok": ok and model_bad is not None, "cases": len(cases), "against_the_real_loop": bad[:5], "n_against_the_real_loop": len(bad),
            "coq_vs_walk_mismatches": model_bad, "ended_by_giving_up": sum(1 for c in cases if c[4] == "Raised"),
            "error": None if ok else out[-300:]}


def run(ctx):
    import vlib
    sd = sentinel_loop_differential(ctx, 300 if ctx.tier == "quick" else 3000)
    if sd["n_against_the_real_loop"]:
        rp = vlib.write_replay(ctx, "sentinels", {"kind": "the real shutdown_workers() loop and Model/SentinelLoop.v differ on the same queue / worker behaviour", "detail": sd})
        ctx.violations.append((f"sentinel loop: real and model differ on {sd['n_against_the_real_loop']} of {sd['cases']} scripted environments: "
                               + str(sd["against_the_real_loop"][0])[:160], rp, False))
    elif not sd["ok"] or sd["coq_vs_walk_mismatches"]:
        rp = vlib.write_replay(ctx, "sentinels", {"kind": "the Coq evaluation of Model/SentinelLoop.v did not run or differs from its reference walk", "detail": sd})
        ctx.violations.append(("sentinel loop: model evaluation " + ("differs" if sd["coq_vs_walk_mismatches"] else "did not run: " + str(sd["error"])[:100]), rp, True))
    return S.sim_check(ctx, FAMILIES, FAMILIES, PER_FAMILY, S.SIM_ASSUME, proof=PROOF, extra_cov={"sentinel_loop_differential": sd})


def replay(ctx, path):
    return S.replay(ctx, path)
