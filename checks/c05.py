"""C05 — Coq theorems over coq/Model/Pool.v (lists regenerated from the source) + simulation of the real executor code with monitors."""
from checks import simcommon as S

FAMILIES = ['shutdown', 'latekill']
PER_FAMILY = (500, 10000)


PROOF = S.pool_proof('C05', ['C05_graceful_never_drops', 'C05_graceful_delivers_everything', 'C05_submit_after_shutdown_raises', 'C05_structure', 'C05_shutting_down_manager_is_never_stuck', 'C05_manager_leaves_an_empty_table', 'C05_worker_leaves_through_the_handshake', 'C05_interpreter_exit_order', 'C05_collected_executor_is_shut_down_gracefully'],
                    'the sentinel hand-shake through a full call queue (more sentinels than slots) and the GC / interpreter-exit triggers are exercised by the simulation, not modelled beyond the flags', extra_gen=['Worker'])


def run(ctx):
    return S.sim_check(ctx, FAMILIES, FAMILIES, PER_FAMILY, S.SIM_ASSUME, proof=PROOF)


def replay(ctx, path):
    return S.replay(ctx, path)
