"""C15 — serialisation customisation is scoped and faithful."""
import functools
import io
import json
import os
import pickle
import random
import sys

import vlib

sys.path.insert(0, os.path.join(vlib.VERIF, "corr", "real"))
import runner  # noqa: E402

PROP_FILE = "Props/C15.v"
THEOREMS = ["C15_pickler_init_scoped", "C15_noninterference", "C15_later_pickler_view", "C15_partial_roundtrip",
            "C15_pickler_name_normalisation", "C15_scope_structure", "C15_reducers_travel_with_the_queue"]
ASSUME = [
    "pickle / cloudpickle consult the instance dispatch table as documented (oracle); their own fidelity is not modelled",
    "tables are modelled as heap objects keyed by abstract type ids; dict(x) / x.copy() allocate a new object, plain use aliases",
]


class T0:
    def __init__(self, v=0):
        self.v = v

    def __eq__(self, o):
        return type(o) is type(self) and o.v == self.v


class T1(T0):
    pass


class T2(T0):
    pass


class T3(T0):
    pass


TYPES = [T0, T1, T2, T3]


def mk_reducer(tag):
    def red(o):
        return (_rebuild, (type(o).__name__, o.v, tag))
    red.tag = tag
    return red


def _rebuild(name, v, tag):
    o = globals()[name](v)
    o.via = tag
    return o


class K:
    def __init__(self, a):
        self.a = a

    def meth(self, x):
        return (self.a, x)

    @classmethod
    def cm(cls, x):
        return (cls.__name__, x)

    def __eq__(self, o):
        return isinstance(o, K) and o.a == self.a


def snap(red):
    import copyreg
    out = {"copyreg": dict(copyreg.dispatch_table), "loky": dict(red._dispatch_table)}
    try:
        import cloudpickle
        dt = cloudpickle.CloudPickler.__dict__.get("dispatch_table")
        out["cloudpickle_cls"] = dict(dt) if isinstance(dt, dict) else None
    except ImportError:
        out["cloudpickle_cls"] = None
    return out


def explore(ctx, n):
    if sys.path[0] != vlib.REPO:
        sys.path.insert(0, vlib.REPO)
    import loky.backend.reduction as red
    rng = random.Random(ctx.seed + 15)
    fails, cases = [], []
    orig_name = red.get_loky_pickler_name()
    try:
        for i in range(n):
            backend = rng.choice(["cloudpickle", "pickle"])
            red.set_loky_pickler(backend)
            before = snap(red)
            history = []
            for _ in range(rng.randint(1, 5)):
                R = {t: mk_reducer(rng.randrange(100)) for t in rng.sample(TYPES, rng.randint(0, 3))}
                history.append({t.__name__: r.tag for t, r in R.items()})
                buf = io.BytesIO()
                p = red.get_loky_pickler()(buf, reducers=R)
                view = p.dispatch_table
                for t in TYPES:
                    want = R[t] if t in R else before["loky"].get(t, (before["cloudpickle_cls"] or before["copyreg"]).get(t)
                                                                 if backend == "cloudpickle" else before["copyreg"].get(t))
                    if view.get(t) is not want:
                        fails.append((backend, history, f"pickler created with {history[-1]} sees {getattr(view.get(t), 'tag', view.get(t))} for {t.__name__}"))
                # dumps with these reducers uses them; without, it does not
                t = rng.choice(TYPES)
                o = pickle.loads(red.dumps(t(7), reducers=R))
                if (getattr(o, "via", None) is not None) != (t in R) or (t in R and o.via != R[t].tag) or o.v != 7:
                    fails.append((backend, history, f"dumps({t.__name__}, reducers) gave via={getattr(o, 'via', None)}"))
                o2 = pickle.loads(red.dumps(t(8)))
                if getattr(o2, "via", None) is not None:
                    fails.append((backend, history, f"a later dumps() without reducers still used a reducer for {t.__name__}"))
            # the back-end selected now is the one that pickles, whatever back-end this process used before: plain pickle must refuse
            # what pickle refuses (its table holds none of cloudpickle's private reducers), cloudpickle must pickle what cloudpickle can
            import types as _types
            view_now = red.get_loky_pickler()(io.BytesIO()).dispatch_table
            if backend == "pickle":
                if _types.CodeType in view_now or _types.CellType in view_now:
                    fails.append((backend, history, "the 'pickle' back-end's dispatch table holds cloudpickle's private reducers (code objects / cells)"))
                try:
                    red.dumps({1: 2}.keys())
                    fails.append((backend, history, "the 'pickle' back-end pickled a dict view, which pickle itself refuses"))
                except Exception:  # noqa
                    pass
            else:
                try:
                    if pickle.loads(red.dumps(lambda x: x + 41))(1) != 42:
                        fails.append((backend, history, "a lambda pickled by the 'cloudpickle' back-end came back different"))
                except Exception as e:  # noqa
                    fails.append((backend, history, f"the 'cloudpickle' back-end cannot pickle a lambda: {type(e).__name__}: {e}"))
            after = snap(red)
            for k in before:
                if before[k] != after[k]:
                    fails.append((backend, history, f"global table {k} changed"))
            # built-in reducers: partial with keywords, bound / class methods, method descriptors
            kobj = K(rng.randrange(10))
            for label, obj, probe in (
                    ("partial", functools.partial(divmod, 17, **{}), lambda f: f(5)),
                    ("partial_kw", functools.partial(int, "ff", base=16), lambda f: f()),
                    ("partial_method", functools.partial(kobj.meth, 3), lambda f: f()),
                    ("bound_method", kobj.meth, lambda f: f(2)),
                    ("class_method", K.cm, lambda f: f(2)),
                    ("method_descriptor", list.append, lambda f: (lambda l: (f(l, 1), l)[1])([])),
                    ("slot_wrapper", int.__add__, lambda f: f(2, 3))):
                try:
                    back = pickle.loads(red.dumps(obj))
                    if probe(back) != probe(obj):
                        fails.append((backend, history, f"{label} does not round-trip to equal behaviour"))
                except Exception as e:  # noqa
                    fails.append((backend, history, f"{label}: {type(e).__name__}: {e}"))
            cases.append((backend, history))
    finally:
        red.set_loky_pickler(orig_name)
    return cases, fails


NAME = r'''
import json, os, sys
MOD = """
from loky.backend.reduction import get_loky_pickler_name
class Marked:
    def __init__(self, v): self.v = v
def _rb(v, tag):
    m = Marked(v); m.tag = tag; return m
def job_red(o): return (_rb, (o.v, "job"))
def res_red(o): return (_rb, (o.v, "res"))
class Spy:          # records which pickler is selected in the worker at the moment the RESULT is serialised
    def __init__(self, name=None): self.name = name
    def __reduce__(self): return (Spy, (get_loky_pickler_name(),))
def probe(x):
    return (get_loky_pickler_name(), getattr(x, "tag", None), Marked(x.v + 1), Spy())
"""
open(os.path.join(os.path.dirname(os.path.abspath(__file__)), "c15mod.py"), "w").write(MOD)
sys.path.insert(0, os.path.dirname(os.path.abspath(__file__)))
from c15mod import Marked, job_red, res_red, probe
from loky import ProcessPoolExecutor, set_loky_pickler

if __name__ == "__main__":
    out = {}
    for first, second in (("pickle", "cloudpickle"), ("cloudpickle", "pickle")):
        set_loky_pickler(first)
        e = ProcessPoolExecutor(1, job_reducers={Marked: job_red}, result_reducers={Marked: res_red})
        f1 = e.submit(probe, Marked(1))
        set_loky_pickler(second)
        f2 = e.submit(probe, Marked(10))
        n1, t1, r1, s1 = f1.result(60); n2, t2, r2, s2 = f2.result(60)
        e.shutdown()
        e2 = ProcessPoolExecutor(1, job_reducers={Marked: job_red})
        n3, t3, r3, _ = e2.submit(probe, Marked(5)).result(60)
        e2.shutdown()
        e3 = ProcessPoolExecutor(1)
        n4, t4, r4, _ = e3.submit(probe, Marked(5)).result(60)
        e3.shutdown()
        out[first] = {"names": [n1, n2], "result_pickled_with": [s1.name, s2.name], "arg_tags": [t1, t2], "res_tags": [getattr(r1, "tag", None), getattr(r2, "tag", None)],
                      "default_result_reducers": [t3, getattr(r3, "tag", None)], "no_reducers": [t4, getattr(r4, "tag", None)]}
    print(json.dumps(out))
'''


def run(ctx):
    n = 300 if ctx.tier == "quick" else 10000
    pr = vlib.prove(ctx, PROP_FILE, ["Reduction"])
    cases, fails = explore(ctx, n)
    res = runner.run_script(NAME, vlib.REPO, timeout=240)
    got = runner.last_json(res)
    exp = {"pickle": {"names": ["pickle", "cloudpickle"], "result_pickled_with": ["pickle", "cloudpickle"], "arg_tags": ["job", "job"], "res_tags": ["res", "res"],
                      "default_result_reducers": ["job", "job"], "no_reducers": [None, None]},
           "cloudpickle": {"names": ["cloudpickle", "pickle"], "result_pickled_with": ["cloudpickle", "pickle"], "arg_tags": ["job", "job"], "res_tags": ["res", "res"],
                           "default_result_reducers": ["job", "job"], "no_reducers": [None, None]}}
    if got != exp:
        rp = vlib.write_replay(ctx, "real", {"kind": "executor-level scoping / pickler-name scenario deviates", "got": got,
                                             "expected": exp, "stderr": res["stderr"][-1500:]})
        ctx.violations.append(("reducer scope or pickler name observed in real workers deviates", rp, False))
    if fails:
        backend, history, why = fails[0]
        rp = vlib.write_replay(ctx, "property", {"kind": "pickler table scoping / built-in reducer failure", "backend": backend,
                                                 "history_of_reducer_maps": history, "why": why, "count": len(fails)})
        ctx.violations.append((f"{len(fails)} pickler histories violate scoping: {why[:140]}", rp, False))
    if not pr["ok"] and not ctx.violations:
        rp = vlib.write_replay(ctx, "broken", {"kind": "proof obligation / translation no longer checks", "detail": pr.get("broken"),
                                               "searched": f"{n} pickler histories on both back-ends + executor scenario: no failing input"})
        what = pr["broken"].get("lemma") or pr["broken"].get("kind")
        ctx.violations.append((f"{pr['broken']['kind']} ({what}) no longer checks", rp, True))
    ctx.coverage = {
        "obligations": pr.get("obligations", 0) or 1, "discharged": pr.get("obligations", 0) if pr["ok"] else 0,
        "checker_cmd": "cd /verif/coq && make Props/C15.vo + Print Assumptions",
        "trusted_base": vlib.TRUSTED_BASE, "theorems": THEOREMS, "print_assumptions": pr.get("assumptions"),
        "generated_from": pr.get("gen", {}).get("Reduction", {}).get("manifest"),
        "evaluations": n, "distinct_nontrivial": len({json.dumps(c, sort_keys=True) for c in cases if len(c[1]) >= 2}),
        "rule": "histories of 1-5 pickler creations with random reducer maps over 4 classes, on both back-ends, checking each "
                "pickler's view, dumps with/without reducers, global-table snapshots before/after, and 7 built-in reducer round "
                "trips; plus one real executor scenario per back-end (job/result reducers, default, pickler name switch between "
                "submits); non-trivial = at least 2 creations, distinct by (backend, history)",
        "property_oracle_failures": len(fails), "real_executor_scenario": got,
        "traces_validated_against_impl": len(cases),
        "samples": [{"backend": cases[0][0], "history": cases[0][1]}] if cases else [],
    }
    return vlib.finish(ctx, ASSUME)


def replay(ctx, path):
    print(json.load(open(path)))
    cases, fails = explore(ctx, 300)
    for f in fails[:5]:
        print("FAIL", f)
    return 1 if fails else 0
