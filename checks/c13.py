"""C13 — no named semaphore or tracked resource outlives its process tree."""
import json
import os
import sys

import vlib
from checks import c12 as treecheck
from checks import simcommon

sys.path.insert(0, os.path.join(vlib.VERIF, "corr", "real"))
import runner  # noqa: E402

PROP_FILE = "Props/C13.v"
THEOREMS = ["C13_no_leak_after_sweep", "C13_unregistered_is_gone", "C13_finalizers_survive_startup", "C13_refuted_creation_window", "C13_structure"]
ASSUME = [
    "the tracker is not killed (the property's own quantifier excludes it); a killed tracker loses its registry",
    "POSIX named semaphores appear as /dev/shm/sem.<name>",
    "sweep latency is bounded in practice only (observed, < 20 s wait)",
]

EXEC = r'''
import gc, glob, json, os, sys, time
def sems():
    return sorted(glob.glob("/dev/shm/sem.loky-*"))
mine = lambda: [s for s in sems() if f"loky-{os.getpid()}-" in s]
def settled():
    # the call queue's feeder thread is told to stop by shutdown but is not joined in the process that created the queue
    # (loky/backend/queues.py: created_by_this_process), so the queue object is collected a moment later
    t0 = time.time()
    while time.time() - t0 < 10:
        gc.collect()
        if not mine():
            break
        time.sleep(0.02)
    return round(time.time() - t0, 2)
if __name__ == "__main__":
    mode = sys.argv[1]
    from loky import ProcessPoolExecutor, get_reusable_executor
    from loky.backend import get_context
    before = mine()
    ctx = get_context("loky")
    prims = [ctx.Lock(), ctx.RLock(), ctx.Semaphore(3), ctx.BoundedSemaphore(2), ctx.Condition(), ctx.Event(), ctx.Queue(), ctx.SimpleQueue()]
    e = ProcessPoolExecutor(2)
    list(e.map(abs, range(4)))
    during = mine()
    out = {"pid": os.getpid(), "during": len(during)}
    if mode == "release":
        e.shutdown(wait=True); del e; del prims
        out["settle_s"] = settled()
        out["after_release"] = mine()
    elif mode == "broken":
        f = e.submit(os._exit, 7)
        try:
            f.result(30)
        except Exception as ex:
            out["broken"] = type(ex).__name__
        del f
        e.shutdown(wait=True); del e; del prims
        # the crashed worker's Process object (which owns its exit lock) stays in multiprocessing's own child table until
        # multiprocessing reaps it; the property speaks of collected owners, so let multiprocessing drop it first
        import multiprocessing; multiprocessing.active_children()
        out["settle_s"] = settled()
        out["after_release"] = mine()
    print(json.dumps(out)); sys.stdout.flush()
    if mode == "raise":
        raise RuntimeError("uncaught")
    if mode == "os_exit":
        os._exit(5)
'''

WINDOW = r'''
import json, os, subprocess, sys, time, glob
# a child with the fault point armed dies between the kernel creation of the semaphore and resource_tracker.register()
code = "from loky.backend import get_context; get_context('loky').Lock()"
env = dict(os.environ, LOKY_VERIF="1", LOKY_VERIF_FAULT="sem.after_create:kill9")
before = set(glob.glob("/dev/shm/sem.loky-*"))
p = subprocess.Popen([sys.executable, "-c", code], env=env)
p.wait(60)
time.sleep(1.5)
leaked = sorted(set(glob.glob("/dev/shm/sem.loky-*")) - before)
mine = [s for s in leaked if f"loky-{p.pid}-" in s]
for s in mine:
    os.unlink(s)          # do not litter the sandbox
print(json.dumps({"child_rc": p.returncode, "child_pid": p.pid, "leaked": mine}))
'''


COLLIDE = r'''
import glob, json, os, subprocess, sys, time
# a name collision must not untrack the owner: the child creates a named semaphore, a second creation with the same name fails with
# FileExistsError, then the child dies by SIGKILL (no finalizer runs): the tracker must still sweep the name
code = """
import os, signal
from loky.backend.synchronize import SemLock, SEMAPHORE
name = '/loky-%d-collide' % os.getpid()
owner = SemLock(SEMAPHORE, 1, 1, name=name)
try:
    SemLock(SEMAPHORE, 1, 1, name=name)
    print('second creation accepted')
except FileExistsError:
    print('FileExistsError')
import sys; sys.stdout.flush()
os.kill(os.getpid(), signal.SIGKILL)
"""
p = subprocess.Popen([sys.executable, "-c", code], stdout=subprocess.PIPE, text=True)
out = p.communicate(timeout=60)[0]
path = f"/dev/shm/sem.loky-{p.pid}-collide"
t0 = time.time()
while os.path.exists(path) and time.time() - t0 < 20:
    time.sleep(0.1)
left = os.path.exists(path)
if left:
    os.unlink(path)
print(json.dumps({"child_rc": p.returncode, "second_creation": out.strip(), "left": left, "name": path}))
'''


STRICT = r'''
import glob, json, os, subprocess, sys, time
# the tracker inherits the warning options of the process that starts it: with warnings turned into errors its end-of-life sweep must
# still unlink what a SIGKILLed owner left registered
code = """
import os, signal
from loky.backend import get_context
ctx = get_context('loky')
objs = [ctx.Lock(), ctx.Semaphore(2), ctx.Event()]
os.kill(os.getpid(), signal.SIGKILL)
"""
# ... also when one cleanup of the sweep fails: the owner dies right after sem_unlink() of its first lock, before unregister()
code_fail = """
import gc, os, signal
import loky.backend.synchronize as sy
from loky.backend import get_context
ctx = get_context('loky')
first = ctx.Lock()
others = [ctx.Lock(), ctx.Semaphore(2), ctx.Event()]
real_unlink = sy.sem_unlink
def unlink_then_die(name):
    real_unlink(name)
    os.kill(os.getpid(), signal.SIGKILL)
sy.sem_unlink = unlink_then_die
del first
gc.collect()
os._exit(3)
"""
res = {}
for label, flags, code in (("default", [], code), ("warnings_as_errors", ["-W", "error::UserWarning"], code),
                           ("warnings_as_errors+cleanup_fails", ["-W", "error::UserWarning"], code_fail)):
    p = subprocess.Popen([sys.executable] + flags + ["-c", code], stderr=subprocess.DEVNULL, stdout=subprocess.DEVNULL)
    p.wait(60)
    mine = lambda: sorted(s for s in glob.glob("/dev/shm/sem.loky-*") if f"loky-{p.pid}-" in s)
    seen = len(mine())
    t0 = time.time()
    while mine() and time.time() - t0 < 20:
        time.sleep(0.1)
    left = mine()
    for s in left:
        os.unlink(s)
    res[label] = {"pid": p.pid, "rc": p.returncode, "seen_after_death": seen, "left": left}
print(json.dumps(res))
'''


FINALIZER = r'''
import gc, glob, json, os, signal, subprocess, sys, time
# crash points inside the finalizer of a named semaphore: the child kills itself at the entry / exit of the two steps
# (sem_unlink, resource_tracker.unregister), whatever their order in the source
CHILD = """
import gc, os, signal, sys
import loky.backend.synchronize as sy
import loky.backend.resource_tracker as rt
from loky.backend import get_context
point, kind = sys.argv[1], sys.argv[2]
ctx = get_context('loky')
obj = {'lock': ctx.Lock, 'sem': lambda: ctx.Semaphore(2), 'cond': ctx.Condition, 'event': ctx.Event, 'queue': ctx.Queue}[kind]()
def die():
    os.kill(os.getpid(), signal.SIGKILL)
def wrap(fn, before, after):
    def w(*a, **k):
        if point == before: die()
        r = fn(*a, **k)
        if point == after: die()
        return r
    return w
sy.sem_unlink = wrap(sy.sem_unlink, 'unlink.entry', 'unlink.exit')
rt.unregister = wrap(rt.unregister, 'unregister.entry', 'unregister.exit')
del obj
gc.collect()
os._exit(3)     # the crash point was not reached
"""
out = []
for kind in sys.argv[1].split(","):
    for point in ("unlink.entry", "unlink.exit", "unregister.entry", "unregister.exit"):
        p = subprocess.Popen([sys.executable, "-c", CHILD, point, kind], cwd="/")
        p.wait(60)
        t0 = time.time()
        mine = lambda: sorted(s for s in glob.glob("/dev/shm/sem.loky-*") if f"loky-{p.pid}-" in s)
        while time.time() - t0 < 10 and mine():
            time.sleep(0.05)
        left = mine()
        for s in left:
            os.unlink(s)
        out.append({"kind": kind, "point": point, "rc": p.returncode, "left": left})
print(json.dumps(out))
'''


STARTUP = r'''
import gc, json, os, sys, tempfile
from loky.backend import get_context
# a tracked primitive created while a child starts up: at module level of the main module, re-imported by loky_init_main children
L = get_context("loky").Lock()
def child(out):
    import loky.backend.synchronize as sy
    locks = [o for o in gc.get_objects() if isinstance(o, sy.SemLock)]
    names = [x._semlock.name for x in locks]
    l = r = None
    for l in locks:
        for r in gc.get_referrers(l):
            if isinstance(r, dict):
                for k in [k for k, v in r.items() if v is l]:
                    del r[k]
    del locks, l, r
    gc.collect()
    with open(out, "w") as f:
        json.dump({"pid": os.getpid(), "names": names, "left": [n for n in names if os.path.exists("/dev/shm/sem." + n.lstrip("/"))]}, f)
if __name__ == "__main__":
    res = []
    for method in ("loky_init_main", "loky"):
        out = tempfile.mktemp()
        p = get_context(method).Process(target=child, args=(out,)); p.start(); p.join(60)
        d = json.load(open(out)); os.unlink(out); d["method"] = method; d["rc"] = p.exitcode
        res.append(d)
    print(json.dumps(res))
'''


def run(ctx):
    pr = vlib.prove(ctx, PROP_FILE, ["Lifecycle", "Tracker"])
    results, fails = [], []
    # (a) process trees ending in every way: every semaphore name is gone once the tracker has swept
    plans = [("collect", "loky", 1, "x"), ("normal", "loky", 2, "x"), ("exception", "loky", 1, "x"),
             ("os_exit", "loky", 1, "x"), ("sigkill", "loky", 2, "rootfirst")]
    if ctx.tier == "thorough":
        plans += [("sigkill", "loky_init_main", 2, "leaffirst"), ("normal", "loky_init_main", 3, "x"), ("os_exit", "loky", 3, "x"),
                  ("collect", "loky_init_main", 2, "x"), ("exception", "loky", 3, "x")]
    from concurrent.futures import ThreadPoolExecutor
    with ThreadPoolExecutor(max_workers=5) as ex:
        outs = list(ex.map(lambda p: treecheck.run_tree(*p), plans))
    for plan, (got, res) in zip(plans, outs):
        bad = []
        if got is None:
            bad.append("no result")
        else:
            if not got.get("sems_exist_while_alive"):
                bad.append("semaphore names missing while their owners are alive")
            if got.get("sems_left"):
                bad.append(f"named semaphores survive the tree: {got['sems_left']}")
            if not got.get("tracker_exited"):
                bad.append("tracker still alive")
            if plan[0] == "collect" and any(v for v in (got.get("after_gc") or {}).values()):
                bad.append(f"semaphores not unlinked when their objects were collected: {got['after_gc']}")
            if plan[0] in ("collect", "normal") and "leaked semlock" in (got.get("stderr_tail") or ""):
                bad.append("'leaked' reported although everything was released properly")
        results.append({"plan": plan, "ok": not bad})
        if bad:
            fails.append((plan, bad, got))
    # (b) executor + every primitive in one parent: release / broken pool / uncaught exception / os._exit
    modes = ["release", "broken", "raise", "os_exit"]

    def one(mode):
        res = runner.run_script(EXEC, vlib.REPO, timeout=120, args=(mode,), spare_trackers=True)
        got = runner.last_json(res)
        return mode, got, res
    with ThreadPoolExecutor(max_workers=4) as ex:
        eouts = list(ex.map(one, modes))
    import glob
    import time
    time.sleep(1.0)
    for mode, got, res in eouts:
        bad = []
        if got is None:
            bad.append("no result: " + res["stderr"][-300:])
        else:
            if got["during"] < 10:
                bad.append(f"only {got['during']} named semaphores seen while alive")
            if mode in ("release", "broken") and got.get("after_release"):
                bad.append(f"semaphores left after proper release: {got['after_release']}")
            left = [s for s in glob.glob("/dev/shm/sem.loky-*") if f"loky-{got['pid']}-" in s]
            if left:
                time.sleep(3.0)
                left = [s for s in glob.glob("/dev/shm/sem.loky-*") if f"loky-{got['pid']}-" in s]
            if left:
                bad.append(f"semaphores of pid {got['pid']} outlive its tree ({mode}; orphans killed {res['spared']}): {left}")
            if res["spared"] and res["spared"][1] is None:
                bad.append("a resource tracker is still alive 20 s after the last member of its tree has gone")
            if mode == "release" and "leaked semlock" in res["stderr"]:
                bad.append("'leaked' reported after proper release")
        results.append({"plan": ["executor", mode], "ok": not bad})
        if bad:
            fails.append((("executor", mode), bad, got))
    # (c) the creation window (needs the LOKY_VERIF fault point): known finding W1
    wres = runner.run_script(WINDOW, vlib.REPO, timeout=120)
    wgot = runner.last_json(wres)
    if wgot and wgot.get("leaked"):
        kf = simcommon.match_known("C13", "creation-window-leak")
        if kf:
            ctx.known.append(f"{kf['id']} {kf['title']}")
        else:
            fails.append((("window",), [f"semaphore leaked by a death between creation and registration: {wgot['leaked']}"], wgot))
    # leave the sandbox as it was: names whose creating process is gone (only this check's own scenarios create any)
    for f in glob.glob("/dev/shm/sem.loky-*"):
        try:
            pid = int(os.path.basename(f).split("-")[1])
            if not os.path.isdir(f"/proc/{pid}"):
                os.unlink(f)
        except (ValueError, IndexError, OSError):
            pass
    # (c') a failed creation on a name that is taken must not untrack its owner
    cres = runner.run_script(COLLIDE, vlib.REPO, timeout=120, spare_trackers=True)
    cgot = runner.last_json(cres)
    if cgot is None:
        fails.append((("collide",), ["name-collision scenario did not complete: " + cres["stderr"][-300:]], None))
    elif cgot["left"] or cgot["second_creation"] != "FileExistsError":
        fails.append((("collide",), [f"owner=SemLock(name=N); SemLock(name=N) -> {cgot['second_creation']}; SIGKILL: {cgot['name']} "
                                     + ("was never swept by the tracker" if cgot["left"] else "")], cgot))
    # (c'') the sweep survives warnings turned into errors
    tres = runner.run_script(STRICT, vlib.REPO, timeout=120, spare_trackers=True)
    tgot = runner.last_json(tres)
    if tgot is None:
        fails.append((("strict",), ["warnings-as-errors scenario did not complete: " + tres["stderr"][-300:]], None))
    else:
        for label, rec in tgot.items():
            if rec["left"]:
                fails.append((("strict", label), [f"owner SIGKILLed, interpreter flags {label}: the tracker ended without unlinking {rec['left']}"], rec))
    # (d) death at the entry / exit of either step of the finalizer, for every kind of primitive
    kinds = "lock,event" if ctx.tier == "quick" else "lock,sem,cond,event,queue"
    fres = runner.run_script(FINALIZER, vlib.REPO, timeout=300, args=(kinds,), spare_trackers=True)
    fgot = runner.last_json(fres)
    if fgot is None:
        fails.append((("finalizer",), ["finalizer crash-point scenario did not complete: " + fres["stderr"][-300:]], None))
    else:
        for rec in fgot:
            if rec["left"]:
                fails.append((("finalizer", rec["kind"], rec["point"]),
                              [f"a {rec['kind']} whose owner died at {rec['point']} of its finalizer leaves {rec['left']} behind for good"], rec))
            elif rec["rc"] != -9:
                fails.append((("finalizer", rec["kind"], rec["point"]), [f"crash point {rec['point']} not reached (rc {rec['rc']})"], rec))
    # (e) a primitive created while a child starts up is unlinked when collected, and nothing is reported leaked
    sres = runner.run_script(STARTUP, vlib.REPO, timeout=120, spare_trackers=True)
    sgot = runner.last_json(sres)
    if sgot is None:
        fails.append((("startup",), ["start-up scenario did not complete: " + sres["stderr"][-300:]], None))
    else:
        for rec in sgot:
            if rec["left"]:
                fails.append((("startup", rec["method"]), [f"module-level lock of a {rec['method']} child not unlinked when its object was collected: {rec['left']}"], rec))
        if "leaked semlock" in sres["stderr"]:
            fails.append((("startup", "shutdown"), ["'leaked semlock' reported for a module-level lock although every process ended normally"], sgot))
    if fails:
        plan, bad, got = fails[0]
        rp = vlib.write_replay(ctx, "real", {"kind": "a named semaphore / tracked resource outlived its tree", "plan": plan, "why": bad,
                                             "observed": got})
        ctx.violations.append((f"{len(fails)} scenarios leak: {bad[0][:140]}", rp, False))
        ctx.notes = [f"{p}: {b}" for p, b, _ in fails]
    if not pr["ok"] and not ctx.violations:
        rp = vlib.write_replay(ctx, "broken", {"kind": "proof obligation / extracted facts no longer check", "detail": pr.get("broken"),
                                               "searched": f"{len(plans) + len(modes) + 1} real scenarios: no failing input"})
        what = pr["broken"].get("lemma") or pr["broken"].get("kind")
        ctx.violations.append((f"{pr['broken']['kind']} ({what}) no longer checks", rp, True))
    n = len(plans) + len(modes) + 1 + (len(fgot) if fgot else 0)
    ctx.coverage = {
        "obligations": pr.get("obligations", 0) or 1, "discharged": pr.get("obligations", 0) if pr["ok"] else 0,
        "checker_cmd": "cd /verif/coq && make Props/C13.vo + Print Assumptions",
        "trusted_base": vlib.TRUSTED_BASE, "theorems": THEOREMS, "print_assumptions": pr.get("assumptions"),
        "evaluations": n, "distinct_nontrivial": n,
        "rule": "real process trees whose members create Lock/Semaphore/Condition/Event and end by collection, normal exit, uncaught "
                "exception, os._exit, SIGKILL (both orders); one parent with every primitive, two queues and an executor ending by "
                "release / broken pool / uncaught exception / os._exit; one child killed at the LOKY_VERIF fault point between creation "
                "and registration; children that kill themselves at the entry / exit of sem_unlink and of unregister inside the "
                "finalizer of each kind of primitive; observed: /dev/shm/sem.loky-<pid>-* while alive and after the tracker swept, 'leaked' on stderr",
        "creation_window": wgot, "finalizer_crash_points": fgot and len(fgot), "traces_validated_against_impl": n, "samples": results[:4],
    }
    return vlib.finish(ctx, ASSUME)


def replay(ctx, path):
    print(json.load(open(path)))
    return 0
