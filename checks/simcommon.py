"""Shared driver of the simulation-based checks (C01-C08, C10): run scenario families of the REAL
executor code on the simulated kernel, apply the property monitors, match known findings."""
import hashlib
import json
import os
import re
import subprocess
import tempfile
from concurrent.futures import ThreadPoolExecutor

import vlib

BATCH = os.path.join(vlib.VERIF, "corr", "sim", "batch.py")


def run_batches(jobs, timeout=1500):
    """jobs: list of (family, seed0, count); runs them in parallel disposable processes"""
    d = tempfile.mkdtemp(prefix="lokyv_sim_")

    def one(job):
        fam, s0, n = job
        out = os.path.join(d, f"{fam}_{s0}.json")
        env = dict(os.environ, VERIF_REPO=vlib.REPO, PYTHONHASHSEED="0", PYTHONPATH=vlib.REPO)
        p = subprocess.Popen([vlib.PY, BATCH, fam, str(s0), str(n), out], stdout=subprocess.DEVNULL,
                             stderr=subprocess.PIPE, stdin=subprocess.DEVNULL, env=env, start_new_session=True)
        try:
            _, err = p.communicate(timeout=timeout)
        except subprocess.TimeoutExpired:
            p.kill()
            return {"family": fam, "seed0": s0, "count": n, "runs": [], "error": "batch timed out"}
        try:
            r = json.load(open(out))
            os.unlink(out)
            return r
        except Exception:
            return {"family": fam, "seed0": s0, "count": n, "runs": [],
                    "error": "batch produced no result: " + err.decode(errors="replace")[-1500:]}
    with ThreadPoolExecutor(max_workers=14) as ex:
        res = list(ex.map(one, jobs))
    # a batch process that produced nothing (killed under memory / load pressure) is run once more, alone
    for i, r in enumerate(res):
        if r.get("error") and not r["runs"]:
            res[i] = one(jobs[i])
    try:
        os.rmdir(d)
    except OSError:
        pass
    return res


def replay_file(path):
    env = dict(os.environ, VERIF_REPO=vlib.REPO, PYTHONHASHSEED="0", PYTHONPATH=vlib.REPO)
    r = subprocess.run([vlib.PY, BATCH, "--replay", path], stdout=subprocess.PIPE, stderr=subprocess.PIPE,
                       stdin=subprocess.DEVNULL, env=env, start_new_session=True, timeout=300)
    for line in reversed(r.stdout.decode().splitlines()):
        if line.startswith("{"):
            return json.loads(line)
    return {"error": r.stderr.decode()[-800:]}


def match_known(prop, sig):
    for f in vlib.known_findings():
        if f.get("status") == "known" and prop in f["properties"] and re.search(f["signature_regex"], sig):
            return f
    return None


def sim_check(ctx, families_quick, families_thorough, per_family, assume, extra_cov=None, proof=None, weights=None):
    """families_*: list of family names; per_family: (quick, thorough) scenario counts.
    proof = dict(prop_file, theorems, tf_families, tf_per_family=(q, t), note): Coq theorems over the token-flow
    model + trace validation of the real code against that model."""
    pr = tv = None
    if proof is not None:
        from checks import tfcommon
        pr = vlib.prove(ctx, proof["prop_file"], proof.get("gen", ["__none__"]))
        if pr["ok"] and "validator" not in proof:
            ntf = proof["tf_per_family"][0] if ctx.tier == "quick" else proof["tf_per_family"][1]
            tv = tfcommon.validate(ctx, proof["tf_families"], ntf)
    fams = families_quick if ctx.tier == "quick" else families_thorough
    n = per_family[0] if ctx.tier == "quick" else per_family[1]
    chunk = max(50, min(400, n // 2))
    jobs = []
    for fam in fams:
        s0 = ctx.seed * 100000
        left = n * (weights or {}).get(fam, 1)      # families whose interesting window is narrow get more schedules
        while left > 0:
            c = min(chunk, left)
            jobs.append((fam, s0, c))
            s0 += c
            left -= c
    batches = run_batches(jobs)
    if proof is not None and "validator" in proof:
        tv = proof["validator"](ctx, batches)
    total = 0
    status = {}
    distinct = set()
    known_hits = {}
    new = {}
    harness = []
    sample = None
    steps = 0
    for b in batches:
        if b.get("error"):
            harness.append(f"{b['family']}@{b['seed0']}: {b['error']}")
        for run in b["runs"]:
            total += 1
            status[run["status"]] = status.get(run["status"], 0) + 1
            steps += run.get("steps", 0)
            if run["status"] == "harness-error":
                harness.append(f"{b['family']} seed {run['seed']}: {run.get('error')}")
                continue
            ph = hashlib.sha256(json.dumps(run["plan"], sort_keys=True).encode()).hexdigest()[:12]
            ntasks = sum(1 for t in run["plan"]["threads"] for a in t if a[0] == "submit")
            if ntasks >= 2 or run["plan"]["family"] in ("resize", "reuse"):
                distinct.add((ph, run["seed"]))
            if sample is None and ntasks >= 3:
                sample = {"plan": run["plan"], "seed": run["seed"], "status": run["status"],
                          "steps": run["steps"], "futures": run["futures"]}
            for a in run["anomalies"]:
                if ctx.prop not in a["props"]:
                    continue
                kf = match_known(ctx.prop, a["sig"])
                if kf is not None:
                    known_hits.setdefault(kf["id"], [kf, 0])[1] += 1
                else:
                    key = a["sig"]
                    if key not in new or len(run.get("choices", [])) < len(new[key][0].get("choices", [])):
                        new[key] = (run, a, new.get(key, (None, None, 0))[2] + 1)
                    else:
                        new[key] = (new[key][0], new[key][1], new[key][2] + 1)
    for h in harness[:3]:
        rp = vlib.write_replay(ctx, "harness", {"kind": "simulation harness failure", "detail": harness[:10]})
        ctx.violations.append(("simulation harness failed: " + h[:160], rp, True))
        break
    for kid, (kf, cnt) in sorted(known_hits.items()):
        ctx.known.append(f"{kf['id']} {kf['title']} ({cnt} of {total} schedules)")
    for i, (sig, (run, a, cnt)) in enumerate(sorted(new.items(), key=lambda kv: -kv[1][2])):
        rp = vlib.write_replay(ctx, f"sim{i}", {
            "kind": a["kind"], "signature": sig, "detail": a["detail"], "occurrences": cnt,
            "plan": run["plan"], "seed": run["seed"], "choices": run.get("choices"),
            "futures": run["futures"],
            "how_to_replay": f"./check {ctx.prop} --replay <this file>   (re-runs the recorded schedule on the real loky code "
                             "over the simulated kernel)"})
        ctx.violations.append((f"{a['kind']}: {sig[:200]}", rp, False))
    if proof is not None:
        if not pr["ok"]:
            rp = vlib.write_replay(ctx, "broken", {"kind": "proof obligation no longer checks", "detail": pr.get("broken"),
                                                   "searched": f"{total} simulated schedules with the property monitors"})
            what = pr["broken"].get("lemma") or pr["broken"].get("kind")
            if not ctx.violations:
                ctx.violations.append((f"{pr['broken']['kind']} ({what}) no longer checks", rp, True))
        elif "validator" in proof and (not tv["ok"] or tv["failed"]):
            rp = vlib.write_replay(ctx, "correspondence", {
                "kind": f"the real code and {proof['model_name']} disagree on the same inputs", "failed": tv["failed"][:10],
                "of": tv["traces"], "error": tv.get("error"), "searched": f"{total} simulated schedules with the property monitors"})
            if not ctx.violations:
                ctx.violations.append((f"model/implementation correspondence broken on {len(tv['failed'])} of {tv['traces']} "
                                       f"observed calls ({proof['model_name']}): {str(tv['failed'][:1])[:160]}", rp, not tv["failed"]))
        elif "validator" not in proof and (not tv["ok"] or tv["failed"]):
            first = tv["failed"][0] if tv["failed"] else None
            rp = vlib.write_replay(ctx, "correspondence", {
                "kind": "trace validation against coq/Model/TokenFlow.v failed: the real code made an observable change "
                        "that no step of the model explains",
                "failed_traces": len(tv["failed"]), "of": tv["traces"], "error": tv.get("error"),
                "first": None if first is None else {"trace": first[0], "event_index": first[1], "plan": first[2], "seed": first[3]},
                "how_to_replay": "corr/sim/tf_batch.py <family> <seed> 1 out.txt && coq/extract/tf_check out.txt",
                "searched": f"{total} simulated schedules with the property monitors"})
            if not ctx.violations:
                ctx.violations.append((f"model/implementation correspondence broken on {len(tv['failed'])} of "
                                       f"{tv['traces']} traces (Model/TokenFlow.v)", rp, True))
    ctx.level = "exploration" if proof is None else "proof"
    ctx.coverage = {
        "evaluations": total,
        "distinct_nontrivial": len(distinct),
        "rule": "each evaluation = one generated scenario (plan of user-thread actions from the family generator) run under "
                "one seeded random schedule of the deterministic simulation kernel, every primitive operation of every actor "
                "(user threads, manager, feeder, workers) being a scheduling point, with time-outs and kills placed by the "
                "scheduler; non-trivial = at least 2 submitted tasks (or a resize), distinct by (plan hash, schedule seed)",
        "families": fams,
        "status_counts": status,
        "scheduling_steps": steps,
        "known_findings_seen": {k: v[1] for k, v in known_hits.items()},
        "new_anomaly_signatures": len(new),
        "samples": [sample] if sample else [{"note": "no sample with >= 3 tasks"}],
    }
    if proof is not None:
        ctx.coverage.update({
            "obligations": pr.get("obligations", 0) or 1,
            "discharged": pr.get("obligations", 0) if pr["ok"] else 0,
            "checker_cmd": f"cd /verif/coq && make {proof['prop_file'].replace('.v', '.vo')} + Print Assumptions; "
                           + proof.get("checker_extra", "extraction (ExtrOcamlBasic) of Model/TokenFlowCheck.validate, cross-checked by vm_compute"),
            "trusted_base": vlib.TRUSTED_BASE + proof.get("trusted_extra", [
                "extraction with ExtrOcamlBasic only (Extract Inductive bool/option/unit/list/prod/sumbool; no Extract Constant), "
                "coq/extract/tf_driver.ml (trace parser)",
                "the observation function of corr/sim/tftrace.py (what is read off the real objects after each step)"]),
            "theorems": proof["theorems"], "print_assumptions": pr.get("assumptions"),
            "traces_validated_against_impl": (tv or {}).get("traces", 0),
            "trace_events": (tv or {}).get("events", 0),
            "traces_rejected": len((tv or {}).get("failed", [])),
            "extraction_cross_check": (tv or {}).get("cross"),
            "modelled_not_verified": proof.get("note", ""),
        })
        if tv and tv.get("sample"):
            ctx.coverage["samples"].append(tv["sample"])
    if extra_cov:
        ctx.coverage.update(extra_cov)
    return vlib.finish(ctx, assume)


def pool_validator(ctx, batches):
    """The statements proved on coq/Model/Pool.v that can be read off the real objects (a future failed with BrokenProcessPool =>
    flag set; manager thread gone => nothing unresolved in its table) are watched after EVERY scheduling step of every run by
    corr/sim/scenarios.Env._sample; a violation is an anomaly of the run (kind model-invariant-violated).  Here only the volume."""
    runs = sum(len(b["runs"]) for b in batches)
    steps = sum(r.get("steps", 0) for b in batches for r in b["runs"])
    bad = [{"seed": r["seed"], "family": b["family"], "anomaly": a["sig"]} for b in batches for r in b["runs"]
           for a in r.get("anomalies", []) if a["kind"] == "model-invariant-violated"]
    return {"ok": True, "failed": [], "traces": runs, "events": steps, "cross": None, "watched_violations": len(bad),
            "sample": {"watched_runs": runs, "watched_steps": steps}}


def pool_proof(prop, theorems, note, extra_gen=()):
    return {
        "prop_file": f"Props/{prop}.v", "gen": ["Ledger", "Pool"] + list(extra_gen), "theorems": theorems, "validator": pool_validator,
        "model_name": "coq/Model/Pool.v",
        "checker_extra": "the proved statements that are observable (broken future => flag; manager gone => nothing unresolved) "
                         "are evaluated on the real executor objects after every scheduling step of every simulated run",
        "trusted_extra": ["the statement tables of tr/units.py:gen_ledger and gen_pool (anything unrecognised is refused)",
                          "what each operation means for the control state (coq/Model/Pool.v: cprim, sexec, fprim), hand-written"],
        "note": note,
    }


SIM_ASSUME = [
    "the simulated primitives (corr/sim/kernel.py) have the semantics of the OS primitives they replace: counting "
    "semaphores without hand-off, message pipes, sentinels ready iff dead, a killed process keeps its semaphores",
    "task functions terminate (long tasks take finitely many steps) unless the scenario says otherwise",
    "schedules are sampled (seeded), not enumerated: absence of an anomaly is evidence, not proof",
]


def replay(ctx, path):
    out = replay_file(path)
    print(json.dumps(out, indent=1)[:3000])
    if out.get("status") == "stopped":
        print("the recorded schedule no longer applies to the code under /repo (an actor the schedule names was not runnable): "
              "the behaviour that was recorded cannot be reproduced on this tree")
    bad = []
    for a in out.get("anomalies", []):
        if ctx.prop not in a["props"]:
            continue
        kf = match_known(ctx.prop, a.get("sig", ""))
        if kf is not None:
            print(f"KNOWN-FINDING: property={ctx.prop} {kf['id']} reproduced by this schedule: {a.get('sig', '')[:200]}")
        else:
            bad.append(a)
            print(f"VIOLATION property={ctx.prop} replay={path} {a.get('sig', '')[:200]}")
    return 1 if bad else 0
