"""C03 — simulation-based check (real executor code on the simulated kernel) + monitors."""
from checks import simcommon as S

FAMILIES = ['plain', 'timeout', 'kill', 'resize']
PER_FAMILY = (300, 6000)


PROOF = dict(prop_file='Props/C03.v', theorems=['C03_at_most_once', 'C03_cancelled_never_executed', 'C03_cancel_is_final', 'C03_result_from_own_execution', 'C03_token_unique'], tf_families=['plain', 'timeout', 'kill', 'resize'], tf_per_family=(100, 1500),
             note='map() chunking (C03_map) is not yet in the model; value payloads are abstracted to the work id that produced them')


def run(ctx):
    return S.sim_check(ctx, FAMILIES, FAMILIES, PER_FAMILY, S.SIM_ASSUME, proof=PROOF)


def replay(ctx, path):
    return S.replay(ctx, path)
