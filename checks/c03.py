"""C03 — simulation-based check (real executor code on the simulated kernel) + monitors."""
from checks import simcommon as S

FAMILIES = ['plain', 'timeout', 'kill', 'resize']
PER_FAMILY = (300, 6000)


def run(ctx):
    return S.sim_check(ctx, FAMILIES, FAMILIES, PER_FAMILY, S.SIM_ASSUME)


def replay(ctx, path):
    return S.replay(ctx, path)
