"""C03 — simulation-based check (real executor code on the simulated kernel) + monitors."""
from checks import simcommon as S

FAMILIES = ['plain', 'timeout', 'kill', 'resize', 'spawnfail']
PER_FAMILY = (300, 6000)


PROOF = dict(prop_file='Props/C03.v', gen=['MapPath', 'Flow', 'Pool'], theorems=['C03_at_most_once', 'C03_cancelled_never_executed', 'C03_cancel_is_final', 'C03_result_from_own_execution', 'C03_token_unique', 'C03_map', 'C03_map_structure', 'C03_token_flow_follows_the_source'], tf_families=['plain', 'timeout', 'kill', 'resize'], tf_per_family=(100, 1500),
             note='value payloads are abstracted to the work id that produced them; map(): that Executor.map yields chunk results in submission order is CPython\'s')


MAP_REAL = r'''
import json
def f(a, b):
    return (a * 10 + b, a - b)
if __name__ == "__main__":
    from loky import ProcessPoolExecutor
    out = []
    with ProcessPoolExecutor(3) as e:
        for n, la, lb in ((1, 7, 7), (3, 10, 8), (4, 4, 9), (20, 5, 5), (2, 0, 3)):
            xs, ys = list(range(la)), list(range(100, 100 + lb))
            out.append([n, la, lb, [list(t) for t in e.map(f, xs, ys, chunksize=n)] == [list(t) for t in map(f, xs, ys)]])
        try:
            list(e.map(f, [1], [2], chunksize=0)); out.append(["chunksize0", "accepted"])
        except ValueError:
            out.append(["chunksize0", "ValueError"])
    print(json.dumps(out))
'''


def map_differential(ctx):
    """the real chunking functions against the builtin map and against the generated instance evaluated inside Coq"""
    import os
    import random
    import re
    import sys
    from functools import partial
    import vlib
    sys.path.insert(0, os.path.join(vlib.VERIF, "corr", "real"))
    import runner
    if sys.path[0] != vlib.REPO:
        sys.path.insert(0, vlib.REPO)
    import loky.process_executor as pe
    rng = random.Random(ctx.seed + 3)
    n_cases = 400 if ctx.tier == "quick" else 4000
    bad = []
    coq_cases = []
    for i in range(n_cases):
        k = rng.choice([1, 1, 2, 3])
        its = [[rng.randrange(50) for _ in range(rng.choice([0, 1, 2, 3, 5, 8, 13, 21, 40]))] for _ in range(k)]
        n = rng.choice([1, 1, 2, 3, 4, 7, 12, 50])
        fn = lambda *a: tuple(a)  # noqa: E731
        chunks = list(pe._get_chunks(n, *its))
        got = list(pe._chain_from_iterable_of_lists(map(partial(pe._process_chunk, fn), chunks)))
        want = list(map(fn, *its))
        if got != want:
            bad.append({"chunksize": n, "iterables": its, "got": got[:20], "want": want[:20]})
        elif any(not (0 < len(c) <= n) for c in chunks):
            bad.append({"chunksize": n, "iterables": its, "chunk_sizes": [len(c) for c in chunks]})
        if k == 1 and len(coq_cases) < 150:
            coq_cases.append((n, its[0], [x[0] for x in got]))
        # iterables that share state (the zip(it, it) idiom, generators draining one stream): builtin map takes one item from each
        # iterable per call
        base = [rng.randrange(50) for _ in range(rng.choice([0, 1, 4, 7, 12, 25]))]
        reps = rng.choice([2, 2, 3])
        it1, it2 = iter(base), iter(base)
        got2 = list(pe._chain_from_iterable_of_lists(map(partial(pe._process_chunk, fn), pe._get_chunks(n, *([it1] * reps)))))
        want2 = list(map(fn, *([it2] * reps)))
        if got2 != want2:
            bad.append({"chunksize": n, "shared_iterator_over": base, "passed_times": reps, "got": got2[:12], "want": want2[:12]})
    model_ok = None
    if os.path.exists(os.path.join(vlib.COQ, "Gen", "MapPath.vo")):
        txt = ("From Coq Require Import List Arith Bool.\nFrom LokyV Require Import Lib.MapLib Gen.MapPath.\nImport ListNotations.\n"
               "Definition run (c : nat * list nat) := match pool_map chunksize_guard chunk_slice_size chain_element_ops (fun x : nat => x) (fst c) (snd c) "
               "with Some r => r | None => [999] end.\nEval vm_compute in map run [\n  "
               + ";\n  ".join("(%d, [%s])" % (n, "; ".join(map(str, l))) for n, l, _ in coq_cases) + "].\n")
        ok, res = vlib.coq_eval(f"c03_map_{os.getpid()}", txt)
        if ok:
            flat = res[res.index("="):res.rindex(":")].replace("\n", " ")
            inner = flat[flat.index("[") + 1:flat.rindex("]")]
            rows = re.findall(r"\[([0-9; ]*)\]", inner)
            rows = [[int(x) for x in r.split(";")] if r.strip() else [] for r in rows]
            model_ok = len(rows) == len(coq_cases) and all(r == g for r, (_, _, g) in zip(rows, coq_cases))
            if not model_ok:
                j = next((j for j, (r, c) in enumerate(zip(rows, coq_cases)) if r != c[2]), 0)
                bad.append({"model_vs_real": {"case": coq_cases[j][:2], "real": coq_cases[j][2], "model": rows[j] if j < len(rows) else None}})
    res = runner.run_script(MAP_REAL, vlib.REPO, timeout=120)
    real = runner.last_json(res)
    if real is None or any(r[-1] is not True for r in real[:-1]) or real[-1] != ["chunksize0", "ValueError"]:
        bad.append({"real_executor_map": real, "stderr": res["stderr"][-300:]})
    if bad:
        rp = vlib.write_replay(ctx, "map", {"kind": "map() differs from the builtin map", "cases": bad[:5], "failing": len(bad)})
        ctx.violations.append((f"map(): {len(bad)} cases differ from the builtin map: {str(bad[0])[:140]}", rp, False))
    return {"map_cases": n_cases, "map_model_cases": len(coq_cases), "map_model_agrees": model_ok, "map_real_executor": real}


def run(ctx):
    extra = map_differential(ctx)
    return S.sim_check(ctx, FAMILIES, FAMILIES, PER_FAMILY, S.SIM_ASSUME, proof=PROOF, extra_cov=extra)


def replay(ctx, path):
    return S.replay(ctx, path)
