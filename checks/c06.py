"""C06 — Coq theorems over coq/Model/Pool.v (lists regenerated from the source) + simulation of the real executor code with monitors."""
from checks import simcommon as S

FAMILIES = ['killshutdown', 'cancelfail', 'killbadarg']
PER_FAMILY = (600, 12000)


PROOF = S.pool_proof('C06', ['C06_forced_flag_always_set', 'C06_forced_shutdown_is_prompt', 'C06_nothing_accepted_after_the_call', 'C06_structure', 'C06_own_kills_never_orphan_the_management_lock', 'C06_worker_only_probes_the_management_lock', 'C06_manager_survives_a_forced_shutdown', 'C06_failing_the_table_never_kills_the_manager', 'C06_forced_shutdown_ends_the_feeder_thread', 'C06_forced_loop_survives_the_feeder',
                     'C06_posix_kill_reaches_the_whole_tree', 'C06_psutil_kill_reaches_the_whole_tree', 'C06_quiet_tree_is_killed_entirely', 'C06_nopsutil_wrapper',
                     'C06_fork_during_the_sweep_escapes_refuted', 'C06_kill_tree_structure',
                     'C06_join_is_under_the_global_lock', 'C06_forced_effect_is_prompt_beside_another_shutdown', 'C06_forced_call_waits_for_the_other_executors_task',
                     'C06_forced_call_promptness_refuted', 'C06_without_the_lock_the_forced_call_is_prompt'],
                    'the killing of descendants: Model/KillTree.v over the regenerated statement lists of loky/backend/utils.py (every tree, both paths), tied by running the real functions on a scripted process table and by real process trees; a descendant forked during the sweep escapes (H21, known); the management lock against the kills loky performs itself is Model/KillLock.v (H10, fixed); kills from outside (H5) are outside the theorem', extra_gen=['Worker', 'KillTree'])


def run(ctx):
    from checks import realkill, killtree
    extra = realkill.forced(ctx)
    extra.update(realkill.forced_idle(ctx))
    extra.update(realkill.churn(ctx))
    extra.update(realkill.forkstorm(ctx))
    extra.update(realkill.globaljoin(ctx))
    extra.update(killtree.check(ctx))
    return S.sim_check(ctx, FAMILIES, FAMILIES, PER_FAMILY, S.SIM_ASSUME, proof=PROOF, extra_cov=extra)


def replay(ctx, path):
    return S.replay(ctx, path)
