"""C06 — Coq theorems over coq/Model/Pool.v (lists regenerated from the source) + simulation of the real executor code with monitors."""
from checks import simcommon as S

FAMILIES = ['killshutdown', 'cancelfail', 'killbadarg']
PER_FAMILY = (600, 12000)


PROOF = S.pool_proof('C06', ['C06_forced_flag_always_set', 'C06_forced_shutdown_is_prompt', 'C06_nothing_accepted_after_the_call', 'C06_structure', 'C06_own_kills_never_orphan_the_management_lock', 'C06_worker_only_probes_the_management_lock', 'C06_manager_survives_a_forced_shutdown', 'C06_failing_the_table_never_kills_the_manager', 'C06_forced_shutdown_ends_the_feeder_thread', 'C06_forced_loop_survives_the_feeder'],
                    'the killing of descendants (kill_process_tree) is checked by shape facts and by the simulation, not modelled; the management lock against the kills loky performs itself is Model/KillLock.v (H10, fixed); kills from outside (H5) are outside the theorem', extra_gen=['Worker'])


def run(ctx):
    from checks import realkill
    extra = realkill.forced(ctx)
    extra.update(realkill.churn(ctx))
    return S.sim_check(ctx, FAMILIES, FAMILIES, PER_FAMILY, S.SIM_ASSUME, proof=PROOF, extra_cov=extra)


def replay(ctx, path):
    return S.replay(ctx, path)
