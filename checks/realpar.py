"""Real-process part of C08 "actually delivered": a worker that leaves an IDLE executor through the memory-leak protection (not through an
idle time-out) must be replaced by the next submit, so that max_workers long tasks run simultaneously -- with and without an idle time-out,
plain and reusable executor."""
import os
import sys

import vlib

sys.path.insert(0, os.path.join(vlib.VERIF, "corr", "real"))
import runner  # noqa: E402

SCRIPT = r'''
import json, os, sys, time, tempfile, warnings
warnings.simplefilter("ignore")

def warm(t):
    time.sleep(t); return os.getpid()

def leaky():
    """make THIS worker believe it leaks: the next memory check (after this task) finds usage - reference above the limit"""
    import loky.process_executor as pe
    pe._MEMORY_LEAK_CHECK_DELAY = 0.0
    pe._MAX_MEMORY_LEAK_SIZE = -10 ** 15
    return os.getpid()

def long_task(d, k, secs):
    open(os.path.join(d, f"start{k}"), "w").write(repr(time.time()))
    time.sleep(secs)
    return os.getpid()

def alive(pid):
    try:
        return open(f"/proc/{pid}/stat").read().rsplit(")", 1)[1].split()[0] != "Z"
    except OSError:
        return False

if __name__ == "__main__":
    kind, timeout = sys.argv[1], (None if sys.argv[2] == "none" else float(sys.argv[2]))
    import loky.process_executor as pe
    from loky import ProcessPoolExecutor, get_reusable_executor
    d = tempfile.mkdtemp(prefix="lokyv_par_")
    n = 2
    ex = get_reusable_executor(max_workers=n, timeout=timeout) if kind == "reusable" else ProcessPoolExecutor(n, timeout=timeout)
    fs = [ex.submit(warm, 0.3) for _ in range(n)]          # both workers have run a task (their reference measurement is taken)
    pids = sorted({f.result(60) for f in fs})
    leaver = ex.submit(leaky).result(60)
    t0 = time.time()
    while alive(leaver) and time.time() - t0 < 10:
        # the leak check runs right after the task (the worker's reference measurement was taken after its warm-up task); nothing is
        # submitted meanwhile, so the worker leaves an IDLE executor.  Only if it has not left after 3 s (it had not been warmed) is the
        # pool given tiny tasks
        if time.time() - t0 > 3:
            ex.submit(warm, 0.0).result(60)
        time.sleep(0.02)
    left = not alive(leaver)
    time.sleep(0.3)                                           # the executor is idle now, one worker short
    registered_idle = len(ex._processes)
    t1 = time.time()
    ls = [ex.submit(long_task, d, k, 3.0) for k in range(n)]
    time.sleep(2.0)
    started = sorted(x for x in os.listdir(d) if x.startswith("start"))
    registered_busy = len(ex._processes)
    out = {"psutil": bool(pe._USE_PSUTIL), "kind": kind, "timeout": timeout, "worker_left_by_the_leak_path": left, "registered_when_idle": registered_idle,
           "registered_with_long_tasks": registered_busy, "long_tasks_running_after_2s": len(started), "max_workers": n}
    ex.shutdown(wait=True, kill_workers=True)
    import shutil; shutil.rmtree(d, ignore_errors=True)
    print(json.dumps(out))
'''


def leak_exit(ctx):
    plans = [("plain", "none"), ("reusable", "20")] if ctx.tier == "quick" else [("plain", "none"), ("plain", "20"), ("reusable", "20"), ("reusable", "none")]
    seen, bad = [], []
    for kind, to in plans:
        res = runner.run_script(SCRIPT, vlib.REPO, timeout=150, args=(kind, to))
        got = runner.last_json(res)
        why = []
        if got is None:
            why.append("no result: " + res["stderr"][-300:])
        elif got["psutil"] and got["worker_left_by_the_leak_path"]:
            if got["long_tasks_running_after_2s"] != got["max_workers"]:
                why.append(f"after a worker left an idle executor through the memory-leak protection, {got['long_tasks_running_after_2s']} of {got['max_workers']} "
                           f"long tasks run simultaneously ({got['registered_with_long_tasks']} workers registered; max_workers={got['max_workers']}, {kind}, timeout={to})")
        seen.append({"kind": kind, "timeout": to, "ok": not why, "observed": got})
        if why:
            bad.append({"plan": {"executor": kind, "timeout": to, "history": "warm both workers; one task makes its worker fail the memory-leak check; tiny tasks until it has left; "
                                 "then max_workers tasks of 3 s"}, "why": why, "observed": got})
    if bad:
        rp = vlib.write_replay(ctx, "leakexit", {"kind": "parallelism not delivered after a memory-leak exit", "cases": bad})
        ctx.violations.append((f"real executor: {bad[0]['why'][0][:200]}", rp, False))
    return {"real_memory_leak_exits": seen}
