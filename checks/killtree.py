"""C06, kill_process_tree: the REAL functions of loky/backend/utils.py run on a scripted operating system (a process table that answers
`pgrep -P`, os.kill and psutil's children(recursive=True) walk) against the generated programs of Gen/KillTree.v evaluated by
Model/KillTree.v inside Coq, and against the specification the theorems prove of them (post-order of the processes the sweep can see:
every one of them once, every descendant before its ancestor, the worker joined)."""
import errno
import json
import os
import random
import subprocess as real_subprocess
import sys
import types

import vlib


def gen_tree(rng, pids, depth, late_p):
    """(pid, late, [children])"""
    def node(d, may_be_late):
        p = pids.pop()
        late = may_be_late and rng.random() < late_p
        n = 0 if d >= depth or len(pids) < 12 else rng.choice([0, 0, 1, 1, 2, 3])     # never more nodes than pids drawn
        return (p, late, [node(d + 1, True) for _ in range(n)])
    return node(0, False)


def coq_tree(t):
    p, late, cs = t
    return f"PNode {p} {'true' if late else 'false'} [{'; '.join(coq_tree(c) for c in cs)}]"


def prune(t):
    p, late, cs = t
    return (p, late, [prune(c) for c in cs if not c[1]])


def postorder(t):
    out = []
    for c in t[2]:
        out += postorder(c)
    return out + [t[0]]


def all_pids(t):
    out = [t[0]]
    for c in t[2]:
        out += all_pids(c)
    return out


class ScriptedOS:
    def __init__(self, t):
        self.children, self.late, self.alive, self.kills, self.joined, self.listings = {}, {}, {}, [], 0, 0

        def walk(n):
            p, late, cs = n
            self.children[p] = [c[0] for c in cs]
            self.late[p] = late
            self.alive[p] = True
            for c in cs:
                walk(c)
        walk(t)
        self.root = t[0]
        # dynamic part: forks that happen while the killer works.  schedule = [(call index, selector)]: just before the OS answers its
        # k-th call the selected live process of the tree forks a child
        self.schedule, self.fresh, self.calls = [], [], 0
        self.born, self.listed_at, self.parent = {}, {}, {}
        for p_, cs in list(self.children.items()):
            for c in cs:
                self.parent[c] = p_

    def tick(self, listing_of=None):
        """one operating-system call: pending forks first, then the call is answered"""
        k = self.calls
        for (when, sel) in [x for x in self.schedule if x[0] == k]:
            live = [p for p in self.alive if self.alive[p]]
            if live and self.fresh:
                par = live[sel % len(live)]
                c = self.fresh.pop()
                self.children.setdefault(par, []).append(c)
                self.children[c] = []
                self.late[c] = False
                self.alive[c] = True
                self.born[c] = k
                self.parent[c] = par
        if listing_of is not None:
            for p in (listing_of() if callable(listing_of) else listing_of):
                self.listed_at.setdefault(p, k)
        self.calls += 1

    def as_tree(self):
        """the history as a static tree: a child is `late` when it was born after its parent's children were listed"""
        def node(p):
            late = p in self.born and (self.parent[p] not in self.listed_at or self.born[p] > self.listed_at[self.parent[p]])
            return (p, bool(late), [node(c) for c in self.children.get(p, [])])
        return node(self.root)

    # what the killer can see under p right now: children that exist already, of a parent that is still alive (else re-parented)
    def visible_children(self, p):
        if not self.alive.get(p):
            return []
        return [c for c in self.children.get(p, []) if not self.late[c] and self.alive[c]]

    def kill(self, p):
        self.kills.append(p)
        if not self.alive.get(p):
            return False
        self.alive[p] = False
        return True


def run_real(U, t, path, fail_platform=False, schedule=(), fresh=(), want_os=False):
    """run the real function on the scripted OS; returns (kills in order, joined count, error)"""
    osx = ScriptedOS(t)
    osx.schedule, osx.fresh = list(schedule), list(fresh)
    saved = (U.os, U.subprocess, U.psutil, U.warnings)

    def check_output(cmd, stderr=None, text=None, **kw):
        if fail_platform:
            raise FileNotFoundError(errno.ENOENT, "pgrep")
        if list(cmd[:2]) != ["pgrep", "-P"]:
            raise AssertionError(f"unexpected command {cmd}")
        osx.listings += 1
        osx.tick(listing_of=[int(cmd[2])])
        cs = osx.visible_children(int(cmd[2]))
        if not cs:
            raise real_subprocess.CalledProcessError(1, cmd)
        return "".join(f"{c}\n" for c in cs)

    def os_kill(pid, sig):
        osx.tick()
        if not osx.kill(pid):
            raise OSError(errno.ESRCH, "No such process")

    class NoSuchProcess(Exception):
        pass

    class PProcess:
        def __init__(self, pid, _checked=True):
            if _checked and not osx.alive.get(pid):
                raise NoSuchProcess(pid)
            self.pid = pid

        def children(self, recursive=False):
            # psutil/__init__.py: one snapshot of the process table, then the stack walk
            osx.tick(listing_of=lambda: list(osx.alive))
            snap = {p: list(osx.visible_children(p)) for p in osx.alive}
            if not recursive:
                return [PProcess(c, False) for c in snap[self.pid]]
            ret, seen, stack = [], set(), [self.pid]
            while stack:
                pid = stack.pop()
                if pid in seen:
                    continue
                seen.add(pid)
                for c in snap.get(pid, []):
                    ret.append(PProcess(c, False))
                    stack.append(c)
            return ret

        def kill(self):
            osx.tick()
            if not osx.kill(self.pid):
                raise NoSuchProcess(self.pid)

    class WorkerHandle:
        pid = osx.root

        def kill(self):
            osx.kill(osx.root)

        def join(self):
            osx.joined += 1
    err = None
    try:
        U.os = types.SimpleNamespace(kill=os_kill, **{k: getattr(os, k) for k in ("getpid", "name", "environ", "path")})
        U.subprocess = types.SimpleNamespace(check_output=check_output, CalledProcessError=real_subprocess.CalledProcessError)
        U.warnings = types.SimpleNamespace(warn=lambda *a, **k: None)
        if path == "psutil":
            U.psutil = types.SimpleNamespace(Process=PProcess, NoSuchProcess=NoSuchProcess)
            U.kill_process_tree(WorkerHandle(), use_psutil=True)
        else:
            U.psutil = None
            U.kill_process_tree(WorkerHandle(), use_psutil=True)
    except BaseException as e:                                   # noqa: BLE001 -- reported as the outcome
        err = f"{type(e).__name__}: {e}"[:200]
    finally:
        U.os, U.subprocess, U.psutil, U.warnings = saved
    if want_os:
        return osx.kills, osx.joined, err, osx
    return osx.kills, osx.joined, err


def children_first(kills, t):
    """every descendant (in the visible tree t) is killed before its ancestor"""
    pos = {p: i for i, p in enumerate(kills)}

    def walk(n):
        for c in n[2]:
            for d in all_pids(c):
                if d in pos and n[0] in pos and pos[d] > pos[n[0]]:
                    return (d, n[0])
            r = walk(c)
            if r:
                return r
        return None
    return walk(t)


def differential(ctx, n_cases):
    if sys.path[0] != vlib.REPO:
        sys.path.insert(0, vlib.REPO)
    import loky.backend.utils as U
    rng = random.Random(ctx.seed + 61)
    cases, bad = [], []
    shape = {"nodes": 0, "max_depth": 0, "with_late": 0}
    for i in range(n_cases):
        pids = rng.sample(range(2, 2900), 120)
        depth = rng.choice([0, 1, 2, 3, 4, 5])
        t = gen_tree(rng, pids, depth, rng.choice([0.0, 0.0, 0.15, 0.4]))
        vis = prune(t)
        spec = postorder(vis)
        shape["nodes"] += len(all_pids(t)); shape["max_depth"] = max(shape["max_depth"], depth)
        shape["with_late"] += 1 if len(all_pids(vis)) != len(all_pids(t)) else 0
        rp, jp, ep = run_real(U, t, "posix")
        ru, ju, eu = run_real(U, t, "psutil")
        rf, jf, ef = run_real(U, t, "posix", fail_platform=True)
        why = []
        for name, kills, joined, err in (("psutil-less", rp, jp, ep), ("psutil", ru, ju, eu)):
            if err:
                why.append(f"{name} path raised {err}")
                continue
            # what the property demands: every process the sweep can see is killed, nothing outside the tree is, the worker is reaped.
            # The ORDER of the kills and their multiplicity are the model's (a difference there breaks the correspondence, it is not a
            # failing input by itself)
            missed = sorted(set(spec) - set(kills))
            strangers = sorted(set(kills) - set(all_pids(t)))
            if missed:
                why.append(f"{name} path: processes of the tree that existed when the sweep looked are not killed: {missed}")
            if strangers:
                why.append(f"{name} path: processes outside the worker's tree are killed: {strangers}")
            if joined < 1:
                why.append(f"{name} path: the worker is not joined (reaped)")
        if ef or t[0] not in rf or set(rf) - set(all_pids(t)) or jf < 1:
            why.append(f"psutil-less path with a failing pgrep: kills {rf}, joined {jf}, error {ef} (expected: at least the worker itself killed, and joined)")
        if why:
            bad.append({"tree": coq_tree(t), "why": why, "psutil_less_kills": rp, "psutil_kills": ru, "specification": spec})
        cases.append((t, rp, ru, spec))
    sample = cases[:150]
    not_ready = vlib.ensure_built(["KillTree"], ["Model/KillTree.vo"])
    if not_ready:
        # the proof step of the check reports this (with the failing input found above, if any)
        return {"ok": True, "cases": len(cases), "evaluated_in_coq": 0, "shape": shape, "model_not_evaluated": not_ready,
                "against_the_specification": bad[:5], "n_against_the_specification": len(bad), "model_vs_real": [], "n_model_vs_real": 0, "error": None}
    rows = ";\n  ".join(coq_tree(t) for t, *_ in sample)
    txt = ("From Coq Require Import List Arith Bool.\nFrom LokyV Require Import Lib.KillTreeLib Gen.KillTree Model.KillTree.\nImport ListNotations.\n"
           "Definition code (t : ptree) : list (list nat) :=\n"
           "  [exec_posix posix_recursive_kill_prog t; ukills (exec_psutil psutil_kill_prog t); postorder (prune t);\n"
           "   ukills (exec_nopsutil nopsutil_wrapper_prog posix_recursive_kill_prog t true)].\n"
           f"Eval vm_compute in map code [\n  {rows}].\n")
    ok, out = vlib.coq_eval(f"c06_killtree_{os.getpid()}", txt)
    model, model_bad = None, []
    if ok and "=" in out:
        body = out.split("=", 1)[1].rsplit(":", 1)[0].replace(";", ",")
        try:
            model = json.loads(body)
        except ValueError:
            model = None
    if model is not None and len(model) == len(sample):
        for i, ((t, rp, ru, spec), m) in enumerate(zip(sample, model)):
            if m[0] != rp or m[1] != ru or m[3] != [t[0]]:
                model_bad.append({"tree": coq_tree(t), "model_psutil_less": m[0], "real_psutil_less": rp, "model_psutil": m[1], "real_psutil": ru})
            elif m[2] != spec:
                model_bad.append({"tree": coq_tree(t), "model_specification": m[2], "harness_specification": spec})
    return {"ok": ok and model is not None, "cases": len(cases), "evaluated_in_coq": len(sample), "shape": shape,
            "against_the_specification": bad[:5], "n_against_the_specification": len(bad),
            "model_vs_real": model_bad[:5], "n_model_vs_real": len(model_bad), "error": None if ok else out[-400:]}


def dynamic_differential(ctx, n_cases):
    """forks at arbitrary moments of the sweep (before / after the parent was listed, by processes forked during the sweep themselves):
    the history is turned into a tree with `late` flags (born after the parent's children were listed) and the real kills and the real
    survivors are compared with Model/KillTree.v on that tree"""
    if sys.path[0] != vlib.REPO:
        sys.path.insert(0, vlib.REPO)
    import loky.backend.utils as U
    rng = random.Random(ctx.seed + 67)
    cases, bad = [], []
    stats = {"forks": 0, "late": 0, "visible": 0}
    for i in range(n_cases):
        pool = rng.sample(range(2, 2900), 140)
        fresh_pool, pids = pool[:20], pool[20:]          # pids of processes forked during the sweep / of the initial tree: disjoint
        t = gen_tree(rng, pids, rng.choice([1, 2, 3, 4]), 0.0)
        n0 = len(all_pids(t))
        sched = sorted((rng.randint(0, 2 * n0 + 2), rng.randint(0, 10 ** 6)) for _ in range(rng.choice([1, 2, 4, 8])))
        for path in ("posix", "psutil"):
            kills, joined, err, osx = run_real(U, t, path, schedule=sched, fresh=fresh_pool, want_os=True)
            ht = osx.as_tree()
            vis = prune(ht)
            spec = postorder(vis)
            surv = sorted(p for p in osx.alive if osx.alive[p])
            want_surv = sorted(set(all_pids(ht)) - set(spec))
            stats["forks"] += len(osx.born)
            nl = len(all_pids(ht)) - len(spec)
            stats["late"] += nl; stats["visible"] += len(osx.born) - min(nl, len(osx.born))
            why = []
            if err:
                why.append(f"{path} path raised {err}")
            else:
                missed = sorted(set(spec) - set(kills))
                strangers = sorted(set(kills) - set(all_pids(ht)))
                if missed:
                    why.append(f"{path} path: processes that existed when their parent's children were listed are not killed: {missed}")
                if strangers:
                    why.append(f"{path} path: processes outside the worker's tree are killed: {strangers}")
                if joined < 1:
                    why.append(f"{path} path: the worker is not joined (reaped)")
            if why:
                bad.append({"tree": coq_tree(ht), "fork_schedule": sched, "why": why, "kills": kills, "specification": spec})
            cases.append((ht, path, kills))
    sample = cases[:160]
    not_ready = vlib.ensure_built(["KillTree"], ["Model/KillTree.vo"])
    model_bad, ok, out = [], True, ""
    if not not_ready:
        rows = ";\n  ".join(f"({'true' if path == 'psutil' else 'false'}, {coq_tree(ht)})" for ht, path, _ in sample)
        txt = ("From Coq Require Import List Arith Bool.\nFrom LokyV Require Import Lib.KillTreeLib Gen.KillTree Model.KillTree.\nImport ListNotations.\n"
               "Definition code (c : bool * ptree) : list nat :=\n"
               "  if fst c then ukills (exec_psutil psutil_kill_prog (snd c)) else exec_posix posix_recursive_kill_prog (snd c).\n"
               f"Eval vm_compute in map code [\n  {rows}].\n")
        ok, out = vlib.coq_eval(f"c06_killdyn_{os.getpid()}", txt)
        model = None
        if ok and "=" in out:
            try:
                model = json.loads(out.split("=", 1)[1].rsplit(":", 1)[0].replace(";", ","))
            except ValueError:
                model = None
        if model is None or len(model) != len(sample):
            ok = False
        else:
            for (ht, path, kills), m in zip(sample, model):
                if m != kills:
                    model_bad.append({"tree": coq_tree(ht), "path": path, "model": m, "real": kills})
    return {"ok": ok, "cases": len(cases), "evaluated_in_coq": 0 if not_ready else len(sample), "forks": stats, "model_not_evaluated": not_ready,
            "against_the_specification": bad[:5], "n_against_the_specification": len(bad), "model_vs_real": model_bad[:5],
            "n_model_vs_real": len(model_bad), "error": None if ok else out[-400:]}


def check(ctx):
    dd = dynamic_differential(ctx, 150 if ctx.tier == "quick" else 2500)
    if dd["n_against_the_specification"]:
        rp = vlib.write_replay(ctx, "killdyn", {"kind": "the real kill_process_tree, with forks at scripted moments of the sweep, does not behave as Model/KillTree.v", "detail": dd})
        ctx.violations.append((f"kill_process_tree with forks during the sweep: {dd['n_against_the_specification']} of {dd['cases']} histories: "
                               + dd["against_the_specification"][0]["why"][0][:170], rp, False))
    elif not dd["ok"] or dd["n_model_vs_real"]:
        rp = vlib.write_replay(ctx, "killdyn", {"kind": "Model/KillTree.v on the histories with forks did not run or differs from the real functions", "detail": dd})
        ctx.violations.append(("kill_process_tree with forks: model evaluation " + (f"differs on {dd['n_model_vs_real']} histories" if dd["n_model_vs_real"]
                                                                                   else "did not run: " + str(dd["error"])[:120]), rp, True))
    out = check_static(ctx)
    out["kill_tree_dynamic_differential"] = dd
    return out


def check_static(ctx):
    kd = differential(ctx, 300 if ctx.tier == "quick" else 4000)
    if kd["n_against_the_specification"]:
        rp = vlib.write_replay(ctx, "killtree", {"kind": "the real kill_process_tree on a scripted process table does not kill the tree as proved", "detail": kd})
        ctx.violations.append((f"kill_process_tree: {kd['n_against_the_specification']} of {kd['cases']} process trees: "
                               + kd["against_the_specification"][0]["why"][0][:170], rp, False))
    elif not kd["ok"] or kd["n_model_vs_real"]:
        rp = vlib.write_replay(ctx, "killtree", {"kind": "Model/KillTree.v evaluated on the generated programs did not run or differs from the real functions", "detail": kd})
        ctx.violations.append(("kill_process_tree: model evaluation " + (f"differs from the real functions on {kd['n_model_vs_real']} trees" if kd["n_model_vs_real"]
                                                                        else "did not run: " + str(kd["error"])[:120]), rp, True))
    return {"kill_tree_differential": kd}
