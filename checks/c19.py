"""C19 — nesting depth bounded exactly at LOKY_MAX_DEPTH."""
import json
import os
import random
import sys
import types

import vlib

sys.path.insert(0, os.path.join(vlib.VERIF, "corr", "real"))
import runner  # noqa: E402

PROP_FILE = "Props/C19.v"
THEOREMS = ["C19_check", "C19_iff", "C19_refused_spawns_nothing", "C19_depth_invariant", "C19_worker_sees_parent_plus_one",
            "C19_bound_partial", "C19_bound_refuted_while_loading", "C19_child_depth", "C19_max_depth_env", "C19_structure"]
ASSUME = [
    "start methods are compared by name as context.get_start_method() returns it",
    "the only writer of the per-process depth is the worker prologue (checked structurally on the source each run)",
    "process creation/spawn is an abstract event of the tree model; the OS-level spawn is exercised by the real-process scenarios",
    "a worker's phases (loading its arguments / inside the initializer / running) and when the depth variable is installed are the "
    "model's reading of popen_loky_posix.__main__ and _process_worker; the two orderings that matter are generated facts",
]
METHODS = ["loky", "loky_init_main", "spawn", "forkserver", "fork"]

NEST = r'''
import json, os, sys, time
import loky.process_executor as pe
from loky import get_reusable_executor

def probe(level, maxlevel, method):
    res = {"depth": pe._CURRENT_DEPTH}
    if level < maxlevel:
        try:
            from loky.backend import get_context
            e = pe.ProcessPoolExecutor(1, context=get_context(method))
        except pe.LokyRecursionError:
            res["child"] = "LokyRecursionError"
        else:
            try:
                res["child"] = e.submit(probe, level + 1, maxlevel, method).result(timeout=90)
            finally:
                e.shutdown(wait=True)
    return res

def depth(_):
    time.sleep(0.05)
    return (os.getpid(), pe._CURRENT_DEPTH)

if __name__ == "__main__":
    maxlevel, method = int(sys.argv[1]), sys.argv[2]
    out = {"max_depth": pe.MAX_DEPTH}
    from loky.backend import get_context
    e = pe.ProcessPoolExecutor(1, context=get_context(method if method != "fork" else "loky"))
    out["chain"] = e.submit(probe, 1, maxlevel, method).result(timeout=200)
    e.shutdown(wait=True)
    # reuse / respawn after idle time-out / resize: every worker is at depth 1
    r = get_reusable_executor(max_workers=2, timeout=0.3)
    a = sorted(set(r.map(depth, range(6))))
    time.sleep(1.0)
    b = sorted(set(r.map(depth, range(6))))
    r = get_reusable_executor(max_workers=3, timeout=0.3)
    c = sorted(set(r.map(depth, range(9))))
    out["reuse_depths"] = sorted({d for _, d in a + b + c})
    out["respawned"] = len({p for p, _ in a} & {p for p, _ in b}) < len(a)
    r.shutdown(wait=True)
    print(json.dumps(out))
'''


# user code that runs inside a worker BEFORE its main loop: the initializer (mode init) or the unpickling of the worker's
# arguments (mode load) constructs an executor -- and, for init, uses it at once.  The property: construction succeeds iff the
# worker's depth is below the limit, and a nested worker sees that depth + 1.
WINDOW = r'''
import json, os, sys
import loky.process_executor as pe
from loky.process_executor import ProcessPoolExecutor, LokyRecursionError

def depth():
    import loky.process_executor as pe
    return pe._CURRENT_DEPTH

def build(use):
    import loky, loky.process_executor as pe
    rec = {"seen": pe._CURRENT_DEPTH}
    try:
        e = ProcessPoolExecutor(1)
        rec["construct"] = "ok"
        if use:
            rec["nested"] = e.submit(depth).result(60)
            e.shutdown(wait=True)
        else:
            loky._e = e
    except LokyRecursionError:
        rec["construct"] = "LokyRecursionError"
    loky._rec = rec
    return 0

class AtUnpickle:
    def __reduce__(self):
        return (build, (False,))

def noop(*a):
    pass

def report():
    import loky, loky.process_executor as pe
    r = dict(loky._rec)
    r["depth"] = pe._CURRENT_DEPTH
    if hasattr(loky, "_e"):
        r["nested"] = loky._e.submit(depth).result(60)
        loky._e.shutdown(wait=True)
    return r

if __name__ == "__main__":
    mode = sys.argv[1]
    if mode == "init":
        e = ProcessPoolExecutor(1, initializer=build, initargs=(True,))
    else:
        e = ProcessPoolExecutor(1, initializer=noop, initargs=(AtUnpickle(),))
    out = {"max_depth": pe.MAX_DEPTH, "worker": e.submit(report).result(150)}
    e.shutdown(wait=True)
    print(json.dumps(out))
'''


def window_expected(MAX):
    # the outer worker runs at depth 1
    if MAX <= 0 or 1 < MAX:
        return {"construct": "ok", "nested": 2, "depth": 1}
    return {"construct": "LokyRecursionError", "depth": 1}


def oracle(method, MAX, d):
    return (method != "fork" or d == 0) and (MAX <= 0 or d < MAX)


def real_check(grid):
    """the real _check_max_depth under substituted module globals"""
    if sys.path[0] != vlib.REPO:
        sys.path.insert(0, vlib.REPO)
    import loky.process_executor as pe
    saved = (pe.MAX_DEPTH, pe._CURRENT_DEPTH)
    out = []
    try:
        for method, MAX, d in grid:
            pe.MAX_DEPTH, pe._CURRENT_DEPTH = MAX, d
            ctx = types.SimpleNamespace(get_start_method=lambda m=method: m)
            try:
                pe._check_max_depth(ctx)
                out.append("ok")
            except pe.LokyRecursionError:
                out.append("LokyRecursionError")
            except BaseException as e:  # noqa
                out.append(type(e).__name__)
    finally:
        pe.MAX_DEPTH, pe._CURRENT_DEPTH = saved
    return out


ENVPARSE = r'''
import json, os, sys, types
import loky.process_executor as pe
# the limit as the module read it from the environment, and the admission decisions it leads to (the variable is only substituted,
# the limit is the one parsed at import)
out = {"env": os.environ.get("LOKY_MAX_DEPTH"), "max_depth": pe.MAX_DEPTH, "admits": {}}
for d in (0, 1, 2, 9, 10, 11, 40):
    pe._CURRENT_DEPTH = d
    try:
        pe._check_max_depth(types.SimpleNamespace(get_start_method=lambda: "loky"))
        out["admits"][str(d)] = True
    except pe.LokyRecursionError:
        out["admits"][str(d)] = False
print(json.dumps(out))
'''


def env_parse(ctx):
    """LOKY_MAX_DEPTH as each process parses it at import: the limit must be int(value) -- negative and zero mean unlimited"""
    vals = ["-1", "0", "1", "3", "10", "-7"] if ctx.tier == "quick" else ["-1", "0", "1", "2", "3", "10", "11", "-7", "-100", "25"]
    bad, seen = [], []
    for v in vals:
        res = runner.run_script(ENVPARSE, vlib.REPO, env={"LOKY_MAX_DEPTH": v}, timeout=60)
        got = runner.last_json(res)
        M = int(v)
        want = {str(d): (M <= 0 or d < M) for d in (0, 1, 2, 9, 10, 11, 40)}
        ok = got is not None and got["max_depth"] == M and got["admits"] == want
        seen.append({"LOKY_MAX_DEPTH": v, "ok": ok})
        if not ok:
            bad.append({"LOKY_MAX_DEPTH": v, "expected_limit": M, "expected_admissions_by_depth": want, "got": got, "stderr": res["stderr"][-400:]})
    if bad:
        rp = vlib.write_replay(ctx, "envparse", {"kind": "the limit parsed from LOKY_MAX_DEPTH, or the admissions it leads to, deviate", "cases": bad})
        ctx.violations.append((f"LOKY_MAX_DEPTH={bad[0]['LOKY_MAX_DEPTH']}: limit read as {bad[0]['got'] and bad[0]['got']['max_depth']}, "
                               f"admissions {bad[0]['got'] and bad[0]['got']['admits']}", rp, False))
    return seen


def expected_chain(MAX, maxlevel, method):
    """what the property predicts for the nested probe"""
    def lvl(level):
        res = {"depth": level}
        if level < maxlevel:
            res["child"] = lvl(level + 1) if oracle(method, MAX, level) else "LokyRecursionError"
        return res
    return lvl(1)


def run(ctx):
    pr = vlib.prove(ctx, PROP_FILE, ["Depth"])
    rng = random.Random(ctx.seed + 19)
    grid = [(m, MAX, d) for m in METHODS for MAX in list(range(-3, 8)) + [10, 100] for d in range(0, 12)]
    grid += [(rng.choice(METHODS), rng.randint(-5, 10 ** 6), rng.randint(0, 10 ** 6)) for _ in range(400)]
    real = real_check(grid)
    fails = [(g, r) for g, r in zip(grid, real) if (r == "ok") != oracle(*g) or r not in ("ok", "LokyRecursionError")]
    disagreements = 0
    if fails:
        g, r = fails[0]
        rp = vlib.write_replay(ctx, "property", {
            "kind": "_check_max_depth differs from 'succeeds iff (not fork or d=0) and (MAX<=0 or d<MAX)'",
            "method": g[0], "MAX_DEPTH": g[1], "current_depth": g[2], "got": r,
            "expected": "ok" if oracle(*g) else "LokyRecursionError"})
        ctx.violations.append((f"depth check wrong on {len(fails)} (method, MAX, depth) triples", rp, False))
    if pr["ok"]:
        rows = "; ".join(f'(("{m}", ({M})%Z, ({d})%Z), {"false" if r == "ok" else "true"})' for (m, M, d), r in zip(grid, real))
        txt = ("From Coq Require Import List String ZArith Bool.\nFrom LokyV Require Import Lib.PyLib Gen.Depth.\n"
               "Import ListNotations.\nOpen Scope string_scope.\n"
               "Definition run (x : string * Z * Z) : bool := let '(m, M, d) := x in\n"
               "  match fst (check_max_depth m M d []) with Raise LokyRecursionError => true | _ => false end.\n"
               f"Definition cases : list ((string * Z * Z) * bool) := [{rows}].\n"
               "Eval vm_compute in (mismatches_from Bool.eqb run cases 0).\n")
        ok, out = vlib.coq_eval(f"c19_cases_{os.getpid()}", txt)
        body = out.split("=", 1)[1].split(":")[0] if ok and "=" in out else None
        idx = [int(x) for x in (body or "").replace("[", " ").replace("]", " ").replace(";", " ").split() if x.isdigit()]
        if not ok or idx:
            disagreements = len(idx) or 1
            rp = vlib.write_replay(ctx, "correspondence", {"kind": "generated model and real _check_max_depth disagree",
                                                           "cases": [grid[i] for i in idx[:5]], "coq": out[-500:]})
            if not fails:
                ctx.violations.append(("model/implementation correspondence broken", rp, True))
    envs = env_parse(ctx)
    # real processes: nesting to MAX+1, reuse / respawn / resize
    plans = [(2, "loky")] if ctx.tier == "quick" else \
        [(1, "loky"), (2, "loky"), (3, "loky"), (0, "loky"), (-1, "loky_init_main"), (2, "spawn"), (3, "fork"), (0, "fork")]
    scen = []
    for MAX, method in plans:
        maxlevel = (MAX + 2) if MAX >= 1 else 4
        res = runner.run_script(NEST, vlib.REPO, env={"LOKY_MAX_DEPTH": str(MAX)}, timeout=400, args=(maxlevel, method))
        got = runner.last_json(res)
        exp = expected_chain(MAX, maxlevel, method)
        okc = got is not None and got.get("chain") == exp and got.get("reuse_depths") == [1] and got.get("max_depth") == MAX
        scen.append({"LOKY_MAX_DEPTH": MAX, "method": method, "ok": okc, "got": got, "wall_s": res["wall_s"]})
        if not okc:
            rp = vlib.write_replay(ctx, f"nest_{MAX}_{method}", {
                "kind": "real nested executors: depths / refusal differ from the model's prediction",
                "LOKY_MAX_DEPTH": MAX, "method": method, "expected_chain": exp, "expected_reuse_depths": [1],
                "got": got, "stderr": res["stderr"][-1500:], "timed_out": res["timed_out"]})
            ctx.violations.append((f"nested run LOKY_MAX_DEPTH={MAX} method={method} deviates", rp, False))
    # executors constructed by user code that runs before the worker's main loop
    wplans = [("init", 1), ("init", 2), ("load", 1)] if ctx.tier == "quick" else \
        [("init", 1), ("init", 2), ("init", 3), ("init", 0), ("load", 1), ("load", 2), ("load", 0)]
    windows = []
    from checks import simcommon
    for mode, MAX in wplans:
        res = runner.run_script(WINDOW, vlib.REPO, env={"LOKY_MAX_DEPTH": str(MAX)}, timeout=300, args=(mode,))
        got = runner.last_json(res)
        exp = window_expected(MAX)
        w = (got or {}).get("worker") or {}
        okw = got is not None and {k: w.get(k) for k in exp} == exp and ("nested" in exp or "nested" not in w)
        windows.append({"mode": mode, "LOKY_MAX_DEPTH": MAX, "ok": okw, "got": w})
        if okw:
            continue
        sig = f"depth-check-bypassed window[{mode}] construct[{w.get('construct')}] seen[{w.get('seen')}] nested[{w.get('nested')}] MAX[{MAX}]"
        kf = simcommon.match_known("C19", sig)
        if kf is not None:
            if not any(k.startswith(kf["id"] + " ") for k in ctx.known):
                ctx.known.append(f"{kf['id']} {kf['title']}")
            continue
        rp = vlib.write_replay(ctx, f"window_{mode}_{MAX}", {
            "kind": "an executor constructed inside a worker before its main loop escapes the depth rule", "signature": sig,
            "mode": mode, "LOKY_MAX_DEPTH": MAX, "expected": exp, "got": got, "stderr": res["stderr"][-1200:]})
        ctx.violations.append((sig, rp, False))
    if not pr["ok"] and not ctx.violations:
        rp = vlib.write_replay(ctx, "broken", {"kind": "proof obligation / translation no longer checks",
                                               "detail": pr.get("broken"),
                                               "searched": f"{len(grid)} (method, MAX, depth) triples and {len(plans)} real nested runs: no failing input"})
        what = pr["broken"].get("lemma") or pr["broken"].get("kind")
        ctx.violations.append((f"{pr['broken']['kind']} ({what}) no longer checks", rp, True))
    ctx.coverage = {
        "obligations": pr.get("obligations", 0) or 1,
        "discharged": pr.get("obligations", 0) if pr["ok"] else 0,
        "checker_cmd": "cd /verif/coq && make Props/C19.vo + Print Assumptions",
        "trusted_base": vlib.TRUSTED_BASE,
        "theorems": THEOREMS, "print_assumptions": pr.get("assumptions"),
        "generated_from": pr.get("gen", {}).get("Depth", {}).get("manifest"),
        "evaluations": len(grid) + len(plans),
        "distinct_nontrivial": len(set(grid)) + len(plans),
        "rule": "grid: 5 start methods x MAX in -3..7,10,100 x depth 0..11, plus 400 random large triples, on the real "
                "_check_max_depth with substituted module globals (every triple distinct and decides one branch pair); "
                "real-process runs: executors nested to MAX+1 (or 4 when unlimited) under LOKY_MAX_DEPTH, plus "
                "reuse / idle-timeout respawn / resize depth observation",
        "traces_validated_against_impl": len(plans) + len(wplans), "startup_windows": windows,
        "disagreements_model_vs_impl": disagreements,
        "property_oracle_failures": len(fails),
        "samples": scen[:2] + [{"triple": grid[37], "real": real[37]}],
    }
    return vlib.finish(ctx, ASSUME)


def replay(ctx, path):
    r = json.load(open(path))
    if "method" in r and "current_depth" in r:
        got = real_check([(r["method"], r["MAX_DEPTH"], r["current_depth"])])[0]
        print("real:", got, "expected:", r["expected"])
        return 0 if got == r["expected"] else 1
    if "mode" in r and "signature" in r:
        res = runner.run_script(WINDOW, vlib.REPO, env={"LOKY_MAX_DEPTH": str(r["LOKY_MAX_DEPTH"])}, timeout=300, args=(r["mode"],))
        got = runner.last_json(res)
        w = (got or {}).get("worker") or {}
        exp = window_expected(r["LOKY_MAX_DEPTH"])
        print("got:", w, "expected:", exp)
        return 0 if got is not None and {k: w.get(k) for k in exp} == exp and ("nested" in exp or "nested" not in w) else 1
    maxlevel = (r["LOKY_MAX_DEPTH"] + 2) if r["LOKY_MAX_DEPTH"] >= 1 else 4
    res = runner.run_script(NEST, vlib.REPO, env={"LOKY_MAX_DEPTH": str(r["LOKY_MAX_DEPTH"])}, timeout=400,
                            args=(maxlevel, r["method"]))
    got = runner.last_json(res)
    print("got:", got)
    return 0 if got and got.get("chain") == r["expected_chain"] and got.get("reuse_depths") == [1] else 1
