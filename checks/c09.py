"""C09 — get_reusable_executor always returns a live, correctly configured singleton.
Proof over the factory program regenerated from the source (Props/C09.v); tie: every factory call observed in simulated
histories (pre-state and arguments read under the factory lock) is replayed through the generated program inside Coq and the
outcomes compared; the property monitors look at what the model does not cover (workers / threads of the previous instance,
tasks of racing threads)."""
import os
import re

import vlib
from checks import simcommon as S

FAMILIES = ["reuse", "resize", "race"]
PER_FAMILY = (500, 8000)
THEOREMS = ["C09_factory_meets_spec", "C09_returned_is_live_and_sized", "C09_previous_instance_iff", "C09_replacement_shuts_down_first",
            "C09_history", "C09_invalid_arguments_change_nothing", "C09_structure"]


def coq_case(rec):
    pre = rec["pre"]
    a = rec["args"]
    cur = "None" if pre is None else ("(Some (mkx %d %d %d %s %s false false))" % (
        pre["eid"], pre["max"], pre["kw"] if pre["kw"] is not None else 999, str(pre["broken"]).lower(), str(pre["shutdown"]).lower()))
    gk = "None" if rec["stored_kw"] is None else f"(Some {rec['stored_kw']}%nat)"
    g = f"(mkg {cur} {gk} {rec['next']}%nat [] {rec['cpu']})"
    mx = "None" if a["max"] is None else f"(Some ({a['max']}))"
    ru = {"auto": "RAuto", True: "RTrue", False: "RFalse", "True": "RTrue", "False": "RFalse"}[a["reuse"]]
    return f"(mkargs {mx} {a['kw']}%nat {ru} {str(a['kill']).lower()} (CtxObj false), {g})"


def observed(rec):
    if "post" not in rec:
        return "exc"
    p = rec["post"]
    return f"ret {int(p['is_prev'])} {p['eid']} {p['max']} {p['next']}"


def validator(ctx, batches):
    recs = {}
    n = 0
    for b in batches:
        for run in b["runs"]:
            for rec in run.get("gets") or []:
                if "post" not in rec and "error" not in rec:
                    continue            # the call never returned (reported as a hang by the monitors)
                if rec.get("prev_broke_meanwhile"):
                    continue            # the pool broke between the harness's reading of the flags and the factory's
                n += 1
                key = (coq_case(rec), observed(rec))
                recs.setdefault(key, (run["seed"], rec))
    out = {"ok": True, "failed": [], "traces": n, "events": len(recs), "cross": None}
    if not recs:
        out.update(ok=False, error="no factory call observed")
        return out
    if not os.path.exists(os.path.join(vlib.COQ, "Gen", "Reuse.vo")):
        out.update(ok=False, error="Gen/Reuse.vo missing (the translator refused or the file does not compile)")
        return out
    keys = sorted(recs)
    txt = ("From Coq Require Import List ZArith Bool Arith.\nFrom LokyV Require Import Lib.ReuseLib Gen.Reuse.\nImport ListNotations.\n"
           "Open Scope Z_scope.\n"
           "Definition show (o : out) : list Z := match o with\n"
           "  | Ret (Some x) r g => [1; if r then 1 else 0; Z.of_nat (xid x); xmax x; Z.of_nat (g_next g)]\n"
           "  | Exc _ => [2] | _ => [3] end.\n"
           "Eval vm_compute in map (fun c => show (call factory 2 (fst c) (snd c))) [\n  " + ";\n  ".join(k[0] for k in keys) + "].\n")
    ok, res = vlib.coq_eval(f"c09_cases_{os.getpid()}", txt)
    if not ok:
        out.update(ok=False, error=res[-400:])
        return out
    flat = res[res.index("="):res.rindex(":")].replace("\n", " ")
    rows = re.findall(r"\[([-0-9; ]*)\]", flat)
    rows = [[int(x) for x in r.split(";")] for r in rows if r.strip()]
    if len(rows) != len(keys):
        out.update(ok=False, error=f"{len(rows)} results for {len(keys)} cases")
        return out
    for k, row in zip(keys, rows):
        model = "exc" if row == [2] else ("bad" if row == [3] else f"ret {row[1]} {row[2]} {row[3]} {row[4]}")
        if model != k[1]:
            seed, rec = recs[k]
            out["failed"].append({"seed": seed, "call": rec, "model_says": model, "implementation_did": k[1]})
    out["sample"] = {"factory_call": recs[keys[len(keys) // 2]][1], "model_and_implementation": keys[len(keys) // 2][1]}
    return out


PROOF = {
    "prop_file": "Props/C09.v", "gen": ["Reuse"], "theorems": THEOREMS, "validator": validator,
    "model_name": "the factory program Gen/Reuse.v under Lib/ReuseLib.v",
    "checker_extra": "every observed factory call (state read under the factory lock, arguments) evaluated by vm_compute through "
                     "[call factory 2] and compared with what the implementation returned",
    "trusted_extra": ["the statement / test tables of tr/units.py:gen_reuse (anything unrecognised is refused)",
                      "the reading of the factory's state in corr/sim/explore.py (op 'get')"],
    "note": "modelled: the decision logic, ids, stored kwargs, flags, max_workers.  Not modelled (monitors + C10/C05/C06 checks): the "
            "actual number of worker processes after _resize, the joining of the previous instance's threads and workers inside "
            "shutdown(wait=True), tasks of racing threads.",
}


INTERRUPTED = r'''
import json, os, signal, sys, threading, time
# a replacement of the singleton that is interrupted by an exception while it waits inside previous.shutdown(wait=True) (the global
# shutdown lock is held by another thread, a SIGALRM handler raises in the caller), followed by the same request again: the previous
# instance must be completely shut down before the new one is returned
class Interrupted(Exception):
    pass
def on_alarm(signum, frame):
    raise Interrupted()
if __name__ == "__main__":
    from loky import get_reusable_executor
    from loky import process_executor as pe
    e1 = get_reusable_executor(max_workers=2, timeout=20)
    list(e1.map(abs, range(4)))
    fs = [e1.submit(time.sleep, 4.0) for _ in range(2)]
    time.sleep(0.6)
    old = list(e1._processes.values())
    taken = threading.Event()
    def hold(d):
        with pe._global_shutdown_lock:
            taken.set(); time.sleep(d)
    h = threading.Thread(target=hold, args=(1.5,)); h.start(); taken.wait()
    signal.signal(signal.SIGALRM, on_alarm); signal.setitimer(signal.ITIMER_REAL, 0.5)
    out = {"interrupted": False}
    try:
        get_reusable_executor(max_workers=2, timeout=21)
    except Interrupted:
        out["interrupted"] = True
    finally:
        signal.setitimer(signal.ITIMER_REAL, 0)
    h.join()
    out["old_alive_after_interrupt"] = sum(p.is_alive() for p in old)
    t0 = time.time()
    e3 = get_reusable_executor(max_workers=2, timeout=21)
    out["second_call_s"] = round(time.time() - t0, 2)
    out["old_workers_alive_at_return"] = [p.pid for p in old if p.is_alive()]
    out["ids"] = [e1.executor_id, e3.executor_id]
    out["returned_healthy"] = not (e3._flags.shutdown or e3._flags.broken) and e3 is not e1
    out["works"] = e3.submit(pow, 2, 5).result(30)
    print(json.dumps(out), flush=True)
    e3.shutdown(kill_workers=True)
    for p in old:
        try:
            os.kill(p.pid, 9)
        except OSError:
            pass
    os._exit(0)
'''


def interrupted_replacement(ctx):
    import os, sys
    import vlib
    sys.path.insert(0, os.path.join(vlib.VERIF, "corr", "real"))
    import runner
    res = runner.run_script(INTERRUPTED, vlib.REPO, timeout=120)
    return runner.last_json(res), res


def run(ctx):
    import vlib
    got, res = interrupted_replacement(ctx)
    if got is None or (got["interrupted"] and (got["old_workers_alive_at_return"] or not got["returned_healthy"] or got["ids"][1] <= got["ids"][0] or got["works"] != 32)):
        rp = vlib.write_replay(ctx, "interrupted", {"kind": "replacement interrupted inside previous.shutdown(wait=True), then the same request again", "observed": got,
                                                    "stderr": res["stderr"][-800:]})
        ctx.violations.append(("real factory: after an interrupted replacement the next call returned while the previous instance was not shut down: " + str(got)[:140], rp, False))
    return S.sim_check(ctx, FAMILIES, FAMILIES, PER_FAMILY, S.SIM_ASSUME + [
        "kwargs identity is represented by the timeout value in the generated histories (two values), the context object is the same"],
        proof=PROOF, extra_cov={"interrupted_replacement": got})


def replay(ctx, path):
    return S.replay(ctx, path)
