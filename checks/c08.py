"""C08 — Coq theorems over coq/Model/Pool.v (lists regenerated from the source) + simulation of the real executor code with monitors."""
from checks import simcommon as S

FAMILIES = ['plain', 'timeout', 'resize', 'saturate', 'satreuse']
PER_FAMILY = (300, 6000)


PROOF = S.pool_proof('C08', ['C08_never_more_than_max', 'C08_accepted_submit_fills_the_pool', 'C08_registered_job_always_has_a_worker_coming', 'C08_structure'],
                    "'max_workers tasks do run simultaneously' is observed in the saturate / satreuse families (the model counts registered workers, not running tasks); max_workers changes by _resize are not modelled; the reusable executor's fixed queue capacity bounds the delivered parallelism (H19, known)", extra_gen=['Resize'])


def run(ctx):
    return S.sim_check(ctx, FAMILIES, FAMILIES, PER_FAMILY, S.SIM_ASSUME, proof=PROOF)


def replay(ctx, path):
    return S.replay(ctx, path)
