"""C08 — Coq theorems over coq/Model/Pool.v (lists regenerated from the source) + simulation of the real executor code with monitors."""
from checks import simcommon as S

FAMILIES = ['plain', 'timeout', 'resize', 'saturate', 'satreuse', 'leakexit']
PER_FAMILY = (300, 6000)


PROOF = S.pool_proof('C08', ['C08_never_more_than_max', 'C08_accepted_submit_fills_the_pool', 'C08_registered_job_always_has_a_worker_coming', 'C08_structure',
                     'C08_plain_executor_delivers_its_parallelism', 'C08_reusable_executor_delivers_up_to_its_queue_capacity', 'C08_delivered_parallelism_partial',
                     'C08_delivered_parallelism_refuted_for_small_queues', 'C08_wake_on_take_would_deliver',
                     'C08_worker_taking_an_item_tells_nobody', 'C08_loky_small_queue_starves'],
                    "'max_workers tasks do run simultaneously': Model/QueueCap.v (counters; capacity formulas regenerated from the source) + the saturate / satreuse families, whose settled states must meet the proved bound; max_workers changes by _resize are not modelled; the reusable executor's fixed queue capacity bounds the delivered parallelism (H19, known)", extra_gen=['Resize', 'Worker'])


def run(ctx):
    from checks import realpar
    extra = realpar.leak_exit(ctx)
    return S.sim_check(ctx, FAMILIES, FAMILIES, PER_FAMILY, S.SIM_ASSUME, proof=PROOF, extra_cov=extra)


def replay(ctx, path):
    return S.replay(ctx, path)
