"""C04 — simulation-based check (real executor code on the simulated kernel) + monitors."""
from checks import simcommon as S

FAMILIES = ['plain', 'full', 'timeout', 'shutdown', 'callback', 'excs']
PER_FAMILY = (300, 6000)


PROOF = dict(prop_file='Props/C04.v', gen=['Worker', 'Flow', 'Pool', 'LockOrder'], theorems=['C04_one_future_per_step', 'C04_slots_conserved', 'C04_slots_invariant', 'C04_token_unique', 'C04_worker_contains_task_failures', 'C04_worker_sends_nothing_without_an_item', 'C04_token_flow_follows_the_source', 'C04_callbacks_run_outside_the_locks', 'C04_exception_transport'], tf_families=['plain', 'full', 'timeout', 'shutdown'], tf_per_family=(100, 1500),
             note="exception types / __cause__ of the failed future and the 'pool stays unbroken' clause are decided by the simulation monitors, not by a theorem")


class ZooStateful(Exception):
    def __init__(self, code, detail):
        super().__init__(f"failed with {code}")
        self.code, self.detail = code, detail

    def __reduce__(self):
        return (ZooStateful, (self.code, self.detail))


class ZooDictState(Exception):
    pass


def transport_zoo(ctx):
    """_ExceptionWithTraceback round trip (the way a task's exception reaches the parent) for exceptions that are not type(e)(*e.args):
    the arrival must equal a plain pickle round trip of the instance in type, args and attributes, and carry the remote traceback"""
    import json, pickle, subprocess, sys
    import vlib
    if sys.path[0] != vlib.REPO:
        sys.path.insert(0, vlib.REPO)
    import loky.process_executor as pe

    def make():
        out = []
        def add(fn):
            try:
                fn()
            except BaseException as e:  # noqa
                out.append(e)
        add(lambda: json.loads('{"a": '))
        add(lambda: open("/nonexistent/zoo/file"))
        add(lambda: (_ for _ in ()).throw(ZooStateful(7, ["d", 1])))
        def dict_state():
            e = ZooDictState("msg", 2); e.extra = {"k": (1, 2)}; raise e
        add(dict_state)
        add(lambda: (_ for _ in ()).throw(ImportError("no module", name="modname", path="/p")))
        add(lambda: b"\xff".decode("utf-8"))
        add(lambda: (_ for _ in ()).throw(subprocess.CalledProcessError(3, ["cmd", "x"], output=b"o", stderr=b"e")))
        add(lambda: (_ for _ in ()).throw(SystemExit(3)))
        add(lambda: (_ for _ in ()).throw(KeyboardInterrupt()))
        add(lambda: (_ for _ in ()).throw(KeyError("k")))
        add(lambda: (_ for _ in ()).throw(StopIteration(5)))
        add(lambda: (_ for _ in ()).throw(ExceptionGroup("grp", [ValueError(1), TypeError("t")])))
        add(lambda: 1 / 0)
        return out

    def view(e):
        d = {k: repr(v) for k, v in sorted(vars(e).items())} if hasattr(e, "__dict__") else {}
        special = {a: repr(getattr(e, a)) for a in ("errno", "filename", "name", "path", "pos", "doc", "lineno", "colno", "returncode", "cmd", "output",
                                                    "stderr", "code", "value", "object", "start", "end", "reason", "encoding", "exceptions", "message")
                   if hasattr(e, a)}
        return (type(e).__module__ + "." + type(e).__qualname__, repr(e.args), d, special)
    bad, n = [], 0
    for e in make():
        n += 1
        try:
            base = pickle.loads(pickle.dumps(e))
            got = pickle.loads(pickle.dumps(pe._ExceptionWithTraceback(e)))
        except BaseException as ex:  # noqa
            bad.append({"exception": repr(e)[:80], "transport_raised": repr(ex)[:160]})
            continue
        if view(got) != view(base):
            bad.append({"exception": repr(e)[:80], "arrived": str(view(got))[:300], "plain_pickle_round_trip": str(view(base))[:300]})
        elif not isinstance(got.__cause__, pe._RemoteTraceback) or "Traceback" not in str(got.__cause__):
            bad.append({"exception": repr(e)[:80], "cause": repr(got.__cause__)[:120]})
    return {"exceptions": n, "deviations": bad}


def run(ctx):
    import vlib
    z = transport_zoo(ctx)
    if z["deviations"]:
        rp = vlib.write_replay(ctx, "transport", {"kind": "a task's exception does not reach the parent as it was raised", "detail": z})
        ctx.violations.append((f"exception transport: {len(z['deviations'])} of {z['exceptions']} exceptions arrive changed or break the transport: "
                               + str(z["deviations"][0])[:180], rp, False))
    return S.sim_check(ctx, FAMILIES, FAMILIES, PER_FAMILY, S.SIM_ASSUME, proof=PROOF, extra_cov={"exception_transport_zoo": z})


def replay(ctx, path):
    return S.replay(ctx, path)
