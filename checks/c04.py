"""C04 — simulation-based check (real executor code on the simulated kernel) + monitors."""
from checks import simcommon as S

FAMILIES = ['plain', 'full', 'timeout', 'shutdown', 'callback']
PER_FAMILY = (300, 6000)


PROOF = dict(prop_file='Props/C04.v', gen=['Worker', 'Flow', 'Pool', 'LockOrder'], theorems=['C04_one_future_per_step', 'C04_slots_conserved', 'C04_slots_invariant', 'C04_token_unique', 'C04_worker_contains_task_failures', 'C04_worker_sends_nothing_without_an_item', 'C04_token_flow_follows_the_source', 'C04_callbacks_run_outside_the_locks'], tf_families=['plain', 'full', 'timeout', 'shutdown'], tf_per_family=(100, 1500),
             note="exception types / __cause__ of the failed future and the 'pool stays unbroken' clause are decided by the simulation monitors, not by a theorem")


def run(ctx):
    return S.sim_check(ctx, FAMILIES, FAMILIES, PER_FAMILY, S.SIM_ASSUME, proof=PROOF)


def replay(ctx, path):
    return S.replay(ctx, path)
