"""_ExecutorManagerThread.wait_result_broken_or_wakeup, statement by statement, as a program over the vocabulary of
coq/Lib/DetectLib.v: what the manager thread waits on, and how it decides between "a result", "a wake-up" and "the pool is
broken".  Logging and the construction of the error texts are dropped (the exit-code part of the message is the Exit unit);
anything else is refused."""
import ast

from pytr import Refuse, find_function, strip_docstring

LOG = ("mp.util.info(", "mp.util.debug(")


def gen_detect(repo, read):
    src, tree = read(repo, "loky/process_executor.py")
    un = ast.unparse
    fn = find_function(tree, "_ExecutorManagerThread.wait_result_broken_or_wakeup")
    body = strip_docstring(fn.body)

    def lst(l):
        return "[" + "; ".join(l) + "]"

    def bpe_kind(s):
        t = un(s)
        if not (isinstance(s, ast.Assign) and un(s.targets[0]) == "bpe"):
            return None
        if t.startswith("bpe = BrokenProcessPool('A task has failed to un-serialize."):
            return "DSetBpe BTaskUnserialize"
        if t.startswith("bpe = BrokenProcessPool('A result has failed to un-serialize."):
            return "DSetBpe BResultUnserialize"
        if t.startswith("bpe = TerminatedWorkerError("):
            return "DSetBpe BTerminatedWorker"
        if t == "bpe = None":
            return "DSetBpeNone"
        return None

    def stmts(lst_):
        out = []
        for s in lst_:
            t = un(s)
            if isinstance(s, ast.Expr) and t.startswith(LOG):
                continue
            k = bpe_kind(s)
            if k is not None:
                out.append(k)
            elif t in ("bpe.__cause__ = result_item", "bpe.__cause__ = _RemoteTraceback(''.join(tb))") or t.startswith("tb = traceback.format_exception("):
                continue
            elif t == "exit_codes = ''" or (isinstance(s, ast.If) and un(s.test) == "sys.platform != 'win32'"
                                             and all(isinstance(x, ast.Assign) and un(x.targets[0]) == "exit_codes" for x in s.body) and not s.orelse):
                continue
            elif t == "result_reader = self.result_queue._reader":
                out.append("DBindResultReader")
            elif t == "wakeup_reader = self.thread_wakeup._reader":
                out.append("DBindWakeupReader")
            elif t == "readers = [result_reader, wakeup_reader]":
                out.append("DReadersAreResultAndWakeup")
            elif t == "worker_sentinels = [p.sentinel for p in list(self.processes.values())]":
                out.append("DSentinelsOfAllRegistered")
            elif t == "ready = wait(readers + worker_sentinels)":
                out.append("DWaitUntimed")
            elif t == "is_broken = True":
                out.append("DSetBroken true")
            elif t == "is_broken = False":
                out.append("DSetBroken false")
            elif t == "result_item = None":
                out.append("DSetItemNone")
            elif t == "result_item = result_reader.recv()":
                out.append("DRecv")
            elif isinstance(s, ast.If) and un(s.test) == "result_reader in ready":
                out.append(f"DIfResultReady {lst(stmts(s.body))} {lst(stmts(s.orelse))}")
            elif isinstance(s, ast.If) and un(s.test) == "wakeup_reader in ready":
                out.append(f"DIfWakeupReady {lst(stmts(s.body))} {lst(stmts(s.orelse))}")
            elif isinstance(s, ast.If) and un(s.test) == "isinstance(result_item, _RemoteTraceback)":
                out.append(f"DIfRemoteTraceback {lst(stmts(s.body))} {lst(stmts(s.orelse))}")
            elif isinstance(s, ast.Try):
                if len(s.handlers) != 1 or un(s.handlers[0].type) != "BaseException" or s.finalbody or s.orelse:
                    raise Refuse("wait_result_broken_or_wakeup: the recv is no longer guarded by one `except BaseException`")
                out.append(f"DTry {lst(stmts(s.body))} {lst(stmts(s.handlers[0].body))}")
            elif t == "self.thread_wakeup.clear()":
                out.append("DClearWakeup")
            elif t == "return (result_item, is_broken, bpe)":
                out.append("DReturn")
            else:
                raise Refuse(f"wait_result_broken_or_wakeup: statement outside the vocabulary: {t[:100]}", s)
        return out
    prog = stmts(body)
    # _ThreadWakeup: the three methods, each guarded by the closed flag
    tw = {}
    wk = [un(x) for x in strip_docstring(find_function(tree, "_ThreadWakeup.wakeup").body)]
    wakeup_plain = wk == ["if not self._closed:\n    self._writer.send_bytes(b'')"]
    wakeup_skips = wk == ["if not self._closed and (not self._reader.poll()):\n    self._writer.send_bytes(b'')"]
    for name, want in (("wakeup", wk[0] if (wakeup_plain or wakeup_skips) else "<neither shape>"),
                       ("clear", "if not self._closed:\n    while self._reader.poll():\n        self._reader.recv_bytes()"),
                       ("close", "if not self._closed:\n    self._closed = True\n    self._writer.close()\n    self._reader.close()")):
        b = [un(x) for x in strip_docstring(find_function(tree, "_ThreadWakeup." + name).body)]
        tw[name] = b == [want]
    bl = lambda x: "true" if x else "false"  # noqa: E731
    text = ("(* GENERATED by /verif/tr from /repo's working tree -- do not edit.  source: loky/process_executor.py "
            "(_ExecutorManagerThread.wait_result_broken_or_wakeup, _ThreadWakeup) *)\n"
            "From Coq Require Import List Bool.\nFrom LokyV Require Import Lib.DetectLib.\nImport ListNotations.\n"
            f"Definition wait_prog : list dstmt := {lst(prog)}.\n"
            f"Definition wakeup_writes_one_message_unless_closed : bool := {bl(tw['wakeup'])}.\n"
            f"Definition wakeup_writes_only_when_nothing_is_pending : bool := {bl(wakeup_skips)}.\n"
            f"Definition clear_drains_every_message_unless_closed : bool := {bl(tw['clear'])}.\n"
            f"Definition close_closes_both_ends_once : bool := {bl(tw['close'])}.\n")
    return text, {"program": prog, "thread_wakeup": tw}
