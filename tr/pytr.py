"""Fail-closed Python-ast -> Gallina translator (typed, explicit local state).

Each *unit* names a function (or a statement region inside one) of /repo's current
source.  The translator type-checks the region against a small table of known
primitives and emits a Gallina `stm L R` term over coq/Lib/PyLib.v.  Anything outside
the subset raises Refuse: nothing is emitted for the unit and the driver treats every
theorem depending on it as unchecked (DESIGN 3.1).

Types: 'int' 'str' 'bool' 'unit' ('list',T) ('dict',V) ('tuple',(T..)) ('opt',T)
       ('ext', coqtype) for opaque model-level values.
"""
import ast
import hashlib
import textwrap


class Refuse(Exception):
    def __init__(self, msg, node=None):
        if node is not None and hasattr(node, "lineno"):
            msg = f"{msg} (line {node.lineno}: {ast.dump(node)[:120]})"
        super().__init__(msg)


# --------------------------------------------------------------------------- types
def coq_type(t):
    if t == "int":
        return "Z"
    if t == "str":
        return "string"
    if t == "bool":
        return "bool"
    if t == "unit":
        return "unit"
    if t == "dyn":
        return "dyn"
    if isinstance(t, tuple):
        if t[0] == "list":
            return f"(list {coq_type(t[1])})"
        if t[0] == "dict":
            return f"(dict {coq_type(t[1])})"
        if t[0] == "opt":
            return f"(option {coq_type(t[1])})"
        if t[0] == "tuple":
            return "(" + " * ".join(coq_type(x) for x in t[1]) + ")%type"
        if t[0] == "ext":
            return t[1]
    raise Refuse(f"no Coq type for {t!r}")


def coq_default(t):
    if t == "int":
        return "0%Z"
    if t == "str":
        return "EmptyString"
    if t == "bool":
        return "false"
    if t == "unit":
        return "tt"
    if t == "dyn":
        return "DNone"
    if isinstance(t, tuple):
        if t[0] in ("list", "dict"):
            return "[]"
        if t[0] == "opt":
            return "None"
        if t[0] == "tuple":
            return "(" + ", ".join(coq_default(x) for x in t[1]) + ")"
        if t[0] == "ext":
            return t[2]
    raise Refuse(f"no default for {t!r}")


def coq_str(s):
    """Coq string literal for an ASCII python str."""
    if isinstance(s, bytes):
        s = s.decode("latin1")
    if all(32 <= ord(c) < 127 for c in s):
        return '"' + s.replace('"', '""') + '"'
    return "(bs [" + "; ".join(str(ord(c)) for c in s) + "])"


def eqb_for(t):
    if t == "int":
        return "Z.eqb"
    if t == "str":
        return "String.eqb"
    if t == "bool":
        return "Bool.eqb"
    if t == "dyn":
        return "dyn_eqb"
    if isinstance(t, tuple) and t[0] == "opt":
        return f"(opt_eqb {eqb_for(t[1])})"
    if isinstance(t, tuple) and t[0] == "list":
        return f"(list_eqb {eqb_for(t[1])})"
    raise Refuse(f"no equality for {t!r}")


# --------------------------------------------------------------------------- unit
class Unit:
    """One translated function.

    params   : list of (pyname, type)  -- python parameters / free inputs
    globals_ : pyname -> (coq term, type)  constant expressions for module globals
    calls    : dotted call name -> handler(translator, node, args) -> (term, type)
    drop     : set of dotted call-name prefixes whose Expr-statements are dropped
    effects  : dotted call name -> tag ; Expr-statement calls recorded as effects
    """

    def __init__(self, name, params, ret="unit", globals_=None, calls=None, drop=(),
                 effects=None, local_types=None, methods=None, oracle_calls=None,
                 funcs=None, global_state=None, captured=(), drop_stmt=(), static=None, imports=None, fs_term=None):
        self.name = name
        self.params = list(params)
        self.ret = ret
        self.globals_ = dict(globals_ or {})
        self.calls = dict(calls or {})
        self.drop = tuple(drop)
        self.effects = dict(effects or {})
        self.local_types = dict(local_types or {})
        self.methods = dict(methods or {})
        self.oracle_calls = dict(oracle_calls or {})
        self.funcs = dict(funcs or {})          # pyname -> Unit (generated callee)
        self.global_state = dict(global_state or {})  # `global x` variables: name -> type
        self.captured = list(captured)          # closure variables of a nested def: (name, type)
        self.drop_stmt = tuple(drop_stmt)       # predicates on statements that are dropped
        self.static = dict(static or {})        # source text of a test -> statically known truth
        self.imports = dict(imports or {})      # module name -> Coq term : option exn (import may fail)
        self.fs_term = fs_term                  # Coq term : dict string, the file-system oracle


DEFAULT_DROP = ("util.debug", "util.info", "mp.util.debug", "mp.util.info",
                "warnings.warn", "util.log_to_stderr", "mp.util.sub_debug")


def dotted(node):
    if isinstance(node, ast.Name):
        return node.id
    if isinstance(node, ast.Attribute):
        b = dotted(node.value)
        return None if b is None else b + "." + node.attr
    return None


class Translator:
    def __init__(self, unit, stmts):
        self.u = unit
        self.stmts = stmts
        self.vars = {}      # pyname -> type (locals incl. params), in order
        for n, t in unit.params:
            self.vars[n] = t
        for n, t in unit.captured:
            self.vars[n] = t
        for n, t in unit.global_state.items():
            self.vars[n] = t
        for n, t in unit.local_types.items():
            self.vars[n] = t
        self.vars["_eff"] = ("list", ("ext", "eff", "EReport"))
        self.P = unit.name
        self.hoisted = []   # (name, term): loop bodies emitted as their own definitions
        self.filehandles = set()

    def hoist(self, term):
        name = f"{self.P}_loop{len(self.hoisted) + 1}"
        self.hoisted.append((name, term))
        return name

    # ------------------------------------------------------------- naming
    def fld(self, v):
        return f"{self.P}_v_{v.lstrip('_') if v != '_eff' else 'eff'}"

    def setter(self, v):
        return f"{self.P}_set_{v.lstrip('_') if v != '_eff' else 'eff'}"

    def declare(self, v, t, node=None):
        old = self.vars.get(v)
        if old is None:
            self.vars[v] = t
        elif old != t:
            raise Refuse(f"variable {v} used at types {old!r} and {t!r}", node)

    # ------------------------------------------------------------- expressions
    # returns (term : L -> res T, T)
    def expr(self, n, defined):
        u = self.u
        if isinstance(n, ast.Constant):
            v = n.value
            if isinstance(v, bool):
                return f"(pure {'true' if v else 'false'})", "bool"
            if isinstance(v, int):
                return f"(pure ({v})%Z)", "int"
            if isinstance(v, (str, bytes)):
                return f"(pure {coq_str(v)})", "str"
            if v is None:
                return "(pure None)", ("opt", "?")
            raise Refuse("constant", n)
        if isinstance(n, ast.Name):
            if n.id in self.vars and n.id not in u.globals_:
                if n.id not in defined:
                    raise Refuse(f"variable {n.id} may be read before assignment", n)
                return f"(rd {self.fld(n.id)})", self.vars[n.id]
            if n.id in u.globals_:
                term, t = u.globals_[n.id]
                return f"(pure {term})", t
            raise Refuse(f"unknown name {n.id}", n)
        if isinstance(n, ast.Attribute):
            d = dotted(n)
            if d in u.globals_:
                term, t = u.globals_[d]
                return f"(pure {term})", t
            raise Refuse(f"unknown attribute {d}", n)
        if isinstance(n, ast.Tuple):
            parts = [self.expr(e, defined) for e in n.elts]
            if len(parts) == 2:
                return (f"(ap2 (lift2 pair) {parts[0][0]} {parts[1][0]})",
                        ("tuple", (parts[0][1], parts[1][1])))
            if len(parts) == 3:
                return (f"(ap3 (lift3 (fun a b c => (a, b, c))) {parts[0][0]} {parts[1][0]} {parts[2][0]})",
                        ("tuple", tuple(p[1] for p in parts)))
            raise Refuse("tuple arity", n)
        if isinstance(n, ast.BoolOp) and isinstance(n.op, ast.Or) and len(n.values) == 2:
            a, ta = self.expr(n.values[0], defined)
            if ta == ("opt", "int"):
                b, tb = self.expr(n.values[1], defined)
                if tb != "int":
                    raise Refuse("`opt int or x` needs an int default", n)
                return f"(ap2 (lift2 opt_int_or) {a} {b})", "int"
        if isinstance(n, ast.BoolOp):
            parts = [self.truth(e, defined) for e in n.values]
            op = "e_and" if isinstance(n.op, ast.And) else "e_or"
            term = parts[-1]
            for p in reversed(parts[:-1]):
                term = f"({op} {p} {term})"
            return term, "bool"
        if isinstance(n, ast.UnaryOp):
            if isinstance(n.op, ast.Not):
                return f"(e_not {self.truth(n.operand, defined)})", "bool"
            if isinstance(n.op, ast.USub):
                if isinstance(n.operand, ast.Constant) and isinstance(n.operand.value, int) \
                        and not isinstance(n.operand.value, bool):
                    return f"(pure ({-n.operand.value})%Z)", "int"
                t, ty = self.expr(n.operand, defined)
                if ty != "int":
                    raise Refuse("unary minus on non-int", n)
                return f"(ap1 (lift1 Z.opp) {t})", "int"
            raise Refuse("unary op", n)
        if isinstance(n, ast.IfExp):
            c = self.truth(n.test, defined)
            a, ta = self.expr(n.body, defined)
            b, tb = self.expr(n.orelse, defined)
            ta, tb = self.unify(ta, tb, n)
            return f"(e_if {c} {a} {b})", ta
        if isinstance(n, ast.Compare):
            return self.compare(n, defined)
        if isinstance(n, ast.BinOp):
            return self.binop(n, defined)
        if isinstance(n, ast.Subscript):
            return self.subscript(n, defined)
        if isinstance(n, ast.Call):
            return self.call(n, defined)
        if isinstance(n, ast.DictComp):
            return self.dictcomp(n, defined)
        if isinstance(n, ast.JoinedStr):
            # f-strings only matter as messages; value abstracted
            return '(pure "<fstring>")', "str"
        raise Refuse("expression form", n)

    def inject(self, term, t, node=None):
        """coerce an expression of type t to dyn"""
        if t == "dyn":
            return term
        if t == "int":
            return f"(ap1 (lift1 DInt) {term})"
        if t == "str":
            return f"(ap1 (lift1 DStr) {term})"
        if t == ("opt", "?"):
            return "(pure DNone)"
        if t == ("opt", "int"):
            return f"(ap1 (lift1 dyn_of_opt_int) {term})"
        if t == ("opt", "str"):
            return f"(ap1 (lift1 dyn_of_opt_str) {term})"
        raise Refuse(f"cannot inject {t!r} into dyn", node)

    def as_num(self, term, t, node=None):
        if t == "int":
            return term
        if t == "dyn":
            return f"(ap1 dyn_num {term})"
        raise Refuse(f"number expected, got {t!r}", node)

    def unify(self, a, b, n):
        if a == b:
            return a, b
        if isinstance(a, tuple) and a[0] == "opt" and a[1] == "?":
            if isinstance(b, tuple) and b[0] == "opt":
                return b, b
        if isinstance(b, tuple) and b[0] == "opt" and b[1] == "?":
            if isinstance(a, tuple) and a[0] == "opt":
                return a, a
        raise Refuse(f"type mismatch {a!r} vs {b!r}", n)

    def truth(self, n, defined):
        term, t = self.expr(n, defined)
        if t == "bool":
            return term
        if t == "dyn":
            return f"(ap1 (lift1 dyn_truth) {term})"
        if t == "int":
            return f"(ap1 (lift1 (fun z => negb (Z.eqb z 0))) {term})"
        if t == "str":
            return f"(ap1 (lift1 (fun s => negb (String.eqb s EmptyString))) {term})"
        if isinstance(t, tuple) and t[0] in ("list", "dict"):
            return f"(ap1 (lift1 (fun d => match d with [] => false | _ => true end)) {term})"
        if isinstance(t, tuple) and t[0] == "opt":
            inner = t[1]
            if inner in ("int", "str", "bool") or (isinstance(inner, tuple) and inner[0] in ("list", "dict")):
                raise Refuse("truthiness of optional of falsy-capable type", n)
            return f"(ap1 (lift1 (fun o => match o with Some _ => true | None => false end)) {term})"
        raise Refuse(f"truthiness of {t!r}", n)

    def compare(self, n, defined):
        if len(n.ops) == 2 and all(isinstance(o, (ast.Lt, ast.LtE)) for o in n.ops):
            # a < b <= c
            first = ast.Compare(left=n.left, ops=[n.ops[0]], comparators=[n.comparators[0]])
            second = ast.Compare(left=n.comparators[0], ops=[n.ops[1]], comparators=[n.comparators[1]])
            a, _ = self.compare(first, defined)
            b, _ = self.compare(second, defined)
            return f"(e_and {a} {b})", "bool"
        if len(n.ops) != 1:
            raise Refuse("chained comparison", n)
        op = n.ops[0]
        r = n.comparators[0]
        # x is None / x is not None
        if isinstance(op, (ast.Is, ast.IsNot)):
            if not (isinstance(r, ast.Constant) and r.value is None):
                raise Refuse("`is` only against None", n)
            l, tl = self.expr(n.left, defined)
            if tl == "dyn":
                f = "dyn_is_none" if isinstance(op, ast.Is) else "(fun d => negb (dyn_is_none d))"
                return f"(ap1 (lift1 {f}) {l})", "bool"
            if not (isinstance(tl, tuple) and tl[0] == "opt"):
                raise Refuse(f"`is None` on non-optional {tl!r}", n)
            f = "(fun o => match o with None => true | Some _ => false end)"
            if isinstance(op, ast.IsNot):
                f = "(fun o => match o with None => false | Some _ => true end)"
            return f"(ap1 (lift1 {f}) {l})", "bool"
        l, tl = self.expr(n.left, defined)
        rr, tr = self.expr(r, defined)
        if isinstance(op, (ast.In, ast.NotIn)):
            if isinstance(tr, tuple) and tr[0] == "dict" and tl == "str":
                f = "(fun k d => dmem d k)"
            elif isinstance(tr, tuple) and tr[0] == "list" and tr[1] == tl:
                f = f"(fun k d => existsb ({eqb_for(tl)} k) d)"
            else:
                raise Refuse(f"`in` on {tl!r} / {tr!r}", n)
            if isinstance(op, ast.NotIn):
                f = f"(fun k d => negb ({f} k d))"
            return f"(ap2 (lift2 {f}) {l} {rr})", "bool"
        if tl == "dyn" or tr == "dyn":
            l, rr = self.inject(l, tl, n), self.inject(rr, tr, n)
            if isinstance(op, ast.Eq):
                return f"(ap2 (lift2 dyn_eqb) {l} {rr})", "bool"
            if isinstance(op, ast.NotEq):
                return f"(ap2 (lift2 (fun a b => negb (dyn_eqb a b))) {l} {rr})", "bool"
            if isinstance(op, ast.Lt):
                return f"(ap2 dyn_ltb {l} {rr})", "bool"
            if isinstance(op, ast.LtE):
                return f"(ap2 dyn_leb {l} {rr})", "bool"
            if isinstance(op, ast.Gt):
                return f"(ap2 dyn_ltb {rr} {l})", "bool"
            if isinstance(op, ast.GtE):
                return f"(ap2 dyn_leb {rr} {l})", "bool"
            raise Refuse("comparison on dyn", n)
        tl, tr = self.unify(tl, tr, n)
        if isinstance(op, (ast.Eq, ast.NotEq)):
            f = eqb_for(tl)
            if isinstance(op, ast.NotEq):
                f = f"(fun a b => negb ({f} a b))"
            return f"(ap2 (lift2 {f}) {l} {rr})", "bool"
        if tl != "int":
            raise Refuse("ordering on non-int", n)
        f = {ast.Lt: "Z.ltb", ast.LtE: "Z.leb", ast.Gt: "Z.gtb", ast.GtE: "Z.geb"}.get(type(op))
        if f is None:
            raise Refuse("comparison op", n)
        return f"(ap2 (lift2 {f}) {l} {rr})", "bool"

    def binop(self, n, defined):
        l, tl = self.expr(n.left, defined)
        r, tr = self.expr(n.right, defined)
        if {tl, tr} <= {"int", "dyn"} and "dyn" in (tl, tr) and not isinstance(n.op, ast.Div):
            l, r, tl, tr = self.as_num(l, tl, n), self.as_num(r, tr, n), "int", "int"
        if tl == "int" and tr == "int":
            f = {ast.Add: "Z.add", ast.Sub: "Z.sub", ast.Mult: "Z.mul"}.get(type(n.op))
            if f:
                return f"(ap2 (lift2 {f}) {l} {r})", "int"
            if isinstance(n.op, ast.FloorDiv):
                return f"(ap2 py_floordiv {l} {r})", "int"
            if isinstance(n.op, ast.Mod):
                return f"(ap2 py_mod {l} {r})", "int"
        if tl == "str" and tr == "str" and isinstance(n.op, ast.Add):
            return f"(ap2 (lift2 append) {l} {r})", "str"
        if (isinstance(tl, tuple) and tl[0] == "list" and tl == tr
                and isinstance(n.op, ast.Add)):
            return f"(ap2 (lift2 (@app _)) {l} {r})", tl
        raise Refuse(f"binop on {tl!r},{tr!r}", n)

    def const_int(self, n):
        if isinstance(n, ast.Constant) and isinstance(n.value, int):
            return n.value
        if (isinstance(n, ast.UnaryOp) and isinstance(n.op, ast.USub)
                and isinstance(n.operand, ast.Constant)):
            return -n.operand.value
        return None

    def subscript(self, n, defined):
        base, tb = self.expr(n.value, defined)
        s = n.slice
        if isinstance(s, ast.Slice):
            if not (isinstance(tb, tuple) and tb[0] == "list") or s.step is not None:
                raise Refuse("slice form", n)
            lo = 0 if s.lower is None else self.const_int(s.lower)
            hi = self.const_int(s.upper) if s.upper is not None else None
            if lo is None or (s.upper is not None and hi is None):
                raise Refuse("slice bounds must be literals", n)
            if hi is None:
                return f"(ap1 (lift1 (fun l => py_slice l ({lo})%Z (Z.of_nat (List.length l)))) {base})", tb
            return f"(ap1 (lift1 (fun l => py_slice l ({lo})%Z ({hi})%Z)) {base})", tb
        idx, ti = self.expr(s, defined)
        if isinstance(tb, tuple) and tb[0] == "list" and ti == "int":
            return f"(ap2 py_index {base} {idx})", tb[1]
        if isinstance(tb, tuple) and tb[0] == "dict" and ti == "str":
            return f"(ap2 dgetitem {base} {idx})", tb[1]
        raise Refuse(f"subscript {tb!r}[{ti!r}]", n)

    def call(self, n, defined):
        d = dotted(n.func)
        if n.keywords and not (d in self.u.calls):
            raise Refuse("keyword arguments", n)
        if d is None and isinstance(n.func, ast.Attribute) and isinstance(n.func.value, ast.Call):
            d = None
        if d in self.u.calls:
            r = self.u.calls[d](self, n, defined)
            if r is not None:
                return r
        # builtins
        if d == "len" and len(n.args) == 1:
            a, ta = self.expr(n.args[0], defined)
            if isinstance(ta, tuple) and ta[0] in ("list", "dict"):
                return f"(ap1 (lift1 (fun l => Z.of_nat (List.length l))) {a})", "int"
            if ta == "str":
                return f"(ap1 (lift1 (fun s => Z.of_nat (String.length s))) {a})", "int"
        if d == "int" and len(n.args) == 1:
            a, ta = self.expr(n.args[0], defined)
            if ta == "str":
                return f"(ap1 py_int_of_str {a})", "int"
            if ta == "int":
                return a, "int"
            if ta == "dyn":
                return f"(ap1 dyn_int {a})", "int"
        if d == "math.ceil" and len(n.args) == 1 and isinstance(n.args[0], ast.BinOp) \
                and isinstance(n.args[0].op, ast.Div):
            a, ta = self.expr(n.args[0].left, defined)
            b, tb = self.expr(n.args[0].right, defined)
            return f"(ap2 ceil_div {self.as_num(a, ta, n)} {self.as_num(b, tb, n)})", "int"
        if d in ("min", "max") and len(n.args) >= 2:
            parts = [self.expr(a, defined) for a in n.args]
            parts = [(self.as_num(t_, ty, n), "int") for t_, ty in parts]
            if any(t != "int" for _, t in parts):
                raise Refuse("min/max on non-int", n)
            f = "Z.min" if d == "min" else "Z.max"
            term = parts[0][0]
            for p, _ in parts[1:]:
                term = f"(ap2 (lift2 {f}) {term} {p})"
            return term, "int"
        if d == "list" and len(n.args) == 1:
            a, ta = self.expr(n.args[0], defined)
            if isinstance(ta, tuple) and ta[0] == "list":
                return a, ta
        # methods on typed receivers
        if isinstance(n.func, ast.Attribute):
            recv, tr = self.expr(n.func.value, defined)
            m = n.func.attr
            args = [self.expr(a, defined) for a in n.args]
            if tr == "str":
                if m == "strip" and not args:
                    return f"(ap1 (lift1 strip) {recv})", "str"
                if m == "read" and not args and isinstance(n.func.value, ast.Name) \
                        and n.func.value.id in self.filehandles:
                    return recv, "str"
                if m == "split" and not args:
                    return f"(ap1 (lift1 split_ws) {recv})", ("list", "str")
                if m == "decode" and len(args) == 1 and isinstance(n.args[0], ast.Constant) \
                        and n.args[0].value == "ascii":
                    return f"(ap1 decode_ascii {recv})", "str"
                if m == "split" and len(args) == 1 and isinstance(n.args[0], ast.Constant) \
                        and isinstance(n.args[0].value, str) and len(n.args[0].value) == 1:
                    c = n.args[0].value
                    return f'(ap1 (lift1 (split_chr {coq_str(c)}%char)) {recv})', ("list", "str")
                if m == "join" and len(args) == 1 and args[0][1] == ("list", "str"):
                    return f"(ap2 (lift2 join) {recv} {args[0][0]})", "str"
                if m == "startswith" and len(args) == 1 and args[0][1] == "str":
                    return f"(ap2 (lift2 (fun s p => String.prefix p s)) {recv} {args[0][0]})", "bool"
            if isinstance(tr, tuple) and tr[0] == "dict":
                if m == "keys" and not args:
                    return f"(ap1 (lift1 dkeys) {recv})", ("list", "str")
                if m == "items" and not args:
                    return f"(ap1 (lift1 ditems) {recv})", ("list", ("tuple", ("str", tr[1])))
                if m == "get" and len(args) == 2 and args[0][1] == "str":
                    dv, tdv = args[1]
                    self.unify(tdv, tr[1], n)
                    return (f"(ap3 (lift3 (fun d k v => match dget d k with Some x => x | None => v end)) "
                            f"{recv} {args[0][0]} {dv})"), tr[1]
        raise Refuse(f"call to {d}", n)

    def dictcomp(self, n, defined):
        if len(n.generators) != 1 or n.generators[0].ifs or n.generators[0].is_async:
            raise Refuse("dict comprehension form", n)
        g = n.generators[0]
        it, tit = self.expr(g.iter, defined)
        if not (isinstance(g.target, ast.Name) and isinstance(n.key, ast.Name)
                and n.key.id == g.target.id and tit == ("list", "str")):
            raise Refuse("dict comprehension must be {k: const for k in <list str>}", n)
        if isinstance(n.value, ast.Dict) and not n.value.keys:
            want = self.u.local_types.get("__dictcomp_value__", ("dict", "int"))
            return (f"(ap1 (lift1 (fun ks => map (fun k => (k, [])) ks)) {it})", ("dict", want))
        raise Refuse("dict comprehension value", n)

    # ------------------------------------------------------------- statements
    # returns (term : stm L R, defined_after, falls_through)
    def block(self, stmts, defined):
        terms = []
        for s in stmts:
            t, defined = self.stmt(s, defined)
            if t is not None:
                terms.append(t)
        if not terms:
            return "skip", defined
        term = terms[-1]
        for t in reversed(terms[:-1]):
            term = f"(seq {t}\n {term})"
        return term, defined

    def store_for(self, target, val_type, defined, node):
        """Coq function  value -> L -> L  storing a value of val_type into target"""
        if isinstance(target, ast.Name):
            v = target.id
            if self.vars.get(v) == "dyn" and val_type != "dyn":
                c = {"int": "DInt", "str": "DStr"}.get(val_type)
                if c is None:
                    raise Refuse("store into dyn", node)
                return f"(fun x l => {self.setter(v)} ({c} x) l)", defined | {v}
            self.declare(v, val_type, node)
            return self.setter(v), defined | {v}
        if isinstance(target, ast.Tuple) and all(isinstance(e, ast.Name) for e in target.elts) \
                and isinstance(val_type, tuple) and val_type[0] == "tuple" \
                and len(val_type[1]) == len(target.elts):
            names = [e.id for e in target.elts]
            pat = ", ".join(f"x{i}" for i in range(len(names)))
            body = "l"
            for i, (v, t) in enumerate(zip(names, val_type[1])):
                xi = f"x{i}"
                if self.vars.get(v) == "dyn" and t != "dyn":
                    c = {"int": "DInt", "str": "DStr"}.get(t)
                    if c is None:
                        raise Refuse("store into dyn", node)
                    xi = f"({c} x{i})"
                else:
                    self.declare(v, t, node)
                body = f"({self.setter(v)} {xi} {body})"
            return f"(fun '({pat}) l => {body})", defined | set(names)
        raise Refuse("call result target", node)

    def assign_to(self, target, val_term, val_type, defined, node):
        """assignment of an evaluated expression to a target; returns (stm, defined)"""
        if isinstance(target, ast.Name) and self.vars.get(target.id) == "dyn":
            return (f"(assign {self.inject(val_term, val_type, node)} {self.setter(target.id)})",
                    defined | {target.id})
        if isinstance(target, ast.Name):
            v = target.id
            if isinstance(val_type, tuple) and val_type[0] == "opt" and val_type[1] == "?":
                if v not in self.vars:
                    raise Refuse(f"cannot type `{v} = None`; declare it in local_types", node)
                val_type = self.vars[v]
            self.declare(v, val_type, node)
            return f"(assign {val_term} {self.setter(v)})", defined | {v}
        if isinstance(target, ast.Tuple) and len(target.elts) == 2 and isinstance(val_type, tuple) \
                and val_type[0] == "list" and all(isinstance(e, ast.Name) for e in target.elts):
            val_term = f"(ap1 unpack2 {val_term})"
            val_type = ("tuple", (val_type[1], val_type[1]))
        if isinstance(target, ast.Tuple) and all(isinstance(e, ast.Name) for e in target.elts):
            if not (isinstance(val_type, tuple) and val_type[0] == "tuple"
                    and len(val_type[1]) == len(target.elts)):
                raise Refuse("tuple unpacking arity/type", node)
            names = [e.id for e in target.elts]
            conv = []
            for v, t in zip(names, val_type[1]):
                if self.vars.get(v) == "dyn" and t != "dyn":
                    conv.append({"int": "DInt", "str": "DStr"}.get(t))
                    if conv[-1] is None:
                        raise Refuse("unpack into dyn", node)
                else:
                    conv.append(None)
                    self.declare(v, t, node)
            pat = ", ".join(f"x{i}" for i in range(len(names)))
            body = "l"
            for i, v in enumerate(names):
                xi = f"x{i}" if conv[i] is None else f"({conv[i]} x{i})"
                body = f"({self.setter(v)} {xi} {body})"
            return (f"(assign {val_term} (fun '({pat}) l => {body}))", defined | set(names))
        if isinstance(target, ast.Subscript):
            # d[k] = v   or   d[k1][k2] = v
            return self.store_subscript(target, val_term, val_type, defined, node), defined
        raise Refuse("assignment target", node)

    def dict_path(self, target, defined):
        """target = name[k1] or name[k1][k2]; returns (name, [key terms])"""
        keys = []
        n = target
        while isinstance(n, ast.Subscript):
            k, tk = self.expr(n.slice, defined)
            if tk != "str":
                raise Refuse("dict key must be str", n)
            keys.append(k)
            n = n.value
        if not isinstance(n, ast.Name) or n.id not in self.vars:
            raise Refuse("subscript store base", target)
        keys.reverse()
        return n.id, keys

    def store_subscript(self, target, val_term, val_type, defined, node):
        name, keys = self.dict_path(target, defined)
        t = self.vars[name]
        if name not in defined:
            raise Refuse(f"{name} may be unassigned", node)
        if len(keys) == 1:
            if t != ("dict", val_type):
                raise Refuse(f"store into {t!r} of {val_type!r}", node)
            return (f"(assign (ap3 (lift3 (fun d k v => dset d k v)) (rd {self.fld(name)}) {keys[0]} {val_term}) "
                    f"{self.setter(name)})")
        if len(keys) == 2:
            if t != ("dict", ("dict", val_type)):
                raise Refuse(f"store into {t!r} of {val_type!r}", node)
            return (f"(assign (ap3 (fun d k1 kv => rbind (dgetitem d k1) (fun inner => "
                    f"Ok (dset d k1 (dset inner (fst kv) (snd kv))))) (rd {self.fld(name)}) {keys[0]} "
                    f"(ap2 (lift2 pair) {keys[1]} {val_term})) {self.setter(name)})")
        raise Refuse("subscript store depth", node)

    def stmt(self, s, defined):
        u = self.u
        if any(pred(s) for pred in u.drop_stmt):
            return None, defined
        if isinstance(s, ast.Pass):
            return None, defined
        if isinstance(s, ast.Global):
            for nm in s.names:
                if nm not in u.global_state:
                    raise Refuse(f"global {nm} not declared in unit", s)
            return None, defined
        if isinstance(s, ast.Expr):
            if isinstance(s.value, ast.Constant):
                return None, defined          # docstring
            if isinstance(s.value, ast.Call):
                d = dotted(s.value.func)
                if d is not None and d not in u.effects and \
                        any(d == p or d.startswith(p + ".") for p in u.drop + DEFAULT_DROP):
                    return None, defined
                if d in u.effects:
                    tag = u.effects[d]
                    if callable(tag):
                        tag = tag(self, s.value, defined)
                    return f"(emit_ {self.fld('_eff')} {self.setter('_eff')} {tag})", defined
                if d in u.oracle_calls:
                    return u.oracle_calls[d](self, s.value, defined), defined
                if d in u.funcs:
                    return self.call_unit(u.funcs[d], s.value, defined), defined
                # subscripted oracle table: TABLE[k](args)
                if isinstance(s.value.func, ast.Subscript):
                    b = dotted(s.value.func.value)
                    if b in u.oracle_calls:
                        return u.oracle_calls[b](self, s.value, defined), defined
            raise Refuse("expression statement", s)
        if isinstance(s, ast.Import):
            terms = []
            for al in s.names:
                if al.name not in u.imports:
                    raise Refuse(f"import {al.name}", s)
                terms.append(f"(oracle_raise {u.imports[al.name]})")
            t = terms[-1]
            for x in reversed(terms[:-1]):
                t = f"(seq {x} {t})"
            return t, defined
        if isinstance(s, ast.Assign) and len(s.targets) == 1 and isinstance(s.value, ast.Call) \
                and dotted(s.value.func) in u.funcs:
            callee = u.funcs[dotted(s.value.func)]
            store, d2 = self.store_for(s.targets[0], callee.ret, defined, s)
            return self.call_unit(callee, s.value, defined, store=store), d2
        if isinstance(s, ast.Assign):
            if len(s.targets) != 1:
                raise Refuse("multiple assignment targets", s)
            val, tv = self.expr(s.value, defined)
            return self.assign_to(s.targets[0], val, tv, defined, s)
        if isinstance(s, ast.AugAssign):
            load = ast.copy_location(
                ast.BinOp(left=self.as_load(s.target), op=s.op, right=s.value), s)
            val, tv = self.expr(load, defined)
            return self.assign_to(s.target, val, tv, defined, s)
        if isinstance(s, ast.Delete):
            if len(s.targets) != 1:
                raise Refuse("del targets", s)
            tg = s.targets[0]
            if isinstance(tg, ast.Name):
                return None, defined       # `del local`: releases a reference only
            if isinstance(tg, ast.Subscript):
                name, keys = self.dict_path(tg, defined)
                t = self.vars[name]
                if len(keys) == 1 and isinstance(t, tuple) and t[0] == "dict":
                    return (f"(assign (ap2 ddel (rd {self.fld(name)}) {keys[0]}) {self.setter(name)})",
                            defined)
                if len(keys) == 2 and isinstance(t, tuple) and t[0] == "dict" \
                        and isinstance(t[1], tuple) and t[1][0] == "dict":
                    return (f"(assign (ap3 (fun d k1 k2 => rbind (dgetitem d k1) (fun inner => "
                            f"rbind (ddel inner k2) (fun inner' => Ok (dset d k1 inner')))) "
                            f"(rd {self.fld(name)}) {keys[0]} {keys[1]}) {self.setter(name)})", defined)
            raise Refuse("del form", s)
        if isinstance(s, ast.If) and ast.unparse(s.test) in u.static:
            live = s.body if u.static[ast.unparse(s.test)] else s.orelse
            return self.block(live, defined)
        if isinstance(s, ast.If):
            c = self.truth(s.test, defined)
            a, da = self.block(s.body, defined)
            b, db = self.block(s.orelse, defined)
            ta, tb = self.terminates(s.body), self.terminates(s.orelse)
            if ta and tb:
                d2 = da & db
            elif ta:
                d2 = db
            elif tb:
                d2 = da
            else:
                d2 = da & db
            return f"(ite {c}\n {a}\n {b})", d2
        if isinstance(s, ast.Return):
            if s.value is None:
                if self.u.ret != "unit":
                    raise Refuse("bare return in valued function", s)
                return "(ret (pure tt))", defined
            v, tv = self.expr(s.value, defined)
            if isinstance(tv, tuple) and tv[0] == "opt" and tv[1] == "?" and self.u.ret != "dyn":
                tv = self.u.ret
            if self.u.ret == "dyn" and tv != "dyn":
                v, tv = self.inject(v, tv, s), "dyn"
            if tv != self.u.ret:
                raise Refuse(f"return type {tv!r} != {self.u.ret!r}", s)
            return f"(ret {v})", defined
        if isinstance(s, ast.Raise):
            if s.exc is None:
                raise Refuse("bare raise", s)
            e = s.exc
            cls = dotted(e.func) if isinstance(e, ast.Call) else dotted(e)
            known = {"ValueError", "RuntimeError", "KeyError", "TypeError", "IndexError",
                     "NotImplementedError", "LokyRecursionError", "OSError"}
            if cls not in known:
                raise Refuse(f"raise of {cls}", s)
            return f"(raise_ {cls})", defined
        if isinstance(s, ast.Continue):
            return "continue_", defined
        if isinstance(s, ast.Break):
            return "break_", defined
        if isinstance(s, ast.Try):
            return self.try_(s, defined)
        if isinstance(s, ast.For):
            return self.for_(s, defined)
        if isinstance(s, ast.While):
            return self.while_(s, defined)
        if isinstance(s, ast.With):
            return self.with_(s, defined)
        if isinstance(s, ast.FunctionDef):
            if s.name in u.funcs:
                return None, defined      # translated as its own unit
            raise Refuse("nested function not configured", s)
        raise Refuse("statement form", s)

    def as_load(self, t):
        t2 = ast.parse(ast.unparse(t), mode="eval").body
        return ast.copy_location(t2, t)

    def terminates(self, stmts):
        if not stmts:
            return False
        last = stmts[-1]
        if isinstance(last, (ast.Return, ast.Raise, ast.Continue, ast.Break)):
            return True
        if isinstance(last, ast.If):
            return self.terminates(last.body) and self.terminates(last.orelse)
        return False

    def try_(self, s, defined):
        if s.orelse:
            raise Refuse("try/else", s)
        body, dbody = self.block(s.body, defined)
        term = body
        dafter = dbody
        for h in s.handlers:
            classes, catch_all = self.handler_classes(h)
            cl = "[" + "; ".join(classes) + "]"
            if h.name is not None and self.uses_name(h.body, h.name):
                # the exception object may only be stored: `var = e`
                for x in ast.walk(ast.Module(body=h.body, type_ignores=[])):
                    if isinstance(x, ast.Name) and x.id == h.name:
                        ok = any(isinstance(st, ast.Assign) and st.value is x for st in ast.walk(ast.Module(body=h.body, type_ignores=[])))
                        if not ok and not self.in_dropped(h.body, x):
                            raise Refuse("exception object used other than `var = e`", h)
                self.declare(h.name, "dyn", h)
                hb, dh = self.block(h.body, defined | {h.name})
                bind = f"(fun x l => {self.setter(h.name)} (DExn x) l)"
                term = f"(try_except_as {term} {cl} {'true' if catch_all else 'false'} {bind}\n {hb})"
                dafter = dafter & dh if not self.terminates(h.body) else dafter
                continue
            hb, dh = self.block(h.body, defined)
            term = f"(try_except {term} {cl} {'true' if catch_all else 'false'}\n {hb})"
            dafter = dafter & dh if not self.terminates(h.body) else dafter
        if s.finalbody:
            fb, dfin = self.block(s.finalbody, defined)
            term = f"(try_finally {term}\n {fb})"
            dafter = dafter | (dfin - defined) if True else dafter
        return term, dafter

    def in_dropped(self, stmts, node):
        dropped = self.u.drop + DEFAULT_DROP
        for st in ast.walk(ast.Module(body=stmts, type_ignores=[])):
            if isinstance(st, ast.Expr) and isinstance(st.value, ast.Call):
                d = dotted(st.value.func)
                if d is not None and d not in self.u.effects and \
                        any(d == p or d.startswith(p + ".") for p in dropped):
                    if any(x is node for x in ast.walk(st)):
                        return True
        return False

    def uses_name(self, stmts, name):
        dropped = self.u.drop + DEFAULT_DROP
        for st in stmts:
            # uses inside dropped calls do not count
            if isinstance(st, ast.Expr) and isinstance(st.value, ast.Call):
                d = dotted(st.value.func)
                if d is not None and any(d == p or d.startswith(p + ".") for p in dropped):
                    continue
            if isinstance(st, ast.Try):
                # look through a try statement: only what is not dropped inside it counts
                if (self.uses_name(st.body, name) or any(self.uses_name(h.body, name) for h in st.handlers)
                        or self.uses_name(st.orelse, name) or self.uses_name(st.finalbody, name)):
                    return True
                continue
            for x in ast.walk(st):
                if isinstance(x, ast.Name) and x.id == name:
                    return True
        return False

    def handler_classes(self, h):
        if h.type is None:
            return [], True
        names = [h.type] if not isinstance(h.type, ast.Tuple) else list(h.type.elts)
        out = []
        catch_all = False
        for nm in names:
            d = dotted(nm)
            if d in ("BaseException", "Exception"):
                # every exception of the enum derives from Exception
                catch_all = True
            elif d in ("KeyError", "ValueError", "RuntimeError", "IndexError", "TypeError", "OSError",
                       "FileNotFoundError", "NotImplementedError", "ZeroDivisionError", "ImportError"):
                out.append(d)
            elif d == "AttributeError":
                out.append("OtherError")
            else:
                raise Refuse(f"except class {d}", h)
        return out, catch_all

    def for_(self, s, defined):
        if s.orelse:
            raise Refuse("for/else", s)
        it, tit = self.expr(s.iter, defined)
        if isinstance(tit, tuple) and tit[0] == "dict":
            it, tit = f"(ap1 (lift1 dkeys) {it})", ("list", "str")
        if not (isinstance(tit, tuple) and tit[0] == "list"):
            raise Refuse(f"for over {tit!r}", s)
        elt = tit[1]
        if isinstance(s.target, ast.Name):
            self.declare(s.target.id, elt, s)
            setter = self.setter(s.target.id)
            d_in = defined | {s.target.id}
        elif isinstance(s.target, ast.Tuple) and all(isinstance(e, ast.Name) for e in s.target.elts):
            names = [e.id for e in s.target.elts]
            if not (isinstance(elt, tuple) and elt[0] == "tuple" and len(elt[1]) == len(names)):
                raise Refuse("for tuple target", s)
            for v, t in zip(names, elt[1]):
                self.declare(v, t, s)
            pat = ", ".join(f"x{i}" for i in range(len(names)))
            body = "l"
            for i, v in enumerate(names):
                body = f"({self.setter(v)} x{i} {body})"
            setter = f"(fun '({pat}) l => {body})"
            d_in = defined | set(names)
        else:
            raise Refuse("for target", s)
        k = len(self.hoisted)
        self.hoisted.append(None)          # reserve the number in source order
        b, _ = self.block(s.body, d_in)
        name = f"{self.P}_loop{k + 1}"
        self.hoisted[k] = (name, b)
        return f"(for_ {it} {setter} {name})", defined

    def while_(self, s, defined):
        # idiom: while True: x = f.readline(); if x == b"": break; BODY   with f a line stream
        if not (isinstance(s.test, ast.Constant) and s.test.value is True and not s.orelse):
            raise Refuse("while form", s)
        b = s.body
        if (len(b) >= 2 and isinstance(b[0], ast.Assign) and isinstance(b[0].targets[0], ast.Name)
                and isinstance(b[0].value, ast.Call) and isinstance(b[0].value.func, ast.Attribute)
                and b[0].value.func.attr == "readline" and isinstance(b[0].value.func.value, ast.Name)
                and self.vars.get(b[0].value.func.value.id) == ("ext", "linestream", "[]")
                and isinstance(b[1], ast.If) and not b[1].orelse
                and len(b[1].body) == 1 and isinstance(b[1].body[0], ast.Break)
                and ast.dump(b[1].test) == ast.dump(ast.parse(f'{b[0].targets[0].id} == b""', mode="eval").body)):
            x = b[0].targets[0].id
            f = b[0].value.func.value.id
            self.declare(x, "str", s)
            k = len(self.hoisted)
            self.hoisted.append(None)
            body, _ = self.block(b[2:], defined | {x})
            name = f"{self.P}_loop{k + 1}"
            self.hoisted[k] = (name, body)
            return f"(for_ (rd {self.fld(f)}) {self.setter(x)} {name})", defined
        raise Refuse("while loop outside the recognised idioms", s)

    def with_(self, s, defined):
        # with open(fd, "rb") as f  -> f is the line stream parameter `fd`
        if len(s.items) == 1:
            it = s.items[0]
            if (isinstance(it.context_expr, ast.Call) and dotted(it.context_expr.func) == "open"
                    and isinstance(it.optional_vars, ast.Name)
                    and len(it.context_expr.args) == 2
                    and isinstance(it.context_expr.args[0], ast.Name)
                    and isinstance(it.context_expr.args[1], ast.Constant)
                    and it.context_expr.args[1].value == "rb"):
                src = it.context_expr.args[0].id
                if self.vars.get(src) != ("ext", "linestream", "[]"):
                    raise Refuse("open() of a non-stream parameter", s)
                f = it.optional_vars.id
                self.declare(f, ("ext", "linestream", "[]"), s)
                inner, d2 = self.block(s.body, defined | {f})
                return f"(seq (assign (rd {self.fld(src)}) {self.setter(f)})\n {inner})", d2
            if (self.u.fs_term is not None and isinstance(it.context_expr, ast.Call)
                    and dotted(it.context_expr.func) == "open" and len(it.context_expr.args) == 1
                    and not it.context_expr.keywords and isinstance(it.optional_vars, ast.Name)):
                nm, tn = self.expr(it.context_expr.args[0], defined)
                if tn != "str":
                    raise Refuse("open() of a non-str", s)
                fh = it.optional_vars.id
                self.declare(fh, "str", s)
                self.filehandles.add(fh)
                inner, d2 = self.block(s.body, defined | {fh})
                return (f"(seq (assign (ap2 fs_read (pure {self.u.fs_term}) {nm}) {self.setter(fh)})\n {inner})", d2)
        raise Refuse("with statement", s)

    def call_unit(self, callee, call, defined, store=None):
        """statement-level call of another generated unit; threads the effect log"""
        if store is not None:
            if len(call.args) != len(callee.params) or call.keywords:
                raise Refuse("callee arity", call)
            args = []
            cap_args = [ast.Name(id=cn, ctx=ast.Load()) for cn, _ in callee.captured]
            for g, gt in callee.global_state.items():
                if self.u.global_state.get(g) != gt:
                    raise Refuse(f"caller must declare global {g}", call)
            for a, (pn, pt) in zip(list(call.args) + cap_args, callee.params + callee.captured):
                t, ty = self.expr(a, defined)
                if ty != pt:
                    raise Refuse(f"callee arg type {ty!r} != {pt!r}", call)
                args.append(t)
            if callee.global_state:
                gl = list(callee.global_state)
                cP = callee.name
                run = (f"{cP}_run " + " ".join(f"a{i}" for i in range(len(args))) + " "
                       + " ".join(f"({self.fld(g)} l)" for g in gl) + f" ({self.fld('_eff')} l)")
                back = "l"
                for g in gl:
                    back = f"({self.setter(g)} ({cP}_v_{g.lstrip('_')} l2) {back})"
                back = f"({self.setter('_eff')} ({cP}_v_eff l2) {back})"
                inner = (f"match {run} with (Ret v, l2) => (Norm, {store} v {back}) "
                         f"| (Raise x, l2) => (Raise x, {back}) | (_, l2) => (Norm, {back}) end")
            else:
                inner = (f"call_ret {self.fld('_eff')} {self.setter('_eff')} ({callee.name} "
                         + " ".join(f"a{i}" for i in range(len(args))) + f") {store} (fun l => l) l")
            return ("(fun l => " + "".join(f"match {a} l with Err e => (Raise e, l) | Ok a{i} => "
                                            for i, a in enumerate(args)) + inner + " end" * len(args) + ")")
        if len(call.args) != len(callee.params) or call.keywords:
            raise Refuse("callee arity", call)
        args = []
        cap_args = [ast.Name(id=cn, ctx=ast.Load()) for cn, _ in callee.captured]
        for a, (pn, pt) in zip(list(call.args) + cap_args, callee.params + callee.captured):
            t, ty = self.expr(a, defined)
            if ty != pt:
                raise Refuse(f"callee arg type {ty!r} != {pt!r}", call)
            args.append(t)
        # evaluate args left to right then run callee with current effects
        binder = ""
        names = []
        for i, a in enumerate(args):
            names.append(f"a{i}")
        body = f"{callee.name} " + " ".join(names) + f" ({self.fld('_eff')} l)"
        term = (f"(fun l => " + "".join(f"match {a} l with Err e => (Raise e, l) | Ok a{i} => " for i, a in enumerate(args))
                + f"match {body} with (c, e') => (match c with Raise x => Raise x | _ => Norm end, {self.setter('_eff')} e' l) end"
                + " end" * len(args) + ")")
        # (callee signature: params, captured, eff0)
        return term

    # ------------------------------------------------------------- emission
    def emit(self):
        body, _ = self.block(self.stmts, {n for n, _ in self.u.params} | {n for n, _ in self.u.captured}
                             | {"_eff"} | set(self.u.global_state))
        P = self.P
        names = list(self.vars)
        lines = []
        lines.append(f"(* ---- unit {P} ---- *)")
        lines.append(f"Record {P}_L := {P}_mkL {{")
        lines.append(";\n".join(f"  {self.fld(v)} : {coq_type(self.vars[v])}" for v in names))
        lines.append("}.")
        for v in names:
            flds = "; ".join(
                f"{self.fld(w)} := {'x' if w == v else self.fld(w) + ' l'}" for w in names)
            lines.append(f"Definition {self.setter(v)} (x : {coq_type(self.vars[v])}) (l : {P}_L) : {P}_L :=\n  {{| {flds} |}}.")
        R = coq_type(self.u.ret)
        for hn, ht in reversed(self.hoisted):   # inner loops were numbered later: define them first
            lines.append(f"Definition {hn} : stm {P}_L {R} :=\n{textwrap.indent(ht, '  ')}.")
        lines.append(f"Definition {P}_body : stm {P}_L {R} :=\n{textwrap.indent(body, '  ')}.")
        pnames = [n for n, _ in self.u.params] + [n for n, _ in self.u.captured] + list(self.u.global_state)
        sig = " ".join(f"(p_{n.lstrip('_')} : {coq_type(self.vars[n])})" for n in pnames)
        inits = []
        for v in names:
            if v in pnames:
                inits.append(f"p_{v.lstrip('_')}")
            elif v == "_eff":
                inits.append("eff0")
            else:
                inits.append(coq_default(self.vars[v]))
        lines.append(f"Definition {P}_run {sig} (eff0 : list eff) : ctl {R} * {P}_L :=\n"
                     f"  {P}_body ({P}_mkL {' '.join(inits)}).")
        lines.append(f"Definition {P} {sig} (eff0 : list eff) : ctl {R} * list eff :=\n"
                     f"  let '(c, l) := {P}_run {' '.join('p_' + n.lstrip('_') for n in pnames)} eff0 in (c, {self.fld('_eff')} l).")
        self.red_names = [self.fld(v) for v in names] + [self.setter(v) for v in names]
        return "\n".join(lines) + "\n"

    COMBINATORS = ("seq ite assign ret emit_ rd pure skip ap1 ap2 ap3 lift1 lift2 lift3 rbind try_except "
                   "try_finally continue_ break_ raise_ call_oracle e_and e_or e_not e_if for_")

    def red_tactic(self):
        """Ltac that unfolds the statement combinators and this unit's record accessors
        (emitted after the Section so that it survives it)"""
        return (f"Ltac {self.P}_red := cbv beta iota zeta delta [{self.COMBINATORS} "
                + " ".join(self.red_names) + "].\n")


# --------------------------------------------------------------------------- source access
def find_function(tree, qualname):
    parts = qualname.split(".")
    body = tree.body
    node = None
    for p in parts:
        node = None
        for s in body:
            if isinstance(s, (ast.FunctionDef, ast.ClassDef)) and s.name == p:
                node = s
                break
        if node is None:
            raise Refuse(f"function {qualname} not found")
        body = node.body
    return node


def strip_docstring(stmts):
    if stmts and isinstance(stmts[0], ast.Expr) and isinstance(stmts[0].value, ast.Constant) \
            and isinstance(stmts[0].value.value, str):
        return stmts[1:]
    return stmts


def seg_hash(src, node):
    seg = ast.get_source_segment(src, node) or ""
    return hashlib.sha256(seg.encode()).hexdigest()[:16]
