"""The worker's main loop (process_executor._process_worker, after the initializer) as a program over the vocabulary of
coq/Lib/WorkerLib.v.  Statement by statement, through a closed table; logging and pure bookkeeping are dropped; anything else is
refused.  The memory-leak tail is matched as a whole (its meaning is written by hand in WorkerLib.v: tail)."""
import ast

from pytr import Refuse, find_function, strip_docstring

LOG = ("mp.util.info(", "mp.util.debug(", "print(previous_tb)")
PURE = ("previous_tb = traceback.format_exc()", "_last_memory_leak_check = time()", "gc.collect()")

TAIL_PSUTIL = """if _USE_PSUTIL:
    if _process_reference_size is None:
        _process_reference_size = _get_memory_usage(pid, force_gc=True)
        _last_memory_leak_check = time()
        continue
    if time() - _last_memory_leak_check > _MEMORY_LEAK_CHECK_DELAY:
        mem_usage = _get_memory_usage(pid)
        _last_memory_leak_check = time()
        if mem_usage - _process_reference_size < _MAX_MEMORY_LEAK_SIZE:
            continue
        mem_usage = _get_memory_usage(pid, force_gc=True)
        _last_memory_leak_check = time()
        if mem_usage - _process_reference_size < _MAX_MEMORY_LEAK_SIZE:
            continue
        mp.util.info('Memory leak detected: shutting down worker')
        result_queue.put(pid)
        with worker_exit_lock:
            mp.util.debug('Exit due to memory leak')
            return
elif _last_memory_leak_check is None or time() - _last_memory_leak_check > _MEMORY_LEAK_CHECK_DELAY:
    gc.collect()
    _last_memory_leak_check = time()"""

SENDBACK = ["try:\n    result_queue.put(_ResultItem(work_id, result=result, exception=exception))\n"
            "except BaseException as e:\n    exc = _ExceptionWithTraceback(e)\n    result_queue.put(_ResultItem(work_id, exception=exc))"]


def gen_worker(repo, read):
    src, tree = read(repo, "loky/process_executor.py")
    un = ast.unparse
    pw = find_function(tree, "_process_worker")
    params = [a.arg for a in pw.args.args]
    if params != ["call_queue", "result_queue", "initializer", "initargs", "processes_management_lock", "timeout",
                  "worker_exit_lock", "current_depth"]:
        raise Refuse("_process_worker: parameters changed")
    body = strip_docstring(pw.body)
    loops = [s for s in body if isinstance(s, ast.While)]
    if len(loops) != 1 or un(loops[0].test) != "True" or loops[0].orelse or body[-1] is not loops[0]:
        raise Refuse("_process_worker: not exactly one trailing `while True:` loop")
    # nothing before the loop may touch the queues or the locks
    for s in body[:-1]:
        t = un(s)
        if any(k in t for k in ("call_queue", "result_queue", "processes_management_lock", "worker_exit_lock")):
            raise Refuse(f"_process_worker: the prologue touches a queue or a lock: {t[:60]}")
    if un(ast.Module(body=strip_docstring(find_function(tree, "_sendback_result").body), type_ignores=[])) != SENDBACK[0]:
        raise Refuse("_sendback_result changed shape")

    def is_log(t):
        return t.startswith(LOG)

    def stmts(lst):
        out = []
        for s in lst:
            t = un(s)
            if isinstance(s, ast.Expr) and is_log(t) or t in PURE:
                continue
            if isinstance(s, ast.Try) and len(s.body) >= 1 and un(s.body[0]) == "call_item = call_queue.get(block=True, timeout=timeout)":
                rest = s.body[1:]
                if [un(x) for x in rest] not in ([], ["if call_item is None:\n    mp.util.info('Shutting down worker on sentinel')"]):
                    raise Refuse("worker loop: the try around call_queue.get does more than the get")
                if s.orelse or s.finalbody or [un(h.type) for h in s.handlers] != ["queue.Empty", "BaseException"]:
                    raise Refuse("worker loop: handlers of the get are no longer (queue.Empty, BaseException)")
                out.append(f"TryGet [{'; '.join(stmts(s.handlers[0].body))}] [{'; '.join(stmts(s.handlers[1].body))}]")
            elif isinstance(s, ast.If) and un(s.test) == "processes_management_lock.acquire(block=False)":
                out.append(f"IfMgmtTry [{'; '.join(stmts(s.body))}] [{'; '.join(stmts(s.orelse))}]")
            elif t == "processes_management_lock.release()":
                out.append("MgmtRelease")
            elif t == "call_item = None":
                out.append("SetNone")
            elif isinstance(s, ast.Continue):
                out.append("Continue")
            elif t == "try:\n    result_queue.put(_RemoteTraceback(previous_tb))\nexcept BaseException:\n    print(previous_tb)":
                out.append("PutTraceback")
            elif t == "sys.exit(1)":
                out.append("Exit1")
            elif isinstance(s, ast.If) and un(s.test) == "call_item is None" and not s.orelse:
                out.append(f"IfNone [{'; '.join(stmts(s.body))}]")
            elif t == "result_queue.put(pid)":
                out.append("PutPid")
            elif isinstance(s, ast.Assign) and un(s.targets[0]) == "is_clean" and isinstance(s.value, ast.Call) \
                    and un(s.value.func) == "worker_exit_lock.acquire":
                kw = {k.arg: un(k.value) for k in s.value.keywords}
                args = [un(a) for a in s.value.args]
                if args != ["True"] or set(kw) != {"timeout"} or not kw["timeout"].isdigit() or int(kw["timeout"]) == 0:
                    raise Refuse("worker loop: the wait for the exit hand-shake is no longer acquire(True, timeout=<positive constant>)")
                out.append("WaitExitBounded")
            elif t == "_python_exit()":
                out.append("PythonExit")
            elif isinstance(s, ast.If) and un(s.test) == "is_clean" and all(is_log(un(x)) for x in s.body + s.orelse):
                continue
            elif isinstance(s, ast.Return) and s.value is None:
                out.append("Return")
            elif isinstance(s, ast.Try) and [un(x) for x in s.body] == ["r = call_item()"]:
                if len(s.handlers) != 1 or un(s.handlers[0].type) != "BaseException" or s.finalbody:
                    raise Refuse("worker loop: the task call is no longer guarded by `except BaseException`")
                out.append(f"RunTask [{'; '.join(stmts(s.handlers[0].body))}] [{'; '.join(stmts(s.orelse))}]")
            elif t == "exc = _ExceptionWithTraceback(e)" or t == "del r":
                continue
            elif t == "result_queue.put(_ResultItem(call_item.work_id, exception=exc))":
                out.append("PutException")
            elif t == "_sendback_result(result_queue, call_item.work_id, result=r)":
                out.append("SendResult")
            elif t == "del call_item":
                out.append("DelItem")
            elif t == TAIL_PSUTIL:
                out.append("LeakTail")
            else:
                raise Refuse(f"worker loop: statement outside the vocabulary: {t[:90]}", s)
        return out
    prog = stmts(loops[0].body)
    # how a task's exception travels to the parent: the instance itself (pickled with its own reducer, so every argument and every
    # attribute comes along), the formatted traceback attached as __cause__ on arrival
    red = [un(x) for x in strip_docstring(find_function(tree, "_ExceptionWithTraceback.__reduce__").body)]
    rb = find_function(tree, "_rebuild_exc")
    ships_instance = (red == ["return (_rebuild_exc, (self.exc, self.tb))"] and [a.arg for a in rb.args.args] == ["exc", "tb"]
                      and [un(x) for x in strip_docstring(rb.body)] == ["exc.__cause__ = _RemoteTraceback(tb)", "return exc"])
    ini = [un(x) for x in strip_docstring(find_function(tree, "_ExceptionWithTraceback.__init__").body)]
    formats_tb = "tb = traceback.format_exception(type(exc), exc, tb)" in ini and "self.exc = exc" in ini and "self.tb = tb" in ini
    text = ("(* GENERATED by /verif/tr from /repo's working tree -- do not edit.  source: loky/process_executor.py (_process_worker) *)\n"
            "From Coq Require Import List Bool.\nFrom LokyV Require Import Lib.WorkerLib.\nImport ListNotations.\n"
            f"Definition worker_loop : list wstmt := [{'; '.join(prog)}].\n"
            f"Definition task_exception_travels_as_the_instance_with_its_traceback_text : bool := {'true' if ships_instance and formats_tb else 'false'}.\n")
    return text, {"source": "loky/process_executor.py", "program": prog}
