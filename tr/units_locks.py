"""Lock-order relation of the parent-side code (C01): which lock / blocking wait is entered while which other is held.

Walks every function of loky/process_executor.py and loky/reusable_executor.py (and Queue._feed), keeping the stack of locks held by
the enclosing `with` blocks, and records an edge  held -> entered  for
   * `with <lock>:`                      (the lock expressions are a closed table; an unknown one is refused)
   * `<lock>.acquire(...)`               (only when it can block for ever: not block=False, no timeout)
   * `<thread or process>.join()`        as the pseudo-lock "that thread / process has ended"
   * a blocking put on the call queue    as the queue's slot semaphore
   * a call that completes a Future      as the pseudo-lock "user callbacks" (done-callbacks run in the caller's thread)
   * a call to another walked function   (its own entries, transitively, under the caller's held set; resolution by method
                                          name, every candidate taken: an over-approximation)
The pseudo-locks get outgoing edges to everything the thread / process / callback may itself wait for:
   TMgr -> whatever _ExecutorManagerThread.run() enters (transitively);  PWorker -> what _process_worker enters on its way out;
   UserCb -> what submit() enters (a done-callback submitting follow-up work is supported use; callbacks that call shutdown() or
   get_reusable_executor() are outside).
Output: the edge list with its provenance, and a rank certificate (a topological numbering) when the relation is acyclic; when it
is not, the cycle found.  Coq checks the certificate against the edges and proves that no circular wait can then exist."""
import ast

from pytr import Refuse, find_function, strip_docstring

LOCKS = {
    "_executor_lock": "LFactory",
    "self._submit_resize_lock": "LSubmitResize",
    "_global_shutdown_lock": "LGlobal",
    "self.shutdown_lock": "LShutdown", "self._shutdown_lock": "LShutdown", "shutdown_lock": "LShutdown",
    "self._flags.shutdown_lock": "LShutdown",
    "self.processes_management_lock": "LMgmt", "self._processes_management_lock": "LMgmt",
    "executor._processes_management_lock": "LMgmt", "processes_management_lock": "LMgmt",
    "worker_exit_lock": "LExit", "p._worker_exit_lock": "LExit",
    "self._wlock": "LCqWrite", "writelock": "LCqWrite",
    "notempty": "LNotEmpty", "self._notempty": "LNotEmpty",
}
JOINS = {"executor_manager_thread.join()": "TMgr", "thread.join()": "TMgr", "p.join()": "PWorker", "process.join()": "PWorker"}
NOT_A_LOCK_JOIN = {"self.call_queue.join_thread()", "''.join(tb)"}
COMPLETES_FUTURE = (".future.set_exception(", ".future.set_result(", ".future.cancel(")
FILES = ["loky/process_executor.py", "loky/reusable_executor.py"]
CLASSES = ["_ExecutorFlags", "_ThreadWakeup", "_SafeQueue", "_ExecutorManagerThread", "ProcessPoolExecutor", "_ReusablePoolExecutor"]
# edges that are known to close a cycle on the pinned source (finding H15): the rank certificate is computed without them
EXCLUDED = [("UserCb", "LSubmitResize"), ("UserCb", "LFactory")]
ALL = ["LFactory", "LSubmitResize", "LGlobal", "LShutdown", "LMgmt", "LSlot", "LExit", "LCqWrite", "LNotEmpty", "TMgr", "PWorker", "UserCb", "WPipe"]


def gen_locks(repo, read):
    un = ast.unparse
    # is the reusable executor's submit / resize lock the factory lock itself?  (get_reusable_executor passes _executor_lock as the
    # first constructor argument, which __init__ stores as _submit_resize_lock)
    rsrc0, rtree0 = read(repo, "loky/reusable_executor.py")
    init = find_function(rtree0, "_ReusablePoolExecutor.__init__")
    params = [a.arg for a in init.args.args]
    stores = any(un(x) == "self._submit_resize_lock = submit_resize_lock" for x in ast.walk(init) if isinstance(x, ast.Assign))
    ctor = [c for c in ast.walk(find_function(rtree0, "_ReusablePoolExecutor.get_reusable_executor"))
            if isinstance(c, ast.Call) and un(c.func) == "cls"]
    same = (params[:2] == ["self", "submit_resize_lock"] and stores and len(ctor) == 1 and ctor[0].args
            and un(ctor[0].args[0]) == "_executor_lock")
    # can _ThreadWakeup.wakeup() block?  it cannot when it writes only if no message is pending (then the pipe never holds two)
    psrc0, ptree0 = read(repo, "loky/process_executor.py")
    wk = [un(x) for x in strip_docstring(find_function(ptree0, "_ThreadWakeup.wakeup").body)]
    wakeup_can_block = wk != ["if not self._closed and (not self._reader.poll()):\n    self._writer.send_bytes(b'')"]
    locks = dict(LOCKS)
    if same:
        locks["self._submit_resize_lock"] = "LFactory"
    funcs = {}           # qualname -> (node, file)
    for rel in FILES:
        src, tree = read(repo, rel)
        for node in tree.body:
            if isinstance(node, ast.FunctionDef):
                funcs[node.name] = (node, rel)
            elif isinstance(node, ast.ClassDef) and node.name in CLASSES:
                for m in node.body:
                    if isinstance(m, ast.FunctionDef):
                        funcs[f"{node.name}.{m.name}"] = (m, rel)
                        for inner in ast.walk(m):
                            if isinstance(inner, ast.FunctionDef) and inner is not m:
                                funcs[f"{node.name}.{m.name}.{inner.name}"] = (inner, rel)
    qsrc, qtree = read(repo, "loky/backend/queues.py")
    funcs["Queue._feed"] = (find_function(qtree, "Queue._feed"), "loky/backend/queues.py")
    by_name = {}
    for q in funcs:
        by_name.setdefault(q.split(".")[-1], []).append(q)
    # names that are also methods of objects we do not walk (queues, pipes, threads, dicts ...): resolved only through self / executor / super()
    def callees(call, owner):
        f = call.func
        if isinstance(f, ast.Attribute):
            recv = un(f.value)
            if recv in ("self", "executor", "super()", "cls", "self.executor_flags", "self._flags"):
                c = by_name.get(f.attr, [])
                if recv in ("self.executor_flags", "self._flags"):
                    c = [x for x in c if x.startswith("_ExecutorFlags.")]
                elif recv == "super()":
                    c = [x for x in c if x.startswith("ProcessPoolExecutor.")]
                return [x for x in c if x != owner or recv != "super()"]
            return []
        if isinstance(f, ast.Name):
            return [x for x in by_name.get(f.id, []) if "." not in x or x.endswith("." + f.id)]
        return []

    in_while = [0]
    direct = {q: [] for q in funcs}      # q -> list of (held tuple, entered, line)
    calls = {q: [] for q in funcs}       # q -> list of (held tuple, callee)

    def blocking_acquire(call):
        args = [un(a) for a in call.args]
        kw = {k.arg: un(k.value) for k in call.keywords}
        if kw.get("block") == "False" or kw.get("blocking") == "False" or (args and args[0] == "False"):
            return False
        if "timeout" in kw or len(args) >= 2:
            return False          # bounded wait: cannot be part of a deadlock
        return True

    def fresh_names(node):
        """names bound in this function to a lock created right there: acquiring such a lock cannot block"""
        out = set()
        for x in ast.walk(node):
            if isinstance(x, ast.Assign) and isinstance(x.value, ast.Call) and un(x.value.func).endswith((".BoundedSemaphore", ".Lock", ".Semaphore")):
                out.add(un(x.targets[0]))
        return out

    def walk(q, stmts, held):
        for s in stmts:
            if isinstance(s, (ast.FunctionDef, ast.ClassDef)):
                continue                                  # nested definitions are walked on their own
            if isinstance(s, ast.With):
                inner = list(held)
                for it in s.items:
                    e = un(it.context_expr)
                    if e not in locks:
                        raise Refuse(f"{q}: `with {e}:` is not a known lock", s)
                    direct[q].append((tuple(inner), locks[e], s.lineno))
                    inner.append(locks[e])
                walk(q, s.body, inner)
                continue
            # expressions of this statement (without descending into nested statement bodies twice)
            subs = []
            for fld, val in ast.iter_fields(s):
                if fld in ("body", "orelse", "finalbody", "handlers"):
                    continue
                if isinstance(val, ast.AST):
                    subs.append(val)
                elif isinstance(val, list):
                    subs += [v for v in val if isinstance(v, ast.AST)]
            for sub in subs:
                for c in ast.walk(sub):
                    if not isinstance(c, ast.Call):
                        continue
                    t = un(c)
                    f = c.func
                    if isinstance(f, ast.Attribute) and f.attr == "acquire":
                        r = un(f.value)
                        if r not in locks:
                            raise Refuse(f"{q}: `{t}` acquires an unknown lock", c)
                        if blocking_acquire(c) and r not in fresh[q]:
                            direct[q].append((tuple(held), locks[r], c.lineno))
                    elif isinstance(f, ast.Attribute) and f.attr == "join" and not c.args:
                        if t in JOINS:
                            direct[q].append((tuple(held), JOINS[t], c.lineno))
                        elif t not in NOT_A_LOCK_JOIN:
                            raise Refuse(f"{q}: `{t}` joins something unknown", c)
                    elif any(k in t for k in COMPLETES_FUTURE) and isinstance(f, ast.Attribute) and f.attr in ("set_exception", "set_result", "cancel"):
                        direct[q].append((tuple(held), "UserCb", c.lineno))
                    elif t.startswith(("time.sleep(", "sleep(")) and q.startswith("_ReusablePoolExecutor.") and in_while[0]:
                        # a polling loop of the resizing thread: it waits for the manager thread to make progress
                        direct[q].append((tuple(held), "TMgr", c.lineno))
                    elif isinstance(f, ast.Attribute) and f.attr == "wakeup" and not c.args and wakeup_can_block:
                        # a write into the manager's self-pipe that blocks when the pipe is full: room is made only by the manager's clear()
                        direct[q].append((tuple(held), "WPipe", c.lineno))
                    elif isinstance(f, ast.Attribute) and f.attr == "put" and un(f.value) in ("self.call_queue", "self._call_queue"):
                        direct[q].append((tuple(held), "LSlot", c.lineno))
                    else:
                        for cal in callees(c, q):
                            calls[q].append((tuple(held), cal))
            for fld in ("body", "orelse", "finalbody"):
                if getattr(s, fld, None):
                    if isinstance(s, ast.While) and fld == "body":
                        in_while[0] += 1
                    walk(q, getattr(s, fld), held)
                    if isinstance(s, ast.While) and fld == "body":
                        in_while[0] -= 1
            for h in getattr(s, "handlers", []) or []:
                walk(q, h.body, held)

    fresh = {q: fresh_names(node) for q, (node, rel) in funcs.items()}
    for q, (node, rel) in funcs.items():
        walk(q, strip_docstring(node.body), [])

    # transitive entries of each function: set of (entered, via) when called with nothing held, plus inner edges
    enters = {q: set() for q in funcs}
    edges = {}          # (a, b) -> provenance

    def add_edge(a, b, why):
        if a != b or a in ("LShutdown", "LMgmt", "LGlobal", "LFactory", "LSubmitResize"):   # re-entering a non-reentrant lock is a self-deadlock
            edges.setdefault((a, b), why)
    changed = True
    while changed:
        changed = False
        for q in funcs:
            cur = set(enters[q])
            for held, l, line in direct[q]:
                cur.add(l)
            for held, cal in calls[q]:
                cur |= enters[cal]
            if cur != enters[q]:
                enters[q] = cur
                changed = True
    for q, (node, rel) in funcs.items():
        for held, l, line in direct[q]:
            for h in held:
                add_edge(h, l, f"{q}:{line}")
        for held, cal in calls[q]:
            for h in held:
                for l in enters[cal]:
                    add_edge(h, l, f"{q} -> {cal}")
    # the reusable executor's lock is re-entrant?
    rsrc, rtree = read(repo, "loky/reusable_executor.py")
    reentrant_factory = any(isinstance(x, ast.Assign) and un(x.targets[0]) == "_executor_lock" and un(x.value) == "threading.RLock()" for x in rtree.body)
    if reentrant_factory:
        edges.pop(("LFactory", "LFactory"), None)
    # pseudo-locks
    for l in sorted(enters.get("_ExecutorManagerThread.run", ())):
        add_edge("TMgr", l, "_ExecutorManagerThread.run")
    # room in the wake-up pipe is made by the manager thread only: everything it may wait for on its way to the next clear()
    for l in sorted(enters.get("_ExecutorManagerThread.run", ())):
        if l != "WPipe" and any(b == "WPipe" for (a, b) in edges):
            add_edge("WPipe", l, "_ExecutorManagerThread.run (on its way to clear())")
    for l in sorted(enters.get("_process_worker", ())):
        if l in ("LMgmt", "LExit", "LSlot", "LCqWrite"):      # the other locks are per-process objects: the worker has its own copies
            add_edge("PWorker", l, "_process_worker")
    for q in ("ProcessPoolExecutor.submit", "_ReusablePoolExecutor.submit"):
        for l in sorted(enters.get(q, ())):
            add_edge("UserCb", l, q)
    # the feeder thread's error hook runs done-callbacks as well
    for l in sorted(enters.get("_SafeQueue._on_queue_feeder_error", ())):
        pass
    # topological numbering / cycle
    nodes = list(ALL)
    for a, b in edges:
        for x in (a, b):
            if x not in nodes:
                raise Refuse(f"lock order: unknown node {x}")
    rank, left, n = {}, set(nodes), 0
    es = set(edges) - set(EXCLUDED)
    while left:
        free = sorted(x for x in left if not any(b == x and a in left for a, b in es))
        if not free:
            break
        for x in free:
            rank[x] = n
            left.discard(x)
        n += 1
    cycle = []
    full = set(edges)
    if not left:
        # the full relation (excluded edges included): report the cycle they close, if any
        for a, b in EXCLUDED:
            if (a, b) in full:
                seen, frontier = {b: None}, [b]
                while frontier and a not in seen:
                    x = frontier.pop()
                    for (u, v) in sorted(full):
                        if u == x and v not in seen:
                            seen[v] = x
                            frontier.append(v)
                if a in seen:
                    path, x = [], a
                    while x is not None:
                        path.append(x)
                        x = seen[x]
                    cycle = path[::-1]
    if left:
        # walk backwards along incoming edges inside `left` until a node repeats
        x = sorted(left)[0]
        seen = []
        while x not in seen:
            seen.append(x)
            x = sorted(a for a, b in es if b == x and a in left)[0]
        cycle = seen[seen.index(x):][::-1]
        for y in left:
            rank[y] = n
    def lst(l):
        return "[" + "; ".join(l) + "]"
    text = ("(* GENERATED by /verif/tr from /repo's working tree -- do not edit.  source: loky/process_executor.py, loky/reusable_executor.py, "
            "loky/backend/queues.py (lock acquisitions and blocking waits under held locks) *)\n"
            "From Coq Require Import List Bool Arith.\nFrom LokyV Require Import Lib.LockLib.\nImport ListNotations.\n"
            "Definition lock_edges : list (lk * lk) := [\n  "
            + ";\n  ".join(f"({a}, {b}) (* {why} *)" for (a, b), why in sorted(edges.items())) + "].\n"
            "Definition lock_rank (l : lk) : nat :=\n  match l with\n"
            + "".join(f"  | {x} => {rank[x]}\n" for x in nodes) + "  end.\n"
            f"Definition lock_cycle_found : list lk := {lst(cycle)}.\n"
            f"Definition submit_resize_lock_is_the_factory_lock : bool := {'true' if same else 'false'}.\n")
    return text, {"edges": {f"{a}->{b}": why for (a, b), why in sorted(edges.items())}, "rank": rank, "cycle": cycle, "submit_resize_is_factory": bool(same)}
