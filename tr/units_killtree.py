"""loky/backend/utils.py: the two ways of killing a worker's process tree, statement by statement, as programs over the vocabulary
of coq/Lib/KillTreeLib.v.  Anything not in the table is refused.  Model/KillTree.v gives the programs their meaning on a process
tree; checks/killtree.py runs the real functions on a scripted operating system against the same programs evaluated in Coq."""
import ast

from pytr import Refuse, find_function, strip_docstring


def gen_killtree(repo, read):
    src, tree = read(repo, "loky/backend/utils.py")
    un = ast.unparse

    def lst(l):
        return "[" + "; ".join(l) + "]"

    # ---------------------------------------------------------------- _posix_recursive_kill
    body = strip_docstring(find_function(tree, "_posix_recursive_kill").body)
    LIST = ("try:\n    children_pids = subprocess.check_output(['pgrep', '-P', str(pid)], stderr=None, text=True)\n"
            "except subprocess.CalledProcessError as e:\n    if e.returncode == 1:\n        children_pids = ''\n    else:\n        raise")
    REC = "for cpid in children_pids.splitlines():\n    cpid = int(cpid)\n    _posix_recursive_kill(cpid)"
    posix = []
    for s in body:
        t = un(s)
        if t == LIST:
            posix.append("PListChildrenOf")
        elif t == REC:
            posix.append("PRecurseIntoEach")
        elif t == "_kill(pid)":
            posix.append("PKillSelf")
        else:
            raise Refuse(f"_posix_recursive_kill: statement outside the vocabulary: {t[:100]}", s)
    if un(find_function(tree, "_posix_recursive_kill").args) != "pid":
        raise Refuse("_posix_recursive_kill: signature changed")
    # _kill: SIGKILL (SIGTERM where there is none), ESRCH swallowed, anything else re-raised
    kb = [un(x) for x in strip_docstring(find_function(tree, "_kill").body)]
    kill_ok = kb == ["kill_signal = getattr(signal, 'SIGKILL', signal.SIGTERM)",
                     "try:\n    os.kill(pid, kill_signal)\nexcept OSError as e:\n    if e.errno != errno.ESRCH:\n        raise"]
    if not kill_ok:
        raise Refuse("_kill: no longer `os.kill(pid, SIGKILL)` with ESRCH swallowed")

    # ---------------------------------------------------------------- _kill_process_tree_with_psutil
    body = strip_docstring(find_function(tree, "_kill_process_tree_with_psutil").body)
    SNAP = "try:\n    descendants = psutil.Process(process.pid).children(recursive=True)\nexcept psutil.NoSuchProcess:\n    return"
    EACH = "for descendant in descendants[::-1]:\n    try:\n        descendant.kill()\n    except psutil.NoSuchProcess:\n        pass"
    ROOT = "try:\n    psutil.Process(process.pid).kill()\nexcept psutil.NoSuchProcess:\n    pass"
    psu = []
    for s in body:
        t = un(s)
        if t == SNAP:
            psu.append("USnapshotDescendantsOrReturn")
        elif t == EACH:
            psu.append("UKillEachReversed")
        elif t == ROOT:
            psu.append("UKillRoot")
        elif t == "process.join()":
            psu.append("UJoinRoot")
        else:
            raise Refuse(f"_kill_process_tree_with_psutil: statement outside the vocabulary: {t[:100]}", s)

    # ---------------------------------------------------------------- the psutil-less wrapper and the dispatcher
    body = strip_docstring(find_function(tree, "_kill_process_tree_without_psutil").body)
    wrap = []
    for s in body:
        t = un(s)
        if isinstance(s, ast.Try) and [un(x) for x in s.body] == [
                "if sys.platform == 'win32':\n    _windows_taskkill_process_tree(process.pid)\nelse:\n    _posix_recursive_kill(process.pid)"]:
            if len(s.handlers) != 1 or un(s.handlers[0].type) != "Exception" or s.finalbody or s.orelse:
                raise Refuse("_kill_process_tree_without_psutil: the platform kill is no longer guarded by one `except Exception`")
            hb = [un(x) for x in s.handlers[0].body]
            if len(hb) != 3 or not hb[0].startswith("details = traceback.format_exc()") or not hb[1].startswith("warnings.warn(") or hb[2] != "process.kill()":
                raise Refuse("_kill_process_tree_without_psutil: the fallback is no longer `warn; process.kill()`")
            wrap += ["WTryPlatformKill", "WOnErrorWarnAndKillRootOnly"]
        elif t == "process.join()":
            wrap.append("WJoinRoot")
        else:
            raise Refuse(f"_kill_process_tree_without_psutil: statement outside the vocabulary: {t[:100]}", s)
    disp = [un(x) for x in strip_docstring(find_function(tree, "kill_process_tree").body)]
    dispatch_ok = disp == ["if use_psutil and psutil is not None:\n    _kill_process_tree_with_psutil(process)\nelse:\n    _kill_process_tree_without_psutil(process)"]
    if not dispatch_ok:
        raise Refuse("kill_process_tree: no longer `psutil path if available and wanted, else the psutil-less path`")
    # callers: every kill loky performs on a worker goes through kill_process_tree
    psrc, ptree = read(repo, "loky/process_executor.py")
    kw = un(find_function(ptree, "_ExecutorManagerThread.kill_workers"))
    callers_ok = "kill_process_tree(p, use_psutil=True)" in kw or "kill_process_tree(p)" in kw
    b = lambda x: "true" if x else "false"  # noqa: E731
    text = ("(* GENERATED by /verif/tr from /repo's working tree -- do not edit.  source: loky/backend/utils.py *)\n"
            "From Coq Require Import List Bool.\nFrom LokyV Require Import Lib.KillTreeLib.\nImport ListNotations.\n"
            f"Definition posix_recursive_kill_prog : list pstmt := {lst(posix)}.\n"
            f"Definition psutil_kill_prog : list ustmt := {lst(psu)}.\n"
            f"Definition nopsutil_wrapper_prog : list wstmt := {lst(wrap)}.\n"
            f"Definition kill_workers_kills_whole_trees : bool := {b(callers_ok)}.\n")
    return text, {"posix": posix, "psutil": psu, "wrapper": wrap, "callers": callers_ok}
