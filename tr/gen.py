#!/usr/bin/env python3
"""Regenerate coq/Gen/*.v from /repo's current working tree (fail closed per unit)."""
import json
import os
import sys

HERE = os.path.dirname(os.path.abspath(__file__))
sys.path.insert(0, HERE)
from pytr import Refuse  # noqa: E402
import units  # noqa: E402


def main(repo="/repo", out=None, only=None):
    out = out or os.path.join(HERE, "..", "coq", "Gen")
    os.makedirs(out, exist_ok=True)
    report = {}
    for name, fn in units.GENERATORS.items():
        if only and name not in only:
            continue
        path = os.path.join(out, name + ".v")
        try:
            text, man = fn(repo)
        except Refuse as e:
            # fail closed: no file at all for this unit
            if os.path.exists(path):
                os.unlink(path)
            for ext in (".vo", ".glob", ".vok", ".vos"):
                q = os.path.join(out, name + ext)
                if os.path.exists(q):
                    os.unlink(q)
            report[name] = {"ok": False, "refused": str(e)}
            continue
        old = open(path).read() if os.path.exists(path) else None
        if old != text:
            with open(path, "w") as f:
                f.write(text)
        report[name] = {"ok": True, "changed": old != text, "manifest": man}
    return report


if __name__ == "__main__":
    only = sys.argv[2:] or None
    r = main(sys.argv[1] if len(sys.argv) > 1 else "/repo", only=only)
    json.dump(r, sys.stdout, indent=1)
    print()
