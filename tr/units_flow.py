"""The functions that move a work item through the executor's shared structures, statement by statement, as programs over the
vocabulary of coq/Lib/FlowLib.v:
   _ExecutorManagerThread.add_call_item_to_queue   (table -> call queue)
   _ExecutorManagerThread.process_result_item       (the _ResultItem branch: result -> future)
   _SafeQueue._on_queue_feeder_error                (a call item that could not be sent)
   Queue._feed                                      (the error tail of the feeder thread: slot released, then the hook)
   the body of the forced-shutdown loop             (popitem, then the future is failed)
Every statement must be in the closed table below (logging and pure construction of the error object are dropped by name);
anything else is refused.  Model/FlowTie.v compares the order of mutations these programs perform with the program counters of
Model/TokenFlow.v."""
import ast

from pytr import Refuse, find_function, strip_docstring

LOG = ("mp.util.info(", "mp.util.debug(", "util.debug(", "util.info(")


def gen_flow(repo, read):
    src, tree = read(repo, "loky/process_executor.py")
    qsrc, qtree = read(repo, "loky/backend/queues.py")
    un = ast.unparse
    M = "_ExecutorManagerThread."

    def lst(l):
        return "[" + "; ".join(l) + "]"

    # ---------------------------------------------------------------- add_call_item_to_queue
    fn = find_function(tree, M + "add_call_item_to_queue")
    body = strip_docstring(fn.body)
    if len(body) != 1 or not isinstance(body[0], ast.While) or un(body[0].test) != "True" or body[0].orelse:
        raise Refuse("add_call_item_to_queue: not a single `while True:` loop")
    PUT = ("self.call_queue.put(_CallItem(work_id, work_item.fn, work_item.args, work_item.kwargs), block=True)")

    def add_stmts(stmts):
        out = []
        for s in stmts:
            t = un(s)
            if isinstance(s, ast.Expr) and t.startswith(LOG):
                continue
            if t == "if self.call_queue.full():\n    return":
                out.append("GReturnIfFull")
            elif isinstance(s, ast.Try) and [un(x) for x in s.body] == ["work_id = self.work_ids_queue.get(block=False)"]:
                if len(s.handlers) != 1 or un(s.handlers[0].type) != "queue.Empty" or [un(x) for x in s.handlers[0].body] != ["return"] or s.finalbody:
                    raise Refuse("add_call_item_to_queue: the get of a work id is no longer `except queue.Empty: return`")
                out.append("GTakeIdOrReturn")
                out += add_stmts(s.orelse)
            elif t == "work_item = self.pending_work_items[work_id]":
                out.append("GLookup")
            elif isinstance(s, ast.If) and un(s.test) == "work_item.future.set_running_or_notify_cancel()":
                out.append(f"GIfSetRunning {lst(add_stmts(s.body))} {lst(add_stmts(s.orelse))}")
            elif t in ("self.running_work_items += [work_id]", "self.running_work_items.append(work_id)"):
                out.append("GAddRunning")
            elif t == PUT:
                out.append("GPutCall")
            elif t == "del self.pending_work_items[work_id]":
                out.append("GDelPending")
            elif isinstance(s, ast.Continue):
                out.append("GContinue")
            else:
                raise Refuse(f"add_call_item_to_queue: statement outside the vocabulary: {t[:100]}", s)
        return out
    add_prog = add_stmts(body[0].body)

    # ---------------------------------------------------------------- process_result_item (the _ResultItem branch)
    fn = find_function(tree, M + "process_result_item")
    pb = strip_docstring(fn.body)
    if len(pb) != 1 or not isinstance(pb[0], ast.If) or un(pb[0].test) != "isinstance(result_item, int)":
        raise Refuse("process_result_item: no longer `if isinstance(result_item, int): ... else: ...`")
    SET = "if result_item.exception:\n    work_item.future.set_exception(result_item.exception)\nelse:\n    work_item.future.set_result(result_item.result)"

    def res_stmts(stmts):
        out = []
        for s in stmts:
            t = un(s)
            if isinstance(s, ast.Expr) and t.startswith(LOG):
                continue
            if t == "work_item = self.pending_work_items.pop(result_item.work_id, None)":
                out.append("GPopPending")
            elif isinstance(s, ast.If) and un(s.test) == "work_item is not None" and not s.orelse:
                out.append(f"GIfHadItem {lst(res_stmts(s.body))}")
            elif t == SET:
                out.append("GSetOutcome")
            elif t == "self.running_work_items.remove(result_item.work_id)":
                out.append("GDelRunning")
            elif t == "del work_item":
                out.append("GDropRef")
            else:
                raise Refuse(f"process_result_item: statement outside the vocabulary: {t[:100]}", s)
        return out
    res_prog = res_stmts(pb[0].orelse)

    # ---------------------------------------------------------------- _SafeQueue._on_queue_feeder_error
    fn = find_function(tree, "_SafeQueue._on_queue_feeder_error")
    fb = strip_docstring(fn.body)
    if len(fb) != 1 or not isinstance(fb[0], ast.If) or un(fb[0].test) != "isinstance(obj, _CallItem)" \
            or [un(x) for x in fb[0].orelse] != ["super()._on_queue_feeder_error(e, obj)"]:
        raise Refuse("_on_queue_feeder_error: no longer `if isinstance(obj, _CallItem): ... else: super()...`")

    def err_stmts(stmts):
        out = []
        for s in stmts:
            t = un(s)
            if isinstance(s, ast.Expr) and t.startswith(LOG):
                continue
            if isinstance(s, ast.If) and un(s.test) == "isinstance(e, struct.error)" and all(
                    isinstance(x, ast.Assign) and un(x.targets[0]) == "raised_error" for x in s.body + s.orelse):
                # the error is built from constant text only: nothing of the user's objects (their repr may raise, or be huge) is
                # evaluated in the feeder thread before the bookkeeping is done
                for x in s.body + s.orelse:
                    v = x.value
                    if not (isinstance(v, ast.Call) and not v.keywords and all(isinstance(a, ast.Constant) for a in v.args)):
                        raise Refuse("_on_queue_feeder_error: the error message is no longer constant text", x)
                out.append("GBuildError")
            elif t.startswith("tb = traceback.format_exception(") or t == "raised_error.__cause__ = _RemoteTraceback(''.join(tb))":
                continue
            elif t == "work_item = self.pending_work_items.pop(obj.work_id, None)":
                out.append("GPopPending")
            elif t == "self.running_work_items.remove(obj.work_id)":
                out.append("GDelRunning")
            elif isinstance(s, ast.If) and un(s.test) == "work_item is not None" and not s.orelse:
                out.append(f"GIfHadItem {lst(err_stmts(s.body))}")
            elif t == "work_item.future.set_exception(raised_error)":
                out.append("GSetSendError")
            elif t == "del work_item":
                out.append("GDropRef")
            elif t == "with self.shutdown_lock:\n    self.thread_wakeup.wakeup()":
                out.append("GWake")
            else:
                raise Refuse(f"_on_queue_feeder_error: statement outside the vocabulary: {t[:100]}", s)
        return out
    err_prog = err_stmts(fb[0].body)

    # ---------------------------------------------------------------- Queue._feed: what happens to an object that could not be sent
    fn = find_function(qtree, "Queue._feed")
    loops = [s for s in strip_docstring(fn.body) if isinstance(s, ast.While)]
    if len(loops) != 1 or un(loops[0].test) != "True" or len(loops[0].body) != 1 or not isinstance(loops[0].body[0], ast.Try):
        raise Refuse("Queue._feed: not one `while True: try:` loop")
    tr_ = loops[0].body[0]
    if len(tr_.handlers) != 1 or un(tr_.handlers[0].type) != "BaseException" or tr_.finalbody or tr_.orelse:
        raise Refuse("Queue._feed: the loop body is no longer guarded by one `except BaseException`")
    hb = tr_.handlers[0].body
    if len(hb) != 2 or un(hb[0]) != "if ignore_epipe and getattr(e, 'errno', 0) == errno.EPIPE:\n    return" \
            or not isinstance(hb[1], ast.If) or un(hb[1].test) != "util.is_exiting()":
        raise Refuse("Queue._feed: error handler changed shape")
    tail = []
    for s in hb[1].orelse:
        t = un(s)
        if t == "queue_sem.release()":
            tail.append("GRelSlot")
        elif t == "onerror(e, obj)":
            tail.append("GOnError")
        else:
            raise Refuse(f"Queue._feed: error tail outside the vocabulary: {t[:80]}", s)
    # the inner loop: pop, (sentinel -> close, return), serialise, send under the write lock, drop
    inner_try = [s for s in tr_.body if isinstance(s, ast.Try)]
    inner = inner_try[-1] if inner_try else None
    send = []
    if inner is None or len(inner.body) != 1 or not isinstance(inner.body[0], ast.While) or un(inner.body[0].test) != "True" \
            or [un(h.type) for h in inner.handlers] != ["IndexError"]:
        raise Refuse("Queue._feed: inner loop changed shape")
    for s in inner.body[0].body:
        t = un(s)
        if t == "obj = bpopleft()":
            send.append("GPopBuffer")
        elif isinstance(s, ast.If) and un(s.test) == "obj is sentinel":
            if [un(x) for x in s.body if not un(x).startswith(LOG)] != ["close()", "return"]:
                raise Refuse("Queue._feed: sentinel branch changed")
            send.append("GIfQueueClosedReturn")
        elif t == "obj_ = dumps(obj, reducers=reducers)":
            send.append("GSerialise")
        elif isinstance(s, ast.If) and un(s.test) == "wacquire is None":
            if [un(x) for x in s.body] != ["send_bytes(obj_)"] or \
                    [un(x) for x in s.orelse] != ["wacquire()", "try:\n    send_bytes(obj_)\nfinally:\n    wrelease()"]:
                raise Refuse("Queue._feed: the send is no longer `wacquire(); try: send_bytes(obj_) finally: wrelease()`")
            send.append("GSendUnderWriteLock")
        elif t == "del obj, obj_":
            send.append("GDropRef")
        else:
            raise Refuse(f"Queue._feed: inner loop statement outside the vocabulary: {t[:80]}", s)

    # ---------------------------------------------------------------- forced shutdown: the loop failing the table
    fsd = find_function(tree, M + "flag_executor_shutting_down")
    wl = [x for x in ast.walk(fsd) if isinstance(x, ast.While) and un(x.test) == "self.pending_work_items"]
    if len(wl) != 1:
        raise Refuse("flag_executor_shutting_down: no `while self.pending_work_items:` loop")
    forced = []
    for s in wl[0].body:
        t = un(s)
        if t in ("_, work_item = self.pending_work_items.popitem()",
                 "try:\n    _, work_item = self.pending_work_items.popitem()\nexcept KeyError:\n    break"):
            forced.append("GPopItem")
        elif "work_item.future.set_exception(ShutdownExecutorError(" in t and (isinstance(s, (ast.Expr, ast.Try, ast.If))):
            forced.append("GSetShutdownError")
        elif t == "del work_item":
            forced.append("GDropRef")
        else:
            raise Refuse(f"flag_executor_shutting_down: loop statement outside the vocabulary: {t[:80]}", s)

    text = ("(* GENERATED by /verif/tr from /repo's working tree -- do not edit.  source: loky/process_executor.py "
            "(add_call_item_to_queue, process_result_item, _on_queue_feeder_error, flag_executor_shutting_down), loky/backend/queues.py (_feed) *)\n"
            "From Coq Require Import List Bool.\nFrom LokyV Require Import Lib.FlowLib.\nImport ListNotations.\n"
            f"Definition add_call_item_prog : list gop := {lst(add_prog)}.\n"
            f"Definition process_result_prog : list gop := {lst(res_prog)}.\n"
            f"Definition feeder_error_prog : list gop := {lst(err_prog)}.\n"
            f"Definition feed_error_tail : list gop := {lst(tail)}.\n"
            f"Definition feed_send_loop : list gop := {lst(send)}.\n"
            f"Definition forced_fail_body : list gop := {lst(forced)}.\n")
    return text, {"add_call_item": add_prog, "process_result": res_prog, "feeder_error": err_prog, "feed_tail": tail,
                  "feed_send": send, "forced": forced}
