"""C10: _ReusablePoolExecutor._resize / _wait_job_completion as a program in the vocabulary of coq/Lib/ResizeLib.v.
Every statement must be recognised; anything else is refused."""
import ast

from pytr import Refuse, find_function, strip_docstring


def gen_resize(repo, read):
    src, tree = read(repo, "loky/reusable_executor.py")
    f = find_function(tree, "_ReusablePoolExecutor._resize")
    if ast.unparse(f.args) != "self, max_workers":
        raise Refuse("_resize: signature changed")
    body = strip_docstring(f.body)
    if len(body) != 1 or not isinstance(body[0], ast.With) or ast.unparse(body[0].items[0]) != "self._submit_resize_lock":
        raise Refuse("_resize: no longer one block under the submit/resize lock")
    simple = {
        "self._max_workers = max_workers": "ZSetMax",
        "return": "ZReturn",
        "self._wait_job_completion()": "ZWaitJobs",
        "processes = list(self._processes.values())": None,
        "nb_children_alive = sum((p.is_alive() for p in processes))": "ZSnapshotAlive",
        "self._adjust_process_count()": "ZAdjust",
    }

    def block(stmts):
        out = []
        for x in stmts:
            t = ast.unparse(x)
            if isinstance(x, ast.If):
                c = ast.unparse(x.test)
                if c == "max_workers is None" and [ast.unparse(y)[:16] for y in x.body] == ["raise ValueError"]:
                    out.append("ZRaiseIfNone")
                    if x.orelse:
                        out += block(x.orelse)
                elif c == "max_workers == self._max_workers" and [ast.unparse(y) for y in x.body] == ["return"] and not x.orelse:
                    out.append("ZReturnIfSame")
                elif c == "self._flags.broken is None and (not self._flags.shutdown)" and not x.orelse \
                        and [ast.unparse(y) for y in x.body] == ["self._adjust_process_count()"]:
                    out.append("ZAdjustIfLive")
                elif c == "self._executor_manager_thread is None" and not x.orelse:
                    out.append("ZIfNotStarted [" + "; ".join(block(x.body)) + "]")
                else:
                    raise Refuse(f"_resize: conditional not recognised: {c!r}", x)
            elif isinstance(x, ast.With) and ast.unparse(x.items[0]) == "self._shutdown_lock":
                if [ast.unparse(y) for y in x.body] != ["if self._executor_manager_thread_wakeup is not None:\n    self._executor_manager_thread_wakeup.wakeup()"]:
                    raise Refuse("_resize: unexpected block under the shutdown lock", x)
                out.append("ZWakeManager")
            elif isinstance(x, ast.With):
                if ast.unparse(x.items[0]) != "self._processes_management_lock":
                    raise Refuse("_resize: unexpected lock", x)
                out.append("ZLocked [" + "; ".join(block(x.body)) + "]")
            elif isinstance(x, ast.For):
                if (ast.unparse(x.target), ast.unparse(x.iter), [ast.unparse(y) for y in x.body]) != \
                        ("_", "range(max_workers, nb_children_alive)", ["self._call_queue.put(None)"]):
                    raise Refuse("_resize: sentinel loop changed", x)
                out.append("ZPostSentinels")
            elif isinstance(x, ast.While):
                c = ast.unparse(x.test)
                if [ast.unparse(y) for y in x.body] != ["time.sleep(0.001)"]:
                    raise Refuse("_resize: wait loop body changed", x)
                if c == "len(self._processes) > max_workers and (not self._flags.broken)":
                    out.append("ZWaitShrunk")
                elif c == "not self._flags.broken and (not all((p.is_alive() for p in list(self._processes.values()))))":
                    out.append("ZWaitAllAlive")
                else:
                    raise Refuse(f"_resize: wait condition not recognised: {c!r}", x)
            elif t in simple:
                if simple[t]:
                    out.append(simple[t])
            else:
                raise Refuse(f"_resize: statement not recognised: {t[:120]!r}", x)
        return out
    prog = block(body[0].body)
    w = strip_docstring(find_function(tree, "_ReusablePoolExecutor._wait_job_completion").body)
    waits_until_empty = (len(w) == 2 and isinstance(w[0], ast.If) and ast.unparse(w[0].test) == "self._pending_work_items"
                         and isinstance(w[1], ast.While) and ast.unparse(w[1].test) == "self._pending_work_items"
                         and [ast.unparse(y) for y in w[1].body] == ["time.sleep(0.001)"])
    sub = [ast.unparse(x) for x in strip_docstring(find_function(tree, "_ReusablePoolExecutor.submit").body)]
    submit_excluded = sub == ["with self._submit_resize_lock:\n    return super().submit(fn, *args, **kwargs)"]
    # the worker's idle-exit path gives up when the management lock is taken (process_executor._process_worker)
    psrc, ptree = read(repo, "loky/process_executor.py")
    pw = ast.unparse(find_function(ptree, "_process_worker"))
    idle_exit_needs_lock = "if processes_management_lock.acquire(block=False):\n                processes_management_lock.release()" in pw
    # the call queue of a resizable executor is sized from the host, not from the current number of workers (it is created once)
    sq = [ast.unparse(x) for x in strip_docstring(find_function(tree, "_ReusablePoolExecutor._setup_queues").body)]
    queue_sized_from_the_host = sq == ["queue_size = 2 * cpu_count() + EXTRA_QUEUED_CALLS",
                                       "super()._setup_queues(job_reducers, result_reducers, queue_size=queue_size)"]
    # the two capacity formulas, as functions of max_workers / of the host's CPU count (nat arithmetic: +, *, constants, and the
    # module constant EXTRA_QUEUED_CALLS read from its assignment)
    extra = [x for x in ptree.body if isinstance(x, ast.Assign) and ast.unparse(x.targets[0]) == "EXTRA_QUEUED_CALLS"]
    if len(extra) != 1 or not isinstance(extra[0].value, ast.Constant) or not isinstance(extra[0].value.value, int) or extra[0].value.value < 0:
        raise Refuse("EXTRA_QUEUED_CALLS is no longer one module-level natural-number constant")
    extra_v = extra[0].value.value

    def arith(e, var):
        if isinstance(e, ast.Constant) and isinstance(e.value, int) and not isinstance(e.value, bool) and 0 <= e.value < 1000:
            return str(e.value)
        if isinstance(e, ast.Name) and e.id == "EXTRA_QUEUED_CALLS":
            return str(extra_v)
        if ast.unparse(e) == var:
            return "n"
        if isinstance(e, ast.BinOp) and isinstance(e.op, (ast.Add, ast.Mult)):
            return f"({arith(e.left, var)} {'+' if isinstance(e.op, ast.Add) else '*'} {arith(e.right, var)})"
        raise Refuse(f"call-queue capacity: expression outside (+, *, constants, {var}): {ast.unparse(e)[:80]}", e)
    psq = strip_docstring(find_function(ptree, "ProcessPoolExecutor._setup_queues").body)
    if len(psq) < 2 or not isinstance(psq[0], ast.If) or ast.unparse(psq[0].test) != "queue_size is None" or psq[0].orelse \
            or len(psq[0].body) != 1 or not isinstance(psq[0].body[0], ast.Assign) or ast.unparse(psq[0].body[0].targets[0]) != "queue_size":
        raise Refuse("ProcessPoolExecutor._setup_queues: no longer starts with `if queue_size is None: queue_size = ...`")
    plain_formula = arith(psq[0].body[0].value, "self._max_workers")
    cq = psq[1]
    if not (isinstance(cq, ast.Assign) and ast.unparse(cq.targets[0]) == "self._call_queue" and isinstance(cq.value, ast.Call)
            and ast.unparse(cq.value.func) == "_SafeQueue" and {k.arg: ast.unparse(k.value) for k in cq.value.keywords}.get("max_size") == "queue_size"):
        raise Refuse("ProcessPoolExecutor._setup_queues: the call queue is no longer `_SafeQueue(max_size=queue_size, ...)`")
    rsq = strip_docstring(find_function(tree, "_ReusablePoolExecutor._setup_queues").body)
    if rsq and isinstance(rsq[0], ast.Assign) and ast.unparse(rsq[0].targets[0]) == "queue_size":
        reusable_formula = arith(rsq[0].value, "cpu_count()")
    else:
        reusable_formula = None
    b = lambda x: "true" if x else "false"  # noqa: E731
    text = "(* GENERATED by /verif/tr from /repo's working tree -- do not edit.  source: loky/reusable_executor.py, process_executor.py *)\n"
    text += "From Coq Require Import List Bool.\nFrom LokyV Require Import Lib.ResizeLib.\nImport ListNotations.\n"
    text += "Definition resize_prog : list rz := [" + "; ".join(prog) + "].\n"
    text += f"Definition wait_job_completion_waits_until_nothing_is_pending : bool := {b(waits_until_empty)}.\n"
    text += f"Definition submit_is_excluded_during_resize : bool := {b(submit_excluded)}.\n"
    text += f"Definition idle_exit_gives_up_when_the_management_lock_is_taken : bool := {b(idle_exit_needs_lock)}.\n"
    text += f"Definition call_queue_is_sized_from_the_host_cpu_count : bool := {b(queue_sized_from_the_host)}.\n"
    text += f"(* slots of the call queue of a plain executor, as a function of max_workers *)\nDefinition plain_queue_slots (n : nat) : nat := {plain_formula}.\n"
    if reusable_formula is not None and queue_sized_from_the_host:
        text += f"(* slots of the call queue of the reusable executor, as a function of the host's CPU count *)\nDefinition reusable_queue_slots (n : nat) : nat := {reusable_formula}.\n"
    else:
        # no override (or one of another shape): the reusable executor's queue is the plain one, sized from its initial max_workers
        text += "Definition reusable_queue_slots (n : nat) : nat := 0.\n"
    return text, {"program": prog, "facts": {"waits": waits_until_empty, "submit_excluded": submit_excluded, "idle_lock": idle_exit_needs_lock}}
