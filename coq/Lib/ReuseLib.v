(* Vocabulary and semantics of the reusable-executor factory (C09); Gen/Reuse.v is a program in it. *)
From Coq Require Import List ZArith Bool Arith.
Import ListNotations.
Open Scope Z_scope.

Inductive cond :=
| CMaxIsNone | CMaxNonPos | CReuseIsTrue | CReuseIsAuto | CReuse
| CExecutorNone | CBroken | CShutdown | CContextIsStr | CContextNone | CContextFork
| CNot (c : cond) | CAnd (a b : cond) | COr (a b : cond).

Inductive stmt :=
| SSkip | SSeq (a b : stmt) | SIf (c : cond) (t e : stmt)
| SLoadExecutor | SMaxFromExecutor | SMaxFromCpu | SRaiseValue | SResolveContext | SBuildKwargs
| SReused (b : bool) | SNextId | SStoreKwargs | SCreate | SReuseFromKwargs
| SShutdownPrev (wait kill_from_arg : bool) | SClear | SRecurse | SResize | SReturn.

Inductive tri := RTrue | RFalse | RAuto.
Inductive rv := RV (t : tri) | RB (b : bool).            (* the local [reuse]: the argument, or the result of the kwargs comparison *)
Inductive ctxk := CtxNone | CtxStr (fork : bool) | CtxObj (fork : bool).

Record args := mkargs { a_max : option Z; a_kw : nat; a_reuse : tri; a_kill : bool; a_ctx : ctxk }.
(* a_kw: identity of the (context, timeout, reducers, initializer, initargs, env) tuple, after resolution of the context *)

Record exr := mkx { xid : nat; xmax : Z; xkw : nat; xbroken : bool; xshut : bool; xjoined : bool; xkilled : bool }.
Record gst := mkg { g_cur : option exr; g_kw : option nat; g_next : nat; g_retired : list exr; g_cpu : Z }.

Record frame := mkf { l_has : bool;            (* the local [executor] is the global one (true) or None *)
                      l_max : option Z; l_reuse : rv; l_ctx : ctxk; l_kwargs : option nat; l_reused : bool; l_id : nat }.

Inductive out :=
| Go (f : frame) (g : gst)
| Ret (x : option exr) (reused : bool) (g : gst)
| Exc (g : gst)
| Rec (a : args) (g : gst)
| Bad.                                          (* an operation Python would reject (attribute of None, ...) *)

Definition lexec (f : frame) (g : gst) : option exr := if l_has f then g_cur g else None.

Fixpoint ceval (c : cond) (f : frame) (g : gst) : option bool :=
  match c with
  | CMaxIsNone => Some (match l_max f with None => true | _ => false end)
  | CMaxNonPos => match l_max f with Some z => Some (z <=? 0) | None => None end
  | CReuseIsTrue => Some (match l_reuse f with RV RTrue | RB true => true | _ => false end)
  | CReuseIsAuto => Some (match l_reuse f with RV RAuto => true | _ => false end)
  | CReuse => Some (match l_reuse f with RV RFalse | RB false => false | _ => true end)
  | CExecutorNone => Some (match lexec f g with None => true | _ => false end)
  | CBroken => match lexec f g with Some x => Some (xbroken x) | None => None end
  | CShutdown => match lexec f g with Some x => Some (xshut x) | None => None end
  | CContextIsStr => Some (match l_ctx f with CtxStr _ => true | _ => false end)
  | CContextNone => Some (match l_ctx f with CtxNone => true | _ => false end)
  | CContextFork => match l_ctx f with CtxObj b => Some b | _ => None end
  | CNot c => option_map negb (ceval c f g)
  | CAnd a b => match ceval a f g with Some true => ceval b f g | r => r end
  | COr a b => match ceval a f g with Some false => ceval b f g | r => r end
  end.

Definition with_cur (g : gst) (x : option exr) := mkg x (g_kw g) (g_next g) (g_retired g) (g_cpu g).

(* one atomic statement: the new frame and global state, or None when Python would reject the operation *)
Definition atom (s : stmt) (a : args) (f : frame) (g : gst) : option (frame * gst) :=
  match s with
  | SLoadExecutor => Some (mkf true (l_max f) (l_reuse f) (l_ctx f) (l_kwargs f) (l_reused f) (l_id f), g)
  | SMaxFromExecutor => match lexec f g with
                        | Some x => Some (mkf (l_has f) (Some (xmax x)) (l_reuse f) (l_ctx f) (l_kwargs f) (l_reused f) (l_id f), g)
                        | None => None end
  | SMaxFromCpu => Some (mkf (l_has f) (Some (g_cpu g)) (l_reuse f) (l_ctx f) (l_kwargs f) (l_reused f) (l_id f), g)
  | SResolveContext => match l_ctx f with
                       | CtxStr b => Some (mkf (l_has f) (l_max f) (l_reuse f) (CtxObj b) (l_kwargs f) (l_reused f) (l_id f), g)
                       | _ => None end
  | SBuildKwargs => Some (mkf (l_has f) (l_max f) (l_reuse f) (l_ctx f) (Some (a_kw a)) (l_reused f) (l_id f), g)
  | SReused b => Some (mkf (l_has f) (l_max f) (l_reuse f) (l_ctx f) (l_kwargs f) b (l_id f), g)
  | SNextId => Some (mkf (l_has f) (l_max f) (l_reuse f) (l_ctx f) (l_kwargs f) (l_reused f) (g_next g),
                     mkg (g_cur g) (g_kw g) (S (g_next g)) (g_retired g) (g_cpu g))
  | SStoreKwargs => Some (f, mkg (g_cur g) (l_kwargs f) (g_next g) (g_retired g) (g_cpu g))
  | SCreate => match l_max f, l_kwargs f with
               | Some m, Some k =>
                   Some (mkf true (l_max f) (l_reuse f) (l_ctx f) (l_kwargs f) (l_reused f) (l_id f),
                         mkg (Some (mkx (l_id f) m k false false false false)) (g_kw g) (g_next g)
                             (match g_cur g with Some old => g_retired g ++ [old] | None => g_retired g end) (g_cpu g))
               | _, _ => None end
  | SReuseFromKwargs => match l_kwargs f with
                        | Some k => Some (mkf (l_has f) (l_max f) (RB (match g_kw g with Some k' => Nat.eqb k k' | None => false end))
                                              (l_ctx f) (l_kwargs f) (l_reused f) (l_id f), g)
                        | None => None end
  | SShutdownPrev wait kill =>
      match lexec f g with
      | Some x => Some (f, with_cur g (Some (mkx (xid x) (xmax x) (xkw x) (xbroken x) true (xjoined x || wait)
                                                 (xkilled x || (kill && a_kill a)))))
      | None => None end
  | SClear => Some (mkf false (l_max f) (l_reuse f) (l_ctx f) (l_kwargs f) (l_reused f) (l_id f),
                    mkg None None (g_next g) (match g_cur g with Some old => g_retired g ++ [old] | None => g_retired g end) (g_cpu g))
  | SResize => match lexec f g, l_max f with
               | Some x, Some m => Some (f, with_cur g (Some (mkx (xid x) m (xkw x) (xbroken x) (xshut x) (xjoined x) (xkilled x))))
               | _, _ => None end
  | _ => None
  end.

(* a stack machine (so that a test whose outcome is not yet known never has to be followed by a symbolic continuation);
   fuel only bounds the number of steps of one call: running out of it is reported as Bad *)
Fixpoint run (fuel : nat) (k : list stmt) (a : args) (f : frame) (g : gst) : out :=
  match fuel with
  | O => Bad
  | S fuel =>
      match k with
      | [] => Go f g
      | s :: k =>
          match s with
          | SSkip => run fuel k a f g
          | SSeq p q => run fuel (p :: q :: k) a f g
          | SIf c t e => match ceval c f g with
                         | Some true => run fuel (t :: k) a f g
                         | Some false => run fuel (e :: k) a f g
                         | None => Bad end
          | SRaiseValue => Exc g
          | SRecurse => match l_kwargs f with
                        | Some kw => Rec (mkargs (l_max f) kw RAuto false (l_ctx f)) g
                        | None => Bad end
          | SReturn => Ret (lexec f g) (l_reused f) g
          | s => match atom s a f g with Some (f', g') => run fuel k a f' g' | None => Bad end
          end
      end
  end.
Definition exec (s : stmt) (a : args) (f : frame) (g : gst) : out := run 200 [s] a f g.

Definition frame0 (a : args) : frame := mkf false (a_max a) (RV (a_reuse a)) (a_ctx a) None false 0.

Fixpoint call (prog : stmt) (fuel : nat) (a : args) (g : gst) : out :=
  match fuel with
  | O => Bad
  | S fuel => match exec prog a (frame0 a) g with
              | Rec a' g' => call prog fuel a' g'
              | Go _ _ => Bad                 (* fell off the end without a return *)
              | o => o end
  end.
