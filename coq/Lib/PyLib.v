(* PyLib: the fragment of Python semantics the translator (tr/) targets.
   Total, computable, stdlib only.  Every function here that mirrors a CPython
   primitive is validated differentially against CPython by corr/diff/pylib_diff.py. *)
From Coq Require Import List String Ascii ZArith Bool Lia.
Import ListNotations.
Open Scope string_scope.

(* ---------- exceptions ---------- *)
Inductive exn :=
| KeyError | ValueError | RuntimeError | IndexError | TypeError
| UnicodeDecodeError | ZeroDivisionError | OSError | FileNotFoundError
| NotImplementedError | LokyRecursionError | AssertionError | StopIteration
| ImportError | OtherError.

Definition exn_eqb (a b : exn) : bool :=
  match a, b with
  | KeyError, KeyError | ValueError, ValueError | RuntimeError, RuntimeError
  | IndexError, IndexError | TypeError, TypeError
  | UnicodeDecodeError, UnicodeDecodeError | ZeroDivisionError, ZeroDivisionError
  | OSError, OSError | FileNotFoundError, FileNotFoundError
  | NotImplementedError, NotImplementedError
  | LokyRecursionError, LokyRecursionError | AssertionError, AssertionError
  | StopIteration, StopIteration | ImportError, ImportError | OtherError, OtherError => true
  | _, _ => false
  end.

(* Python's class hierarchy restricted to the enum: [exn_isa e c] = isinstance(e, c). *)
Definition exn_isa (e c : exn) : bool :=
  exn_eqb e c ||
  match e, c with
  | UnicodeDecodeError, ValueError => true
  | FileNotFoundError, OSError => true
  | NotImplementedError, RuntimeError => true
  | LokyRecursionError, RuntimeError => true
  | _, _ => false
  end.

Inductive res (A : Type) := Ok (a : A) | Err (e : exn).
Arguments Ok {A} a. Arguments Err {A} e.

Definition rbind {A B} (r : res A) (f : A -> res B) : res B :=
  match r with Ok a => f a | Err e => Err e end.

(* ---------- statement monad: explicit local state, Python control flow ---------- *)
(* L = record of the function's local variables, R = return type. *)
Inductive ctl (R : Type) := Norm | Ret (r : R) | Raise (e : exn) | Cont | Brk.
Arguments Norm {R}. Arguments Ret {R} r. Arguments Raise {R} e.
Arguments Cont {R}. Arguments Brk {R}.

Definition stm (L R : Type) := L -> ctl R * L.

Definition skip {L R} : stm L R := fun l => (Norm, l).
Definition seq {L R} (a b : stm L R) : stm L R :=
  fun l => match a l with (Norm, l') => b l' | (c, l') => (c, l') end.
Definition ite {L R} (c : L -> res bool) (a b : stm L R) : stm L R :=
  fun l => match c l with
           | Ok true => a l | Ok false => b l | Err e => (Raise e, l) end.
(* x = e *)
Definition assign {L R A} (e : L -> res A) (set : A -> L -> L) : stm L R :=
  fun l => match e l with Ok v => (Norm, set v l) | Err x => (Raise x, l) end.
Definition ret {L R} (e : L -> res R) : stm L R :=
  fun l => match e l with Ok v => (Ret v, l) | Err x => (Raise x, l) end.
Definition raise_ {L R} (e : exn) : stm L R := fun l => (Raise e, l).
Definition continue_ {L R} : stm L R := fun l => (Cont, l).
Definition break_ {L R} : stm L R := fun l => (Brk, l).
(* try: body except <classes>: handler   (handler sees the state at the raise) *)
Definition try_except {L R} (body : stm L R) (classes : list exn) (catch_all : bool)
           (handler : stm L R) : stm L R :=
  fun l => match body l with
           | (Raise e, l') =>
               if catch_all || existsb (exn_isa e) classes then handler l' else (Raise e, l')
           | r => r end.
(* try: body finally: fin *)
Definition try_finally {L R} (body fin : stm L R) : stm L R :=
  fun l => match body l with
           | (c, l') => match fin l' with (Norm, l'') => (c, l'') | r => r end
           end.
(* for x in xs: body   — xs evaluated once; break/continue handled *)
Fixpoint for_loop {L R A} (xs : list A) (set : A -> L -> L) (body : stm L R) : stm L R :=
  fun l => match xs with
           | [] => (Norm, l)
           | x :: xs' =>
               match body (set x l) with
               | (Norm, l') | (Cont, l') => for_loop xs' set body l'
               | (Brk, l') => (Norm, l')
               | r => r
               end
           end.
Definition for_ {L R A} (e : L -> res (list A)) (set : A -> L -> L) (body : stm L R)
  : stm L R :=
  fun l => match e l with Ok xs => for_loop xs set body l | Err x => (Raise x, l) end.

(* ---------- expression helpers ---------- *)
Definition pure {L A} (a : A) : L -> res A := fun _ => Ok a.
Definition rd {L A} (get : L -> A) : L -> res A := fun l => Ok (get l).
Definition ap1 {L A B} (f : A -> res B) (a : L -> res A) : L -> res B :=
  fun l => rbind (a l) f.
Definition ap2 {L A B C} (f : A -> B -> res C) (a : L -> res A) (b : L -> res B)
  : L -> res C := fun l => rbind (a l) (fun x => rbind (b l) (fun y => f x y)).
Definition ap3 {L A B C D} (f : A -> B -> C -> res D) (a : L -> res A) (b : L -> res B)
           (c : L -> res C) : L -> res D :=
  fun l => rbind (a l) (fun x => rbind (b l) (fun y => rbind (c l) (fun z => f x y z))).
Definition lift1 {A B} (f : A -> B) : A -> res B := fun a => Ok (f a).
Definition lift2 {A B C} (f : A -> B -> C) : A -> B -> res C := fun a b => Ok (f a b).
Definition lift3 {A B C D} (f : A -> B -> C -> D) : A -> B -> C -> res D :=
  fun a b c => Ok (f a b c).
(* short-circuit and / or on booleans; conditional expression *)
Definition e_and {L} (a b : L -> res bool) : L -> res bool :=
  fun l => match a l with Ok true => b l | r => r end.
Definition e_or {L} (a b : L -> res bool) : L -> res bool :=
  fun l => match a l with Ok false => b l | r => r end.
Definition e_not {L} (a : L -> res bool) : L -> res bool :=
  fun l => match a l with Ok b => Ok (negb b) | Err e => Err e end.
Definition e_if {L A} (c : L -> res bool) (a b : L -> res A) : L -> res A :=
  fun l => match c l with Ok true => a l | Ok false => b l | Err e => Err e end.

(* ---------- strings (bytes and ASCII str share the representation) ---------- *)
Definition is_space (c : ascii) : bool :=
  let n := nat_of_ascii c in
  Nat.eqb n 32 || (Nat.leb 9 n && Nat.leb n 13).
(* bytes.strip() strips exactly space, \t \n \v \f \r *)
Fixpoint lstrip (s : string) : string :=
  match s with
  | String c s' => if is_space c then lstrip s' else s
  | EmptyString => EmptyString
  end.
Fixpoint rstrip (s : string) : string :=
  match s with
  | EmptyString => EmptyString
  | String c s' =>
      match rstrip s' with
      | EmptyString => if is_space c then EmptyString else String c EmptyString
      | r => String c r
      end
  end.
Definition strip (s : string) : string := rstrip (lstrip s).

Fixpoint all_ascii (s : string) : bool :=
  match s with
  | EmptyString => true
  | String c s' => Nat.ltb (nat_of_ascii c) 128 && all_ascii s'
  end.
Definition decode_ascii (s : string) : res string :=
  if all_ascii s then Ok s else Err UnicodeDecodeError.

(* str.split(sep) for a one-character separator: always >= 1 field *)
Fixpoint split_chr (sep : ascii) (s : string) : list string :=
  match s with
  | EmptyString => [EmptyString]
  | String c s' =>
      if Ascii.eqb c sep then EmptyString :: split_chr sep s'
      else match split_chr sep s' with
           | hd :: tl => String c hd :: tl
           | [] => [String c EmptyString]   (* unreachable *)
           end
  end.
Fixpoint join (sep : string) (l : list string) : string :=
  match l with
  | [] => EmptyString
  | [x] => x
  | x :: tl => x ++ sep ++ join sep tl
  end.

Definition str_eqb := String.eqb.

(* ---------- Python list indexing ---------- *)
Definition norm_index (len : nat) (i : Z) : option nat :=
  let i' := (if i <? 0 then i + Z.of_nat len else i)%Z in
  if ((0 <=? i') && (i' <? Z.of_nat len))%Z then Some (Z.to_nat i') else None.
Definition py_index {A} (l : list A) (i : Z) : res A :=
  match norm_index (List.length l) i with
  | Some n => match nth_error l n with Some x => Ok x | None => Err IndexError end
  | None => Err IndexError
  end.
(* slice bound clamping: l[a:b] with possibly negative literal bounds *)
Definition clamp_bound (len : nat) (i : Z) : nat :=
  let i' := (if i <? 0 then i + Z.of_nat len else i)%Z in
  if (i' <? 0)%Z then 0 else Nat.min (Z.to_nat i') len.
Definition py_slice {A} (l : list A) (a b : Z) : list A :=
  let n := List.length l in
  let lo := clamp_bound n a in let hi := clamp_bound n b in
  firstn (hi - lo) (skipn lo l).

(* ---------- insertion-ordered dict with string keys ---------- *)
Definition dict (V : Type) := list (string * V).
Fixpoint dget {V} (d : dict V) (k : string) : option V :=
  match d with
  | [] => None
  | (k', v) :: tl => if String.eqb k k' then Some v else dget tl k
  end.
Definition dmem {V} (d : dict V) (k : string) : bool :=
  match dget d k with Some _ => true | None => false end.
Definition dgetitem {V} (d : dict V) (k : string) : res V :=
  match dget d k with Some v => Ok v | None => Err KeyError end.
(* d[k] = v : in place when present (position kept), appended otherwise *)
Fixpoint dset {V} (d : dict V) (k : string) (v : V) : dict V :=
  match d with
  | [] => [(k, v)]
  | (k', v') :: tl => if String.eqb k k' then (k', v) :: tl else (k', v') :: dset tl k v
  end.
Fixpoint dremove {V} (d : dict V) (k : string) : dict V :=
  match d with
  | [] => []
  | (k', v') :: tl => if String.eqb k k' then tl else (k', v') :: dremove tl k
  end.
Definition ddel {V} (d : dict V) (k : string) : res (dict V) :=
  if dmem d k then Ok (dremove d k) else Err KeyError.
Definition dkeys {V} (d : dict V) : list string := map fst d.
Definition ditems {V} (d : dict V) : list (string * V) := d.

(* ---------- integers ---------- *)
(* math.ceil(a / b) as the exact ceiling (domain guard for the float version: DESIGN C17) *)
Definition ceil_div (a b : Z) : res Z :=
  if (b =? 0)%Z then Err ZeroDivisionError else Ok (- ((- a) / b))%Z.

(* int(s) for an ASCII str: optional surrounding whitespace, optional sign, decimal digits
   with single underscores between digits. *)
Definition is_digit (c : ascii) : bool :=
  let n := nat_of_ascii c in Nat.leb 48 n && Nat.leb n 57.
Fixpoint parse_digits (s : string) (acc : Z) (prev_digit : bool) : option Z :=
  match s with
  | EmptyString => if prev_digit then Some acc else None
  | String c s' =>
      if is_digit c then
        parse_digits s' (acc * 10 + Z.of_nat (nat_of_ascii c - 48))%Z true
      else if Ascii.eqb c "_"%char then
        if prev_digit then
          match s' with
          | String c' _ => if is_digit c' then parse_digits s' acc false else None
          | EmptyString => None
          end
        else None
      else None
  end.
Definition py_int_of_str (s : string) : res Z :=
  match strip s with
  | EmptyString => Err ValueError
  | String c s' =>
      if Ascii.eqb c "-"%char then
        match parse_digits s' 0 false with Some z => Ok (- z)%Z | None => Err ValueError end
      else if Ascii.eqb c "+"%char then
        match parse_digits s' 0 false with Some z => Ok z | None => Err ValueError end
      else match parse_digits (String c s') 0 false with
           | Some z => Ok z | None => Err ValueError end
  end.

(* helper to write byte strings in generated case files *)
Fixpoint bs (l : list nat) : string :=
  match l with [] => EmptyString | n :: tl => String (ascii_of_nat n) (bs tl) end.
Fixpoint unbs (s : string) : list nat :=
  match s with EmptyString => [] | String c s' => nat_of_ascii c :: unbs s' end.

(* ---------- effects and oracles ---------- *)
Inductive eff := ECall (fn : string) (args : list string) | EReport | EWarn.
Definition linestream := list string.
(* An oracle decides, from the effect log so far, whether an external call raises. *)
Definition oracle := list eff -> string -> list string -> option exn.

Definition emit_ {L R} (get : L -> list eff) (set : list eff -> L -> L) (e : eff) : stm L R :=
  fun l => (Norm, set ((get l ++ [e])%list) l).
Definition call_oracle {L R} (O : oracle) (get : L -> list eff) (set : list eff -> L -> L)
           (fn : L -> res string) (args : L -> res (list string)) : stm L R :=
  fun l => match fn l with
           | Err e => (Raise e, l)
           | Ok f => match args l with
                     | Err e => (Raise e, l)
                     | Ok a => let l' := set ((get l ++ [ECall f a])%list) l in
                               match O (get l) f a with
                               | Some e => (Raise e, l')
                               | None => (Norm, l')
                               end
                     end
           end.

Definition opt_eqb {A} (eqb : A -> A -> bool) (a b : option A) : bool :=
  match a, b with
  | Some x, Some y => eqb x y | None, None => true | _, _ => false end.
Fixpoint list_eqb {A} (eqb : A -> A -> bool) (a b : list A) : bool :=
  match a, b with
  | [], [] => true
  | x :: a', y :: b' => eqb x y && list_eqb eqb a' b'
  | _, _ => false
  end.
(* Python floor division and modulo (sign of the divisor) coincide with Z.div / Z.modulo *)
Definition py_floordiv (a b : Z) : res Z :=
  if (b =? 0)%Z then Err ZeroDivisionError else Ok (a / b)%Z.
Definition py_mod (a b : Z) : res Z :=
  if (b =? 0)%Z then Err ZeroDivisionError else Ok (a mod b)%Z.

Definition eff_eqb (a b : eff) : bool :=
  match a, b with
  | ECall f x, ECall g y => String.eqb f g && list_eqb String.eqb x y
  | EReport, EReport => true
  | EWarn, EWarn => true
  | _, _ => false
  end.
(* indices (from 0) of the cases on which [f] disagrees with the expected output *)
Fixpoint mismatches_from {A B} (eqb : B -> B -> bool) (f : A -> B) (cases : list (A * B)) (i : nat)
  : list nat :=
  match cases with
  | [] => []
  | (a, b) :: tl => if eqb (f a) b then mismatches_from eqb f tl (S i)
                    else i :: mismatches_from eqb f tl (S i)
  end.
(* compact byte-string literals for generated case files (binary numerals, not unary) *)
Fixpoint bsN (l : list N) : string :=
  match l with [] => EmptyString | n :: tl => String (ascii_of_N n) (bsN tl) end.
Definition nl : string := String (ascii_of_nat 10) EmptyString.
Definition ln (s : string) : string := s ++ nl.

(* ---------- dynamically typed scalars (variables that hold int / str / None / an exception) ---------- *)
Inductive dyn := DNone | DInt (z : Z) | DStr (s : string) | DExn (e : exn).
Definition dyn_eqb (a b : dyn) : bool :=
  match a, b with
  | DNone, DNone => true
  | DInt x, DInt y => Z.eqb x y
  | DStr x, DStr y => String.eqb x y
  | DExn x, DExn y => exn_eqb x y
  | _, _ => false
  end.
Definition dyn_is_none (a : dyn) : bool := match a with DNone => true | _ => false end.
Definition dyn_truth (a : dyn) : bool :=
  match a with
  | DNone => false | DInt z => negb (Z.eqb z 0)
  | DStr s => negb (String.eqb s EmptyString) | DExn _ => true
  end.
(* int(x) *)
Definition dyn_int (a : dyn) : res Z :=
  match a with DInt z => Ok z | DStr s => py_int_of_str s | _ => Err TypeError end.
(* x used as a number *)
Definition dyn_num (a : dyn) : res Z :=
  match a with DInt z => Ok z | _ => Err TypeError end.
Definition str_ltb (a b : string) : bool :=
  match String.compare a b with Lt => true | _ => false end.
Definition dyn_ltb (a b : dyn) : res bool :=
  match a, b with
  | DInt x, DInt y => Ok (Z.ltb x y)
  | DStr x, DStr y => Ok (str_ltb x y)
  | _, _ => Err TypeError
  end.
Definition dyn_leb (a b : dyn) : res bool :=
  match a, b with
  | DInt x, DInt y => Ok (Z.leb x y)
  | DStr x, DStr y => Ok (negb (str_ltb y x))
  | _, _ => Err TypeError
  end.
Definition dyn_of_opt_int (o : option Z) : dyn := match o with Some z => DInt z | None => DNone end.
Definition dyn_of_opt_str (o : option string) : dyn := match o with Some s => DStr s | None => DNone end.

(* str.split() with no argument: split on runs of whitespace, no empty fields *)
Fixpoint split_ws_aux (s : string) (cur : string) : list string :=
  match s with
  | EmptyString => match cur with EmptyString => [] | _ => [cur] end
  | String c s' =>
      if is_space c then
        match cur with EmptyString => split_ws_aux s' EmptyString
                  | _ => cur :: split_ws_aux s' EmptyString end
      else split_ws_aux s' (cur ++ String c EmptyString)
  end.
Definition split_ws (s : string) : list string := split_ws_aux s EmptyString.
Definition unpack2 {A} (l : list A) : res (A * A) :=
  match l with [a; b] => Ok (a, b) | _ => Err ValueError end.
(* `a or b` on an optional int: falsy when None or 0 *)
Definition opt_int_or (o : option Z) (d : Z) : Z :=
  match o with Some v => if Z.eqb v 0 then d else v | None => d end.
Definition fs_read (fs : dict string) (name : string) : res string :=
  match dget fs name with Some s => Ok s | None => Err FileNotFoundError end.
(* try ... except <classes> as e: the caught exception is stored by [bind] before the handler runs *)
Definition try_except_as {L R} (body : stm L R) (classes : list exn) (catch_all : bool)
           (bind : exn -> L -> L) (handler : stm L R) : stm L R :=
  fun l => match body l with
           | (Raise e, l') =>
               if catch_all || existsb (exn_isa e) classes then handler (bind e l') else (Raise e, l')
           | r => r end.
Definition oracle_raise {L R} (o : option exn) : stm L R :=
  fun l => match o with Some e => (Raise e, l) | None => (Norm, l) end.
(* statement-level call of a generated function returning a value *)
Definition call_ret {L R A} (get : L -> list eff) (set : list eff -> L -> L)
           (f : list eff -> ctl A * list eff) (store : A -> L -> L) (noret : L -> L) : stm L R :=
  fun l => match f (get l) with
           | (Ret v, e') => (Norm, store v (set e' l))
           | (Raise x, e') => (Raise x, set e' l)
           | (_, e') => (Norm, noret (set e' l))
           end.
