(* Vocabulary of the executor's control decisions (C01, C02, C05, C06, C08); Gen/Pool.v is written in it. *)
From Coq Require Import List Bool.
Import ListNotations.

(* ProcessPoolExecutor.submit, statement by statement (all under the shutdown lock) *)
Inductive sop :=
| SRaiseIfBroken | SRaiseIfShutdown | SRaiseIfGlobalShutdown
| SNewFuture | SAddPending | SPutWorkId | SIncrCount | SWakeup | SEnsureRunning | SReturnFuture.

(* _ExecutorFlags.flag_as_shutting_down / flag_as_broken (under the shutdown lock) *)
Inductive fop := FSetShutdown | FSetKillIfGiven | FSetBroken.

(* _ExecutorManagerThread.is_shutting_down *)
Inductive bexp := BGlobalShutdown | BExecutorNone | BFlagShutdown | BFlagBroken | BNot (a : bexp) | BAnd (a b : bexp) | BOr (a b : bexp).
