(* Vocabulary of the executor's control decisions (C01, C02, C05, C06, C08); Gen/Pool.v is written in it. *)
From Coq Require Import List Bool.
Import ListNotations.

(* ProcessPoolExecutor.submit, statement by statement (all under the shutdown lock) *)
Inductive sop :=
| SRaiseIfBroken | SRaiseIfShutdown | SRaiseIfGlobalShutdown
| SNewFuture | SAddPending | SPutWorkId | SIncrCount | SWakeup | SEnsureRunning | SReturnFuture.

(* _ExecutorFlags.flag_as_shutting_down / flag_as_broken (under the shutdown lock) *)
Inductive fop := FSetShutdown | FSetKillIfGiven | FSetBroken.

(* _ExecutorManagerThread.is_shutting_down *)
Inductive bexp := BGlobalShutdown | BExecutorNone | BFlagShutdown | BFlagBroken | BNot (a : bexp) | BAnd (a b : bexp) | BOr (a b : bexp).

(* process_executor._python_exit: the hook run when the interpreter exits *)
Inductive xop := XSetGlobalShutdown | XSnapshotManagers | XWakeEachUnderItsShutdownLock | XJoinEachUnderTheGlobalLock.
Definition xop_eqb (a b : xop) : bool :=
  match a, b with
  | XSetGlobalShutdown, XSetGlobalShutdown | XSnapshotManagers, XSnapshotManagers
  | XWakeEachUnderItsShutdownLock, XWakeEachUnderItsShutdownLock | XJoinEachUnderTheGlobalLock, XJoinEachUnderTheGlobalLock => true
  | _, _ => false end.
(* position of the first occurrence *)
Fixpoint xpos (o : xop) (l : list xop) : option nat :=
  match l with [] => None | x :: r => if xop_eqb o x then Some 0 else option_map S (xpos o r) end.
Definition xbefore (a b : xop) (l : list xop) : bool :=
  match xpos a l, xpos b l with Some i, Some j => Nat.ltb i j | _, _ => false end.
