(* Lemmas and tactics shared by the characterisation proofs (Char/*.v). *)
From Coq Require Import List String Ascii ZArith Bool Lia.
From LokyV Require Import Lib.PyLib.
Import ListNotations.
Open Scope string_scope.

(* a for-loop whose body always ends Norm/Cont is a fold over an abstraction of the state *)
Lemma for_loop_abs {L R A S} (abs : L -> S) (f : S -> A -> S) (set : A -> L -> L)
      (body : stm L R) :
  (forall x l, exists l', (body (set x l) = (Norm, l') \/ body (set x l) = (Cont, l'))
                          /\ abs l' = f (abs l) x) ->
  forall xs l, exists l', for_loop xs set body l = (Norm, l') /\ abs l' = fold_left f xs (abs l).
Proof.
  intros H xs; induction xs as [|x xs IH]; intros l; cbn [for_loop fold_left].
  - eexists; split; reflexivity.
  - destruct (H x l) as [l' [[E|E] Ha]]; rewrite E; rewrite <- Ha; apply IH.
Qed.

Lemma dget_dset_same {V} (d : dict V) k v : dget (dset d k v) k = Some v.
Proof.
  induction d as [|[k' v'] d IH]; cbn; [rewrite String.eqb_refl; reflexivity|].
  destruct (String.eqb k k') eqn:E; cbn; rewrite E; auto.
Qed.
Lemma dget_dset_other {V} (d : dict V) k k' v : String.eqb k' k = false ->
  dget (dset d k v) k' = dget d k'.
Proof.
  intros Hne. induction d as [|[k0 v0] d IH]; cbn.
  - rewrite Hne; reflexivity.
  - destruct (String.eqb k k0) eqn:E; cbn.
    + apply String.eqb_eq in E; subst k0. rewrite Hne. reflexivity.
    + destruct (String.eqb k' k0); auto.
Qed.
Lemma dget_keys ks t :
  dget (map (fun k : string => (k, tt)) ks) t = if existsb (String.eqb t) ks then Some tt else None.
Proof.
  induction ks as [|k ks IH]; cbn; [reflexivity|]. destruct (String.eqb t k); cbn; auto.
Qed.

Ltac innermost x :=
  lazymatch x with
  | context[match ?y with _ => _ end] => innermost y
  | _ => x
  end.
(* destruct the innermost scrutinee of the first match in the goal *)
Ltac dstep :=
  match goal with
  | |- context[match ?x with _ => _ end] => let y := innermost x in destruct y eqn:?
  end.
(* close a leaf of the form  exists l', (gen = (Norm,l') \/ gen = (Cont,l')) /\ abs l' = spec *)
Ltac leaf :=
  eexists; split;
  [ (left; reflexivity) || (right; reflexivity) | cbn; first [reflexivity | congruence] ].
Lemma dkeys_keys ks : dkeys (map (fun k : string => (k, tt)) ks) = ks.
Proof. unfold dkeys. rewrite map_map. cbn. apply map_id. Qed.
