(* Generic definitions for ProcessPoolExecutor.map (C03): the generated file Gen/MapPath.v instantiates the few places where the
   meaning could change (slice size, which end is popped, reversal, the chunksize guard). *)
From Coq Require Import List Arith Bool.
Import ListNotations.

Inductive szexp := SzChunksize | SzMinusOne | SzPlusOne.
Inductive elop := EReverse | EPopLast | EPopFirst.
Inductive guard := MinOne | MinZero | NoGuard.

Definition size_of (e : szexp) (n : nat) : nat := match e with SzChunksize => n | SzMinusOne => n - 1 | SzPlusOne => S n end.

Section M.
Context {A B : Type}.

(* _get_chunks: take [size] items at a time until a chunk comes out empty.  fuel = an upper bound on the number of rounds. *)
Fixpoint get_chunks (fuel : nat) (sz : nat) (it : list A) : list (list A) :=
  match fuel with
  | O => []
  | S fuel => let chunk := firstn sz it in
              match chunk with [] => [] | _ => chunk :: get_chunks fuel sz (skipn sz it) end
  end.

Definition process_chunk (f : A -> B) (chunk : list A) : list B := map f chunk.

(* the order in which "while element: yield element.pop()" (or pop(0)) hands the items out *)
Fixpoint drain (ops : list elop) (l : list B) : list B :=
  match ops with
  | [] => []
  | EReverse :: r => drain r (rev l)
  | EPopLast :: _ => rev l
  | EPopFirst :: _ => l
  end.
Definition chain (ops : list elop) (ls : list (list B)) : list B := flat_map (drain ops) ls.

(* ProcessPoolExecutor.map for a list of (already zipped) argument tuples; None = ValueError *)
Definition pool_map (g : guard) (sz : szexp) (ops : list elop) (f : A -> B) (chunksize : nat) (l : list A) : option (list B) :=
  if match g with MinOne => Nat.ltb chunksize 1 | _ => false end then None
  else Some (chain ops (map (process_chunk f) (get_chunks (S (length l)) (size_of sz chunksize) l))).
End M.
