(* Vocabulary of the worker's main loop (process_executor._process_worker) and the meaning of one iteration, as a function of
   what the environment does to it: what call_queue.get yields, whether the management lock is free when an idle worker tries
   it, whether the task raises, whether its result can be sent, whether the memory-leak check fires.  The program itself is
   Gen/Worker.v (regenerated from the source by tr/units_worker.py). *)
From Coq Require Import List Bool Arith.
Import ListNotations.

Inductive wstmt :=
| TryGet (on_empty on_error : list wstmt)    (* try: call_item = call_queue.get(block=True, timeout=timeout) except queue.Empty / BaseException *)
| IfMgmtTry (t e : list wstmt)               (* if processes_management_lock.acquire(block=False): t else: e *)
| MgmtRelease
| SetNone                                    (* call_item = None *)
| Continue
| PutTraceback                               (* result_queue.put(_RemoteTraceback(tb)), failures of the put swallowed *)
| Exit1                                      (* sys.exit(1) *)
| IfNone (t : list wstmt)                    (* if call_item is None: t *)
| PutPid                                     (* result_queue.put(pid): "I am leaving" *)
| WaitExitBounded                            (* worker_exit_lock.acquire(True, timeout=<positive constant>) *)
| PythonExit
| Return
| RunTask (on_exc on_ok : list wstmt)        (* try: r = call_item() except BaseException as e: on_exc else: on_ok *)
| PutException                               (* result_queue.put(_ResultItem(work_id, exception=exc)) *)
| SendResult                                 (* _sendback_result: the result, or the error of sending it *)
| DelItem
| LeakTail.                                  (* the memory-leak check (matched as a whole by the translator) *)

Inductive gout := GItem | GSentinel | GEmpty | GError.
Record wenv := mkenv { get : gout; mgmt_free : bool; task_raises : bool; result_unsendable : bool; psutil : bool; leak : bool }.

Inductive act :=
| AGet | AMgmtAcquire | AMgmtRelease | APutPid | APutResult | APutException | APutSendError | APutTraceback
| AWaitExit (bounded : bool) | APythonExit | ARun | ADelItem.
Inductive fin := FNext | FContinue | FReturn | FExit1 | FStuck.
Inductive ist := INoItem | ISentinel | IItem.
Record wres := mkw { acts : list act; wfin : fin; item : ist; holds_mgmt : bool }.

Fixpoint exec (fuel : nat) (p : list wstmt) (e : wenv) (it : ist) (hm : bool) (a : list act) : wres :=
  match fuel with
  | 0 => mkw a FStuck it hm
  | S f =>
      match p with
      | [] => mkw a FNext it hm
      | TryGet oe oerr :: k =>
          match get e with
          | GItem => exec f k e IItem hm (a ++ [AGet])
          | GSentinel => exec f k e ISentinel hm (a ++ [AGet])
          | GEmpty => exec f (oe ++ k) e it hm a
          | GError => exec f (oerr ++ k) e it hm a
          end
      | IfMgmtTry t el :: k => if mgmt_free e then exec f (t ++ k) e it true (a ++ [AMgmtAcquire]) else exec f (el ++ k) e it hm a
      | MgmtRelease :: k => exec f k e it false (a ++ [AMgmtRelease])
      | SetNone :: k => exec f k e ISentinel hm a
      | Continue :: _ => mkw a FContinue it hm
      | PutTraceback :: k => exec f k e it hm (a ++ [APutTraceback])
      | Exit1 :: _ => mkw a FExit1 it hm
      | IfNone t :: k => match it with ISentinel => exec f (t ++ k) e it hm a | _ => exec f k e it hm a end
      | PutPid :: k => exec f k e it hm (a ++ [APutPid])
      | WaitExitBounded :: k => exec f k e it hm (a ++ [AWaitExit true])
      | PythonExit :: k => exec f k e it hm (a ++ [APythonExit])
      | Return :: _ => mkw a FReturn it hm
      | RunTask oe ok :: k =>
          match it with
          | IItem => if task_raises e then exec f (oe ++ k) e it hm (a ++ [ARun]) else exec f (ok ++ k) e it hm (a ++ [ARun])
          | _ => mkw a FStuck it hm                  (* calling None / an unbound name *)
          end
      | PutException :: k => exec f k e it hm (a ++ [APutException])
      | SendResult :: k => exec f k e it hm (a ++ [if result_unsendable e then APutSendError else APutResult])
      | DelItem :: k => exec f k e INoItem hm (a ++ [ADelItem])
      | LeakTail :: k =>
          (* its non-leaking paths either `continue` or fall through: the same thing only when it is the last statement *)
          match k with
          | [] => if psutil e && leak e then mkw (a ++ [APutPid; AWaitExit false]) FReturn it hm else mkw a FNext it hm
          | _ => mkw a FStuck it hm
          end
      end
  end.

Definition iteration (p : list wstmt) (e : wenv) : wres := exec 60 p e INoItem false [].

Definition bools := [true; false].
Definition all_envs : list wenv :=
  flat_map (fun g => flat_map (fun m => flat_map (fun r => flat_map (fun u => flat_map (fun p => map (fun l =>
    mkenv g m r u p l) bools) bools) bools) bools) bools) [GItem; GSentinel; GEmpty; GError].

Lemma all_envs_complete e : In e all_envs.
Proof. destruct e as [g m r u p l]. destruct g, m, r, u, p, l; vm_compute; tauto. Qed.

Definition is_result (x : act) : bool := match x with APutResult | APutException | APutSendError => true | _ => false end.
Definition is_pid (x : act) : bool := match x with APutPid => true | _ => false end.
Definition is_run (x : act) : bool := match x with ARun => true | _ => false end.
Definition count (f : act -> bool) (l : list act) : nat := length (filter f l).
Fixpoint acquire_then_release (l : list act) : bool :=
  match l with
  | [] => true
  | AMgmtAcquire :: AMgmtRelease :: r => acquire_then_release r
  | AMgmtAcquire :: _ => false
  | AMgmtRelease :: _ => false
  | _ :: r => acquire_then_release r
  end.
Fixpoint before (f g : act -> bool) (l : list act) : bool :=      (* no g-action is followed by an f-action *)
  match l with [] => true | x :: r => (if g x then negb (existsb f r) else true) && before f g r end.
