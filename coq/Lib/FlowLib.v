(* Vocabulary of the functions that move a work item through the executor's shared structures (Gen/Flow.v is written in it), and
   the order of MUTATIONS of those structures along every control-flow path of such a program.  Model/FlowTie.v compares these paths
   with the program counters of Model/TokenFlow.v. *)
From Coq Require Import List Bool.
Import ListNotations.

Inductive gop :=
(* add_call_item_to_queue *)
| GReturnIfFull | GTakeIdOrReturn | GLookup
| GIfSetRunning (yes no : list gop)
| GAddRunning | GPutCall | GDelPending | GContinue
(* process_result_item / _on_queue_feeder_error *)
| GPopPending | GIfHadItem (body : list gop) | GSetOutcome | GSetSendError | GDelRunning | GDropRef
| GBuildError | GWake
(* Queue._feed *)
| GRelSlot | GOnError | GPopBuffer | GIfQueueClosedReturn | GSerialise | GSendUnderWriteLock
(* the forced-shutdown loop *)
| GPopItem | GSetShutdownError.

(* one mutation of one shared structure *)
Inductive mkind :=
| KTakeId          (* work_ids.get *)
| KSetRunning      (* Future.set_running_or_notify_cancel *)
| KAddRunning      (* running_work_items += [id] *)
| KAcqSlot         (* Queue.put: the slot semaphore ... *)
| KBufAppend       (* ... then the append to the feeder's buffer (multiprocessing.queues.Queue.put, CPython) *)
| KDelPending      (* del pending_work_items[id] *)
| KPopPending      (* pending_work_items.pop(id, None) *)
| KSetFuture       (* set_result / set_exception on the item's future *)
| KDelRunning      (* running_work_items.remove(id) *)
| KRelSlot         (* the slot semaphore is given back *)
| KPopBuffer | KSend
| KPopItem | KFailOne.

Definition cross (a b : list (list mkind)) : list (list mkind) := flat_map (fun x => map (fun y => x ++ y) b) a.

(* the mutation sequences of one statement; the paths on which a function returns before it has touched anything are left out *)
Fixpoint paths_op (o : gop) : list (list mkind) :=
  let fix paths_list (l : list gop) : list (list mkind) :=
      match l with [] => [[]] | x :: r => cross (paths_op x) (paths_list r) end in
  match o with
  | GTakeIdOrReturn => [[KTakeId]]
  | GIfSetRunning y n => map (cons KSetRunning) (paths_list y ++ paths_list n)
  | GAddRunning => [[KAddRunning]]
  | GPutCall => [[KAcqSlot; KBufAppend]]
  | GDelPending => [[KDelPending]]
  | GPopPending => [[KPopPending]]
  | GIfHadItem b => paths_list b ++ [[]]
  | GSetOutcome | GSetSendError => [[KSetFuture]]
  | GDelRunning => [[KDelRunning]]
  | GRelSlot => [[KRelSlot]]
  | GPopBuffer => [[KPopBuffer]]
  | GSendUnderWriteLock => [[KSend]]
  | GPopItem => [[KPopItem]]
  | GSetShutdownError => [[KFailOne]]
  | GReturnIfFull | GLookup | GContinue | GDropRef | GBuildError | GWake | GOnError | GIfQueueClosedReturn | GSerialise => [[]]
  end.
Definition paths (l : list gop) : list (list mkind) := fold_right (fun o acc => cross (paths_op o) acc) [[]] l.

(* the feeder's error tail calls the queue's hook: inline it *)
Definition inline_hook (tail hook : list gop) : list gop :=
  flat_map (fun o => match o with GOnError => hook | _ => [o] end) tail.

Definition mk_eqb (a b : mkind) : bool :=
  match a, b with
  | KTakeId, KTakeId | KSetRunning, KSetRunning | KAddRunning, KAddRunning | KAcqSlot, KAcqSlot | KBufAppend, KBufAppend
  | KDelPending, KDelPending | KPopPending, KPopPending | KSetFuture, KSetFuture | KDelRunning, KDelRunning | KRelSlot, KRelSlot
  | KPopBuffer, KPopBuffer | KSend, KSend | KPopItem, KPopItem | KFailOne, KFailOne => true
  | _, _ => false
  end.
