(* Vocabulary of loky.backend.synchronize.Event's methods (C14) and what one uninterrupted run of a method body does.
   Every method is one `with self._cond:` block (tr/units.py:gen_event refuses anything else), so a body runs atomically with
   respect to the other bodies except at cond.wait(timeout), where the caller releases the lock and sleeps. *)
From Coq Require Import List Bool Arith.
Import ListNotations.

Inductive eop :=
| FlagTry                          (* self._flag.acquire(False), result ignored *)
| IfFlagTry (t e : list eop)       (* if self._flag.acquire(False): t  else: e *)
| FlagRelease                      (* self._flag.release() *)
| NotifyAll                        (* self._cond.notify_all() *)
| CondWait                         (* self._cond.wait(timeout) *)
| Ret (b : bool).                  (* return True / return False *)

Inductive eout :=
| Done (r : option bool)           (* the method returned (None: fell off the end) *)
| Susp (k : list eop)              (* sleeping in cond.wait; k is what remains to be done after it *)
| Stuck.                           (* out of fuel: excluded by the theorems *)

Record eres := mkres { rflag : nat; rnotified : bool; rout : eout }.

Fixpoint exec (fuel : nat) (p : list eop) (flag : nat) (notified : bool) : eres :=
  match fuel with
  | 0 => mkres flag notified Stuck
  | S f =>
      match p with
      | [] => mkres flag notified (Done None)
      | FlagTry :: k => exec f k (pred flag) notified
      | IfFlagTry t e :: k => match flag with S n => exec f (t ++ k) n notified | 0 => exec f (e ++ k) 0 notified end
      | FlagRelease :: k => exec f k (S flag) notified
      | NotifyAll :: k => exec f k flag true
      | CondWait :: k => mkres flag notified (Susp k)
      | Ret b :: _ => mkres flag notified (Done (Some b))
      end
  end.
