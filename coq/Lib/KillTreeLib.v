(* Vocabulary of loky/backend/utils.py's two ways of killing a process tree (C06): what each function asks of the operating system
   and in which order.  The translator (tr/units_killtree.py) matches every statement of
      _posix_recursive_kill, _kill, _kill_process_tree_with_psutil, _kill_process_tree_without_psutil, kill_process_tree
   against this table and refuses anything else. *)
From Coq Require Import List Bool.
Import ListNotations.

(* _posix_recursive_kill(pid) *)
Inductive pstmt :=
| PListChildrenOf        (* children_pids = `pgrep -P pid`  (exit status 1 = none; anything else raises) *)
| PRecurseIntoEach       (* for cpid in children_pids.splitlines(): _posix_recursive_kill(int(cpid)) *)
| PKillSelf.             (* _kill(pid): SIGKILL, ESRCH swallowed *)

(* _kill_process_tree_with_psutil(process) *)
Inductive ustmt :=
| USnapshotDescendantsOrReturn   (* try: descendants = psutil.Process(pid).children(recursive=True) except NoSuchProcess: return *)
| UKillEachReversed              (* for descendant in descendants[::-1]: try: descendant.kill() except NoSuchProcess: pass *)
| UKillRoot                      (* try: psutil.Process(pid).kill() except NoSuchProcess: pass *)
| UJoinRoot.                     (* process.join() *)

(* the dispatcher and the psutil-less wrapper *)
Inductive wstmt :=
| WTryPlatformKill       (* try: taskkill on win32 / _posix_recursive_kill(process.pid) otherwise *)
| WOnErrorWarnAndKillRootOnly   (* except Exception: warn; process.kill() *)
| WJoinRoot.             (* process.join() *)
