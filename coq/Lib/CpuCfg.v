(* The inputs of loky.backend.context.cpu_count, as an oracle record (DESIGN C17). *)
From Coq Require Import List String ZArith.
From LokyV Require Import Lib.PyLib.

Record cpu_cfg := {
  c_os_cpu_count : option Z;        (* os.cpu_count() *)
  c_affinity : res Z;               (* len(os.sched_getaffinity(0)), or NotImplementedError *)
  c_psutil_import : option exn;     (* Some ImportError when psutil is missing *)
  c_psutil_has_affinity : bool;     (* hasattr(psutil.Process(), "cpu_affinity") *)
  c_psutil_affinity : Z;            (* len(p.cpu_affinity()) *)
  c_fs : dict string;               (* the cgroup files: path -> content *)
  c_env : dict string;              (* os.environ *)
  c_probe : res Z                   (* _count_physical_cores_linux(): value or exception *)
}.
