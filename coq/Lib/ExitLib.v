(* Vocabulary of loky.backend.utils._get_exitcode_name / _format_exitcodes / get_exitcodes_terminated_worker (C02: the error raised
   for the futures of a broken pool names the exit codes of the dead workers).  signal.Signals(n).name is a table of the OS: a
   parameter [sig : Z -> option string] (None = ValueError). *)
From Coq Require Import List String ZArith Bool DecimalString.
Import ListNotations.
Open Scope string_scope.
Open Scope Z_scope.

Inductive nstmt :=
| NIfWin32Return (s : string)                          (* if sys.platform == "win32": return s *)
| NIfNegative (unknown : string) (orelse : list nstmt) (* if exitcode < 0: try: return signal.Signals(-exitcode).name except ValueError: return unknown
                                                          else: orelse *)
| NIfNotEqReturn (k : Z) (s : string)                  (* if exitcode != k: return s *)
| NReturn (s : string).

Inductive nres := NName (s : string) | NNone.           (* NNone: fell off the end (Python would return None) *)

Fixpoint nexec (fuel : nat) (p : list nstmt) (win32 : bool) (sig : Z -> option string) (e : Z) : nres :=
  match fuel with
  | O => NNone
  | S f =>
      match p with
      | [] => NNone
      | NIfWin32Return s :: k => if win32 then NName s else nexec f k win32 sig e
      | NIfNegative u orelse :: k =>
          if e <? 0 then match sig (- e) with Some n => NName n | None => NName u end
          else nexec f (orelse ++ k) win32 sig e
      | NIfNotEqReturn c s :: k => if negb (e =? c) then NName s else nexec f k win32 sig e
      | NReturn s :: _ => NName s
      end
  end.

Definition dec (z : Z) : string := NilZero.string_of_int (Z.to_int z).

(* _format_exitcodes: opening ++ sep.join(name(e) ++ lpar ++ str(e) ++ rpar for e in codes if e is not None) ++ closing *)
Record fmt := mkfmt { f_open : string; f_sep : string; f_lpar : string; f_rpar : string; f_close : string; f_skips_none : bool }.

Fixpoint somes (l : list (option Z)) : list Z := match l with [] => [] | Some z :: r => z :: somes r | None :: r => somes r end.
Definition name_of (p : list nstmt) (win32 : bool) (sig : Z -> option string) (e : Z) : string :=
  match nexec 20 p win32 sig e with NName s => s | NNone => "None" end.
Definition format_with (f : fmt) (p : list nstmt) (win32 : bool) (sig : Z -> option string) (codes : list (option Z)) : string :=
  f_open f ++ String.concat (f_sep f) (map (fun e => name_of p win32 sig e ++ f_lpar f ++ dec e ++ f_rpar f) (somes codes)) ++ f_close f.
