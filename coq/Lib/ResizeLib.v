(* Vocabulary of _ReusablePoolExecutor._resize (C10); Gen/Resize.v is a program in it. *)
From Coq Require Import List Bool.
Import ListNotations.

Inductive rz :=
| ZRaiseIfNone | ZReturnIfSame | ZIfNotStarted (l : list rz) | ZSetMax | ZReturn
| ZWaitJobs                 (* _wait_job_completion() *)
| ZLocked (l : list rz)     (* with self._processes_management_lock: *)
| ZSnapshotAlive | ZPostSentinels
| ZWaitShrunk               (* while len(self._processes) > max_workers and not broken: sleep *)
| ZAdjust                   (* _adjust_process_count() *)
| ZAdjustIfLive             (* if self._flags.broken is None and not self._flags.shutdown: _adjust_process_count() *)
| ZWaitAllAlive             (* while not broken and not all(p.is_alive() ...): sleep *)
| ZWakeManager              (* with self._shutdown_lock: self._executor_manager_thread_wakeup.wakeup() *)
| ZAcquire | ZRelease.      (* produced by flattening ZLocked *)

(* the wake-up of the manager thread changes none of the counters of Model/Resize.v: dropped here, used by Model/Watch.v *)
Definition flat1 (i : rz) : list rz := match i with ZLocked l => ZAcquire :: l ++ [ZRelease] | ZWakeManager => [] | i => [i] end.
Definition flatten (p : list rz) : list rz := flat_map flat1 p.
