(* Facts about PyLib's insertion-ordered dictionaries. *)
From Coq Require Import List String Ascii ZArith Bool Lia.
From LokyV Require Import Lib.PyLib Lib.StmTac.
Import ListNotations.
Open Scope string_scope.

Lemma dmem_dget {V} (d : dict V) k : dmem d k = true <-> exists v, dget d k = Some v.
Proof. unfold dmem. destruct (dget d k); split; intros H; eauto; try discriminate.
  destruct H; discriminate. Qed.
Lemma dmem_false {V} (d : dict V) k : dmem d k = false <-> dget d k = None.
Proof. unfold dmem. destruct (dget d k); split; intros H; auto; discriminate. Qed.

Lemma dget_In_keys {V} (d : dict V) k v : dget d k = Some v -> In k (dkeys d).
Proof.
  induction d as [|[k' v'] d IH]; cbn; [discriminate|].
  destruct (String.eqb k k') eqn:E; intros H.
  - apply String.eqb_eq in E. auto.
  - right. apply IH. exact H.
Qed.
Lemma dget_None_notin {V} (d : dict V) k : dget d k = None <-> ~ In k (dkeys d).
Proof.
  induction d as [|[k' v'] d IH]; cbn; [tauto|].
  destruct (String.eqb k k') eqn:E.
  - apply String.eqb_eq in E. subst. split; [discriminate|]. intros H; exfalso; apply H; auto.
  - apply String.eqb_neq in E. rewrite IH. split; intros H; [intros [H1|H1]; [congruence|tauto]|tauto].
Qed.
Lemma In_keys_dget {V} (d : dict V) k : In k (dkeys d) -> exists v, dget d k = Some v.
Proof.
  intros H. destruct (dget d k) eqn:E; eauto. apply dget_None_notin in E. tauto.
Qed.

Lemma dkeys_dset {V} (d : dict V) k v :
  dkeys (dset d k v) = if dmem d k then dkeys d else (dkeys d ++ [k])%list.
Proof.
  unfold dmem, dkeys. induction d as [|[k' v'] d IH]; cbn; [reflexivity|].
  destruct (String.eqb k k') eqn:E; cbn; [reflexivity|].
  rewrite IH. destruct (dget d k); reflexivity.
Qed.

Lemma NoDup_snoc {A} (l : list A) x : NoDup l -> ~ In x l -> NoDup (l ++ [x]).
Proof.
  induction l as [|y l IH]; cbn; intros Hn Hx.
  - constructor; [tauto|constructor].
  - inversion Hn; subst. constructor.
    + rewrite in_app_iff. cbn. intros [H|[H|[]]]; [tauto|subst; tauto].
    + apply IH; tauto.
Qed.
Lemma NoDup_dset {V} (d : dict V) k v : NoDup (dkeys d) -> NoDup (dkeys (dset d k v)).
Proof.
  intros H. rewrite dkeys_dset. destruct (dmem d k) eqn:E; [exact H|].
  apply dmem_false, dget_None_notin in E. apply NoDup_snoc; auto.
Qed.

Lemma dkeys_dremove_incl {V} (d : dict V) k x : In x (dkeys (dremove d k)) -> In x (dkeys d).
Proof.
  induction d as [|[k' v'] d IH]; cbn; [tauto|].
  destruct (String.eqb k k'); cbn; [tauto|]. intros [H|H]; auto.
Qed.
Lemma NoDup_dremove {V} (d : dict V) k : NoDup (dkeys d) -> NoDup (dkeys (dremove d k)).
Proof.
  induction d as [|[k' v'] d IH]; cbn; [auto|]. intros H; inversion H; subst.
  destruct (String.eqb k k'); cbn; [assumption|]. constructor; [|auto].
  intros Hin. apply dkeys_dremove_incl in Hin. tauto.
Qed.
Lemma dget_dremove_same {V} (d : dict V) k : NoDup (dkeys d) -> dget (dremove d k) k = None.
Proof.
  induction d as [|[k' v'] d IH]; cbn; [auto|]. intros H; inversion H; subst.
  destruct (String.eqb k k') eqn:E; cbn.
  - apply String.eqb_eq in E; subst. apply dget_None_notin. assumption.
  - rewrite E. auto.
Qed.
Lemma dget_dremove_other {V} (d : dict V) k k' : String.eqb k' k = false ->
  dget (dremove d k) k' = dget d k'.
Proof.
  intros Hne. induction d as [|[k0 v0] d IH]; cbn; [reflexivity|].
  destruct (String.eqb k k0) eqn:E; cbn.
  - apply String.eqb_eq in E; subst. rewrite Hne. reflexivity.
  - destruct (String.eqb k' k0); auto.
Qed.
Lemma dkeys_dremove_in {V} (d : dict V) k x : NoDup (dkeys d) ->
  (In x (dkeys (dremove d k)) <-> In x (dkeys d) /\ x <> k).
Proof.
  intros Hn. split.
  - intros H. split; [eapply dkeys_dremove_incl; eauto|]. intros ->.
    apply In_keys_dget in H. destruct H as [v H]. rewrite dget_dremove_same in H; [discriminate|auto].
  - intros [H Hne]. apply In_keys_dget in H. destruct H as [v H].
    apply (dget_In_keys _ _ v). rewrite dget_dremove_other; auto. apply String.eqb_neq; auto.
Qed.
Lemma dkeys_dset_in {V} (d : dict V) k v x :
  In x (dkeys (dset d k v)) <-> In x (dkeys d) \/ x = k.
Proof.
  rewrite dkeys_dset. destruct (dmem d k) eqn:E.
  - apply dmem_dget in E. destruct E as [w E]. apply dget_In_keys in E.
    split; [tauto|]. intros [H| ->]; auto.
  - rewrite in_app_iff. cbn. split; [intros [H|[H|[]]]; auto|intros [H|H]; auto].
Qed.
Lemma NoDup_app_intro {A} (l1 l2 : list A) :
  NoDup l1 -> NoDup l2 -> (forall x, In x l1 -> In x l2 -> False) -> NoDup (l1 ++ l2).
Proof.
  induction l1 as [|a l1 IH]; cbn; intros H1 H2 Hd; [assumption|].
  inversion H1; subst. constructor.
  - rewrite in_app_iff. intros [H|H]; [tauto|]. eapply Hd; eauto.
  - apply IH; auto. intros x Hx1 Hx2. eapply Hd; eauto.
Qed.
