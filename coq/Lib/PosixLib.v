(* POSIX wait-status macros on Linux (glibc): status is a 16-bit quantity. *)
From Coq Require Import ZArith Bool.
Open Scope Z_scope.
Definition WTERMSIG (s : Z) : Z := Z.land s 127.
Definition WIFEXITED (s : Z) : bool := WTERMSIG s =? 0.
Definition WEXITSTATUS (s : Z) : Z := Z.land (Z.shiftr s 8) 255.
(* ((signed char) ((s & 0x7f) + 1) >> 1) > 0 : terminated by a signal (not exited, not stopped) *)
Definition WIFSIGNALED (s : Z) : bool := (0 <? WTERMSIG s) && (WTERMSIG s <? 127).
