(* loky/initializers.py: combining the user's initializer with loky's own into the pair a worker runs (Gen/Init.v instantiates it). *)
From Coq Require Import List Bool.
Import ListNotations.

Inductive keep_rule := KeepNotNone | KeepAll.
Inductive empty_rule := EmptyGivesNone.
Inductive single_rule := SingleGivesItself | SingleGivesChained.
Inductive many_rule := ManyGiveChained.
Record chain_rule := mkrule { keep : keep_rule; on_empty : empty_rule; on_single : single_rule; on_many : many_rule }.
Inductive call_rule := ZipInOrderEachWithItsOwnArgs | EachWithTheFirstArgs.

Section Init.
Variables I A : Type.     (* initializers, argument tuples *)

(* what the executor stores and the worker calls as initializer( *initargs ) *)
Inductive prepared := PNone | PSingle (i : I) (a : A) | PChain (fs : list (option I)) (args : list A).

Definition kept (r : chain_rule) (l : list (option I * A)) : list (option I * A) :=
  match keep r with
  | KeepNotNone => filter (fun p => match fst p with Some _ => true | None => false end) l
  | KeepAll => l
  end.
Definition chain (r : chain_rule) (l : list (option I * A)) : prepared :=
  match kept r l with
  | [] => PNone
  | [(Some i, a)] => match on_single r with SingleGivesItself => PSingle i a | SingleGivesChained => PChain [Some i] [a] end
  | k => PChain (map fst k) (map snd k)
  end.

(* the calls made in the worker, in order; calling None is the TypeError the real code would raise: reported as None *)
Fixpoint zip_calls (fs : list (option I)) (args : list A) : option (list (I * A)) :=
  match fs, args with
  | Some f :: fr, a :: ar => option_map (cons (f, a)) (zip_calls fr ar)
  | None :: _, _ :: _ => None
  | _, _ => Some []
  end.
Definition calls (c : call_rule) (p : prepared) : option (list (I * A)) :=
  match p with
  | PNone => Some []
  | PSingle i a => Some [(i, a)]
  | PChain fs args =>
      match c with
      | ZipInOrderEachWithItsOwnArgs => zip_calls fs args
      | EachWithTheFirstArgs => match args with a :: _ => zip_calls fs (map (fun _ => a) fs) | [] => Some [] end
      end
  end.
(* the specification: every initializer that is not None, once, in the order given, with its own arguments *)
Definition wanted (l : list (option I * A)) : list (I * A) :=
  flat_map (fun p => match fst p with Some i => [(i, snd p)] | None => [] end) l.
End Init.
Arguments PNone {I A}. Arguments PSingle {I A}. Arguments PChain {I A}.
Arguments chain {I A}. Arguments calls {I A}. Arguments wanted {I A}. Arguments kept {I A}. Arguments zip_calls {I A}.
