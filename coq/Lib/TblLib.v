(* Dispatch tables as heap objects (C15): aliasing is what the property is about. *)
From Coq Require Import List Arith Bool.
Import ListNotations.
Definition ref := nat.
Definition tbl := list (nat * nat).              (* type id -> reducer id, last binding wins on lookup *)
Definition heap := list (ref * tbl).

Fixpoint hget (H : heap) (r : ref) : tbl :=
  match H with [] => [] | (r', t) :: tl => if Nat.eqb r r' then t else hget tl r end.
Fixpoint hset (H : heap) (r : ref) (t : tbl) : heap :=
  match H with
  | [] => [(r, t)]
  | (r', t') :: tl => if Nat.eqb r r' then (r', t) :: tl else (r', t') :: hset tl r t
  end.
Fixpoint fresh (H : heap) : ref := match H with [] => 0 | (r, _) :: tl => Nat.max (S r) (fresh tl) end.
Fixpoint tget (t : tbl) (k : nat) : option nat :=
  match t with [] => None | (k', v) :: tl => if Nat.eqb k k' then Some v else tget tl k end.
Definition tset (t : tbl) (k v : nat) : tbl := (k, v) :: t.
Definition copy_tbl (H : heap) (src : ref) : heap * ref := let r := fresh H in (hset H r (hget H src), r).
Definition alias_tbl (H : heap) (src : ref) : heap * ref := (H, src).
Definition store (H : heap) (r : ref) (k v : nat) : heap := hset H r (tset (hget H r) k v).
(* d.update(e): bindings of e override *)
Definition update_from (H : heap) (r src : ref) : heap := hset H r (hget H src ++ hget H r).
