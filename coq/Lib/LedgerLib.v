(* Vocabulary of the resource-relevant operations of an executor's life cycle (C20); Gen/Ledger.v is written in it. *)
From Coq Require Import List String Bool.
Import ListNotations.

Inductive chan := CallQ | ResultQ.
Inductive rop :=
| ShutdownWorkers            (* release the exit locks, send one sentinel per worker *)
| QClose (c : chan)
| QJoinThread (c : chan)
| WakeupClose
| JoinAllProcesses           (* popitem + join until the table is empty *)
| FlagBroken | FailPending | FailPendingShut | ClearPending | FlagShutdown
| KillWorkers                (* popitem + kill_process_tree for each *)
| IfKillWorkers (ops : list rop)
| JoinInternals | TerminateBroken | FlagExecutorShuttingDown.   (* calls to the three functions below *)

(* how a loop that fails every work item of the table guards Future.set_exception() against a future cancelled meanwhile *)
Inductive fail_guard := NoGuard | CheckFirst | CatchInvalidState.

Inductive drop_cond := DropIfWaitOrNeverStarted | DropAlways | DropNever.

Definition is_prim (o : rop) : bool :=
  match o with
  | JoinInternals | TerminateBroken | FlagExecutorShuttingDown => false
  | IfKillWorkers ops => forallb (fun o => match o with JoinInternals | TerminateBroken | FlagExecutorShuttingDown | IfKillWorkers _ => false | _ => true end) ops
  | _ => true
  end.
