(* Vocabulary and semantics of _ExecutorManagerThread.wait_result_broken_or_wakeup (Gen/Detect.v is written in it): what the
   manager thread waits on and how it decides between a result, a wake-up and "the pool is broken". *)
From Coq Require Import List Bool.
Import ListNotations.

Inductive bkind := BTaskUnserialize | BResultUnserialize | BTerminatedWorker.
Inductive dstmt :=
| DBindResultReader | DBindWakeupReader | DReadersAreResultAndWakeup | DSentinelsOfAllRegistered | DWaitUntimed
| DSetBpeNone | DSetBpe (k : bkind) | DSetBroken (b : bool) | DSetItemNone | DRecv
| DIfResultReady (a b : list dstmt) | DIfWakeupReady (a b : list dstmt) | DIfRemoteTraceback (a b : list dstmt)
| DTry (body handler : list dstmt) | DClearWakeup | DReturn.

(* what the environment does in one round: which of the two pipes wait() reports ready, and what recv() on the result pipe yields *)
Inductive recv_out := RItem | RTraceback | RRaises.
Record denv := mkdenv { res_ready : bool; wake_ready : bool; rc : recv_out }.

Inductive itm := IUnset | INone | IItem | ITrace.
Record dst := mkdst {
  d_item : itm; d_broken : option bool; d_bpe : option (option bkind);
  d_readers : bool;          (* readers = [result reader, wake-up reader], both bound to the executor's own pipes *)
  d_sentinels : bool;        (* the sentinels of every registered worker *)
  d_waited : bool;           (* wait(readers + sentinels), no time-out *)
  d_recvs : nat; d_cleared : bool; d_returned : bool; d_raised : bool; d_bound : nat }.
Definition dst0 : dst := mkdst IUnset None None false false false 0 false false false 0.

Definition upd_item s v := mkdst v (d_broken s) (d_bpe s) (d_readers s) (d_sentinels s) (d_waited s) (d_recvs s) (d_cleared s) (d_returned s) (d_raised s) (d_bound s).
Definition upd_broken s v := mkdst (d_item s) v (d_bpe s) (d_readers s) (d_sentinels s) (d_waited s) (d_recvs s) (d_cleared s) (d_returned s) (d_raised s) (d_bound s).
Definition upd_bpe s v := mkdst (d_item s) (d_broken s) v (d_readers s) (d_sentinels s) (d_waited s) (d_recvs s) (d_cleared s) (d_returned s) (d_raised s) (d_bound s).
Definition upd_raised s v := mkdst (d_item s) (d_broken s) (d_bpe s) (d_readers s) (d_sentinels s) (d_waited s) (d_recvs s) (d_cleared s) (d_returned s) v (d_bound s).

Fixpoint dexec (e : denv) (o : dstmt) (s : dst) : dst :=
  let fix dlist (l : list dstmt) (s : dst) : dst :=
      match l with
      | [] => s
      | x :: r => let s' := dexec e x s in if d_raised s' || d_returned s' then s' else dlist r s'
      end in
  match o with
  | DBindResultReader | DBindWakeupReader =>
      mkdst (d_item s) (d_broken s) (d_bpe s) (d_readers s) (d_sentinels s) (d_waited s) (d_recvs s) (d_cleared s) (d_returned s) (d_raised s) (S (d_bound s))
  | DReadersAreResultAndWakeup =>
      mkdst (d_item s) (d_broken s) (d_bpe s) (Nat.eqb (d_bound s) 2) (d_sentinels s) (d_waited s) (d_recvs s) (d_cleared s) (d_returned s) (d_raised s) (d_bound s)
  | DSentinelsOfAllRegistered =>
      mkdst (d_item s) (d_broken s) (d_bpe s) (d_readers s) true (d_waited s) (d_recvs s) (d_cleared s) (d_returned s) (d_raised s) (d_bound s)
  | DWaitUntimed =>
      mkdst (d_item s) (d_broken s) (d_bpe s) (d_readers s) (d_sentinels s) (d_readers s && d_sentinels s) (d_recvs s) (d_cleared s) (d_returned s) (d_raised s) (d_bound s)
  | DSetBpeNone => upd_bpe s (Some None)
  | DSetBpe k => upd_bpe s (Some (Some k))
  | DSetBroken b => upd_broken s (Some b)
  | DSetItemNone => upd_item s INone
  | DRecv =>
      let s1 := mkdst (d_item s) (d_broken s) (d_bpe s) (d_readers s) (d_sentinels s) (d_waited s) (S (d_recvs s)) (d_cleared s) (d_returned s) (d_raised s) (d_bound s) in
      match rc e with
      | RItem => upd_item s1 IItem
      | RTraceback => upd_item s1 ITrace
      | RRaises => upd_raised s1 true
      end
  | DIfResultReady a b => if res_ready e then dlist a s else dlist b s
  | DIfWakeupReady a b => if wake_ready e then dlist a s else dlist b s
  | DIfRemoteTraceback a b => match d_item s with ITrace => dlist a s | _ => dlist b s end
  | DTry body handler => let s' := dlist body s in if d_raised s' then dlist handler (upd_raised s' false) else s'
  | DClearWakeup =>
      mkdst (d_item s) (d_broken s) (d_bpe s) (d_readers s) (d_sentinels s) (d_waited s) (d_recvs s) true (d_returned s) (d_raised s) (d_bound s)
  | DReturn =>
      mkdst (d_item s) (d_broken s) (d_bpe s) (d_readers s) (d_sentinels s) (d_waited s) (d_recvs s) (d_cleared s) true (d_raised s) (d_bound s)
  end.
Fixpoint drun (e : denv) (l : list dstmt) (s : dst) : dst :=
  match l with
  | [] => s
  | x :: r => let s' := dexec e x s in if d_raised s' || d_returned s' then s' else drun e r s'
  end.

Definition all_envs : list denv :=
  flat_map (fun a => flat_map (fun b => map (fun c => mkdenv a b c) [RItem; RTraceback; RRaises]) [true; false]) [true; false].
