(* The locks and blocking waits of the parent-side code (Gen/LockOrder.v is written in it). *)
From Coq Require Import List Bool Arith.
Import ListNotations.

Inductive lk :=
| LFactory          (* reusable_executor._executor_lock *)
| LSubmitResize     (* _ReusablePoolExecutor._submit_resize_lock *)
| LGlobal           (* process_executor._global_shutdown_lock *)
| LShutdown         (* the executor's shutdown lock (flags, wake-up pipe) *)
| LMgmt             (* processes_management_lock (shared with the workers, which only probe it) *)
| LSlot             (* a free slot of the call queue (blocking put) *)
| LExit             (* a worker's exit lock *)
| LCqWrite | LNotEmpty
| TMgr              (* pseudo-lock: "the executor manager thread has ended / made progress"; it is what join() and the polling loops wait for *)
| PWorker           (* pseudo-lock: "that worker process has ended" *)
| UserCb            (* pseudo-lock: done-callbacks of a future, run by whoever completes it *)
| WPipe.            (* pseudo-lock: room in the manager's wake-up pipe (only when wakeup() can block), made by the manager's clear() *)

Definition lk_eqb (a b : lk) : bool :=
  match a, b with
  | LFactory, LFactory | LSubmitResize, LSubmitResize | LGlobal, LGlobal | LShutdown, LShutdown | LMgmt, LMgmt | LSlot, LSlot
  | LExit, LExit | LCqWrite, LCqWrite | LNotEmpty, LNotEmpty | TMgr, TMgr | PWorker, PWorker | UserCb, UserCb | WPipe, WPipe => true
  | _, _ => false
  end.
Definition edge_eqb (e f : lk * lk) : bool := lk_eqb (fst e) (fst f) && lk_eqb (snd e) (snd f).
Definition edge_in (e : lk * lk) (l : list (lk * lk)) : bool := existsb (edge_eqb e) l.
