(* Values of the wrap_non_picklable_objects world (C16): plain objects of an abstract universe and wrappers. *)
Section W.
Variable obj : Type.
Inductive pyv :=
| Obj (o : obj)
| Wrap (callable_class : bool) (inner : pyv) (keep : bool).   (* CallableObjectWrapper iff callable_class *)
(* what __reduce__ returns; the pickled payload is represented by the value cloudpickle will reproduce *)
Inductive reduce_res :=
| RLoads (payload : pyv)                          (* (loads, (pickled,)) *)
| RReconstruct (payload : pyv) (keep : bool).     (* (_reconstruct_wrapper, (pickled, keep)) *)
End W.
Arguments Obj {obj} o. Arguments Wrap {obj} callable_class inner keep.
Arguments RLoads {obj} payload. Arguments RReconstruct {obj} payload keep.
