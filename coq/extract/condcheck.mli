
type nat =
| O
| S of nat

val fst : ('a1 * 'a2) -> 'a1

val snd : ('a1 * 'a2) -> 'a2

val app : 'a1 list -> 'a1 list -> 'a1 list

val eqb : bool -> bool -> bool

module Nat :
 sig
  val eqb : nat -> nat -> bool
 end

val flat_map : ('a1 -> 'a2 list) -> 'a1 list -> 'a2 list

val fold_left : ('a1 -> 'a2 -> 'a1) -> 'a2 list -> 'a1 -> 'a1

val existsb : ('a1 -> bool) -> 'a1 list -> bool

type tid = nat

type pc =
| Idle
| Hold
| WReg of bool
| WBlocked of bool
| WPassed of bool * bool
| WRelock of bool * bool
| WDone of bool * bool
| NStart of bool
| NCancel of bool
| NCancel2 of bool
| NGrab of bool * nat
| NPost of bool * nat
| NWait of bool * nat * nat
| NDrain of bool * nat
| NDone
| AssertFailed

type state = { lock : tid option; sleeping : nat; woken : nat; wsem : 
               nat; thr : (tid * pc) list; posted : nat; consumed : nat;
               stolen : nat }

val init : state

val lookup : (tid * pc) list -> tid -> pc option

val update : (tid * pc) list -> tid -> pc -> (tid * pc) list

val pc_of : state -> tid -> pc

val set_pc : state -> tid -> pc -> state

val upd :
  state -> tid option -> nat -> nat -> nat -> tid -> pc -> nat -> nat -> nat
  -> state

type label =
| Acquire of tid
| Release of tid
| StartWait of tid * bool
| StartNotify of tid * bool
| Step of tid
| Timeout of tid
| Finish of tid

val step : state -> label -> state option

type obs = { o_lock : tid option; o_sleeping : nat; o_woken : nat;
             o_wsem : nat }

val observe : state -> obs

val oeqb : nat option -> nat option -> bool

val obs_eqb : obs -> obs -> bool

val pc_eqb : pc -> pc -> bool

val thr_eqb : (tid * pc) list -> (tid * pc) list -> bool

val state_eqb : state -> state -> bool

val labels_of : tid -> label list

val succs : state -> tid -> state list

val add_new : state -> state list -> state list

val union : state list -> state list -> state list

val explain : nat -> state -> tid -> obs -> state list

val validate_event : state list -> (tid * obs) -> state list

val validate :
  state list -> (tid * obs) list -> nat -> nat option * state list

val any_assert_failed : state list -> bool
