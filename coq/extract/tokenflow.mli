
type nat =
| O
| S of nat

val fst : ('a1 * 'a2) -> 'a1

val snd : ('a1 * 'a2) -> 'a2

val app : 'a1 list -> 'a1 list -> 'a1 list

val eqb : bool -> bool -> bool

module Nat :
 sig
  val eqb : nat -> nat -> bool
 end

val rev : 'a1 list -> 'a1 list

val map : ('a1 -> 'a2) -> 'a1 list -> 'a2 list

val flat_map : ('a1 -> 'a2 list) -> 'a1 list -> 'a2 list

val fold_left : ('a1 -> 'a2 -> 'a1) -> 'a2 list -> 'a1 -> 'a1

val existsb : ('a1 -> bool) -> 'a1 list -> bool

type wid = nat

type pid = nat

type uid = nat

type fout =
| Val
| TaskExc
| SendErr
| Broken
| ShutErr

type fstate =
| FPending
| FRunning
| FCancelled
| FDone of fout

type item =
| ICall of wid
| ISent

type rmsg =
| RRes of wid
| ROther

type mpc =
| MIdle
| MGot of wid
| MSkip of wid
| MRun of wid
| MPut of item
| MBuf of item
| MRes1 of wid
| MRes2 of wid
| MRes3 of wid
| MFail of wid

type fpc =
| FIdle
| FHold of item
| FErr1 of wid
| FErr2 of wid * bool
| FErr3 of wid * bool

type wpc =
| WIdle
| WGot of item
| WHold of item
| WRan of wid
| WDead of bool

type upc =
| UIdle
| UHalf of wid
| UPut of item
| UBuf of item

type state = { next : wid; futs : (wid * fstate) list; pending : wid list;
               work_ids : wid list; running : wid list; buffer : item list;
               cpipe : item list; rpipe : rmsg list; slot : nat;
               executed : wid list; mgr : mpc; fdr : fpc;
               wrk : (pid * wpc) list; usr : (uid * upc) list }

val init : nat -> state

val lookup : (nat * 'a1) list -> nat -> 'a1 option

val update : (nat * 'a1) list -> nat -> 'a1 -> (nat * 'a1) list

val remove1 : nat list -> nat -> nat list

val memb : nat list -> nat -> bool

val fut : state -> wid -> fstate option

val wpc_of : state -> pid -> wpc

val upc_of : state -> uid -> upc

val terminal : fstate -> bool

val set_futs : state -> (wid * fstate) list -> state

val set_pending : state -> wid list -> state

val set_work_ids : state -> wid list -> state

val set_running : state -> wid list -> state

val set_buffer : state -> item list -> state

val set_cpipe : state -> item list -> state

val set_rpipe : state -> rmsg list -> state

val set_slot : state -> nat -> state

val set_executed : state -> wid list -> state

val set_mgr : state -> mpc -> state

val set_fdr : state -> fpc -> state

val set_wrk : state -> (pid * wpc) list -> state

val set_usr : state -> (uid * upc) list -> state

val set_next : state -> wid -> state

val fail_all : (wid * fstate) list -> wid list -> fout -> (wid * fstate) list

type label =
| USubmitA of uid
| USubmitB of uid
| UCancel of wid
| UPutStart of uid
| UAcqSlot of uid
| UBufAppend of uid
| MTake
| MSetRunning
| MDelPending
| MAddRunning
| MAcqSlot
| MBufAppend
| MPutSentinel
| MRecv
| MDropRes
| MPopPending
| MSetFuture of fout
| MDelRunning
| MFailAll of fout
| MClear
| MPopFail of fout
| MFailOne
| FPop
| FSend
| FErrRelease
| FErrPop
| FErrRemove
| FErrSet
| WSpawn of pid
| WRecv of pid
| WRelSlot of pid
| WExec of pid
| WSendRes of pid
| WSendOther of pid
| WTakeSentinel of pid
| WUnpickleFail of pid
| EKill of pid

val step : state -> label -> state option

type obs = { o_futs : (wid * fstate) list; o_pending : wid list;
             o_work_ids : wid list; o_running : wid list;
             o_buffer : item list; o_cpipe : item list; o_rpipe : rmsg list;
             o_slot : nat; o_executed : wid list }

val observe : state -> obs

type actor =
| AUser of uid
| AMgr
| AFdr
| AWrk of pid

val fout_eqb : fout -> fout -> bool

val fstate_eqb : fstate -> fstate -> bool

val item_eqb : item -> item -> bool

val rmsg_eqb : rmsg -> rmsg -> bool

val leqb : ('a1 -> 'a1 -> bool) -> 'a1 list -> 'a1 list -> bool

val pair_eqb : ('a1 -> 'a1 -> bool) -> (nat * 'a1) -> (nat * 'a1) -> bool

val obs_eqb : obs -> obs -> bool

val mpc_eqb : mpc -> mpc -> bool

val fpc_eqb : fpc -> fpc -> bool

val wpc_eqb : wpc -> wpc -> bool

val upc_eqb : upc -> upc -> bool

val state_eqb : state -> state -> bool

val actor_labels : state -> actor -> label list

val succs : state -> actor -> state list

val add_new : state -> state list -> state list

val union : state list -> state list -> state list

val explain : nat -> state -> actor -> obs -> state list

val fUEL : nat

val validate_event : state list -> (actor * obs) -> state list

val validate :
  state list -> (actor * obs) list -> nat -> nat option * state list
