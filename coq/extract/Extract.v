(* Extraction of the executable trace validators (ExtrOcamlBasic only: bool, option, unit, list, prod,
   sumbool map to OCaml's; nat and every model datatype stay Coq inductives; no Extract Constant). *)
From Coq Require Import ExtrOcamlBasic.
From LokyV Require Import Model.TokenFlow Model.TokenFlowCheck.
Extraction Language OCaml.
Extraction "tokenflow.ml" TokenFlow.init TokenFlowCheck.validate.
From LokyV Require Import Model.Cond Model.CondCheck.
Extraction "condcheck.ml" Cond.init CondCheck.validate CondCheck.any_assert_failed.
