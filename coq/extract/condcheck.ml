
type nat =
| O
| S of nat

(** val fst : ('a1 * 'a2) -> 'a1 **)

let fst = function
| (x, _) -> x

(** val snd : ('a1 * 'a2) -> 'a2 **)

let snd = function
| (_, y) -> y

(** val app : 'a1 list -> 'a1 list -> 'a1 list **)

let rec app l m =
  match l with
  | [] -> m
  | a :: l1 -> a :: (app l1 m)

(** val eqb : bool -> bool -> bool **)

let eqb b1 b2 =
  if b1 then b2 else if b2 then false else true

module Nat =
 struct
  (** val eqb : nat -> nat -> bool **)

  let rec eqb n m =
    match n with
    | O -> (match m with
            | O -> true
            | S _ -> false)
    | S n' -> (match m with
               | O -> false
               | S m' -> eqb n' m')
 end

(** val flat_map : ('a1 -> 'a2 list) -> 'a1 list -> 'a2 list **)

let rec flat_map f = function
| [] -> []
| x :: t -> app (f x) (flat_map f t)

(** val fold_left : ('a1 -> 'a2 -> 'a1) -> 'a2 list -> 'a1 -> 'a1 **)

let rec fold_left f l a0 =
  match l with
  | [] -> a0
  | b :: t -> fold_left f t (f a0 b)

(** val existsb : ('a1 -> bool) -> 'a1 list -> bool **)

let rec existsb f = function
| [] -> false
| a :: l0 -> (||) (f a) (existsb f l0)

type tid = nat

type pc =
| Idle
| Hold
| WReg of bool
| WBlocked of bool
| WPassed of bool * bool
| WRelock of bool * bool
| WDone of bool * bool
| NStart of bool
| NCancel of bool
| NCancel2 of bool
| NGrab of bool * nat
| NPost of bool * nat
| NWait of bool * nat * nat
| NDrain of bool * nat
| NDone
| AssertFailed

type state = { lock : tid option; sleeping : nat; woken : nat; wsem : 
               nat; thr : (tid * pc) list; posted : nat; consumed : nat;
               stolen : nat }

(** val init : state **)

let init =
  { lock = None; sleeping = O; woken = O; wsem = O; thr = []; posted = O;
    consumed = O; stolen = O }

(** val lookup : (tid * pc) list -> tid -> pc option **)

let rec lookup l t =
  match l with
  | [] -> None
  | p :: tl -> let (t', c) = p in if Nat.eqb t t' then Some c else lookup tl t

(** val update : (tid * pc) list -> tid -> pc -> (tid * pc) list **)

let rec update l t c =
  match l with
  | [] -> (t, c) :: []
  | p :: tl ->
    let (t', c') = p in
    if Nat.eqb t t' then (t', c) :: tl else (t', c') :: (update tl t c)

(** val pc_of : state -> tid -> pc **)

let pc_of s t =
  match lookup s.thr t with
  | Some c -> c
  | None -> Idle

(** val set_pc : state -> tid -> pc -> state **)

let set_pc s t c =
  { lock = s.lock; sleeping = s.sleeping; woken = s.woken; wsem = s.wsem;
    thr = (update s.thr t c); posted = s.posted; consumed = s.consumed;
    stolen = s.stolen }

(** val upd :
    state -> tid option -> nat -> nat -> nat -> tid -> pc -> nat -> nat ->
    nat -> state **)

let upd s lk sl wk ws t c po co st =
  { lock = lk; sleeping = sl; woken = wk; wsem = ws; thr =
    (update s.thr t c); posted = po; consumed = co; stolen = st }

type label =
| Acquire of tid
| Release of tid
| StartWait of tid * bool
| StartNotify of tid * bool
| Step of tid
| Timeout of tid
| Finish of tid

(** val step : state -> label -> state option **)

let step s = function
| Acquire t ->
  (match pc_of s t with
   | Idle ->
     (match s.lock with
      | Some _ -> None
      | None ->
        Some
          (upd s (Some t) s.sleeping s.woken s.wsem t Hold s.posted
            s.consumed s.stolen))
   | _ -> None)
| Release t ->
  (match pc_of s t with
   | Hold ->
     Some
       (upd s None s.sleeping s.woken s.wsem t Idle s.posted s.consumed
         s.stolen)
   | _ -> None)
| StartWait (t, tmo) ->
  (match pc_of s t with
   | Hold ->
     Some
       (upd s s.lock (S s.sleeping) s.woken s.wsem t (WReg tmo) s.posted
         s.consumed s.stolen)
   | _ -> None)
| StartNotify (t, all) ->
  (match pc_of s t with
   | Hold -> Some (set_pc s t (NStart all))
   | _ -> None)
| Step t ->
  (match pc_of s t with
   | WReg tmo ->
     Some
       (upd s None s.sleeping s.woken s.wsem t (WBlocked tmo) s.posted
         s.consumed s.stolen)
   | WBlocked tmo ->
     (match s.wsem with
      | O -> None
      | S n ->
        Some
          (upd s s.lock s.sleeping s.woken n t (WPassed (tmo, true)) s.posted
            (S s.consumed) s.stolen))
   | WPassed (tmo, got) ->
     Some
       (upd s s.lock s.sleeping (S s.woken) s.wsem t (WRelock (tmo, got))
         s.posted s.consumed s.stolen)
   | WRelock (tmo, got) ->
     (match s.lock with
      | Some _ -> None
      | None ->
        Some
          (upd s (Some t) s.sleeping s.woken s.wsem t (WDone (tmo, got))
            s.posted s.consumed s.stolen))
   | NStart all ->
     (match s.wsem with
      | O -> Some (set_pc s t (NCancel all))
      | S _ -> Some (set_pc s t AssertFailed))
   | NCancel all ->
     (match s.woken with
      | O -> Some (set_pc s t (NGrab (all, O)))
      | S n ->
        Some
          (upd s s.lock s.sleeping n s.wsem t (NCancel2 all) s.posted
            s.consumed s.stolen))
   | NCancel2 all ->
     (match s.sleeping with
      | O -> Some (set_pc s t AssertFailed)
      | S n ->
        Some
          (upd s s.lock n s.woken s.wsem t (NCancel all) s.posted s.consumed
            s.stolen))
   | NGrab (all, n) ->
     (match s.sleeping with
      | O ->
        if Nat.eqb n O
        then Some (set_pc s t NDone)
        else Some (set_pc s t (NWait (all, n, n)))
      | S m ->
        Some
          (upd s s.lock m s.woken s.wsem t (NPost (all, n)) s.posted
            s.consumed s.stolen))
   | NPost (all, n) ->
     let s' =
       upd s s.lock s.sleeping s.woken (S s.wsem) t
         (if all then NGrab (all, (S n)) else NWait (all, (S n), (S n))) (S
         s.posted) s.consumed s.stolen
     in
     Some s'
   | NWait (all, p, k) ->
     (match k with
      | O -> Some (set_pc s t (NDrain (all, p)))
      | S k' ->
        (match s.woken with
         | O -> None
         | S n ->
           Some
             (upd s s.lock s.sleeping n s.wsem t
               (match k' with
                | O -> NDrain (all, p)
                | S _ -> NWait (all, p, k')) s.posted s.consumed s.stolen)))
   | NDrain (all, p) ->
     (match s.wsem with
      | O -> Some (set_pc s t NDone)
      | S n ->
        Some
          (upd s s.lock s.sleeping s.woken n t
            (if all then NDrain (all, p) else NDone) s.posted s.consumed (S
            s.stolen)))
   | _ -> None)
| Timeout t ->
  (match pc_of s t with
   | WBlocked tmo ->
     if tmo then Some (set_pc s t (WPassed (true, false))) else None
   | _ -> None)
| Finish t ->
  (match pc_of s t with
   | WDone (_, _) -> Some (set_pc s t Hold)
   | NDone -> Some (set_pc s t Hold)
   | _ -> None)

type obs = { o_lock : tid option; o_sleeping : nat; o_woken : nat;
             o_wsem : nat }

(** val observe : state -> obs **)

let observe s =
  { o_lock = s.lock; o_sleeping = s.sleeping; o_woken = s.woken; o_wsem =
    s.wsem }

(** val oeqb : nat option -> nat option -> bool **)

let oeqb a b =
  match a with
  | Some x -> (match b with
               | Some y -> Nat.eqb x y
               | None -> false)
  | None -> (match b with
             | Some _ -> false
             | None -> true)

(** val obs_eqb : obs -> obs -> bool **)

let obs_eqb a b =
  (&&)
    ((&&) ((&&) (oeqb a.o_lock b.o_lock) (Nat.eqb a.o_sleeping b.o_sleeping))
      (Nat.eqb a.o_woken b.o_woken)) (Nat.eqb a.o_wsem b.o_wsem)

(** val pc_eqb : pc -> pc -> bool **)

let pc_eqb a b =
  match a with
  | Idle -> (match b with
             | Idle -> true
             | _ -> false)
  | Hold -> (match b with
             | Hold -> true
             | _ -> false)
  | WReg x -> (match b with
               | WReg y -> eqb x y
               | _ -> false)
  | WBlocked x -> (match b with
                   | WBlocked y -> eqb x y
                   | _ -> false)
  | WPassed (x, g) ->
    (match b with
     | WPassed (y, h) -> (&&) (eqb x y) (eqb g h)
     | _ -> false)
  | WRelock (x, g) ->
    (match b with
     | WRelock (y, h) -> (&&) (eqb x y) (eqb g h)
     | _ -> false)
  | WDone (x, g) ->
    (match b with
     | WDone (y, h) -> (&&) (eqb x y) (eqb g h)
     | _ -> false)
  | NStart x -> (match b with
                 | NStart y -> eqb x y
                 | _ -> false)
  | NCancel x -> (match b with
                  | NCancel y -> eqb x y
                  | _ -> false)
  | NCancel2 x -> (match b with
                   | NCancel2 y -> eqb x y
                   | _ -> false)
  | NGrab (x, n) ->
    (match b with
     | NGrab (y, m) -> (&&) (eqb x y) (Nat.eqb n m)
     | _ -> false)
  | NPost (x, n) ->
    (match b with
     | NPost (y, m) -> (&&) (eqb x y) (Nat.eqb n m)
     | _ -> false)
  | NWait (x, p, k) ->
    (match b with
     | NWait (y, q, j) -> (&&) ((&&) (eqb x y) (Nat.eqb p q)) (Nat.eqb k j)
     | _ -> false)
  | NDrain (x, n) ->
    (match b with
     | NDrain (y, m) -> (&&) (eqb x y) (Nat.eqb n m)
     | _ -> false)
  | NDone -> (match b with
              | NDone -> true
              | _ -> false)
  | AssertFailed -> (match b with
                     | AssertFailed -> true
                     | _ -> false)

(** val thr_eqb : (tid * pc) list -> (tid * pc) list -> bool **)

let rec thr_eqb a b =
  match a with
  | [] -> (match b with
           | [] -> true
           | _ :: _ -> false)
  | p :: a' ->
    let (t, c) = p in
    (match b with
     | [] -> false
     | p0 :: b' ->
       let (u, d) = p0 in
       (&&) ((&&) (Nat.eqb t u) (pc_eqb c d)) (thr_eqb a' b'))

(** val state_eqb : state -> state -> bool **)

let state_eqb a b =
  (&&) (obs_eqb (observe a) (observe b)) (thr_eqb a.thr b.thr)

(** val labels_of : tid -> label list **)

let labels_of t =
  (Acquire t) :: ((Release t) :: ((StartWait (t, true)) :: ((StartWait (t,
    false)) :: ((StartNotify (t, true)) :: ((StartNotify (t,
    false)) :: ((Step t) :: ((Timeout t) :: ((Finish t) :: []))))))))

(** val succs : state -> tid -> state list **)

let succs s t =
  flat_map (fun l -> match step s l with
                     | Some s' -> s' :: []
                     | None -> []) (labels_of t)

(** val add_new : state -> state list -> state list **)

let rec add_new s l = match l with
| [] -> s :: []
| x :: tl -> if state_eqb x s then l else x :: (add_new s tl)

(** val union : state list -> state list -> state list **)

let union a b =
  fold_left (fun acc s -> add_new s acc) b a

(** val explain : nat -> state -> tid -> obs -> state list **)

let rec explain fuel s t o =
  match fuel with
  | O -> []
  | S f ->
    fold_left (fun acc s' ->
      let here = if obs_eqb (observe s') o then s' :: [] else [] in
      union (union acc here) (explain f s' t o)) (succs s t) []

(** val validate_event : state list -> (tid * obs) -> state list **)

let validate_event cands ev =
  fold_left (fun acc s ->
    union acc (explain (S (S (S (S O)))) s (fst ev) (snd ev))) cands []

(** val validate :
    state list -> (tid * obs) list -> nat -> nat option * state list **)

let rec validate cands tr i =
  match tr with
  | [] -> (None, cands)
  | ev :: tl ->
    (match validate_event cands ev with
     | [] -> ((Some i), cands)
     | s :: l -> validate (s :: l) tl (S i))

(** val any_assert_failed : state list -> bool **)

let any_assert_failed cands =
  existsb (fun s -> existsb (fun tc -> pc_eqb (snd tc) AssertFailed) s.thr)
    cands
