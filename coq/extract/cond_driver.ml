(* trace format:  TRACE <id>  /  T<i> | <holder or -> | sleeping | woken | wsem  /  END *)
open Condcheck
let rec nat_of_int n = if n <= 0 then O else S (nat_of_int (n - 1))
let rec int_of_nat = function O -> 0 | S n -> 1 + int_of_nat n
let parse line =
  match List.map String.trim (String.split_on_char '|' line) with
  | [a; h; sl; wk; ws] ->
    let t = nat_of_int (int_of_string (String.sub a 1 (String.length a - 1))) in
    let holder = if h = "-" then None else Some (nat_of_int (int_of_string h)) in
    (t, { o_lock = holder; o_sleeping = nat_of_int (int_of_string sl);
          o_woken = nat_of_int (int_of_string wk); o_wsem = nat_of_int (int_of_string ws) })
  | _ -> failwith ("bad line: " ^ line)
let () =
  let ic = open_in Sys.argv.(1) in
  let cur = ref None and evs = ref [] in
  (try while true do
    let line = input_line ic in
    if String.length line >= 5 && String.sub line 0 5 = "TRACE" then begin
      cur := Some (List.nth (String.split_on_char ' ' line) 1); evs := []
    end else if line = "END" then begin
      (match !cur with
       | Some id ->
         let tr = List.rev !evs in
         let (bad, cands) = validate [init] tr O in
         (match bad with
          | None -> Printf.printf "OK %s %d %d %b\n" id (List.length tr) (List.length cands) (any_assert_failed cands)
          | Some i -> Printf.printf "FAIL %s %d\n" id (int_of_nat i))
       | None -> ());
      cur := None
    end else if line <> "" then evs := parse line :: !evs
  done with End_of_file -> ());
  close_in ic
