
type nat =
| O
| S of nat

(** val fst : ('a1 * 'a2) -> 'a1 **)

let fst = function
| (x, _) -> x

(** val snd : ('a1 * 'a2) -> 'a2 **)

let snd = function
| (_, y) -> y

(** val app : 'a1 list -> 'a1 list -> 'a1 list **)

let rec app l m =
  match l with
  | [] -> m
  | a :: l1 -> a :: (app l1 m)

(** val eqb : bool -> bool -> bool **)

let eqb b1 b2 =
  if b1 then b2 else if b2 then false else true

module Nat =
 struct
  (** val eqb : nat -> nat -> bool **)

  let rec eqb n m =
    match n with
    | O -> (match m with
            | O -> true
            | S _ -> false)
    | S n' -> (match m with
               | O -> false
               | S m' -> eqb n' m')
 end

(** val rev : 'a1 list -> 'a1 list **)

let rec rev = function
| [] -> []
| x :: l' -> app (rev l') (x :: [])

(** val map : ('a1 -> 'a2) -> 'a1 list -> 'a2 list **)

let rec map f = function
| [] -> []
| a :: t -> (f a) :: (map f t)

(** val flat_map : ('a1 -> 'a2 list) -> 'a1 list -> 'a2 list **)

let rec flat_map f = function
| [] -> []
| x :: t -> app (f x) (flat_map f t)

(** val fold_left : ('a1 -> 'a2 -> 'a1) -> 'a2 list -> 'a1 -> 'a1 **)

let rec fold_left f l a0 =
  match l with
  | [] -> a0
  | b :: t -> fold_left f t (f a0 b)

(** val existsb : ('a1 -> bool) -> 'a1 list -> bool **)

let rec existsb f = function
| [] -> false
| a :: l0 -> (||) (f a) (existsb f l0)

type wid = nat

type pid = nat

type uid = nat

type fout =
| Val
| TaskExc
| SendErr
| Broken
| ShutErr

type fstate =
| FPending
| FRunning
| FCancelled
| FDone of fout

type item =
| ICall of wid
| ISent

type rmsg =
| RRes of wid
| ROther

type mpc =
| MIdle
| MGot of wid
| MSkip of wid
| MRun of wid
| MPut of item
| MBuf of item
| MRes1 of wid
| MRes2 of wid
| MRes3 of wid
| MFail of wid

type fpc =
| FIdle
| FHold of item
| FErr1 of wid
| FErr2 of wid * bool
| FErr3 of wid * bool

type wpc =
| WIdle
| WGot of item
| WHold of item
| WRan of wid
| WDead of bool

type upc =
| UIdle
| UHalf of wid
| UPut of item
| UBuf of item

type state = { next : wid; futs : (wid * fstate) list; pending : wid list;
               work_ids : wid list; running : wid list; buffer : item list;
               cpipe : item list; rpipe : rmsg list; slot : nat;
               executed : wid list; mgr : mpc; fdr : fpc;
               wrk : (pid * wpc) list; usr : (uid * upc) list }

(** val init : nat -> state **)

let init cap =
  { next = O; futs = []; pending = []; work_ids = []; running = []; buffer =
    []; cpipe = []; rpipe = []; slot = cap; executed = []; mgr = MIdle; fdr =
    FIdle; wrk = []; usr = [] }

(** val lookup : (nat * 'a1) list -> nat -> 'a1 option **)

let rec lookup l k =
  match l with
  | [] -> None
  | p :: tl -> let (k', v) = p in if Nat.eqb k k' then Some v else lookup tl k

(** val update : (nat * 'a1) list -> nat -> 'a1 -> (nat * 'a1) list **)

let rec update l k v =
  match l with
  | [] -> (k, v) :: []
  | p :: tl ->
    let (k', v') = p in
    if Nat.eqb k k' then (k', v) :: tl else (k', v') :: (update tl k v)

(** val remove1 : nat list -> nat -> nat list **)

let rec remove1 l x =
  match l with
  | [] -> []
  | y :: tl -> if Nat.eqb x y then tl else y :: (remove1 tl x)

(** val memb : nat list -> nat -> bool **)

let memb l x =
  existsb (Nat.eqb x) l

(** val fut : state -> wid -> fstate option **)

let fut s w =
  lookup s.futs w

(** val wpc_of : state -> pid -> wpc **)

let wpc_of s p =
  match lookup s.wrk p with
  | Some c -> c
  | None -> WDead false

(** val upc_of : state -> uid -> upc **)

let upc_of s u =
  match lookup s.usr u with
  | Some c -> c
  | None -> UIdle

(** val terminal : fstate -> bool **)

let terminal = function
| FPending -> false
| FRunning -> false
| _ -> true

(** val set_futs : state -> (wid * fstate) list -> state **)

let set_futs s v =
  { next = s.next; futs = v; pending = s.pending; work_ids = s.work_ids;
    running = s.running; buffer = s.buffer; cpipe = s.cpipe; rpipe = s.rpipe;
    slot = s.slot; executed = s.executed; mgr = s.mgr; fdr = s.fdr; wrk =
    s.wrk; usr = s.usr }

(** val set_pending : state -> wid list -> state **)

let set_pending s v =
  { next = s.next; futs = s.futs; pending = v; work_ids = s.work_ids;
    running = s.running; buffer = s.buffer; cpipe = s.cpipe; rpipe = s.rpipe;
    slot = s.slot; executed = s.executed; mgr = s.mgr; fdr = s.fdr; wrk =
    s.wrk; usr = s.usr }

(** val set_work_ids : state -> wid list -> state **)

let set_work_ids s v =
  { next = s.next; futs = s.futs; pending = s.pending; work_ids = v;
    running = s.running; buffer = s.buffer; cpipe = s.cpipe; rpipe = s.rpipe;
    slot = s.slot; executed = s.executed; mgr = s.mgr; fdr = s.fdr; wrk =
    s.wrk; usr = s.usr }

(** val set_running : state -> wid list -> state **)

let set_running s v =
  { next = s.next; futs = s.futs; pending = s.pending; work_ids = s.work_ids;
    running = v; buffer = s.buffer; cpipe = s.cpipe; rpipe = s.rpipe; slot =
    s.slot; executed = s.executed; mgr = s.mgr; fdr = s.fdr; wrk = s.wrk;
    usr = s.usr }

(** val set_buffer : state -> item list -> state **)

let set_buffer s v =
  { next = s.next; futs = s.futs; pending = s.pending; work_ids = s.work_ids;
    running = s.running; buffer = v; cpipe = s.cpipe; rpipe = s.rpipe; slot =
    s.slot; executed = s.executed; mgr = s.mgr; fdr = s.fdr; wrk = s.wrk;
    usr = s.usr }

(** val set_cpipe : state -> item list -> state **)

let set_cpipe s v =
  { next = s.next; futs = s.futs; pending = s.pending; work_ids = s.work_ids;
    running = s.running; buffer = s.buffer; cpipe = v; rpipe = s.rpipe;
    slot = s.slot; executed = s.executed; mgr = s.mgr; fdr = s.fdr; wrk =
    s.wrk; usr = s.usr }

(** val set_rpipe : state -> rmsg list -> state **)

let set_rpipe s v =
  { next = s.next; futs = s.futs; pending = s.pending; work_ids = s.work_ids;
    running = s.running; buffer = s.buffer; cpipe = s.cpipe; rpipe = v;
    slot = s.slot; executed = s.executed; mgr = s.mgr; fdr = s.fdr; wrk =
    s.wrk; usr = s.usr }

(** val set_slot : state -> nat -> state **)

let set_slot s v =
  { next = s.next; futs = s.futs; pending = s.pending; work_ids = s.work_ids;
    running = s.running; buffer = s.buffer; cpipe = s.cpipe; rpipe = s.rpipe;
    slot = v; executed = s.executed; mgr = s.mgr; fdr = s.fdr; wrk = s.wrk;
    usr = s.usr }

(** val set_executed : state -> wid list -> state **)

let set_executed s v =
  { next = s.next; futs = s.futs; pending = s.pending; work_ids = s.work_ids;
    running = s.running; buffer = s.buffer; cpipe = s.cpipe; rpipe = s.rpipe;
    slot = s.slot; executed = v; mgr = s.mgr; fdr = s.fdr; wrk = s.wrk; usr =
    s.usr }

(** val set_mgr : state -> mpc -> state **)

let set_mgr s v =
  { next = s.next; futs = s.futs; pending = s.pending; work_ids = s.work_ids;
    running = s.running; buffer = s.buffer; cpipe = s.cpipe; rpipe = s.rpipe;
    slot = s.slot; executed = s.executed; mgr = v; fdr = s.fdr; wrk = s.wrk;
    usr = s.usr }

(** val set_fdr : state -> fpc -> state **)

let set_fdr s v =
  { next = s.next; futs = s.futs; pending = s.pending; work_ids = s.work_ids;
    running = s.running; buffer = s.buffer; cpipe = s.cpipe; rpipe = s.rpipe;
    slot = s.slot; executed = s.executed; mgr = s.mgr; fdr = v; wrk = s.wrk;
    usr = s.usr }

(** val set_wrk : state -> (pid * wpc) list -> state **)

let set_wrk s v =
  { next = s.next; futs = s.futs; pending = s.pending; work_ids = s.work_ids;
    running = s.running; buffer = s.buffer; cpipe = s.cpipe; rpipe = s.rpipe;
    slot = s.slot; executed = s.executed; mgr = s.mgr; fdr = s.fdr; wrk = v;
    usr = s.usr }

(** val set_usr : state -> (uid * upc) list -> state **)

let set_usr s v =
  { next = s.next; futs = s.futs; pending = s.pending; work_ids = s.work_ids;
    running = s.running; buffer = s.buffer; cpipe = s.cpipe; rpipe = s.rpipe;
    slot = s.slot; executed = s.executed; mgr = s.mgr; fdr = s.fdr; wrk =
    s.wrk; usr = v }

(** val set_next : state -> wid -> state **)

let set_next s v =
  { next = v; futs = s.futs; pending = s.pending; work_ids = s.work_ids;
    running = s.running; buffer = s.buffer; cpipe = s.cpipe; rpipe = s.rpipe;
    slot = s.slot; executed = s.executed; mgr = s.mgr; fdr = s.fdr; wrk =
    s.wrk; usr = s.usr }

(** val fail_all :
    (wid * fstate) list -> wid list -> fout -> (wid * fstate) list **)

let rec fail_all fs ws o =
  match ws with
  | [] -> fs
  | w :: tl ->
    let fs' =
      match lookup fs w with
      | Some f -> if terminal f then fs else update fs w (FDone o)
      | None -> fs
    in
    fail_all fs' tl o

type label =
| USubmitA of uid
| USubmitB of uid
| UCancel of wid
| UPutStart of uid
| UAcqSlot of uid
| UBufAppend of uid
| MTake
| MSetRunning
| MDelPending
| MAddRunning
| MAcqSlot
| MBufAppend
| MPutSentinel
| MRecv
| MDropRes
| MPopPending
| MSetFuture of fout
| MDelRunning
| MFailAll of fout
| MClear
| MPopFail of fout
| MFailOne
| FPop
| FSend
| FErrRelease
| FErrPop
| FErrRemove
| FErrSet
| WSpawn of pid
| WRecv of pid
| WRelSlot of pid
| WExec of pid
| WSendRes of pid
| WSendOther of pid
| WTakeSentinel of pid
| WUnpickleFail of pid
| EKill of pid

(** val step : state -> label -> state option **)

let step s = function
| USubmitA u ->
  (match upc_of s u with
   | UIdle ->
     let w = s.next in
     Some
     (set_usr
       (set_next
         (set_pending (set_futs s (update s.futs w FPending))
           (app s.pending (w :: []))) (S w)) (update s.usr u (UHalf w)))
   | _ -> None)
| USubmitB u ->
  (match upc_of s u with
   | UHalf w ->
     Some
       (set_usr (set_work_ids s (app s.work_ids (w :: [])))
         (update s.usr u UIdle))
   | _ -> None)
| UCancel w ->
  (match fut s w with
   | Some f ->
     (match f with
      | FPending -> Some (set_futs s (update s.futs w FCancelled))
      | _ -> None)
   | None -> None)
| UPutStart u ->
  (match upc_of s u with
   | UIdle -> Some (set_usr s (update s.usr u (UPut ISent)))
   | _ -> None)
| UAcqSlot u ->
  (match upc_of s u with
   | UPut i ->
     (match s.slot with
      | O -> None
      | S n -> Some (set_usr (set_slot s n) (update s.usr u (UBuf i))))
   | _ -> None)
| UBufAppend u ->
  (match upc_of s u with
   | UBuf i ->
     Some
       (set_usr (set_buffer s (app s.buffer (i :: [])))
         (update s.usr u UIdle))
   | _ -> None)
| MTake ->
  (match s.mgr with
   | MIdle ->
     (match s.work_ids with
      | [] -> None
      | w :: tl -> Some (set_mgr (set_work_ids s tl) (MGot w)))
   | _ -> None)
| MSetRunning ->
  (match s.mgr with
   | MGot w ->
     (match fut s w with
      | Some f ->
        (match f with
         | FPending ->
           Some (set_mgr (set_futs s (update s.futs w FRunning)) (MRun w))
         | FCancelled -> Some (set_mgr s (MSkip w))
         | _ -> None)
      | None -> None)
   | _ -> None)
| MDelPending ->
  (match s.mgr with
   | MSkip w -> Some (set_mgr (set_pending s (remove1 s.pending w)) MIdle)
   | _ -> None)
| MAddRunning ->
  (match s.mgr with
   | MRun w ->
     Some (set_mgr (set_running s (app s.running (w :: []))) (MPut (ICall w)))
   | _ -> None)
| MAcqSlot ->
  (match s.mgr with
   | MPut i ->
     (match s.slot with
      | O -> None
      | S n -> Some (set_mgr (set_slot s n) (MBuf i)))
   | _ -> None)
| MBufAppend ->
  (match s.mgr with
   | MBuf i -> Some (set_mgr (set_buffer s (app s.buffer (i :: []))) MIdle)
   | _ -> None)
| MPutSentinel ->
  (match s.mgr with
   | MIdle -> Some (set_mgr s (MPut ISent))
   | _ -> None)
| MRecv ->
  (match s.mgr with
   | MIdle ->
     (match s.rpipe with
      | [] -> None
      | r :: tl ->
        (match r with
         | RRes w -> Some (set_mgr (set_rpipe s tl) (MRes1 w))
         | ROther -> Some (set_rpipe s tl)))
   | _ -> None)
| MDropRes -> (match s.mgr with
               | MRes1 _ -> Some (set_mgr s MIdle)
               | _ -> None)
| MPopPending ->
  (match s.mgr with
   | MRes1 w ->
     if memb s.pending w
     then Some (set_mgr (set_pending s (remove1 s.pending w)) (MRes2 w))
     else Some (set_mgr s MIdle)
   | _ -> None)
| MSetFuture o ->
  (match s.mgr with
   | MRes2 w ->
     (match o with
      | Val ->
        (match fut s w with
         | Some f ->
           (match f with
            | FRunning ->
              Some
                (set_mgr (set_futs s (update s.futs w (FDone o))) (MRes3 w))
            | _ -> None)
         | None -> None)
      | TaskExc ->
        (match fut s w with
         | Some f ->
           (match f with
            | FRunning ->
              Some
                (set_mgr (set_futs s (update s.futs w (FDone o))) (MRes3 w))
            | _ -> None)
         | None -> None)
      | _ -> None)
   | _ -> None)
| MDelRunning ->
  (match s.mgr with
   | MRes3 w -> Some (set_mgr (set_running s (remove1 s.running w)) MIdle)
   | _ -> None)
| MFailAll o ->
  (match s.mgr with
   | MIdle ->
     (match o with
      | Broken -> Some (set_futs s (fail_all s.futs s.pending o))
      | _ -> None)
   | _ -> None)
| MClear -> (match s.mgr with
             | MIdle -> Some (set_pending s [])
             | _ -> None)
| MPopFail o ->
  (match s.mgr with
   | MIdle ->
     (match o with
      | ShutErr ->
        (match rev s.pending with
         | [] -> None
         | w :: _ ->
           Some (set_mgr (set_pending s (remove1 s.pending w)) (MFail w)))
      | _ -> None)
   | _ -> None)
| MFailOne ->
  (match s.mgr with
   | MFail w ->
     (match fut s w with
      | Some f ->
        if terminal f
        then Some (set_mgr s MIdle)
        else Some
               (set_mgr (set_futs s (update s.futs w (FDone ShutErr))) MIdle)
      | None -> None)
   | _ -> None)
| FPop ->
  (match s.fdr with
   | FIdle ->
     (match s.buffer with
      | [] -> None
      | i :: tl -> Some (set_fdr (set_buffer s tl) (FHold i)))
   | _ -> None)
| FSend ->
  (match s.fdr with
   | FHold i -> Some (set_fdr (set_cpipe s (app s.cpipe (i :: []))) FIdle)
   | _ -> None)
| FErrRelease ->
  (match s.fdr with
   | FHold i ->
     (match i with
      | ICall w -> Some (set_fdr (set_slot s (S s.slot)) (FErr1 w))
      | ISent -> None)
   | _ -> None)
| FErrPop ->
  (match s.fdr with
   | FErr1 w ->
     if memb s.pending w
     then Some
            (set_fdr (set_pending s (remove1 s.pending w)) (FErr2 (w, true)))
     else Some (set_fdr s (FErr2 (w, false)))
   | _ -> None)
| FErrRemove ->
  (match s.fdr with
   | FErr2 (w, had) ->
     if memb s.running w
     then Some
            (set_fdr (set_running s (remove1 s.running w)) (FErr3 (w, had)))
     else None
   | _ -> None)
| FErrSet ->
  (match s.fdr with
   | FErr3 (w, had) ->
     if had
     then (match fut s w with
           | Some f ->
             (match f with
              | FRunning ->
                Some
                  (set_fdr (set_futs s (update s.futs w (FDone SendErr)))
                    FIdle)
              | _ -> None)
           | None -> None)
     else Some (set_fdr s FIdle)
   | _ -> None)
| WSpawn p ->
  (match lookup s.wrk p with
   | Some _ -> None
   | None -> Some (set_wrk s (update s.wrk p WIdle)))
| WRecv p ->
  (match wpc_of s p with
   | WIdle ->
     (match s.cpipe with
      | [] -> None
      | i :: tl -> Some (set_wrk (set_cpipe s tl) (update s.wrk p (WGot i))))
   | _ -> None)
| WRelSlot p ->
  (match wpc_of s p with
   | WGot i ->
     Some (set_wrk (set_slot s (S s.slot)) (update s.wrk p (WHold i)))
   | _ -> None)
| WExec p ->
  (match wpc_of s p with
   | WHold i ->
     (match i with
      | ICall w ->
        Some
          (set_wrk (set_executed s (app s.executed (w :: [])))
            (update s.wrk p (WRan w)))
      | ISent -> None)
   | _ -> None)
| WSendRes p ->
  (match wpc_of s p with
   | WRan w ->
     Some
       (set_wrk (set_rpipe s (app s.rpipe ((RRes w) :: [])))
         (update s.wrk p WIdle))
   | _ -> None)
| WSendOther p ->
  (match wpc_of s p with
   | WIdle -> Some (set_rpipe s (app s.rpipe (ROther :: [])))
   | _ -> None)
| WTakeSentinel p ->
  (match wpc_of s p with
   | WHold i ->
     (match i with
      | ICall _ -> None
      | ISent -> Some (set_wrk s (update s.wrk p WIdle)))
   | _ -> None)
| WUnpickleFail p ->
  (match wpc_of s p with
   | WHold i ->
     (match i with
      | ICall _ -> Some (set_wrk s (update s.wrk p WIdle))
      | ISent -> None)
   | _ -> None)
| EKill p ->
  (match lookup s.wrk p with
   | Some w ->
     (match w with
      | WGot _ -> Some (set_wrk s (update s.wrk p (WDead true)))
      | WDead _ -> None
      | _ -> Some (set_wrk s (update s.wrk p (WDead false))))
   | None -> None)

type obs = { o_futs : (wid * fstate) list; o_pending : wid list;
             o_work_ids : wid list; o_running : wid list;
             o_buffer : item list; o_cpipe : item list; o_rpipe : rmsg list;
             o_slot : nat; o_executed : wid list }

(** val observe : state -> obs **)

let observe s =
  { o_futs = s.futs; o_pending = s.pending; o_work_ids = s.work_ids;
    o_running = s.running; o_buffer = s.buffer; o_cpipe = s.cpipe; o_rpipe =
    s.rpipe; o_slot = s.slot; o_executed = s.executed }

type actor =
| AUser of uid
| AMgr
| AFdr
| AWrk of pid

(** val fout_eqb : fout -> fout -> bool **)

let fout_eqb a b =
  match a with
  | Val -> (match b with
            | Val -> true
            | _ -> false)
  | TaskExc -> (match b with
                | TaskExc -> true
                | _ -> false)
  | SendErr -> (match b with
                | SendErr -> true
                | _ -> false)
  | Broken -> (match b with
               | Broken -> true
               | _ -> false)
  | ShutErr -> (match b with
                | ShutErr -> true
                | _ -> false)

(** val fstate_eqb : fstate -> fstate -> bool **)

let fstate_eqb a b =
  match a with
  | FPending -> (match b with
                 | FPending -> true
                 | _ -> false)
  | FRunning -> (match b with
                 | FRunning -> true
                 | _ -> false)
  | FCancelled -> (match b with
                   | FCancelled -> true
                   | _ -> false)
  | FDone x -> (match b with
                | FDone y -> fout_eqb x y
                | _ -> false)

(** val item_eqb : item -> item -> bool **)

let item_eqb a b =
  match a with
  | ICall x -> (match b with
                | ICall y -> Nat.eqb x y
                | ISent -> false)
  | ISent -> (match b with
              | ICall _ -> false
              | ISent -> true)

(** val rmsg_eqb : rmsg -> rmsg -> bool **)

let rmsg_eqb a b =
  match a with
  | RRes x -> (match b with
               | RRes y -> Nat.eqb x y
               | ROther -> false)
  | ROther -> (match b with
               | RRes _ -> false
               | ROther -> true)

(** val leqb : ('a1 -> 'a1 -> bool) -> 'a1 list -> 'a1 list -> bool **)

let rec leqb eqb0 a b =
  match a with
  | [] -> (match b with
           | [] -> true
           | _ :: _ -> false)
  | x :: a' ->
    (match b with
     | [] -> false
     | y :: b' -> (&&) (eqb0 x y) (leqb eqb0 a' b'))

(** val pair_eqb :
    ('a1 -> 'a1 -> bool) -> (nat * 'a1) -> (nat * 'a1) -> bool **)

let pair_eqb eqb0 a b =
  (&&) (Nat.eqb (fst a) (fst b)) (eqb0 (snd a) (snd b))

(** val obs_eqb : obs -> obs -> bool **)

let obs_eqb a b =
  (&&)
    ((&&)
      ((&&)
        ((&&)
          ((&&)
            ((&&)
              ((&&)
                ((&&) (leqb (pair_eqb fstate_eqb) a.o_futs b.o_futs)
                  (leqb Nat.eqb a.o_pending b.o_pending))
                (leqb Nat.eqb a.o_work_ids b.o_work_ids))
              (leqb Nat.eqb a.o_running b.o_running))
            (leqb item_eqb a.o_buffer b.o_buffer))
          (leqb item_eqb a.o_cpipe b.o_cpipe))
        (leqb rmsg_eqb a.o_rpipe b.o_rpipe)) (Nat.eqb a.o_slot b.o_slot))
    (leqb Nat.eqb a.o_executed b.o_executed)

(** val mpc_eqb : mpc -> mpc -> bool **)

let mpc_eqb a b =
  match a with
  | MIdle -> (match b with
              | MIdle -> true
              | _ -> false)
  | MGot x -> (match b with
               | MGot y -> Nat.eqb x y
               | _ -> false)
  | MSkip x -> (match b with
                | MSkip y -> Nat.eqb x y
                | _ -> false)
  | MRun x -> (match b with
               | MRun y -> Nat.eqb x y
               | _ -> false)
  | MPut x -> (match b with
               | MPut y -> item_eqb x y
               | _ -> false)
  | MBuf x -> (match b with
               | MBuf y -> item_eqb x y
               | _ -> false)
  | MRes1 x -> (match b with
                | MRes1 y -> Nat.eqb x y
                | _ -> false)
  | MRes2 x -> (match b with
                | MRes2 y -> Nat.eqb x y
                | _ -> false)
  | MRes3 x -> (match b with
                | MRes3 y -> Nat.eqb x y
                | _ -> false)
  | MFail x -> (match b with
                | MFail y -> Nat.eqb x y
                | _ -> false)

(** val fpc_eqb : fpc -> fpc -> bool **)

let fpc_eqb a b =
  match a with
  | FIdle -> (match b with
              | FIdle -> true
              | _ -> false)
  | FHold x -> (match b with
                | FHold y -> item_eqb x y
                | _ -> false)
  | FErr1 x -> (match b with
                | FErr1 y -> Nat.eqb x y
                | _ -> false)
  | FErr2 (x, h) ->
    (match b with
     | FErr2 (y, h') -> (&&) (Nat.eqb x y) (eqb h h')
     | _ -> false)
  | FErr3 (x, h) ->
    (match b with
     | FErr3 (y, h') -> (&&) (Nat.eqb x y) (eqb h h')
     | _ -> false)

(** val wpc_eqb : wpc -> wpc -> bool **)

let wpc_eqb a b =
  match a with
  | WIdle -> (match b with
              | WIdle -> true
              | _ -> false)
  | WGot x -> (match b with
               | WGot y -> item_eqb x y
               | _ -> false)
  | WHold x -> (match b with
                | WHold y -> item_eqb x y
                | _ -> false)
  | WRan x -> (match b with
               | WRan y -> Nat.eqb x y
               | _ -> false)
  | WDead a0 -> (match b with
                 | WDead b0 -> eqb a0 b0
                 | _ -> false)

(** val upc_eqb : upc -> upc -> bool **)

let upc_eqb a b =
  match a with
  | UIdle -> (match b with
              | UIdle -> true
              | _ -> false)
  | UHalf x -> (match b with
                | UHalf y -> Nat.eqb x y
                | _ -> false)
  | UPut x -> (match b with
               | UPut y -> item_eqb x y
               | _ -> false)
  | UBuf x -> (match b with
               | UBuf y -> item_eqb x y
               | _ -> false)

(** val state_eqb : state -> state -> bool **)

let state_eqb a b =
  (&&)
    ((&&)
      ((&&)
        ((&&)
          ((&&) (obs_eqb (observe a) (observe b)) (Nat.eqb a.next b.next))
          (mpc_eqb a.mgr b.mgr)) (fpc_eqb a.fdr b.fdr))
      (leqb (pair_eqb wpc_eqb) a.wrk b.wrk))
    (leqb (pair_eqb upc_eqb) a.usr b.usr)

(** val actor_labels : state -> actor -> label list **)

let actor_labels s = function
| AUser u ->
  app ((USubmitA u) :: ((USubmitB u) :: ((UPutStart u) :: ((UAcqSlot
    u) :: ((UBufAppend u) :: [])))))
    (map (fun x -> UCancel x) (map fst s.futs))
| AMgr ->
  MTake :: (MSetRunning :: (MDelPending :: (MAddRunning :: (MAcqSlot :: (MBufAppend :: (MPutSentinel :: (MRecv :: (MDropRes :: (MPopPending :: ((MSetFuture
    Val) :: ((MSetFuture TaskExc) :: (MDelRunning :: ((MFailAll
    Broken) :: (MClear :: ((MPopFail
    ShutErr) :: (MFailOne :: []))))))))))))))))
| AFdr ->
  FPop :: (FSend :: (FErrRelease :: (FErrPop :: (FErrRemove :: (FErrSet :: [])))))
| AWrk p ->
  (WSpawn p) :: ((WRecv p) :: ((WRelSlot p) :: ((WExec p) :: ((WSendRes
    p) :: ((WSendOther p) :: ((WTakeSentinel p) :: ((WUnpickleFail
    p) :: [])))))))

(** val succs : state -> actor -> state list **)

let succs s a =
  flat_map (fun l -> match step s l with
                     | Some s' -> s' :: []
                     | None -> []) (actor_labels s a)

(** val add_new : state -> state list -> state list **)

let rec add_new s l = match l with
| [] -> s :: []
| x :: tl -> if state_eqb x s then l else x :: (add_new s tl)

(** val union : state list -> state list -> state list **)

let union a b =
  fold_left (fun acc s -> add_new s acc) b a

(** val explain : nat -> state -> actor -> obs -> state list **)

let rec explain fuel s a o =
  match fuel with
  | O -> []
  | S f ->
    fold_left (fun acc s' ->
      let here = if obs_eqb (observe s') o then s' :: [] else [] in
      union (union acc here) (explain f s' a o)) (succs s a) []

(** val fUEL : nat **)

let fUEL =
  S (S (S (S (S O))))

(** val validate_event : state list -> (actor * obs) -> state list **)

let validate_event cands ev =
  fold_left (fun acc s -> union acc (explain fUEL s (fst ev) (snd ev))) cands
    []

(** val validate :
    state list -> (actor * obs) list -> nat -> nat option * state list **)

let rec validate cands tr i =
  match tr with
  | [] -> (None, cands)
  | ev :: tl ->
    (match validate_event cands ev with
     | [] -> ((Some i), cands)
     | s :: l -> validate (s :: l) tl (S i))
