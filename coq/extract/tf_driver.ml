(* reads traces written by corr/sim (one event per line) and replays them through the extracted
   Coq validator.  Format:
     TRACE <id> <cap>
     <actor> | futs | pending | work_ids | running | buffer | cpipe | rpipe | slot | executed
     END
*)
open Tokenflow
let rec nat_of_int n = if n <= 0 then O else S (nat_of_int (n - 1))
let split c s = if s = "" then [] else String.split_on_char c s
let nats s = List.map (fun x -> nat_of_int (int_of_string x)) (split ',' s)
let fst_of = function
  | "p" -> FPending | "r" -> FRunning | "c" -> FCancelled | "v" -> FDone Val | "x" -> FDone TaskExc
  | "e" -> FDone SendErr | "b" -> FDone Broken | "h" -> FDone ShutErr | s -> failwith ("fstate " ^ s)
let futs s = List.map (fun x -> match String.split_on_char ':' x with
  | [w; st] -> (nat_of_int (int_of_string w), fst_of st) | _ -> failwith "fut") (split ',' s)
let item x = if x = "s" then ISent else ICall (nat_of_int (int_of_string (String.sub x 1 (String.length x - 1))))
let items s = List.map item (split ',' s)
let rmsgs s = List.map (fun x -> if x = "o" then ROther else RRes (nat_of_int (int_of_string (String.sub x 1 (String.length x - 1))))) (split ',' s)
let actor s = match s.[0] with
  | 'U' -> AUser (nat_of_int (int_of_string (String.sub s 1 (String.length s - 1))))
  | 'M' -> AMgr | 'F' -> AFdr
  | 'W' -> AWrk (nat_of_int (int_of_string (String.sub s 1 (String.length s - 1))))
  | _ -> failwith "actor"
let parse line =
  match List.map String.trim (String.split_on_char '|' line) with
  | [a; f; p; w; r; b; c; q; s; e] ->
    (actor a, { o_futs = futs f; o_pending = nats p; o_work_ids = nats w; o_running = nats r;
                o_buffer = items b; o_cpipe = items c; o_rpipe = rmsgs q;
                o_slot = nat_of_int (int_of_string s); o_executed = nats e })
  | _ -> failwith ("bad line: " ^ line)
let rec int_of_nat = function O -> 0 | S n -> 1 + int_of_nat n
let () =
  let ic = open_in Sys.argv.(1) in
  let cur = ref None and evs = ref [] in
  (try while true do
    let line = input_line ic in
    if String.length line >= 5 && String.sub line 0 5 = "TRACE" then begin
      (match String.split_on_char ' ' line with
       | [_; id; cap] -> cur := Some (id, int_of_string cap); evs := []
       | _ -> failwith "TRACE line")
    end else if line = "END" then begin
      (match !cur with
       | Some (id, cap) ->
         let tr = List.rev !evs in
         let (bad, cands) = validate [init (nat_of_int cap)] tr O in
         (match bad with
          | None -> Printf.printf "OK %s %d %d\n" id (List.length tr) (List.length cands)
          | Some i -> Printf.printf "FAIL %s %d\n" id (int_of_nat i))
       | None -> ());
      cur := None
    end else if line <> "" then evs := parse line :: !evs
  done with End_of_file -> ());
  close_in ic
