From Coq Require Import List Arith Bool.
From LokyV Require Import Lib.FlowLib Lib.PoolLib Gen.Pool Gen.Flow Model.TokenFlow Model.FlowTie Proofs.TokenFlowInv.
Import ListNotations.

(* ---- 1. every step of the token-flow model moves the acting thread along an edge of its automaton ---- *)
Definition conforms (s : state) (l : label) (s' : state) : Prop :=
  match acts s l with
  | (AMgr, k) => In (mshape (mgr s), k, mshape (mgr s')) mgr_edges /\ fdr s' = fdr s /\ usr s' = usr s
  | (AFdr, k) => In (fshape (fdr s), k, fshape (fdr s')) fdr_edges /\ mgr s' = mgr s /\ usr s' = usr s
  | (AUsr u, k) => In (ushape (upc_of s u), k, ushape (upc_of s' u)) usr_edges /\ mgr s' = mgr s /\ fdr s' = fdr s
                   /\ forall v, v <> u -> upc_of s' v = upc_of s v
  | (AOther, _) => mgr s' = mgr s /\ fdr s' = fdr s /\ usr s' = usr s
  end.

Ltac crack H :=
  repeat match type of H with
         | match ?x with _ => _ end = Some _ => let E := fresh "E" in destruct x eqn:E; try discriminate H
         | (if ?x then _ else _) = Some _ => let E := fresh "E" in destruct x eqn:E; try discriminate H
         end;
  try (injection H as <-).

Lemma upc_of_update_same s u c f : upc_of (set_usr f (update (usr s) u c)) u = c.
Proof. unfold upc_of, set_usr; simpl. rewrite lookup_update_same. reflexivity. Qed.
Lemma upc_of_update_other s u v c f : v <> u -> upc_of (set_usr f (update (usr s) u c)) v = upc_of s v.
Proof. intros N. unfold upc_of, set_usr; simpl. rewrite lookup_update_other by exact N. reflexivity. Qed.

Theorem step_conforms s l s' : step s l = Some s' -> conforms s l s'.
Proof.
  intros H. destruct l; unfold conforms, acts; unfold step in H.
  (* user threads *)
  1,2,4,5,6: crack H; rewrite upc_of_update_same;
    (split; [simpl; tauto |
             split; [reflexivity | split; [reflexivity | intros v N; apply upc_of_update_other; exact N]]]).
  (* everything else: one program counter, read off the record *)
  all: crack H; simpl;
    repeat match goal with E : mgr _ = _ |- _ => rewrite E; clear E end;
    repeat match goal with E : fdr _ = _ |- _ => rewrite E; clear E end;
    simpl; try (repeat split; try reflexivity; tauto).
  all: try (match goal with i : item |- _ => destruct i end; simpl; repeat split; try reflexivity; tauto).
  all: try (match goal with b : bool |- _ => destruct b end; simpl; repeat split; try reflexivity; tauto).
Qed.

(* ---- 2. the cycles of the automata are the mutation paths of the source ---- *)
(* add_call_item_to_queue: id taken, set_running_or_notify_cancel, then either (running list, slot, buffer) or (del pending) *)
Lemma add_call_item_order : same_paths (paths add_call_item_prog) (starting_with (EK KTakeId) true mgr_cycles) = true.
Proof. vm_compute. reflexivity. Qed.
(* process_result_item: the item leaves the table BEFORE its future is resolved, the running list last; a message that is not
   a _ResultItem (the pid of a worker leaving) touches none of these structures *)
Lemma process_result_order : same_paths (paths process_result_prog ++ [[]]) (starting_with ERecv false mgr_cycles) = true.
Proof. vm_compute. reflexivity. Qed.
(* the feeder: pop, send -- or, for an item that cannot be sent: slot given back, item out of the table, out of the running list,
   future failed if the item was still in the table *)
Lemma feeder_order :
  same_paths (paths feed_send_loop ++ map (cons KPopBuffer) (paths (inline_hook feed_error_tail feeder_error_prog)))
             (starting_with (EK KPopBuffer) true fdr_cycles) = true.
Proof. vm_compute. reflexivity. Qed.
(* forced shutdown: popitem, then the future is failed *)
Lemma forced_fail_order : same_paths (paths forced_fail_body) (starting_with (EK KPopItem) true mgr_cycles) = true.
Proof. vm_compute. reflexivity. Qed.
(* submit(): the job enters the table before its id is published *)
Lemma submit_order : In (submit_publication submit_prog) usr_cycles.
Proof. vm_compute. left. reflexivity. Qed.

(* the fuel of the cycle search is enough: no walk of the three automata is cut short *)
Lemma fuel_is_enough :
  cycles msh_eqb mgr_edges HIdle 8 = cycles msh_eqb mgr_edges HIdle 12 /\
  cycles fsh_eqb fdr_edges GIdle 8 = cycles fsh_eqb fdr_edges GIdle 12 /\
  cycles ush_eqb usr_edges VIdle 8 = cycles ush_eqb usr_edges VIdle 12.
Proof. vm_compute. repeat split; reflexivity. Qed.

(* non-vacuity: the steps of a concrete run conform (the run of Props/C03.v: C03_example) *)
Example conforms_somewhere :
  match step (init 3) (USubmitA 0) with
  | Some s1 => conforms (init 3) (USubmitA 0) s1 /\ match step s1 (USubmitB 0) with Some s2 => step s2 MTake <> None | None => False end
  | None => False end.
Proof. split; [apply step_conforms; reflexivity | vm_compute; discriminate]. Qed.
