(* C11 assembled: generated code = spec (Char) ; spec refines the count machine (Refine) ;
   sweep characterisation (Sweep) ; laws of the machine (Law). *)
From Coq Require Import List String Ascii ZArith Bool Lia.
From LokyV Require Import Lib.PyLib Lib.StmTac Lib.DictFacts Gen.Tracker Spec.TrackerSpec
     Char.TrackerChar Model.TrackerAbs Proofs.TrackerRefine Proofs.TrackerSweep Proofs.TrackerLaw.
Import ListNotations.
Open Scope string_scope.

Lemma cleanup_keys_NoDup : NoDup cleanup_keys.
Proof.
  unfold cleanup_keys.
  repeat (constructor; [cbn; intuition discriminate|]). constructor.
Qed.

Definition requests (lines : list string) : list req := map (classify cleanup_keys) lines.

(* What the generated tracker main loop does on ANY byte stream (given as its readline()
   decomposition), for ANY behaviour of the cleanup functions: signal prologue, then exactly
   the outputs of the count machine on the parsed requests, then the sweep of whatever is
   still counted. *)
Lemma tracker_end_to_end (O : oracle) (lines : list string) (verbose : bool) :
  exists reg,
    tracker_main O lines verbose [] =
      (Norm, prologue ++ map out_eff (List.concat (fst (arun zero (requests lines))))
             ++ nonfolder reg ++ folderpart reg)%list
    /\ (forall k, count_of reg k = snd (arun zero (requests lines)) k)
    /\ (forall t n, In (ECall t [n]) (nonfolder reg ++ folderpart reg)
                    <-> 0 < snd (arun zero (requests lines)) (t, n))
    /\ NoDup (nonfolder reg ++ folderpart reg)
    /\ Forall (fun e => exists t n, e = ECall t [n] /\ t <> "folder") (nonfolder reg)
    /\ Forall (fun e => exists n, e = ECall "folder" [n]) (folderpart reg).
Proof.
  rewrite tracker_main_char. unfold main_spec. cbn [app].
  pose proof (Inv_init cleanup_keys cleanup_keys_NoDup) as HI0.
  destruct (run_refines cleanup_keys lines (init_registry cleanup_keys) prologue HI0)
    as (reg & E & HI & Hc).
  destruct (arun_ext (map (classify cleanup_keys) lines) _ _ (count_init cleanup_keys)) as [Hos Hcf].
  rewrite Hos in E. exists reg. rewrite E. cbn [fst snd].
  rewrite (sweep_eq cleanup_keys reg _ HI), <- app_assoc.
  split; [reflexivity|]. split; [intros k; rewrite Hc; apply Hcf|]. split.
  - intros t n. rewrite (sweep_members cleanup_keys reg t n HI), Hc, Hcf. reflexivity.
  - split; [apply (sweep_NoDup cleanup_keys reg HI)|]. apply sweep_folders_last.
Qed.

(* THE LAW on the count machine, for every request sequence and every position. *)
Lemma refcount_law (rs : list req) (i : nat) (r : req) (k : key) :
  nth_error rs i = Some r ->
  (In (Cleanup k) (nth i (fst (arun zero rs)) []) <-> r = Maybe k /\ count_before zero rs i k = 1).
Proof.
  intros H. pose proof (arun_nth zero rs i r H) as Hn.
  rewrite (nth_error_nth _ _ _ Hn). apply astep_cleanup_iff.
Qed.

Lemma cleanup_at_most_once_per_request (rs : list req) (i : nat) :
  List.length (filter (fun o => match o with Cleanup _ => true | _ => false end)
                      (nth i (fst (arun zero rs)) [])) <= 1.
Proof.
  destruct (nth_error rs i) as [r|] eqn:E.
  - rewrite (nth_error_nth _ _ _ (arun_nth zero rs i r E)). apply astep_cleanup_once.
  - rewrite nth_overflow; [cbn; lia|]. rewrite arun_length. apply nth_error_None. exact E.
Qed.
