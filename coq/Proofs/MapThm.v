(* C03, map(): the generated instance of Lib/MapLib.v computes the builtin map, for every function, list and chunksize. *)
From Coq Require Import List Arith Bool Lia.
From LokyV Require Import Lib.MapLib Gen.MapPath.
Import ListNotations.

Section P.
Context {A B : Type}.

Lemma get_chunks_concat : forall fuel sz (l : list A), 0 < sz -> length l < fuel -> concat (get_chunks fuel sz l) = l.
Proof.
  induction fuel as [|fuel IH]; intros sz l Hs Hl; [lia|].
  cbn [get_chunks]. destruct (firstn sz l) as [|x c] eqn:E.
  - destruct l as [|a l]; [reflexivity|]. destruct sz; [lia|]. simpl in E. discriminate.
  - cbn [concat]. rewrite IH; [rewrite <- E; apply firstn_skipn | exact Hs |].
    rewrite skipn_length. assert (length l <> 0) by (destruct l; [destruct sz; simpl in E; discriminate | simpl; lia]). lia.
Qed.

Lemma get_chunks_sizes : forall fuel sz (l : list A), 0 < sz -> Forall (fun c => 0 < length c <= sz) (get_chunks fuel sz l).
Proof.
  induction fuel as [|fuel IH]; intros sz l Hs; cbn [get_chunks]; [constructor|].
  destruct (firstn sz l) as [|x c] eqn:E; [constructor|]. constructor; [|apply IH, Hs].
  rewrite <- E. rewrite firstn_length. assert (length (firstn sz l) <> 0) by (rewrite E; simpl; lia). rewrite firstn_length in H. lia.
Qed.

Lemma drain_generated (l : list B) : drain chain_element_ops l = l.
Proof. unfold chain_element_ops. simpl. apply rev_involutive. Qed.

Lemma chain_generated (ls : list (list B)) : chain chain_element_ops ls = concat ls.
Proof. unfold chain. induction ls as [|l ls IH]; cbn [flat_map concat]; [reflexivity|]. rewrite drain_generated, IH. reflexivity. Qed.

(* ProcessPoolExecutor.map == builtin map, whatever the chunksize (>= 1), provided Executor.map yields the chunk results in
   submission order (CPython's concurrent.futures.Executor.map) *)
Theorem pool_map_is_map (f : A -> B) (n : nat) (l : list A) :
  pool_map chunksize_guard chunk_slice_size chain_element_ops f n l = if Nat.ltb n 1 then None else Some (map f l).
Proof.
  unfold pool_map, chunksize_guard, chunk_slice_size, size_of. destruct (Nat.ltb n 1) eqn:E; [reflexivity|].
  apply Nat.ltb_ge in E. f_equal. rewrite chain_generated. unfold process_chunk. rewrite <- concat_map.
  rewrite get_chunks_concat; [reflexivity | lia | lia].
Qed.

Theorem chunks_are_full_sized (n : nat) (l : list A) :
  0 < n -> Forall (fun c => 0 < length c <= n) (get_chunks (S (length l)) (size_of chunk_slice_size n) l).
Proof. intros H. apply get_chunks_sizes. exact H. Qed.
End P.

Example map_example :
  pool_map chunksize_guard chunk_slice_size chain_element_ops (fun x => x * x) 3 [1; 2; 3; 4; 5; 6; 7] = Some [1; 4; 9; 16; 25; 36; 49]
  /\ get_chunks 8 3 [1; 2; 3; 4; 5; 6; 7] = [[1; 2; 3]; [4; 5; 6]; [7]]
  /\ pool_map chunksize_guard chunk_slice_size chain_element_ops (fun x : nat => x) 0 [1] = None.
Proof. vm_compute. auto. Qed.
