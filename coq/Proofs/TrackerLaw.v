(* Laws of the abstract count machine (Model/TrackerAbs.v). *)
From Coq Require Import List String Ascii ZArith Bool Lia.
From LokyV Require Import Lib.PyLib Model.TrackerAbs.
Import ListNotations.

Lemma key_eqb_refl k : key_eqb k k = true.
Proof. unfold key_eqb. rewrite !String.eqb_refl. reflexivity. Qed.
Lemma key_eqb_eq a b : key_eqb a b = true <-> a = b.
Proof.
  destruct a as [a1 a2], b as [b1 b2]. unfold key_eqb; cbn.
  rewrite andb_true_iff, !String.eqb_eq. split; [intros [-> ->]; auto|intros H; inversion H; auto].
Qed.

(* outputs of request i, as a function of the requests before it *)
Lemma arun_nth c rs : forall i r, nth_error rs i = Some r ->
  nth_error (fst (arun c rs)) i = Some (snd (astep (count_before c rs i) r)).
Proof.
  revert c. induction rs as [|r0 rs IH]; intros c i r H; [destruct i; discriminate|].
  cbn [arun]. destruct (astep c r0) as [c1 o1] eqn:E1.
  destruct (arun c1 rs) as [os cf] eqn:E2. cbn [fst].
  destruct i as [|i]; cbn in *.
  - inversion H; subst. rewrite E1. reflexivity.
  - rewrite E1. cbn [fst]. specialize (IH c1 i r H). rewrite E2 in IH. exact IH.
Qed.
Lemma arun_length c rs : List.length (fst (arun c rs)) = List.length rs.
Proof.
  revert c. induction rs as [|r rs IH]; intros c; cbn [arun]; [reflexivity|].
  destruct (astep c r) as [c1 o1]. specialize (IH c1). destruct (arun c1 rs). cbn in *. lia.
Qed.

(* THE LAW: a cleanup of k is emitted by a request iff that request is a MAYBE_UNLINK of k
   arriving when the count of k is exactly 1; it is then emitted exactly once. *)
Lemma astep_cleanup_iff c r k :
  In (Cleanup k) (snd (astep c r)) <-> r = Maybe k /\ c k = 1.
Proof.
  destruct r as [|k0|k0|k0|]; cbn.
  - split; [intros []|intros [H _]; discriminate].
  - split; [intros []|intros [H _]; discriminate].
  - destruct (c k0); cbn; (split; [intros H|intros [H _]; discriminate]).
    + destruct H as [H|[]]; discriminate.
    + destruct H.
  - destruct (c k0) as [|[|m]] eqn:E; cbn.
    + split; [intros [H|[]]; discriminate|intros [H1 H2]; inversion H1; subst; lia].
    + split; [intros [H|[]]; inversion H; subst; auto|intros [H1 H2]; inversion H1; auto].
    + split; [intros []|intros [H1 H2]; inversion H1; subst; lia].
  - split; [intros [H|[]]; discriminate|intros [H _]; discriminate].
Qed.
Lemma astep_cleanup_once c r : List.length (filter (fun o => match o with Cleanup _ => true | _ => false end)
                                               (snd (astep c r))) <= 1.
Proof.
  destruct r as [|k|k|k|]; cbn; auto.
  - destruct (c k); cbn; auto.
  - destruct (c k) as [|[|m]]; cbn; auto.
Qed.

(* frame: ill-formed requests and requests on a name whose count is zero report an error
   and leave every count unchanged *)
Lemma astep_frame c r :
  (r = Bad \/ (exists k, (r = Unreg k \/ r = Maybe k) /\ c k = 0)) ->
  astep c r = (c, [Report]).
Proof.
  intros [->|[k [[->| ->] H]]]; cbn; try rewrite H; reflexivity.
Qed.
(* a request touches no count but that of its own key *)
Lemma astep_other c r k :
  (forall k0, (r = Reg k0 \/ r = Unreg k0 \/ r = Maybe k0) -> k0 <> k) ->
  fst (astep c r) k = c k.
Proof.
  intros H. destruct r as [|k0|k0|k0|]; cbn; auto.
  - unfold upd. destruct (key_eqb k k0) eqn:E; auto. apply key_eqb_eq in E. subst.
    exfalso; eapply H; eauto.
  - destruct (c k0); cbn; auto. unfold upd. destruct (key_eqb k k0) eqn:E; auto.
    apply key_eqb_eq in E. subst. exfalso; eapply H; eauto.
  - destruct (c k0) as [|[|m]]; cbn; auto; unfold upd; destruct (key_eqb k k0) eqn:E; auto;
      apply key_eqb_eq in E; subst; exfalso; eapply H; eauto.
Qed.
(* the count is registrations minus maybe_unlinks since the last unregister *)
Lemma astep_count c r k :
  fst (astep c r) k =
  match r with
  | Reg k0 => if key_eqb k k0 then S (c k) else c k
  | Unreg k0 => if key_eqb k k0 then 0 else c k
  | Maybe k0 => if key_eqb k k0 then pred (c k) else c k
  | _ => c k
  end.
Proof.
  destruct r as [|k0|k0|k0|]; cbn; auto.
  - unfold upd. destruct (key_eqb k k0) eqn:E; auto. apply key_eqb_eq in E; subst; auto.
  - destruct (c k0) eqn:E0; cbn; unfold upd; destruct (key_eqb k k0) eqn:E; auto.
    apply key_eqb_eq in E; subst; auto.
  - destruct (c k0) as [|[|m]] eqn:E0; cbn; unfold upd; destruct (key_eqb k k0) eqn:E; auto;
      apply key_eqb_eq in E; subst; rewrite E0; auto.
Qed.
