(* C15: customisation is scoped -- creating picklers with arbitrary reducers never changes a global table. *)
From Coq Require Import List Arith Bool String Lia.
From LokyV Require Import Lib.PyLib Lib.TblLib Gen.Reduction.
Import ListNotations.

Lemma hget_hset_same H r t : hget (hset H r t) r = t.
Proof. induction H as [|[r' t'] H IH]; cbn; [rewrite Nat.eqb_refl; auto|]. destruct (Nat.eqb r r') eqn:E; cbn; rewrite E; auto. Qed.
Lemma hget_hset_other H r r' t : r' <> r -> hget (hset H r t) r' = hget H r'.
Proof.
  intros Hne. induction H as [|[r0 t0] H IH]; cbn.
  - destruct (Nat.eqb_spec r' r); [contradiction|reflexivity].
  - destruct (Nat.eqb_spec r r0); cbn.
    + subst. destruct (Nat.eqb_spec r' r0); [contradiction|reflexivity].
    + destruct (Nat.eqb r' r0); auto.
Qed.
Definition allocated (H : heap) (r : ref) : Prop := In r (map fst H).
Lemma fresh_above H r : allocated H r -> r < fresh H.
Proof.
  unfold allocated. induction H as [|[r' t] H IH]; cbn [map fst In fresh]; [tauto|]. intros [E|Hin]; [subst; lia|]. specialize (IH Hin). lia.
Qed.
Lemma allocated_hset H r t r' : allocated H r' -> allocated (hset H r t) r'.
Proof.
  unfold allocated. induction H as [|[r0 t0] H IH]; cbn; [tauto|].
  destruct (Nat.eqb r r0); cbn; intros [->|Hin]; auto.
Qed.
Lemma tget_app (a b : tbl) k : tget (a ++ b)%list k = match tget a k with Some v => Some v | None => tget b k end.
Proof. induction a as [|[k' v] a IH]; cbn; [reflexivity|]. destruct (Nat.eqb k k'); auto. Qed.

(* registering reducers one by one into table r *)
Definition stores (R : tbl) (t : tbl) : tbl := fold_left (fun t kv => tset t (fst kv) (snd kv)) R t.
Lemma fold_store_get R : forall H r,
  hget (fold_left (fun h kv => store h r (fst kv) (snd kv)) R H) r = stores R (hget H r)
  /\ (forall r', r' <> r -> hget (fold_left (fun h kv => store h r (fst kv) (snd kv)) R H) r' = hget H r')
  /\ (forall r', allocated H r' -> allocated (fold_left (fun h kv => store h r (fst kv) (snd kv)) R H) r').
Proof.
  induction R as [|[k v] R IH]; intros H r; cbn [fold_left stores]; [auto|].
  destruct (IH (store H r k v) r) as (I1 & I2 & I3). unfold store in *. cbn [fst snd] in *.
  rewrite I1, hget_hset_same. split; [reflexivity|]. split.
  - intros r' Hne. rewrite I2 by assumption. apply hget_hset_other. assumption.
  - intros r' Ha. apply I3. apply allocated_hset. assumption.
Qed.
Lemma tget_stores R : forall t k,
  tget (stores R t) k = match tget (rev R) k with Some v => Some v | None => tget t k end.
Proof.
  induction R as [|[k' v'] R IH]; intros t k; cbn [stores fold_left rev]; [reflexivity|].
  fold (stores R (tset t k' v')). rewrite IH. rewrite tget_app. cbn.
  destruct (tget (rev R) k); [reflexivity|]. destruct (Nat.eqb k k'); reflexivity.
Qed.

(* one pickler creation: the new table is a fresh object; every allocated table -- copyreg's, the pickler
   class's, loky's own, other picklers' -- keeps its content; the new pickler sees class ⊕ loky ⊕ reducers *)
Theorem pickler_init_scoped H cls copyreg loky R H' r :
  allocated H copyreg -> allocated H loky -> (forall c, cls = Some c -> allocated H c) ->
  gen_pickler_init H cls copyreg loky R = (H', r) ->
  ~ allocated H r
  /\ (forall r', allocated H r' -> hget H' r' = hget H r' /\ allocated H' r')
  /\ (forall k, tget (hget H' r) k =
                match tget (rev R) k with
                | Some v => Some v
                | None => match tget (hget H loky) k with
                          | Some v => Some v
                          | None => tget (hget H (match cls with Some c => c | None => copyreg end)) k
                          end
                end).
Proof.
  intros Hc Hl Hcls. unfold gen_pickler_init.
  set (base := match cls with Some c => c | None => copyreg end).
  assert (Hb : allocated H base) by (unfold base; destruct cls; auto).
  assert (E : match cls with Some c => copy_tbl H c | None => copy_tbl H copyreg end = copy_tbl H base)
    by (unfold base; destruct cls; reflexivity).
  rewrite E. unfold copy_tbl. set (r0 := fresh H). intros Hi. inversion Hi; subst H' r. clear Hi.
  assert (Hfresh : ~ allocated H r0) by (intros Ha; apply fresh_above in Ha; unfold r0 in Ha; lia).
  assert (Hne : forall r', allocated H r' -> r' <> r0) by (intros r' Ha ->; auto).
  set (H1 := hset H r0 (hget H base)).
  set (H2 := update_from H1 r0 loky).
  destruct (fold_store_get R H2 r0) as (F1 & F2 & F3).
  split; [exact Hfresh|]. split.
  - intros r' Ha. split.
    + rewrite F2 by auto. unfold H2, update_from. rewrite hget_hset_other by auto.
      unfold H1. apply hget_hset_other. auto.
    + apply F3. unfold H2, update_from. apply allocated_hset. unfold H1. apply allocated_hset. assumption.
  - intros k. rewrite F1, tget_stores. destruct (tget (rev R) k); [reflexivity|].
    unfold H2, update_from. rewrite hget_hset_same, tget_app.
    unfold H1. rewrite hget_hset_other by auto. rewrite hget_hset_same. reflexivity.
Qed.

(* any sequence of pickler creations (executors, queues, dumps calls) with arbitrary reducer maps *)
Fixpoint create_all (H : heap) (cls : option ref) (copyreg loky : ref) (Rs : list tbl) : heap :=
  match Rs with
  | [] => H
  | R :: tl => create_all (fst (gen_pickler_init H cls copyreg loky R)) cls copyreg loky tl
  end.
Theorem noninterference Rs : forall H cls copyreg loky,
  allocated H copyreg -> allocated H loky -> (forall c, cls = Some c -> allocated H c) ->
  forall r', allocated H r' -> hget (create_all H cls copyreg loky Rs) r' = hget H r'.
Proof.
  induction Rs as [|R Rs IH]; intros H cls copyreg loky Hc Hl Hcls r' Ha; cbn [create_all]; [reflexivity|].
  destruct (gen_pickler_init H cls copyreg loky R) as [H1 r] eqn:E. cbn [fst].
  destruct (pickler_init_scoped _ _ _ _ _ _ _ Hc Hl Hcls E) as (_ & Hk & _).
  rewrite IH.
  - apply Hk. assumption.
  - apply Hk. assumption.
  - apply Hk. assumption.
  - intros c Hc'. apply Hk. auto.
  - apply Hk. assumption.
Qed.
(* a pickler created after any such history, with reducers R', sees class ⊕ loky ⊕ R' and nothing else *)
Corollary later_pickler_view Rs H cls copyreg loky R' H' r :
  allocated H copyreg -> allocated H loky -> (forall c, cls = Some c -> allocated H c) ->
  gen_pickler_init (create_all H cls copyreg loky Rs) cls copyreg loky R' = (H', r) ->
  forall k, tget (hget H' r) k =
            match tget (rev R') k with
            | Some v => Some v
            | None => match tget (hget H loky) k with
                      | Some v => Some v
                      | None => tget (hget H (match cls with Some c => c | None => copyreg end)) k
                      end
            end.
Proof.
  intros Hc Hl Hcls E k.
  assert (Hall : forall r', allocated H r' -> allocated (create_all H cls copyreg loky Rs) r').
  { clear E. revert H Hc Hl Hcls. induction Rs as [|R Rs IH]; intros H Hc Hl Hcls r' Ha; cbn [create_all]; [assumption|].
    destruct (gen_pickler_init H cls copyreg loky R) as [H1 r1] eqn:E1. cbn [fst].
    destruct (pickler_init_scoped _ _ _ _ _ _ _ Hc Hl Hcls E1) as (_ & Hk & _).
    apply IH; [apply Hk; assumption|apply Hk; assumption|intros c Hc'; apply Hk; auto|apply Hk; assumption]. }
  destruct (pickler_init_scoped _ _ _ _ _ _ _ (Hall _ Hc) (Hall _ Hl) (fun c e => Hall _ (Hcls c e)) E) as (_ & _ & Hv).
  rewrite Hv. rewrite !(noninterference Rs H cls copyreg loky Hc Hl Hcls); auto.
  destruct cls; auto.
Qed.

(* built-in reducers *)
Theorem partial_roundtrip {F A K} (p : F * list A * list K) : gen_rebuild_partial (gen_reduce_partial p) = p.
Proof. destruct p as [[f a] k]. cbn. destruct k; reflexivity. Qed.
Theorem normalize_name_spec arg env :
  gen_normalize_name arg env =
  match arg with
  | None => if String.eqb env "" then "cloudpickle"%string else env
  | Some a => if String.eqb a "" then "cloudpickle"%string else a
  end.
Proof. destruct arg; reflexivity. Qed.
Theorem structure_facts :
  queues_use_their_own_reducers = true /\ result_reducers_default_to_job_reducers = true
  /\ call_queue_gets_job_reducers_result_queue_gets_result_reducers = true
  /\ call_item_records_and_restores_pickler_name = true.
Proof. repeat split; reflexivity. Qed.

(* ---- how a queue (and the reducers it was created with) reaches a worker: __getstate__ ships a tuple of attributes, __setstate__
   installs them; attribute lists generated from loky/backend/queues.py ---- *)
Section QueueState.
  Variable V : Type.
  Definition qobj := string -> option V.
  Definition ship (fs : list string) (o : qobj) : list (option V) := map o fs.
  Fixpoint install (fs : list string) (vs : list (option V)) (o : qobj) : qobj :=
    match fs, vs with
    | f :: fs', v :: vs' => install fs' vs' (fun x => if String.eqb x f then v else o x)
    | _, _ => o
    end.
  Lemma install_other fs : forall vs o f, ~ In f fs -> install fs vs o f = o f.
  Proof.
    induction fs as [|g fs IH]; intros vs o f N; [reflexivity|]. destruct vs as [|v vs]; [reflexivity|]. simpl.
    rewrite IH by (intros X; apply N; right; exact X).
    destruct (String.eqb f g) eqn:E; [|reflexivity]. apply String.eqb_eq in E. exfalso. apply N. left. symmetry. exact E.
  Qed.
  Lemma state_round_trip fs : NoDup fs -> forall o o0 f, In f fs -> install fs (ship fs o) o0 f = o f.
  Proof.
    induction 1 as [|g fs Ng _ IH]; intros o o0 f I; [destruct I|]. simpl. destruct I as [E|I].
    - subst g. rewrite install_other by exact Ng. rewrite String.eqb_refl. reflexivity.
    - apply IH. exact I.
  Qed.
End QueueState.

Fixpoint nodupb (l : list string) : bool :=
  match l with [] => true | x :: r => negb (existsb (String.eqb x) r) && nodupb r end.
Lemma nodupb_sound l : nodupb l = true -> NoDup l.
Proof.
  induction l as [|x r IH]; intros H; [constructor|]. simpl in H. apply andb_prop in H as [A B]. constructor; [|apply IH, B].
  intros I. apply negb_true_iff in A. assert (X : existsb (String.eqb x) r = true) by (apply existsb_exists; exists x; split; [exact I | apply String.eqb_refl]).
  congruence.
Qed.

(* every attribute a queue ships arrives in the worker's copy unchanged (Queue = call queue, SimpleQueue = result queue); the result
   queue -- the one a worker WRITES to -- ships its reducers.  (The call queue is only read in the worker: whether it ships its reducers
   is immaterial, and not claimed.) *)
Theorem reducers_travel_with_the_queue (V : Type) :
  queue_state_installed = queue_state_shipped /\ simple_queue_state_installed = simple_queue_state_shipped
  /\ In "_reducers" simple_queue_state_shipped
  /\ (forall (o o0 : qobj V) f, In f queue_state_shipped -> install V queue_state_installed (ship V queue_state_shipped o) o0 f = o f)
  /\ (forall (o o0 : qobj V) f, In f simple_queue_state_shipped -> install V simple_queue_state_installed (ship V simple_queue_state_shipped o) o0 f = o f).
Proof.
  assert (E1 : queue_state_installed = queue_state_shipped) by reflexivity.
  assert (E2 : simple_queue_state_installed = simple_queue_state_shipped) by reflexivity.
  split; [exact E1|]. split; [exact E2|].
  split; [vm_compute; tauto|]. split.
  - intros o o0 f I. rewrite E1. apply state_round_trip; [apply nodupb_sound; vm_compute; reflexivity | exact I].
  - intros o o0 f I. rewrite E2. apply state_round_trip; [apply nodupb_sound; vm_compute; reflexivity | exact I].
Qed.
