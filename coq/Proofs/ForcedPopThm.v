From Coq Require Import List Arith Bool Lia.
From LokyV Require Import Model.ForcedPop.
Import ListNotations.

Definition Inv (n : nat) (s : fpst) : Prop :=
  items s + failed_by_manager s + taken_by_feeder s = n /\ fphase s <> LoopCrashed /\ (fphase s = LoopDone -> items s = 0).

Lemma step_inv n s e : Inv n s -> Inv n (step true s e).
Proof.
  intros (A & B & C). destruct s as [i f t p]. unfold Inv in *; simpl in *.
  destruct e, p, i; simpl in *; try contradiction;
    repeat split; try lia; try discriminate; try assumption;
    try (intros D; try discriminate D; specialize (C D); lia).
Qed.

(* whatever the feeder takes out of the table, and whenever: the guarded loop never dies of KeyError; every item is accounted for
   (failed by the manager or taken by the feeder, which fails it itself); when the loop has ended the table is empty *)
Lemma inv_start n : Inv n (fstart n).
Proof. unfold Inv, fstart; simpl. repeat split; try lia; discriminate. Qed.
Lemma run_inv n es : forall s, Inv n s -> Inv n (run true es s).
Proof. unfold run. induction es as [|e es IH]; intros s I; simpl; [exact I|]. apply IH, step_inv, I. Qed.

Theorem forced_loop_survives_the_feeder n es :
  let s := run true es (fstart n) in
  fphase s <> LoopCrashed /\ items s + failed_by_manager s + taken_by_feeder s = n /\ (fphase s = LoopDone -> items s = 0).
Proof. intros s. destruct (run_inv n es _ (inv_start n)) as (A & B & C). repeat split; assumption. Qed.

(* H20: without the guard the feeder taking the last item between the test and popitem() kills the manager thread *)
Example h20_keyerror :
  fphase (run false [MgrStep; FeederPops; MgrStep] (fstart 1)) = LoopCrashed.
Proof. vm_compute. reflexivity. Qed.
Example h20_same_history_guarded :
  let s := run true [MgrStep; FeederPops; MgrStep] (fstart 1) in fphase s = LoopDone /\ taken_by_feeder s = 1.
Proof. vm_compute. split; reflexivity. Qed.
