From Coq Require Import List Arith Bool Lia.
From LokyV Require Import Model.WakePipe.
Import ListNotations.

(* with a wakeup() that writes only when nothing is pending, at most one message is ever in the pipe: no writer blocks, hence the
   lock is always given back and the manager always gets it *)
Definition Inv (s : wp) : Prop :=
  msgs s <= 1 /\ wr s <> WBlocked /\ (lock s = ByWriter <-> wr s = WIn) /\ lock s <> ByManager.

Lemma inv0 : Inv wp0. Proof. unfold Inv, wp0; simpl. repeat split; try lia; try discriminate; intros H; discriminate. Qed.

Lemma step_inv cap s e : 2 <= cap -> Inv s -> Inv (step true cap s e).
Proof.
  intros C (A & B & L & M). destruct s as [n l w m]. unfold Inv in *; simpl in *.
  destruct cap as [|[|c]]; try lia.
  assert (N : n = 0 \/ n = 1) by lia.
  destruct N as [-> | ->]; destruct e, l, w, m; simpl; try contradiction;
    try (destruct L as [L1 L2]; first [ specialize (L1 eq_refl); discriminate L1 | specialize (L2 eq_refl); discriminate L2 ]);
    repeat split; try lia; try discriminate; try reflexivity; try (intros H; discriminate H).
Qed.

Theorem run_inv cap es : 2 <= cap -> forall s, Inv s -> Inv (run true cap es s).
Proof. intros C. unfold run. induction es as [|e es IH]; intros s I; simpl; [exact I|]. apply IH, step_inv; assumption. Qed.

Theorem no_deadlock_on_the_wakeup_pipe cap es :
  2 <= cap -> let s := run true cap es wp0 in
  deadlocked s = false /\ msgs s <= 1 /\
  (* the writer inside wakeup() can always finish, which frees the lock the manager may be waiting for *)
  (wr s = WIn -> lock (step true cap s WStep) = Free).
Proof.
  intros C s. destruct (run_inv cap es C wp0 inv0) as (A & B & L & M). fold s in A, B, L, M. clearbody s.
  destruct s as [n l w m]; simpl in *. split; [destruct w; try reflexivity; contradiction|]. split; [exact A|].
  intros W. subst w. destruct (Nat.eqb n 0) eqn:E; simpl; [|reflexivity].
  apply Nat.eqb_eq in E. subst. destruct (Nat.ltb 0 cap) eqn:F; [reflexivity | apply Nat.ltb_ge in F; lia].
Qed.

(* H18: with a wakeup() that always writes, `cap` wake-ups while the manager is busy fill the pipe; the next writer blocks with the
   lock, the manager then needs the lock: nobody can move any more (a 3-message pipe here; findings/H18_real.py has the real one) *)
Example h18_full_pipe_deadlock :
  let s := run false 3 [WEnter; WStep; WEnter; WStep; WEnter; WStep; WEnter; WStep; MLock] wp0 in
  deadlocked s = true /\ forall e, step false 3 s e = s.
Proof. vm_compute. split; [reflexivity|]. intros []; reflexivity. Qed.
Example h18_same_history_repaired :
  let s := run true 3 [WEnter; WStep; WEnter; WStep; WEnter; WStep; WEnter; WStep; MLock] wp0 in
  deadlocked s = false /\ msgs s = 1 /\ mg s = MRun.
Proof. vm_compute. repeat split; reflexivity. Qed.
