(* C20: proofs over Model/Ledger.v (whose operation lists come from Gen/Ledger.v). *)
From Coq Require Import List Arith Bool Lia.
From LokyV Require Import Lib.LedgerLib Gen.Ledger Model.Ledger.
Import ListNotations.

(* the proofs below hold whatever the generated facts say; keep simpl from looking inside them *)
Opaque kill_tree_psutil_returns_without_join_when_gone kill_tree_psutil_joins_otherwise kill_tree_nopsutil_always_joins
       feeder_not_joined_by_creator clean_exit_pops_releases_joins broken_by_sentinel_polls_exit_codes shutdown_drop
       shutdown_joins_manager_when_wait feeder_thread_holds_queue broken_exit normal_exit.

(* ------------------------------------------------------------------------------------------------------------------ *)
(* 1. A sound abstract interpretation of operation lists: what is known about the table / feeder after them.            *)
Record abs := mka { a_alive : bool; a_nonempty : bool; a_frun : bool; a_stuck : bool }.
Definition top : abs := mka true true true false.
Definition ajoin (x y : abs) := mka (a_alive x || a_alive y) (a_nonempty x || a_nonempty y) (a_frun x || a_frun y) (a_stuck x || a_stuck y).

Definition aprim (o : rop) (a : abs) : abs :=
  match o with
  | ShutdownWorkers => mka false (a_nonempty a) (a_frun a) (a_stuck a)
  | QClose CallQ => mka (a_alive a) (a_nonempty a) false (a_stuck a)
  | JoinAllProcesses => mka false false (a_frun a) (a_stuck a || (a_alive a && a_nonempty a))
  | KillWorkers => mka false false (a_frun a) (a_stuck a)
  | _ => a
  end.
Definition aexec1 (o : rop) (a : abs) : abs :=
  match o with
  | IfKillWorkers ops => ajoin (fold_left (fun a o => aprim o a) ops a) a
  | o => aprim o a
  end.
Definition aexec (ops : list rop) (a : abs) : abs := fold_left (fun a o => aexec1 o a) ops a.

Definition no_alive (t : list pst) : Prop := existsb is_alive t = false.
Definition all_reaped (t : list pst) : Prop := forallb is_reaped t = true.

Definition approx (w : world) (a : abs) : Prop :=
  (a_alive a = false -> no_alive (table (cur w))) /\
  (a_nonempty a = false -> table (cur w) = []) /\
  (a_frun a = false -> feeder (cur w) <> FRun) /\
  (a_stuck a = false -> stuck (cur w) = false) /\
  all_reaped (stale w).

Lemma no_alive_after_shutdown t : no_alive (map (fun p => if is_alive p then Zombie else p) t).
Proof. unfold no_alive. induction t as [|p t IH]; [reflexivity|]. destruct p; simpl; exact IH. Qed.

Lemma all_reaped_app a b : all_reaped a -> all_reaped b -> all_reaped (a ++ b).
Proof. unfold all_reaped. intros Ha Hb. rewrite forallb_app, Ha, Hb. reflexivity. Qed.
Lemma all_reaped_const (l : list pst) : all_reaped (map (fun _ => Reaped) l).
Proof. unfold all_reaped. induction l; simpl; auto. Qed.

Lemma prim_sound ps o w a : approx w a -> approx (prim ps o w) (aprim o a).
Proof.
  intros (Ha & Hn & Hf & Hs & Hr). destruct w as [e st]. unfold approx in *. simpl in *.
  destruct o as [ | [|] | [|] | | | | | | | | | ops | | | ].
  - (* ShutdownWorkers *) simpl. repeat split; auto.
    + intros _. apply no_alive_after_shutdown.
    + intros H. rewrite (Hn H). reflexivity.
  - (* QClose CallQ *) simpl. repeat split; auto. intros _. destruct (feeder e); discriminate.
  - simpl. repeat split; assumption.
  - (* QJoinThread CallQ *)
    unfold prim, aprim. destruct feeder_not_joined_by_creator; simpl; repeat split; auto.
    intros H. specialize (Hf H). destruct (feeder e); try discriminate; congruence.
  - simpl. repeat split; assumption.
  - simpl. repeat split; assumption.
  - (* JoinAllProcesses *) simpl. repeat split; auto.
    intros H. apply orb_false_iff in H. destruct H as [H1 H2]. rewrite (Hs H1). simpl.
    apply andb_false_iff in H2. destruct H2 as [H2|H2]; [exact (Ha H2)| rewrite (Hn H2); reflexivity].
  - simpl. repeat split; assumption.
  - simpl. repeat split; assumption.
  - simpl. repeat split; assumption.
  - simpl. repeat split; assumption.
  - simpl. repeat split; assumption.
  - (* KillWorkers *) simpl. repeat split; auto.
    apply all_reaped_app; [assumption | apply all_reaped_const].
  - simpl. repeat split; assumption.
  - simpl. repeat split; assumption.
  - simpl. repeat split; assumption.
  - simpl. repeat split; assumption.
Qed.

Lemma prims_sound ps ops : forall w a, approx w a -> approx (fold_left (fun w o => prim ps o w) ops w) (fold_left (fun a o => aprim o a) ops a).
Proof. induction ops as [|o ops IH]; intros w a H; simpl; [exact H|]. apply IH, prim_sound, H. Qed.

Lemma approx_join_l w x y : approx w x -> approx w (ajoin x y).
Proof.
  intros (Ha & Hn & Hf & Hs & Hr). unfold approx, ajoin. simpl.
  repeat split; auto; intros H; apply orb_false_iff in H; destruct H; auto.
Qed.
Lemma approx_join_r w x y : approx w y -> approx w (ajoin x y).
Proof.
  intros (Ha & Hn & Hf & Hs & Hr). unfold approx, ajoin. simpl.
  repeat split; auto; intros H; apply orb_false_iff in H; destruct H; auto.
Qed.

Lemma exec1_sound ps o w a : approx w a -> approx (exec1 ps o w) (aexec1 o a).
Proof.
  intros H. destruct o; try (apply prim_sound; exact H).
  simpl. destruct (killf (cur w)); [apply approx_join_l, prims_sound, H | apply approx_join_r, H].
Qed.
Lemma exec_sound ps ops : forall w a, approx w a -> approx (exec ps ops w) (aexec ops a).
Proof. unfold exec, aexec. induction ops as [|o ops IH]; intros w a H; simpl; [exact H|]. apply IH, exec1_sound, H. Qed.

(* both ways out of the manager's loop, as generated from the current source, are made of primitives and end with an empty
   table, a feeder that has been told to stop, and no join of a process nobody stopped *)
Lemma exits_are_primitive : forallb is_prim broken_exit && forallb is_prim normal_exit = true.
Proof. vm_compute. reflexivity. Qed.
Lemma broken_exit_good : aexec broken_exit top = mka false false false false.
Proof. vm_compute. reflexivity. Qed.
Lemma normal_exit_good : aexec normal_exit top = mka false false false false.
Proof. vm_compute. reflexivity. Qed.

(* exec touches neither user, refs, mgr, shut-ness of the user nor depends on the stale list for the executor part *)
Lemma prim_user ps o w : user (cur (prim ps o w)) = user (cur w) /\ mgr (cur (prim ps o w)) = mgr (cur w) /\ refs (cur (prim ps o w)) = refs (cur w).
Proof.
  destruct w as [e st]. destruct o as [ | [|] | [|] | | | | | | | | | ops | | | ]; unfold prim;
    destruct feeder_not_joined_by_creator; simpl; auto.
Qed.
Lemma prims_user ps ops : forall w, user (cur (fold_left (fun w o => prim ps o w) ops w)) = user (cur w)
   /\ mgr (cur (fold_left (fun w o => prim ps o w) ops w)) = mgr (cur w) /\ refs (cur (fold_left (fun w o => prim ps o w) ops w)) = refs (cur w).
Proof.
  induction ops as [|o ops IH]; intros w; simpl; auto.
  destruct (IH (prim ps o w)) as (A & B & C). destruct (prim_user ps o w) as (A' & B' & C'). repeat split; congruence.
Qed.
Lemma exec_user ps ops : forall w, user (cur (exec ps ops w)) = user (cur w) /\ mgr (cur (exec ps ops w)) = mgr (cur w)
   /\ refs (cur (exec ps ops w)) = refs (cur w).
Proof.
  unfold exec. induction ops as [|o ops IH]; intros w; simpl; auto.
  destruct (IH (exec1 ps o w)) as (A & B & C).
  assert (H : user (cur (exec1 ps o w)) = user (cur w) /\ mgr (cur (exec1 ps o w)) = mgr (cur w) /\ refs (cur (exec1 ps o w)) = refs (cur w)).
  { destruct o; try apply prim_user. simpl. destruct (killf (cur w)); [apply prims_user | auto]. }
  destruct H as (A' & B' & C'). repeat split; congruence.
Qed.

Lemma prim_cur_indep ps o e s1 s2 : cur (prim ps o (mkw e s1)) = cur (prim ps o (mkw e s2)).
Proof. destruct o as [ | [|] | [|] | | | | | | | | | ops | | | ]; unfold prim; destruct feeder_not_joined_by_creator; simpl; auto. Qed.
Lemma prims_cur_indep ps ops : forall w1 w2, cur w1 = cur w2 ->
  cur (fold_left (fun w o => prim ps o w) ops w1) = cur (fold_left (fun w o => prim ps o w) ops w2).
Proof.
  induction ops as [|o ops IH]; intros w1 w2 H; simpl; [exact H|]. apply IH.
  destruct w1 as [e1 s1], w2 as [e2 s2]. simpl in H. subst e2. apply prim_cur_indep.
Qed.
Lemma exec_cur_indep ps ops : forall w1 w2, cur w1 = cur w2 -> cur (exec ps ops w1) = cur (exec ps ops w2).
Proof.
  unfold exec. induction ops as [|o ops IH]; intros w1 w2 H; simpl; [exact H|]. apply IH.
  destruct o; try (destruct w1 as [e1 s1], w2 as [e2 s2]; simpl in H; subst e2; apply prim_cur_indep).
  simpl. rewrite H. destruct (killf (cur w2)); [apply prims_cur_indep, H | exact H].
Qed.

(* with an empty table nothing is added to the stale list *)
Lemma prim_empty ps o e st : table e = [] -> table (cur (prim ps o (mkw e st))) = [] /\ stale (prim ps o (mkw e st)) = st.
Proof.
  intros H. destruct o as [ | [|] | [|] | | | | | | | | | ops | | | ]; unfold prim; destruct feeder_not_joined_by_creator;
    simpl; rewrite ?H; simpl; auto; split; try reflexivity; apply app_nil_r.
Qed.
Lemma prims_empty ps ops : forall e st, table e = [] ->
  table (cur (fold_left (fun w o => prim ps o w) ops (mkw e st))) = [] /\ stale (fold_left (fun w o => prim ps o w) ops (mkw e st)) = st.
Proof.
  induction ops as [|o ops IH]; intros e st H; simpl; auto.
  destruct (prim_empty ps o e st H) as [A B]. destruct (prim ps o (mkw e st)) as [e' st'] eqn:E. simpl in *. subst st'. apply IH, A.
Qed.
Lemma exec_empty ps ops : forall e st, table e = [] -> table (cur (exec ps ops (mkw e st))) = [] /\ stale (exec ps ops (mkw e st)) = st.
Proof.
  unfold exec. induction ops as [|o ops IH]; intros e st H; simpl; auto.
  assert (X : table (cur (exec1 ps o (mkw e st))) = [] /\ stale (exec1 ps o (mkw e st)) = st).
  { destruct o; try (apply prim_empty; exact H). simpl. destruct (killf e); [apply prims_empty, H | auto]. }
  destruct X as [A B]. destruct (exec1 ps o (mkw e st)) as [e' st'] eqn:E. simpl in *. subst st'. apply IH, A.
Qed.

(* ------------------------------------------------------------------------------------------------------------------ *)
(* 2. The invariant of every reachable world.                                                                           *)
Definition Inv (w : world) : Prop :=
  let e := cur w in
  (mgr e = TNone -> table e = [] /\ feeder e = FNone) /\
  (mgr e = TEnd -> table e = [] /\ feeder e <> FRun) /\
  all_reaped (stale w) /\
  stuck e = false.

Lemma inv0 : Inv world0.
Proof. unfold Inv, world0; simpl. repeat split; auto; discriminate. Qed.

Lemma approx_top w : all_reaped (stale w) -> stuck (cur w) = false -> approx w top.
Proof. intros Hr Hs. unfold approx, top; simpl. repeat split; auto; discriminate. Qed.

Lemma exit_inv ps ops w :
  aexec ops top = mka false false false false -> all_reaped (stale w) -> stuck (cur w) = false ->
  let w2 := exec ps ops w in Inv (mkw (set_mgr (cur w2) TEnd) (stale w2)).
Proof.
  intros Hg Hr Hs w2. pose proof (exec_sound ps ops w top (approx_top w Hr Hs)) as H. rewrite Hg in H.
  destruct H as (_ & Hn & Hf & Hst & Hrr). simpl in *.
  unfold Inv; simpl. repeat split; auto; try discriminate.
Qed.

Lemma all_reaped_nil : all_reaped []. Proof. reflexivity. Qed.

Lemma inv_same e e' st st' :
  mgr e' = mgr e -> table e' = table e -> feeder e' = feeder e -> stuck e' = stuck e -> all_reaped st' ->
  Inv (mkw e st) -> Inv (mkw e' st').
Proof.
  unfold Inv; simpl. intros -> -> -> -> R (I1 & I2 & _ & I4).
  split; [exact I1|]. split; [exact I2|]. split; [exact R | exact I4].
Qed.

Lemma inv_running e st : mgr e = TRun -> all_reaped st -> stuck e = false -> Inv (mkw e st).
Proof.
  unfold Inv; simpl. intros M R S. rewrite M.
  split; [discriminate|]. split; [discriminate|]. split; [exact R | exact S].
Qed.

Lemma step_inv ps w v : Inv w -> Inv (step ps w v).
Proof.
  intros HI. pose proof HI as (I1 & I2 & I3 & I4). destruct w as [e st]. simpl in *.
  destruct v as [n| |n|i|i| |kill|wait| | | | | ]; unfold step; simpl.
  - (* Start *) destruct (mgr e) eqn:M; try exact HI.
    destruct (shut e || negb (user e)); [exact HI|].
    apply inv_running; simpl; auto. destruct n; [assumption | apply all_reaped_nil].
  - (* Put *) destruct (mgr_run (mgr e) && negb (cqc e) && match feeder e with FNone => true | _ => false end) eqn:C; [|exact HI].
    apply andb_true_iff in C. destruct C as [C _]. apply andb_true_iff in C. destruct C as [C _].
    apply inv_running; simpl; auto. destruct (mgr e); simpl in C; congruence.
  - (* Spawn *) destruct (mgr_run (mgr e)) eqn:C; [|exact HI].
    apply inv_running; simpl; auto; [destruct (mgr e); simpl in C; congruence|]. destruct n; [assumption | apply all_reaped_nil].
  - (* Crash *) destruct (nth_error (table e) i) as [[| |]|] eqn:N; try exact HI.
    destruct (mgr e) eqn:M.
    + destruct (I1 eq_refl) as [T _]. rewrite T in N. destruct i; discriminate.
    + apply inv_running; simpl; auto.
    + destruct (I2 eq_refl) as [T _]. rewrite T in N. destruct i; discriminate.
  - (* CleanExit *) destruct (mgr_run (mgr e) && clean_exit_pops_releases_joins) eqn:C; [|exact HI].
    apply andb_true_iff in C. destruct C as [C _].
    destruct (nth_error (table e) i) as [[| |]|]; try exact HI.
    apply inv_running; simpl; auto. destruct (mgr e); simpl in C; congruence.
  - (* Poll *) destruct (mgr e) eqn:M.
    + destruct (I1 eq_refl) as [T _]. apply (inv_same e _ st); simpl; auto. rewrite T. reflexivity.
    + apply inv_running; simpl; auto.
    + destruct (I2 eq_refl) as [T _]. apply (inv_same e _ st); simpl; auto. rewrite T. reflexivity.
  - (* ShutdownCall *) destruct (user e); [|exact HI]. apply (inv_same e _ st); simpl; auto.
  - (* ShutdownReturn *)
    destruct (user e && shut e && negb (wait && shutdown_joins_manager_when_wait && mgr_run (mgr e))); [|exact HI].
    apply (inv_same e _ st); simpl; auto.
  - (* ManagerExitBroken *) destruct (mgr_run (mgr e)); [|exact HI].
    apply exit_inv; [exact broken_exit_good | | ]; destruct broken_by_sentinel_polls_exit_codes; simpl; assumption.
  - (* ManagerExitNormal *) destruct (mgr_run (mgr e) && (shut e || negb (user e))); [|exact HI].
    apply exit_inv; [exact normal_exit_good | assumption | assumption].
  - (* FeederEnds *) destruct (feeder e) eqn:F; try exact HI.
    unfold Inv; simpl. split; [|split; [|split; [exact I3 | exact I4]]]; intros M.
    + destruct (I1 M) as [_ X]. discriminate.
    + destruct (I2 M) as [T _]. split; [exact T | discriminate].
  - (* Drop *) apply (inv_same e _ st); simpl; auto.
  - (* NewExecutor *) destruct (done e) eqn:D; [|exact HI].
    unfold Inv; simpl. split; [auto|]. split; [discriminate|]. split; [|reflexivity].
    apply all_reaped_app; [assumption|].
    unfold done, quiescent in D. destruct (mgr e) eqn:M.
    + destruct (I1 eq_refl) as [T _]. rewrite T. reflexivity.
    + simpl in D. destruct (user e), (shut e); simpl in D; discriminate.
    + destruct (I2 eq_refl) as [T _]. rewrite T. reflexivity.
Qed.

Lemma run_inv ps vs : forall w, Inv w -> Inv (run ps vs w).
Proof. unfold run. induction vs as [|v vs IH]; intros w H; simpl; [exact H|]. apply IH, step_inv, H. Qed.

(* ------------------------------------------------------------------------------------------------------------------ *)
(* 3. Once an executor is released and nothing is left to happen, it owns nothing: only the stale Process objects count.  *)
Lemma length_filter_reaped l : all_reaped l -> length (filter (fun p => negb (is_reaped p)) l) = 0.
Proof. unfold all_reaped. induction l as [|p l IH]; simpl; [reflexivity|]. intros H. apply andb_true_iff in H. destruct H as [H1 H2]. rewrite H1. simpl. apply IH, H2. Qed.

Theorem released_ledger w : Inv w -> done (cur w) = true ->
  ledger w = mkc (length (stale w)) 0 0 (length (stale w)) /\ table (cur w) = [].
Proof.
  intros (I1 & I2 & I3 & I4) D. destruct w as [e st]. simpl in *.
  unfold done, quiescent in D. apply andb_true_iff in D. destruct D as [U Q]. apply negb_true_iff in U.
  apply andb_true_iff in Q. destruct Q as [Q1 Q2].
  assert (M : mgr e <> TRun).
  { intros M. rewrite M, U in Q1. simpl in Q1. rewrite orb_true_r in Q1. discriminate. }
  assert (T : table e = [] /\ feeder_live (feeder e) = false).
  { destruct (mgr e) eqn:Me; [| congruence |].
    - destruct (I1 eq_refl) as [T F]. rewrite F. auto.
    - destruct (I2 eq_refl) as [T F]. split; [exact T|]. destruct (feeder e); simpl in *; congruence. }
  destruct T as [T F]. split; [|exact T].
  unfold ledger; simpl. rewrite U, T, F. simpl.
  assert (R : mgr_run (mgr e) = false) by (destruct (mgr e); simpl; congruence). rewrite R. simpl.
  rewrite length_filter_reaped by assumption. reflexivity.
Qed.

(* ------------------------------------------------------------------------------------------------------------------ *)
(* 4. Repeating a history any number of times leaves exactly the world that running it once leaves.                      *)
Lemma step_cur_indep ps e s1 s2 v : cur (step ps (mkw e s1) v) = cur (step ps (mkw e s2) v).
Proof.
  destruct v as [n| |n|i|i| |kill|wait| | | | | ]; unfold step; simpl; auto.
  - destruct (mgr e); auto. destruct (shut e || negb (user e)); auto.
  - destruct (mgr_run (mgr e) && negb (cqc e) && match feeder e with FNone => true | _ => false end); auto.
  - destruct (mgr_run (mgr e)); auto.
  - destruct (nth_error (table e) i) as [[| |]|]; auto.
  - destruct (mgr_run (mgr e) && clean_exit_pops_releases_joins); auto. destruct (nth_error (table e) i) as [[| |]|]; auto.
  - destruct (user e); auto.
  - destruct (user e && shut e && negb (wait && shutdown_joins_manager_when_wait && mgr_run (mgr e))); auto.
  - destruct (mgr_run (mgr e)); [|reflexivity]. simpl.
    rewrite (exec_cur_indep ps broken_exit _ (if broken_by_sentinel_polls_exit_codes
           then mkw (set_table e (map (fun p => match p with Zombie => Reaped | p => p end) (table e))) s2 else mkw e s2)); [reflexivity|].
    destruct broken_by_sentinel_polls_exit_codes; reflexivity.
  - destruct (mgr_run (mgr e) && (shut e || negb (user e))); [|reflexivity]. simpl.
    rewrite (exec_cur_indep ps normal_exit _ (mkw e s2)); reflexivity.
  - destruct (feeder e); auto.
  - destruct (done e); auto.
Qed.

(* a step from an executor with an empty table either resets the stale list (a spawn) or leaves it alone, and then the table is
   still empty *)
Lemma step_empty ps e v : table e = [] ->
  (exists w', forall st, step ps (mkw e st) v = w') \/
  (forall st, stale (step ps (mkw e st) v) = st /\ table (cur (step ps (mkw e st) v)) = []).
Proof.
  intros T.
  assert (Same : forall st, stale (mkw e st) = st /\ table (cur (mkw e st)) = []) by (intros st; simpl; auto).
  destruct v as [n| |n|i|i| |kill|wait| | | | | ]; unfold step; simpl.
  - destruct (mgr e); try (right; exact Same).
    destruct (shut e || negb (user e)); [right; exact Same|].
    destruct n; [right; intros st; simpl; auto | left; eexists; intros st; reflexivity].
  - right; intros st. destruct (mgr_run (mgr e) && negb (cqc e) && match feeder e with FNone => true | _ => false end); simpl; auto.
  - destruct (mgr_run (mgr e)); [|right; exact Same].
    destruct n; [right; intros st; simpl; rewrite T; auto | left; eexists; intros st; reflexivity].
  - right; intros st. rewrite T. destruct i; simpl; auto.
  - right; intros st. destruct (mgr_run (mgr e) && clean_exit_pops_releases_joins); simpl; auto. rewrite T. destruct i; simpl; auto.
  - right; intros st. simpl. rewrite T. auto.
  - right; intros st. destruct (user e); simpl; auto.
  - right; intros st. destruct (user e && shut e && negb (wait && shutdown_joins_manager_when_wait && mgr_run (mgr e))); simpl; auto.
  - right; intros st. destruct (mgr_run (mgr e)); simpl; auto.
    assert (T' : table (cur (if broken_by_sentinel_polls_exit_codes
                             then mkw (set_table e (map (fun p => match p with Zombie => Reaped | p => p end) (table e))) st else mkw e st)) = []).
    { destruct broken_by_sentinel_polls_exit_codes; simpl; rewrite T; reflexivity. }
    destruct (if broken_by_sentinel_polls_exit_codes
              then mkw (set_table e (map (fun p => match p with Zombie => Reaped | p => p end) (table e))) st else mkw e st) as [e1 st1] eqn:E.
    assert (st1 = st) by (destruct broken_by_sentinel_polls_exit_codes; inversion E; reflexivity). subst st1.
    simpl in T'. destruct (exec_empty ps broken_exit e1 st T') as [A B]. rewrite B. split; [reflexivity|]. exact A.
  - right; intros st. destruct (mgr_run (mgr e) && (shut e || negb (user e))); simpl; auto.
    destruct (exec_empty ps normal_exit e st T) as [A B]. rewrite B. split; [reflexivity|]. exact A.
  - right; intros st. destruct (feeder e); simpl; auto.
  - right; intros st. simpl. auto.
  - right; intros st. destruct (done e); simpl; auto. rewrite T, app_nil_r. auto.
Qed.

Lemma run_empty ps vs : forall e, table e = [] ->
  (exists w', forall st, run ps vs (mkw e st) = w') \/ (forall st, stale (run ps vs (mkw e st)) = st).
Proof.
  unfold run. induction vs as [|v vs IH]; intros e T; simpl; [right; auto|].
  destruct (step_empty ps e v T) as [[w' H] | H].
  - left. exists (fold_left (step ps) vs w'). intros st. rewrite H. reflexivity.
  - remember (cur (step ps (mkw e []) v)) as e1.
    assert (E : forall st, step ps (mkw e st) v = mkw e1 st).
    { intros st. destruct (H st) as [A _]. destruct (step ps (mkw e st) v) as [e' st'] eqn:S. simpl in A. subst st'. f_equal.
      subst e1. change e' with (cur (mkw e' st)). rewrite <- S. apply step_cur_indep. }
    assert (T1 : table e1 = []) by (destruct (H []) as [_ B]; subst e1; exact B).
    destruct (IH e1 T1) as [[w' G] | G].
    + left. exists w'. intros st. rewrite E. apply G.
    + right. intros st. rewrite E. apply G.
Qed.

Lemma run_cur_indep ps vs : forall e s1 s2, cur (run ps vs (mkw e s1)) = cur (run ps vs (mkw e s2)).
Proof.
  unfold run. induction vs as [|v vs IH]; intros e s1 s2; simpl; [reflexivity|].
  pose proof (step_cur_indep ps e s1 s2 v) as H.
  destruct (step ps (mkw e s1) v) as [e1 t1], (step ps (mkw e s2) v) as [e2 t2]. simpl in H. subst e2. apply IH.
Qed.

Fixpoint rep (k : nat) (h : list ev) : list ev := match k with 0 => [] | S k => (NewExecutor :: h) ++ rep k h end.

Lemma run_app ps a b w : run ps (a ++ b) w = run ps b (run ps a w).
Proof. unfold run. apply fold_left_app. Qed.

Lemma rep_snoc h : forall n, rep (S n) h = rep n h ++ (NewExecutor :: h).
Proof.
  induction n as [|n IHn]; [simpl; rewrite app_nil_r; reflexivity|].
  change (rep (S (S n)) h) with ((NewExecutor :: h) ++ rep (S n) h). rewrite IHn at 1.
  change (rep (S n) h) with ((NewExecutor :: h) ++ rep n h). rewrite <- app_assoc. reflexivity.
Qed.

Lemma one_more_round ps h : done (cur (run ps h world0)) = true -> run ps (NewExecutor :: h) (run ps h world0) = run ps h world0.
Proof.
  intros D.
  pose proof (run_inv ps h world0 inv0) as I.
  destruct (released_ledger _ I D) as [_ T].
  destruct (run ps h world0) as [c st] eqn:W. simpl in D, T.
  assert (S1 : run ps (NewExecutor :: h) (mkw c st) = run ps h (mkw fresh st)).
  { unfold run. simpl. rewrite D, T, app_nil_r. reflexivity. }
  rewrite S1.
  assert (C : cur (run ps h (mkw fresh st)) = c).
  { rewrite (run_cur_indep ps h fresh st []). change (mkw fresh []) with world0. rewrite W. reflexivity. }
  destruct (run_empty ps h fresh eq_refl) as [[w' G] | G].
  - rewrite G. rewrite <- (G []). change (mkw fresh []) with world0. exact W.
  - assert (S0 : st = []).
    { pose proof (G []) as G0. change (mkw fresh []) with world0 in G0. rewrite W in G0. simpl in G0. exact G0. }
    subst st. change (mkw fresh []) with world0. exact W.
Qed.

Theorem no_accumulation ps (h : list ev) (k : nat) :
  done (cur (run ps h world0)) = true ->
  run ps (rep (S k) h) world0 = run ps (rep 1 h) world0.
Proof.
  intros D.
  assert (R1 : run ps (rep 1 h) world0 = run ps h world0).
  { simpl. rewrite app_nil_r. unfold run. simpl. reflexivity. }
  rewrite R1. induction k as [|k IH]; [exact R1|].
  rewrite (rep_snoc h (S k)), run_app, IH. apply one_more_round, D.
Qed.

Corollary no_accumulation_ledger ps h k :
  done (cur (run ps h world0)) = true -> ledger (run ps (rep (S k) h) world0) = ledger (run ps (rep 1 h) world0).
Proof. intros D. rewrite (no_accumulation ps h k D). reflexivity. Qed.

(* ------------------------------------------------------------------------------------------------------------------ *)
(* 5. Non-vacuity: concrete histories. *)
Definition h_plain : list ev := [Start 2; Put; ShutdownCall false; ManagerExitNormal; ShutdownReturn true; FeederEnds; Drop].
Definition h_broken : list ev := [Start 3; Put; Crash 1; ManagerExitBroken; ShutdownCall false; ShutdownReturn true; FeederEnds; Drop].
Definition h_gc : list ev := [Start 2; Put; Crash 0; Poll; Drop; ManagerExitNormal; FeederEnds].
Example plain_done : done (cur (run true h_plain world0)) = true /\ ledger (run true h_plain world0) = mkc 0 0 0 0.
Proof. vm_compute. auto. Qed.
Example broken_done : done (cur (run true h_broken world0)) = true /\ ledger (run true h_broken world0) = mkc 1 0 0 1
                      /\ ledger (run false h_broken world0) = mkc 0 0 0 0.
Proof. vm_compute. auto. Qed.
Example broken_twice : ledger (run true (rep 5 (h_broken ++ NewExecutor :: h_plain ++ NewExecutor :: h_broken)) world0) = mkc 1 0 0 1.
Proof. vm_compute. reflexivity. Qed.
Example busy_ledger : ledger (run true [Start 2; Put] world0) = mkc 8 2 2 8.
Proof. vm_compute. reflexivity. Qed.
