From Coq Require Import List Arith Bool Lia.
From LokyV Require Import Lib.PoolLib Gen.Pool Lib.ResizeLib Gen.Resize Model.Watch.
Import ListNotations.

(* submit() and _resize() wake the manager after they have registered the workers they start *)
Lemma submit_order : submit_watch_ops = [USpawn; UWake]. Proof. reflexivity. Qed.
Lemma resize_order : resize_watch_ops = [USpawn; UWake]. Proof. reflexivity. Qed.

Definition wake_ahead (l : list uop) : bool := existsb (fun o => match o with UWake => true | _ => false end) l.
Definition shape (l : list uop) : Prop := l = [] \/ l = [USpawn; UWake] \/ l = [UWake].
Definition TInv (s : wt) : Prop :=
  shape (inflight s) /\
  (wphase s = Waiting -> 0 < unw s -> 0 < wbytes s \/ wake_ahead (inflight s) = true).

Lemma tinv0 : TInv wt0.
Proof. unfold TInv, wt0, shape; simpl. split; [auto | discriminate]. Qed.

Lemma step_tinv s e : TInv s -> TInv (step s e).
Proof.
  unfold step. rewrite submit_order, resize_order. intros [Sh I]. destruct s as [u w p fl]. simpl in *.
  destruct Sh as [->|[->| ->]]; destruct e; simpl; unfold TInv, shape; simpl;
    try (destruct p; simpl); try (destruct w; simpl); try (destruct u; simpl);
    (split; [auto 6 | intros; try discriminate; try lia; auto; try (right; reflexivity); try (left; lia)]).
  all: try (destruct (I eq_refl ltac:(lia)) as [X|X]; [left; lia | discriminate]).
  all: try (destruct (I eq_refl ltac:(lia)) as [X|X]; [lia | discriminate]).
Qed.

Theorem run_tinv es : forall s, TInv s -> TInv (run es s).
Proof. unfold run. induction es as [|e es IH]; intros s I; simpl; [exact I|]. apply IH, step_tinv, I. Qed.

(* whenever the manager sleeps with nothing on its way to wake it, every registered worker is in the list it waits on *)
Theorem every_registered_worker_is_watched es : let s := run es wt0 in quiet s = true -> unw s = 0.
Proof.
  intros s Q. pose proof (run_tinv es wt0 tinv0) as [Sh I]. fold s in Sh, I. clearbody s.
  destruct s as [u w p fl]. unfold quiet in Q. simpl in *. destruct p; [discriminate|]. destruct fl; [|discriminate].
  apply Nat.eqb_eq in Q. subst w. destruct u; [reflexivity|]. destruct (I eq_refl ltac:(lia)) as [X|X]; [lia | discriminate].
Qed.

(* H13: with the wake-up written before the workers are started, a worker can stay unwatched for ever *)
Example h13_wake_up_before_the_spawn :
  let s := fold_left (step_with [UWake; USpawn] []) [MgrSnapshot; SubmitBegin; UserStep 0; MgrWake; MgrSnapshot; UserStep 1] wt0 in
  quiet s = true /\ unw s = 1.
Proof. vm_compute. split; reflexivity. Qed.
Example h13_resize_without_a_wake_up :
  let s := fold_left (step_with [USpawn; UWake] [USpawn]) [MgrSnapshot; ResizeBegin; UserStep 2] wt0 in
  quiet s = true /\ unw s = 2.
Proof. vm_compute. split; reflexivity. Qed.
