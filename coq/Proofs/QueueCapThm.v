From Coq Require Import List Arith Bool Lia.
From LokyV Require Import Model.QueueCap.
Import ListNotations.
Local Arguments Nat.sub : simpl never.
Local Arguments Nat.add : simpl never.

Definition Inv (wot : bool) (cap W : nat) (s : qs) : Prop :=
  q s <= cap /\ r s <= W /\
  (act s = false -> w s = false -> b s = 0 \/ (if wot then cap <= q s else cap <= q s + r s)).

Lemma inv0 wot cap W : Inv wot cap W q0.
Proof. unfold Inv, q0; simpl. repeat split; lia. Qed.

Lemma step_inv wot cap W s e : Inv wot cap W s -> Inv wot cap W (step wot cap W s e).
Proof.
  intros (A & B & C). unfold step. destruct (enabled cap W s e) eqn:En; [|repeat split; assumption].
  destruct s as [b0 q1 r0 d0 w0 a0]. unfold Inv in *; simpl in *.
  destruct e; simpl in *.
  - repeat split; try assumption. intros _ X; discriminate.
  - repeat split; try assumption. intros X; discriminate.
  - apply andb_prop in En as [En E3]. apply andb_prop in En as [E1 E2]. apply Nat.ltb_lt in E3.
    repeat split; try lia. intros X. rewrite X in E1. discriminate.
  - apply andb_prop in En as [E1 E2]. repeat split; try assumption. intros _ _.
    apply orb_prop in E2 as [E2|E2]; [apply Nat.eqb_eq in E2; left; exact E2 | apply Nat.leb_le in E2; right; destruct wot; lia].
  - apply andb_prop in En as [E1 E2]. apply Nat.ltb_lt in E1, E2. repeat split; try lia.
    intros X Y. destruct wot.
    + rewrite orb_true_r in Y. discriminate.
    + rewrite orb_false_r in Y. destruct (C X Y) as [H|H]; [left; exact H | right; lia].
  - apply Nat.ltb_lt in En. repeat split; try lia; intros _ X; discriminate.
Qed.

Lemma run_inv wot cap W es : forall s, Inv wot cap W s -> Inv wot cap W (run wot cap W es s).
Proof. unfold run. induction es as [|e es IH]; intros s I; simpl; [exact I|]. apply IH, step_inv, I. Qed.

Lemma settled_spec cap W s : settled cap W s = true -> act s = false /\ w s = false /\ (q s = 0 \/ W <= r s).
Proof.
  unfold settled, enabled. destruct s as [b0 q1 r0 d0 w0 a0]; simpl. intros H.
  apply andb_prop in H as [H T]. apply andb_prop in H as [H S]. apply andb_prop in H as [Wk M].
  apply negb_true_iff in T, S, M, Wk.
  destruct a0; simpl in *.
  - (* an active manager can always move or sleep *)
    destruct (b0 =? 0) eqn:E1; simpl in *; [discriminate|]. destruct (cap <=? q1) eqn:E2; simpl in *; [discriminate|].
    apply Nat.eqb_neq in E1. apply Nat.leb_gt in E2.
    assert (X : (0 <? b0) = true) by (apply Nat.ltb_lt; lia). assert (Y : (q1 <? cap) = true) by (apply Nat.ltb_lt; lia).
    rewrite X, Y in M. discriminate.
  - split; [reflexivity|]. split; [exact Wk|].
    apply andb_false_iff in T as [T|T]; [apply Nat.ltb_ge in T; left; lia | apply Nat.ltb_ge in T; right; exact T].
Qed.

(* never more tasks in execution than workers, nor than there are tasks *)
Theorem running_bounded wot cap W es : let s := run wot cap W es q0 in r s <= Nat.min W (unfinished s).
Proof.
  intros s. destruct (run_inv wot cap W es q0 (inv0 wot cap W)) as (_ & B & _). fold s in B. unfold unfinished. lia.
Qed.

(* loky (a worker taking an item tells nobody): once everything has settled -- tasks that never end included -- as many tasks run
   as there are workers, tasks, or SLOTS IN THE CALL QUEUE, whichever is least *)
Theorem settled_parallelism_partial cap W es :
  let s := run false cap W es q0 in
  settled cap W s = true -> Nat.min W (Nat.min cap (unfinished s)) <= r s.
Proof.
  intros s St. destruct (run_inv false cap W es q0 (inv0 false cap W)) as (A & B & C). fold s in A, B, C.
  destruct (settled_spec cap W s St) as (X & Y & Z). unfold unfinished.
  destruct Z as [Z|Z]; [|lia]. destruct (C X Y) as [H|H]; lia.
Qed.

(* hence the full statement whenever the queue has at least as many slots as the pool has workers (every executor that is not
   resized beyond the size it was created with: the queue of a plain executor has 2 * max_workers + 1 slots) *)
Theorem settled_parallelism_when_the_queue_is_large_enough cap W es :
  W <= cap ->
  let s := run false cap W es q0 in
  settled cap W s = true -> r s = Nat.min W (unfinished s).
Proof.
  intros L s St. pose proof (settled_parallelism_partial cap W es St) as P. pose proof (running_bounded false cap W es) as Q.
  fold s in P, Q. simpl in P, Q. lia.
Qed.

(* the full statement is false for a queue with fewer slots than workers: six workers, three slots, six tasks that do not end --
   three run, three idle workers, three tasks wait (finding H19) *)
Definition h19_history : list qev :=
  [Submit; Submit; Submit; Submit; Submit; Submit; Wake; Move; Move; Move; Sleep; Take; Take; Take].
Theorem settled_parallelism_refuted :
  exists cap W es, let s := run false cap W es q0 in
    settled cap W s = true /\ r s < Nat.min W (unfinished s).
Proof. exists 3, 6, h19_history. vm_compute. split; [reflexivity | lia]. Qed.
Example h19_numbers : let s := run false 3 6 h19_history q0 in (r s, b s, q s) = (3, 3, 0).
Proof. vm_compute. reflexivity. Qed.

(* the repair direction: were the manager woken whenever a slot is freed, the full statement would hold for every queue size *)
Theorem wake_on_take_would_deliver cap W es :
  0 < cap ->
  let s := run true cap W es q0 in
  settled cap W s = true -> r s = Nat.min W (unfinished s).
Proof.
  intros L s St. destruct (run_inv true cap W es q0 (inv0 true cap W)) as (A & B & C). fold s in A, B, C.
  destruct (settled_spec cap W s St) as (X & Y & Z). unfold unfinished.
  destruct Z as [Z|Z]; [|lia]. destruct (C X Y) as [H|H]; lia.
Qed.

(* non-vacuity: a settled state with all six workers busy is reachable when a result comes back *)
Example after_a_result :
  let s := run false 3 6 (h19_history ++ [Finish; Wake; Move; Move; Move; Sleep; Take; Take; Take]) q0 in
  settled 3 6 s = true /\ r s = 5 /\ b s = 0.
Proof. vm_compute. repeat split; reflexivity. Qed.

(* ---- the defect is reachable for EVERY queue with fewer slots than the pool has workers: W tasks that do not end are submitted,
   the manager fills the queue and sleeps, cap workers take an item -- cap tasks run, W - cap workers idle next to W - cap tasks ---- *)
Definition small_queue_history (cap W : nat) : list qev :=
  repeat Submit W ++ [Wake] ++ repeat Move cap ++ [Sleep] ++ repeat Take cap.

Lemma run_app wot cap W es1 es2 s : run wot cap W (es1 ++ es2) s = run wot cap W es2 (run wot cap W es1 s).
Proof. unfold run. apply fold_left_app. Qed.

Lemma run_cons wot cap W e es s : run wot cap W (e :: es) s = run wot cap W es (step wot cap W s e).
Proof. reflexivity. Qed.
Lemma run_nil wot cap W s : run wot cap W [] s = s.
Proof. reflexivity. Qed.

Lemma run_submits cap W n : forall b0 w0, run false cap W (repeat Submit (S n)) (mkq b0 0 0 0 w0 false) = mkq (b0 + S n) 0 0 0 true false.
Proof.
  induction n as [|n IH]; intros b0 w0.
  - cbn [repeat]. rewrite run_cons, run_nil. unfold step; simpl. f_equal. lia.
  - change (repeat Submit (S (S n))) with (Submit :: repeat Submit (S n)). rewrite run_cons.
    replace (step false cap W (mkq b0 0 0 0 w0 false) Submit) with (mkq (S b0) 0 0 0 true false) by reflexivity.
    rewrite IH. f_equal. lia.
Qed.

Lemma run_moves cap W k : forall b0 q1, q1 + k <= cap -> k <= b0 ->
  run false cap W (repeat Move k) (mkq b0 q1 0 0 false true) = mkq (b0 - k) (q1 + k) 0 0 false true.
Proof.
  induction k as [|k IH]; intros b0 q1 L1 L2.
  - cbn [repeat]. rewrite run_nil. f_equal; lia.
  - cbn [repeat]. rewrite run_cons.
    replace (step false cap W (mkq b0 q1 0 0 false true) Move) with (mkq (b0 - 1) (S q1) 0 0 false true).
    2:{ unfold step, enabled; simpl.
        assert (X : (0 <? b0) = true) by (apply Nat.ltb_lt; lia). assert (Y : (q1 <? cap) = true) by (apply Nat.ltb_lt; lia).
        rewrite X, Y; reflexivity. }
    rewrite IH by lia. f_equal; lia.
Qed.

Lemma run_takes cap W k : forall b0 q1 r0, k <= q1 -> r0 + k <= W ->
  run false cap W (repeat Take k) (mkq b0 q1 r0 0 false false) = mkq b0 (q1 - k) (r0 + k) 0 false false.
Proof.
  induction k as [|k IH]; intros b0 q1 r0 L1 L2.
  - cbn [repeat]. rewrite run_nil. f_equal; lia.
  - cbn [repeat]. rewrite run_cons.
    replace (step false cap W (mkq b0 q1 r0 0 false false) Take) with (mkq b0 (q1 - 1) (S r0) 0 false false).
    2:{ unfold step, enabled; simpl.
        assert (X : (0 <? q1) = true) by (apply Nat.ltb_lt; lia). assert (Y : (r0 <? W) = true) by (apply Nat.ltb_lt; lia).
        rewrite X, Y; reflexivity. }
    rewrite IH by lia. f_equal; lia.
Qed.

Theorem small_queue_state cap W : cap < W ->
  run false cap W (small_queue_history cap W) q0 = mkq (W - cap) 0 cap 0 false false.
Proof.
  intros L. unfold small_queue_history. destruct W as [|n]; [lia|].
  rewrite run_app. unfold q0. rewrite run_submits. rewrite run_app.
  replace (run false cap (S n) [Wake] (mkq (0 + S n) 0 0 0 true false)) with (mkq (S n) 0 0 0 false true) by reflexivity.
  rewrite run_app, run_moves by lia. rewrite run_app.
  replace (run false cap (S n) [Sleep] (mkq (S n - cap) (0 + cap) 0 0 false true)) with (mkq (S n - cap) cap 0 0 false false).
  2:{ unfold run; simpl. unfold step, enabled; simpl. replace (cap <=? 0 + cap) with true by (symmetry; apply Nat.leb_le; lia).
      rewrite orb_true_r. simpl. f_equal; lia. }
  rewrite run_takes by lia. f_equal; lia.
Qed.

Theorem every_small_queue_starves cap W : cap < W ->
  let s := run false cap W (small_queue_history cap W) q0 in
  settled cap W s = true /\ r s = cap /\ unfinished s = W /\ r s < Nat.min W (unfinished s).
Proof.
  intros L s. unfold s. rewrite (small_queue_state cap W L). unfold settled, enabled, unfinished; simpl.
  repeat split; lia.
Qed.
