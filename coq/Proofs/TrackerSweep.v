(* End-of-life sweep of the resource tracker: everything still counted, once, folders last. *)
From Coq Require Import List String Ascii ZArith Bool Lia FinFun.
From LokyV Require Import Lib.PyLib Lib.StmTac Lib.DictFacts Spec.TrackerSpec Model.TrackerAbs
     Proofs.TrackerRefine.
Import ListNotations.
Open Scope string_scope.

Section S.
Variable keys : list string.

Definition calls (t : string) (inner : dict Z) : list eff :=
  map (fun n => ECall t [n]) (dkeys inner).
Definition nonfolder (reg : registry) : list eff :=
  flat_map (fun kv : string * dict Z =>
              if String.eqb (fst kv) "folder" then [] else calls (fst kv) (snd kv)) reg.
Definition folderpart (reg : registry) : list eff :=
  match dget reg "folder" with Some inner => calls "folder" inner | None => [] end.

Lemma sweep_type_known effs t inner : known keys t = true ->
  sweep_type keys effs t inner = (effs ++ calls t inner)%list.
Proof.
  intros Hk. unfold sweep_type, calls. rewrite Hk. unfold do_cleanup.
  generalize (dkeys inner) as ns. intros ns. revert effs.
  induction ns as [|n ns IH]; intros effs; cbn [fold_left map].
  - rewrite app_nil_r. reflexivity.
  - rewrite IH, <- app_assoc. reflexivity.
Qed.

Lemma In_reg_known reg kv : Inv keys reg -> In kv reg -> known keys (fst kv) = true.
Proof.
  intros (_ & Hk & _) Hin. rewrite <- Hk. apply dmem_dget. apply In_keys_dget.
  unfold dkeys. apply in_map. exact Hin.
Qed.

Lemma sweep_eq reg effs : Inv keys reg ->
  sweep keys reg effs = (effs ++ nonfolder reg ++ folderpart reg)%list.
Proof.
  intros HI. unfold sweep, folderpart.
  assert (H : forall l e, (forall kv, In kv l -> known keys (fst kv) = true) ->
            fold_left (fun e (kv : string * dict Z) =>
                         if String.eqb (fst kv) "folder" then e
                         else sweep_type keys e (fst kv) (snd kv)) l e
            = (e ++ flat_map (fun kv : string * dict Z =>
                                if String.eqb (fst kv) "folder" then [] else calls (fst kv) (snd kv)) l)%list).
  { induction l as [|kv l IH]; intros e Hl; cbn [fold_left flat_map].
    - rewrite app_nil_r. reflexivity.
    - rewrite IH by (intros; apply Hl; right; assumption).
      destruct (String.eqb (fst kv) "folder"); cbn [app]; [reflexivity|].
      rewrite sweep_type_known by (apply Hl; left; reflexivity). rewrite <- app_assoc. reflexivity. }
  rewrite H by (intros kv Hin; eapply In_reg_known; eauto).
  fold (nonfolder reg).
  destruct (dget reg "folder") as [inner|] eqn:Ef.
  - rewrite sweep_type_known, <- app_assoc; [reflexivity|].
    destruct HI as (_ & Hk & _). rewrite <- Hk. apply dmem_dget. eauto.
  - rewrite app_nil_r. reflexivity.
Qed.

Lemma dget_In {V} (d : dict V) k v : dget d k = Some v -> In (k, v) d.
Proof.
  induction d as [|[k' v'] d IH]; cbn; [discriminate|].
  destruct (String.eqb k k') eqn:E; intros H.
  - apply String.eqb_eq in E; subst. inversion H; auto.
  - right. auto.
Qed.
Lemma In_dget {V} (d : dict V) k v : NoDup (dkeys d) -> In (k, v) d -> dget d k = Some v.
Proof.
  induction d as [|[k' v'] d IH]; cbn; [tauto|]. intros Hn [H|H].
  - inversion H; subst. rewrite String.eqb_refl. reflexivity.
  - inversion Hn; subst. destruct (String.eqb k k') eqn:E.
    + apply String.eqb_eq in E; subst. exfalso. apply H2. unfold dkeys.
      change k' with (fst (k', v)). apply in_map. exact H.
    + apply IH; assumption.
Qed.

Lemma in_calls t inner t' n' : In (ECall t' [n']) (calls t inner) <-> t' = t /\ In n' (dkeys inner).
Proof.
  unfold calls. rewrite in_map_iff. split.
  - intros (n & H & Hin). inversion H; subst. auto.
  - intros [-> H]. eauto.
Qed.

(* membership: exactly the keys whose count is still positive *)
Theorem sweep_members reg t n : Inv keys reg ->
  (In (ECall t [n]) (nonfolder reg ++ folderpart reg) <-> 0 < count_of reg (t, n)).
Proof.
  intros HI. pose proof HI as (HN & HK & Hin).
  assert (Hc : 0 < count_of reg (t, n) <-> exists inner, dget reg t = Some inner /\ In n (dkeys inner)).
  { unfold count_of; cbn [fst snd]. destruct (dget reg t) as [inner|] eqn:Eg.
    - destruct (dget inner n) as [z|] eqn:Ez.
      + destruct (Hin _ _ Eg) as [_ Hz]. specialize (Hz _ _ Ez). split; [|lia].
        intros _. exists inner. split; auto. eapply dget_In_keys; eauto.
      + split; [lia|]. intros (in' & H1 & H2). inversion H1; subst.
        apply dget_None_notin in Ez. tauto.
    - split; [lia|]. intros (in' & H1 & _). discriminate. }
  rewrite Hc, in_app_iff. unfold nonfolder, folderpart. rewrite in_flat_map. split.
  - intros [([t0 inner] & Hin0 & H)|H].
    + cbn [fst snd] in H. destruct (String.eqb t0 "folder"); [destruct H|].
      apply in_calls in H. destruct H as [-> H]. exists inner. split; auto. apply In_dget; auto.
    + destruct (dget reg "folder") as [inner|] eqn:Ef; [|destruct H].
      apply in_calls in H. destruct H as [-> H]. eauto.
  - intros (inner & Hg & Hn). destruct (String.eqb t "folder") eqn:Et.
    + apply String.eqb_eq in Et; subst. right. rewrite Hg. apply in_calls. auto.
    + left. exists (t, inner). split; [apply dget_In; assumption|]. cbn [fst snd]. rewrite Et.
      apply in_calls. auto.
Qed.

Lemma NoDup_calls t inner : NoDup (dkeys inner) -> NoDup (calls t inner).
Proof.
  unfold calls. intros H. apply FinFun.Injective_map_NoDup; [|assumption].
  intros a b E. inversion E. reflexivity.
Qed.

(* each still-counted key is destroyed exactly once *)
Theorem sweep_NoDup reg : Inv keys reg -> NoDup (nonfolder reg ++ folderpart reg).
Proof.
  intros HI. pose proof HI as (HN & HK & Hin).
  assert (Hnf : forall l, NoDup (dkeys l) -> (forall kv, In kv l -> NoDup (dkeys (snd kv))) ->
     NoDup (flat_map (fun kv : string * dict Z =>
                        if String.eqb (fst kv) "folder" then [] else calls (fst kv) (snd kv)) l)).
  { induction l as [|[t0 in0] l IH]; cbn [flat_map dkeys map fst]; intros Hn Hi; [constructor|].
    inversion Hn; subst.
    assert (IH' := IH H2 (fun kv H => Hi kv (or_intror H))).
    cbn [fst snd]. destruct (String.eqb t0 "folder"); [exact IH'|].
    apply NoDup_app_intro; [apply NoDup_calls; apply (Hi (t0, in0)); left; reflexivity|exact IH'|].
    intros e He1 He2. unfold calls in He1. apply in_map_iff in He1. destruct He1 as (n & <- & Hn1).
    apply in_flat_map in He2. destruct He2 as ([t1 in1] & Hin1 & He2). cbn [fst snd] in He2.
    destruct (String.eqb t1 "folder"); [destruct He2|].
    apply in_calls in He2. destruct He2 as [-> _]. apply H1. unfold dkeys.
    change t1 with (fst (t1, in1)). apply in_map. exact Hin1. }
  apply NoDup_app_intro.
  - apply Hnf; [exact HN|]. intros [t0 in0] H0. cbn. apply (Hin t0). apply In_dget; auto.
  - unfold folderpart. destruct (dget reg "folder") as [inner|] eqn:Ef; [|constructor].
    apply NoDup_calls. apply (Hin _ _ Ef).
  - intros e H1 H2. unfold nonfolder in H1. apply in_flat_map in H1.
    destruct H1 as ([t1 in1] & _ & H1). cbn [fst snd] in H1.
    destruct (String.eqb t1 "folder") eqn:E1; [destruct H1|].
    unfold calls in H1. apply in_map_iff in H1. destruct H1 as (n & <- & _).
    unfold folderpart in H2. destruct (dget reg "folder"); [|destruct H2].
    apply in_calls in H2. destruct H2 as [-> _]. rewrite String.eqb_refl in E1. discriminate.
Qed.

(* folders are destroyed after every other kind *)
Theorem sweep_folders_last reg :
  Forall (fun e => exists t n, e = ECall t [n] /\ t <> "folder") (nonfolder reg)
  /\ Forall (fun e => exists n, e = ECall "folder" [n]) (folderpart reg).
Proof.
  split; apply Forall_forall; intros e H.
  - unfold nonfolder in H. apply in_flat_map in H. destruct H as ([t in0] & _ & H). cbn [fst snd] in H.
    destruct (String.eqb t "folder") eqn:E; [destruct H|]. unfold calls in H.
    apply in_map_iff in H. destruct H as (n & <- & _). exists t, n. split; auto.
    apply String.eqb_neq. exact E.
  - unfold folderpart in H. destruct (dget reg "folder"); [|destruct H]. unfold calls in H.
    apply in_map_iff in H. destruct H as (n & <- & _). eauto.
Qed.
End S.
