(* C16: wrap_non_picklable_objects, over an abstract object universe with cloudpickle as an oracle.
   The pickling decisions are the GENERATED functions of Gen/Wrapper.v. *)
From Coq Require Import List String Bool Arith Lia.
From LokyV Require Import Lib.PyLib Lib.WrapLib Gen.Wrapper.
Import ListNotations.

Section C16.
Variable obj : Type.
Variable callable : obj -> bool.          (* callable(o) *)
Variable cprt : obj -> obj.               (* cloudpickle.loads(cloudpickle.dumps(o)) on a plain object *)
Variable oeq : obj -> obj -> Prop.        (* behavioural equality of plain objects *)
(* what is assumed of the oracle (recorded in the trusted base): *)
Hypothesis oeq_refl : forall o, oeq o o.
Hypothesis oeq_trans : forall a b c, oeq a b -> oeq b c -> oeq a c.
Hypothesis cprt_faithful : forall o, oeq (cprt o) o.
Hypothesis callable_respects : forall a b, oeq a b -> callable a = callable b.

Definition callable_v (v : pyv obj) : bool :=
  match v with Obj o => callable o | Wrap c _ _ => c end.

(* one pickle round trip (plain pickle and cloudpickle agree on wrappers: both go through __reduce__) *)
Definition apply_reduce (r : reduce_res obj) (rt_payload : pyv obj) : pyv obj :=
  match r with
  | RLoads _ => rt_payload
  | RReconstruct _ keep => gen_reconstruct obj callable_v rt_payload keep
  end.
Fixpoint rt (v : pyv obj) : pyv obj :=
  match v with
  | Obj o => Obj (cprt o)
  | Wrap c inner keep => apply_reduce (gen_reduce obj inner keep) (rt inner)
  end.
(* the payload handed to cloudpickle by the generated __reduce__ is the wrapped object itself *)
Lemma gen_reduce_payload inner keep :
  match gen_reduce obj inner keep with RLoads p => p = inner /\ keep = false
                                 | RReconstruct p k => p = inner /\ k = keep /\ keep = true end.
Proof. unfold gen_reduce. destruct keep; cbn; auto. Qed.

(* behavioural equality of values: same wrapping structure, equal objects at the leaves *)
Fixpoint veq (a b : pyv obj) : Prop :=
  match a, b with
  | Obj x, Obj y => oeq x y
  | Wrap c i k, Wrap c' i' k' => c = c' /\ k = k' /\ veq i i'
  | _, _ => False
  end.
Lemma veq_refl v : veq v v.
Proof. induction v; cbn; auto. Qed.
Lemma veq_trans a : forall b c, veq a b -> veq b c -> veq a c.
Proof.
  induction a as [x|c i IH k]; intros [y|c' i' k'] [z|c'' i'' k'']; cbn; try tauto.
  - apply oeq_trans.
  - intros (-> & -> & H1) (-> & -> & H2). repeat split; auto. eapply IH; eauto.
Qed.
Lemma callable_veq a b : veq a b -> callable_v a = callable_v b.
Proof. destruct a, b; cbn; try tauto. apply callable_respects. Qed.

(* the wrapper is callable iff the object is *)
Theorem wrap_callable_iff x keep : callable_v (gen_wrap obj callable_v x keep) = callable_v x.
Proof. unfold gen_wrap. destruct (callable_v x); reflexivity. Qed.
(* instances of a wrapped class: callable iff the class defines __call__, i.e. iff its instances are callable *)
Theorem class_instance_callable_iff defines_call : gen_class_instance_callable defines_call = defines_call.
Proof. unfold gen_class_instance_callable. destruct defines_call; reflexivity. Qed.

(* strip every wrapper that does not keep itself: what a value "is" after transport *)
Fixpoint norm (v : pyv obj) : pyv obj :=
  match v with
  | Obj o => Obj o
  | Wrap c inner keep => if keep then Wrap (callable_v (norm inner)) (norm inner) keep else norm inner
  end.

(* one round trip yields the normal form, up to the oracle's equivalence *)
Theorem roundtrip v : veq (rt v) (norm v).
Proof.
  induction v as [o|c inner IH keep]; cbn [rt norm].
  - cbn. apply cprt_faithful.
  - unfold gen_reduce, apply_reduce. destruct keep; cbn [negb].
    + unfold gen_reconstruct, gen_wrap. rewrite (callable_veq _ _ IH).
      destruct (callable_v (norm inner)); cbn; auto.
    + exact IH.
Qed.

Lemma norm_idem v : norm (norm v) = norm v.
Proof.
  induction v as [o|c inner IH keep]; cbn; [reflexivity|]. destruct keep; cbn; [|exact IH].
  rewrite IH. reflexivity.
Qed.
Lemma norm_veq a : forall b, veq a b -> veq (norm a) (norm b).
Proof.
  induction a as [x|c i IH k]; intros [y|c' i' k']; cbn; try tauto.
  intros (-> & -> & H). destruct k'; cbn; [|apply IH; exact H].
  rewrite (callable_veq _ _ (IH _ H)). repeat split; auto.
Qed.

(* ... and so do n round trips, n >= 1 (repeated transport changes nothing more) *)
Fixpoint rtn (n : nat) (v : pyv obj) : pyv obj := match n with 0 => v | S k => rt (rtn k v) end.
Theorem iterated_roundtrip n v : veq (rtn (S n) v) (norm v).
Proof.
  induction n as [|n IH]; [apply roundtrip|]. cbn [rtn] in *.
  eapply veq_trans; [apply roundtrip|]. rewrite <- (norm_idem v). apply norm_veq. exact IH.
Qed.

(* the two public cases: keep_wrapper = False arrives unwrapped, True arrives still wrapped, same flag *)
Corollary arrives_unwrapped x : veq (rt (gen_wrap obj callable_v x false)) (norm x).
Proof.
  eapply veq_trans; [apply roundtrip|]. unfold gen_wrap. destruct (callable_v x); cbn; apply veq_refl.
Qed.
Corollary arrives_wrapped x :
  veq (rt (gen_wrap obj callable_v x true)) (Wrap (callable_v (norm x)) (norm x) true).
Proof.
  eapply veq_trans; [apply roundtrip|]. unfold gen_wrap. destruct (callable_v x); cbn; repeat split; apply veq_refl.
Qed.

(* attribute reads are forwarded for every name but the wrapper's own two slots *)
Theorem getattr_forwarded attr : attr <> "_obj"%string -> attr <> "_keep_wrapper"%string -> gen_getattr_forwards attr = true.
Proof.
  intros H1 H2. unfold gen_getattr_forwards. cbn.
  destruct (String.eqb_spec attr "_obj"); [contradiction|]. destruct (String.eqb_spec attr "_keep_wrapper"); [contradiction|].
  reflexivity.
Qed.
End C16.
