(* Inductive invariants of the token-flow model (Model/TokenFlow.v), by counting where each work id is. *)
From Coq Require Import List Arith Bool Lia.
From LokyV Require Import Model.TokenFlow.
Import ListNotations.

Definition b2n (b : bool) : nat := if b then 1 else 0.
Definition ci (i : item) (w : wid) : nat := match i with ICall x => b2n (Nat.eqb x w) | ISent => 0 end.
Fixpoint cnt (l : list wid) (w : wid) : nat :=
  match l with [] => 0 | x :: tl => b2n (Nat.eqb x w) + cnt tl w end.
Fixpoint cis (l : list item) (w : wid) : nat :=
  match l with [] => 0 | i :: tl => ci i w + cis tl w end.
Fixpoint crs (l : list rmsg) (w : wid) : nat :=
  match l with [] => 0 | RRes x :: tl => b2n (Nat.eqb x w) + crs tl w | ROther :: tl => crs tl w end.
Fixpoint sumf {A} (f : A -> wid -> nat) (l : list (nat * A)) (w : wid) : nat :=
  match l with [] => 0 | (_, c) :: tl => f c w + sumf f tl w end.

Definition m_pre (m : mpc) (w : wid) : nat :=
  match m with MGot x | MSkip x => b2n (Nat.eqb x w) | _ => 0 end.
Definition m_post (m : mpc) (w : wid) : nat :=
  match m with MRun x => b2n (Nat.eqb x w) | MPut i | MBuf i => ci i w | _ => 0 end.
Definition m_down (m : mpc) (w : wid) : nat :=
  match m with MRes1 x | MRes2 x => b2n (Nat.eqb x w) | _ => 0 end.
Definition f_post (f : fpc) (w : wid) : nat := match f with FHold i => ci i w | _ => 0 end.
Definition w_post (c : wpc) (w : wid) : nat := match c with WGot i | WHold i => ci i w | _ => 0 end.
Definition w_down (c : wpc) (w : wid) : nat := match c with WRan x => b2n (Nat.eqb x w) | _ => 0 end.
Definition u_pre (c : upc) (w : wid) : nat := match c with UHalf x => b2n (Nat.eqb x w) | _ => 0 end.
Definition u_post (c : upc) (w : wid) : nat := match c with UPut i | UBuf i => ci i w | _ => 0 end.

(* not yet dispatched / dispatched but not executed / executed, result on its way *)
Definition pre (s : state) (w : wid) : nat :=
  sumf u_pre (usr s) w + cnt (work_ids s) w + m_pre (mgr s) w.
Definition post (s : state) (w : wid) : nat :=
  m_post (mgr s) w + cis (buffer s) w + f_post (fdr s) w + cis (cpipe s) w
  + sumf w_post (wrk s) w + sumf u_post (usr s) w.
Definition down (s : state) (w : wid) : nat :=
  sumf w_down (wrk s) w + crs (rpipe s) w + m_down (mgr s) w.
Definition ex (s : state) (w : wid) : nat := cnt (executed s) w.

Definition early (f : option fstate) : Prop :=
  f = Some FPending \/ f = Some FCancelled \/ f = Some (FDone Broken) \/ f = Some (FDone ShutErr).
Definition late (f : option fstate) : Prop :=
  f = Some FRunning \/ exists o, f = Some (FDone o).

Record Inv (s : state) : Prop := {
  i_unique : forall w, pre s w + post s w + down s w <= 1;
  i_notyet : forall w, pre s w + post s w + ex s w <= 1;
  i_down   : forall w, down s w <= ex s w;
  i_fresh  : forall w, next s <= w -> pre s w + post s w + down s w + ex s w = 0 /\ fut s w = None;
  i_known  : forall w, w < next s -> fut s w <> None;
  i_early  : forall w, 1 <= pre s w -> early (fut s w);
  i_late   : forall w, 1 <= post s w -> late (fut s w);
  i_exlate : forall w, 1 <= ex s w -> late (fut s w);
  i_value  : forall w o, fut s w = Some (FDone o) -> (o = Val \/ o = TaskExc) -> 1 <= ex s w
}.

(* ---------- counting lemmas ---------- *)
Lemma cnt_app l x w : cnt (l ++ [x]) w = cnt l w + b2n (Nat.eqb x w).
Proof. induction l; cbn; lia. Qed.
Lemma cis_app l i w : cis (l ++ [i]) w = cis l w + ci i w.
Proof. induction l; cbn; lia. Qed.
Lemma crs_app_res l x w : crs (l ++ [RRes x]) w = crs l w + b2n (Nat.eqb x w).
Proof. induction l as [|[y|] l IH]; cbn; lia. Qed.
Lemma crs_app_other l w : crs (l ++ [ROther]) w = crs l w.
Proof. induction l as [|[y|] l IH]; cbn; lia. Qed.

(* replacing the entry of key k: the sum loses the old contribution and gains the new one *)
Lemma sumf_update {A} (f : A -> wid -> nat) (dflt : A) (l : list (nat * A)) k v w :
  f dflt w = 0 ->
  sumf f (update l k v) w + f (match lookup l k with Some c => c | None => dflt end) w
  = sumf f l w + f v w.
Proof.
  intros Hd. induction l as [|[k' c] l IH]; cbn.
  - lia.
  - destruct (Nat.eqb k k'); cbn; lia.
Qed.

Lemma lookup_update_same {A} (l : list (nat * A)) k v : lookup (update l k v) k = Some v.
Proof.
  induction l as [|[k' c] l IH]; cbn; [rewrite Nat.eqb_refl; reflexivity|].
  destruct (Nat.eqb k k') eqn:E; cbn; rewrite E; auto.
Qed.
Lemma lookup_update_other {A} (l : list (nat * A)) k k' v : k' <> k -> lookup (update l k v) k' = lookup l k'.
Proof.
  intros Hne. induction l as [|[k0 c] l IH]; cbn.
  - destruct (Nat.eqb_spec k' k); [contradiction|reflexivity].
  - destruct (Nat.eqb_spec k k0); cbn.
    + subst. destruct (Nat.eqb_spec k' k0); [contradiction|reflexivity].
    + destruct (Nat.eqb k' k0); auto.
Qed.

Lemma b2n_eqb_refl x : b2n (Nat.eqb x x) = 1.
Proof. rewrite Nat.eqb_refl. reflexivity. Qed.
Lemma b2n_le x w : b2n (Nat.eqb x w) <= 1.
Proof. destruct (Nat.eqb x w); cbn; lia. Qed.
Lemma b2n_pos x w : 1 <= b2n (Nat.eqb x w) -> x = w.
Proof. destruct (Nat.eqb_spec x w); cbn; [auto|lia]. Qed.

(* fail_all only turns non-terminal futures into Done o *)
Lemma fail_all_spec ws o : forall fs w,
  lookup (fail_all fs ws o) w = lookup fs w
  \/ (exists f, lookup fs w = Some f /\ terminal f = false /\ lookup (fail_all fs ws o) w = Some (FDone o)).
Proof.
  induction ws as [|x ws IH]; intros fs w; cbn; [auto|].
  destruct (lookup fs x) as [f|] eqn:Ex; [|apply IH].
  destruct (terminal f) eqn:Et; [apply IH|].
  destruct (IH (update fs x (FDone o)) w) as [H|(f' & H1 & H2 & H3)].
  - destruct (Nat.eq_dec w x) as [->|Hne].
    + right. exists f. rewrite H, lookup_update_same. auto.
    + left. rewrite H. apply lookup_update_other. assumption.
  - destruct (Nat.eq_dec w x) as [->|Hne].
    + rewrite lookup_update_same in H1. inversion H1; subst. discriminate.
    + right. exists f'. rewrite lookup_update_other in H1 by assumption. auto.
Qed.

(* ---------- pointwise form ---------- *)
Definition InvAt (s : state) (w : wid) : Prop :=
  pre s w + post s w + down s w <= 1
  /\ pre s w + post s w + ex s w <= 1
  /\ down s w <= ex s w
  /\ (next s <= w -> pre s w + post s w + down s w + ex s w = 0 /\ fut s w = None)
  /\ (w < next s -> fut s w <> None)
  /\ (1 <= pre s w -> early (fut s w))
  /\ (1 <= post s w -> late (fut s w))
  /\ (1 <= ex s w -> late (fut s w))
  /\ (forall o, fut s w = Some (FDone o) -> (o = Val \/ o = TaskExc) -> 1 <= ex s w).

Lemma Inv_pointwise s : Inv s <-> forall w, InvAt s w.
Proof.
  split.
  - intros [H1 H2 H3 H4 H5 H6 H7 H8 H9] w. unfold InvAt. repeat split; auto; try apply H4; auto.
    intros o; apply H9.
  - intros H. constructor; intros w; destruct (H w) as (H1&H2&H3&H4&H5&H6&H7&H8&H9); auto.
Qed.

Lemma InvAt_init cap w : InvAt (init cap) w.
Proof.
  unfold InvAt, pre, post, down, ex, fut, early, late; cbn. repeat split; try lia; try discriminate.
  all: intros; try lia; try discriminate.
Qed.

Ltac fields :=
  unfold pre, post, down, ex, fut in *;
  cbn [next futs pending work_ids running buffer cpipe rpipe slot executed mgr fdr wrk usr
       set_futs set_pending set_work_ids set_running set_buffer set_cpipe set_rpipe set_slot
       set_executed set_mgr set_fdr set_wrk set_usr set_next
       m_pre m_post m_down f_post w_post w_down u_pre u_post ci cnt cis crs] in *.

(* facts about the entry of worker p / user u that a step rewrites *)
Ltac wrk_upd s p c w :=
  let H1 := fresh "Hwp" in let H2 := fresh "Hwd" in
  pose proof (sumf_update w_post (WDead false) (wrk s) p c w eq_refl) as H1;
  pose proof (sumf_update w_down (WDead false) (wrk s) p c w eq_refl) as H2.
Ltac usr_upd s u c w :=
  let H1 := fresh "Hup" in let H2 := fresh "Huq" in
  pose proof (sumf_update u_pre UIdle (usr s) u c w eq_refl) as H1;
  pose proof (sumf_update u_post UIdle (usr s) u c w eq_refl) as H2.

Ltac split_eqb :=
  repeat match goal with
         | |- context[Nat.eqb ?x ?y] => destruct (Nat.eqb_spec x y); subst
         | H : context[Nat.eqb ?x ?y] |- _ => destruct (Nat.eqb_spec x y); subst
         end; cbn [b2n] in *.

Ltac rw_guards :=
  repeat match goal with
         | H : mgr _ = _ |- _ => rewrite H in *; clear H
         | H : fdr _ = _ |- _ => rewrite H in *; clear H
         | H : work_ids _ = _ |- _ => rewrite H in *; clear H
         | H : rpipe _ = _ |- _ => rewrite H in *; clear H
         | H : buffer _ = _ |- _ => rewrite H in *; clear H
         | H : cpipe _ = _ |- _ => rewrite H in *; clear H
         | H : match lookup (wrk _) _ with _ => _ end = _ |- _ => rewrite H in *; clear H
         | H : match lookup (usr _) _ with _ => _ end = _ |- _ => rewrite H in *; clear H
         | H : lookup (wrk _) _ = _ |- _ => rewrite H in *; clear H
         end.

Ltac fin H4 H5 H6 H7 H8 H9 :=
  split_eqb;
  first [ lia
        | (destruct H4 as [_ HH]; [lia | exact HH])
        | (apply H5; lia)
        | (apply H6; lia)
        | (apply H7; lia)
        | (apply H8; lia)
        | (eapply H9; [eassumption | assumption]) ].

(* a step that only moves / destroys tokens and leaves futs, next and executed alone *)
Ltac move_case s w IH :=
  destruct (IH w) as (H1 & H2 & H3 & H4 & H5 & H6 & H7 & H8 & H9);
  unfold InvAt; fields; rw_guards; fields;
  rewrite ?cnt_app, ?cis_app, ?crs_app_res, ?crs_app_other in *;
  repeat split; intros; fin H4 H5 H6 H7 H8 H9.

Ltac fut_split w w0 :=
  destruct (Nat.eq_dec w w0) as [->|Hne];
  [ rewrite ?lookup_update_same in * | rewrite ?lookup_update_other in * by assumption ].

Ltac open_inv IH w :=
  destruct (IH w) as (H1 & H2 & H3 & H4 & H5 & H6 & H7 & H8 & H9);
  unfold InvAt; fields; rw_guards; fields;
  rewrite ?cnt_app, ?cis_app, ?crs_app_res, ?crs_app_other in *.

Ltac absurd_late H := exfalso; let E := fresh in let o := fresh in destruct H as [E|[o E]]; congruence.
Ltac absurd_early H := exfalso; let E := fresh in destruct H as [E|[E|[E|E]]]; congruence.

Ltac fin2 H4 H5 H6 H7 H8 H9 :=
  split_eqb;
  first [ lia | discriminate | congruence
        | (destruct H4 as [_ HH]; [lia | first [exact HH | congruence]])
        | (apply H5; lia) | (apply H6; lia) | (apply H7; lia) | (apply H8; lia)
        | (eapply H9; [eassumption | assumption])
        | (match goal with Hf : lookup _ _ = Some (FDone ?o), Ho : ?o = Val \/ ?o = TaskExc |- _ =>
             pose proof (H9 o Hf Ho); lia end)
        | (unfold early; tauto)
        | (unfold late; first [left; reflexivity | right; eexists; reflexivity])
        | (exfalso; lia)
        | (absurd_late (H7 ltac:(lia)))
        | (absurd_late (H8 ltac:(lia)))
        | (absurd_early (H6 ltac:(lia)))
        | (match goal with H : Some (FDone ?a) = Some (FDone ?b) |- _ => inversion H; subst end;
           match goal with H : _ = Val \/ _ = TaskExc |- _ => destruct H; discriminate end) ].

Lemma step_inv s l s' : (forall w, InvAt s w) -> step s l = Some s' -> forall w, InvAt s' w.
Proof.
  intros IH Hs w. destruct l; cbn [step] in Hs.
  all: repeat match type of Hs with
       | match ?x with _ => _ end = Some _ => destruct x eqn:?; try discriminate
       | (if ?x then _ else _) = Some _ => destruct x eqn:?; try discriminate
       end.
  all: inversion Hs; subst s'; clear Hs.
  all: unfold wpc_of, upc_of in *.
  all: try match goal with |- context[update (wrk ?s0) ?p ?c] => match goal with |- InvAt _ ?w0 => wrk_upd s0 p c w0 end end.
  all: try match goal with |- context[update (usr ?s0) ?p ?c] => match goal with |- InvAt _ ?w0 => usr_upd s0 p c w0 end end.
  all: try (match goal with IH0 : forall w, InvAt ?s0 w |- InvAt _ ?w0 => move_case s0 w0 IH0 end; fail).
  - (* USubmitA *)
    pose proof (IH (next s)) as Hn. destruct Hn as (_ & _ & _ & Hn4 & _).
    destruct (Hn4 (le_n _)) as [Hz Hnone]. unfold pre, post, down, ex, fut in Hz, Hnone.
    open_inv IH w. fut_split w (next s).
    + rewrite b2n_eqb_refl in *. repeat split; intros; fin2 H4 H5 H6 H7 H8 H9.
    + assert (b2n (Nat.eqb (next s) w) = 0) as Hb by (destruct (Nat.eqb_spec (next s) w); [congruence|reflexivity]).
      rewrite Hb in *. repeat split; intros; fin2 H4 H5 H6 H7 H8 H9.
  - (* UCancel *)
    unfold fut in *. open_inv IH w. fut_split w w0; repeat split; intros; fin2 H4 H5 H6 H7 H8 H9.
  - (* MSetRunning, pending -> running *)
    unfold fut in *. open_inv IH w. fut_split w w0.
    + rewrite b2n_eqb_refl in *. repeat split; intros; fin2 H4 H5 H6 H7 H8 H9.
    + assert (b2n (Nat.eqb w0 w) = 0) as Hb by (destruct (Nat.eqb_spec w0 w); [congruence|reflexivity]).
      rewrite Hb in *. repeat split; intros; fin2 H4 H5 H6 H7 H8 H9.
  - (* MSetFuture Val *)
    unfold fut in *. open_inv IH w. fut_split w w0.
    + rewrite b2n_eqb_refl in *. repeat split; intros; fin2 H4 H5 H6 H7 H8 H9.
    + assert (b2n (Nat.eqb w0 w) = 0) as Hb by (destruct (Nat.eqb_spec w0 w); [congruence|reflexivity]).
      rewrite Hb in *. repeat split; intros; fin2 H4 H5 H6 H7 H8 H9.
  - (* MSetFuture TaskExc *)
    unfold fut in *. open_inv IH w. fut_split w w0.
    + rewrite b2n_eqb_refl in *. repeat split; intros; fin2 H4 H5 H6 H7 H8 H9.
    + assert (b2n (Nat.eqb w0 w) = 0) as Hb by (destruct (Nat.eqb_spec w0 w); [congruence|reflexivity]).
      rewrite Hb in *. repeat split; intros; fin2 H4 H5 H6 H7 H8 H9.
  - (* MFailAll Broken *)
    open_inv IH w.
    destruct (fail_all_spec (pending s) Broken (futs s) w) as [E|(f & E1 & E2 & E3)].
    + rewrite E. repeat split; intros; fin2 H4 H5 H6 H7 H8 H9.
    + rewrite E3. repeat split; intros; fin2 H4 H5 H6 H7 H8 H9.
  - (* MFailOne, non-terminal *)
    unfold fut in *. open_inv IH w. fut_split w w0; repeat split; intros; fin2 H4 H5 H6 H7 H8 H9.
  - (* FErrSet *)
    unfold fut in *. open_inv IH w. fut_split w w0; repeat split; intros; fin2 H4 H5 H6 H7 H8 H9.
  - (* WExec *)
    open_inv IH w.
    assert (Hl : 1 <= b2n (Nat.eqb w0 w) -> late (lookup (futs s) w)) by (intros Hb; apply H7; lia).
    repeat split; intros; first [fin2 H4 H5 H6 H7 H8 H9 | (apply Hl; split_eqb; lia)].
Qed.
