From Coq Require Import List Arith Bool Lia.
From LokyV Require Import Lib.LockLib Gen.LockOrder Model.LockOrder.
Import ListNotations.

Lemma max_exists {A} (f : A -> nat) (l : list A) : l <> [] -> exists x, In x l /\ forall y, In y l -> f y <= f x.
Proof.
  induction l as [|a l IH]; intros N; [contradiction|].
  destruct l as [|b l'].
  - exists a. split; [left; reflexivity|]. intros y [<-|[]]. lia.
  - destruct IH as (x & Hx & Hm); [discriminate|].
    destruct (le_lt_dec (f a) (f x)) as [L|L].
    + exists x. split; [right; exact Hx|]. intros y [<-|Hy]; [exact L | apply Hm, Hy].
    + exists a. split; [left; reflexivity|]. intros y [<-|Hy]; [lia | specialize (Hm y Hy); lia].
Qed.

(* ---- the general theorem: rank discipline excludes circular waits ---- *)
Theorem no_circular_wait (rank : lk -> nat) (d : list thread) :
  (forall t, In t d -> disciplined rank t) -> ~ deadlocked d.
Proof.
  intros Disc [NE W].
  set (f := fun t => match wants t with Some w => rank w | None => 0 end).
  destruct (max_exists f d NE) as (t & Ht & Hmax).
  destruct (W t Ht) as (w & t' & Hw & Ht' & Hold).
  destruct (W t' Ht') as (w' & t'' & Hw' & _ & _).
  pose proof (Disc t' Ht' w w' Hold Hw') as R.
  specialize (Hmax t' Ht'). unfold f in Hmax. rewrite Hw, Hw' in Hmax. lia.
Qed.

(* a rank that respects a relation increases along every path of it *)
Lemma respects_path rank es : respects rank es = true -> forall a b, path es a b -> rank a < rank b.
Proof.
  intros R a b P. unfold respects in R. rewrite forallb_forall in R.
  induction P as [a b I | a b c I _ IH].
  - apply Nat.ltb_lt. exact (R (a, b) I).
  - pose proof (R (a, b) I) as X. apply Nat.ltb_lt in X. simpl in X. lia.
Qed.

(* ---- the instance read off the source ---- *)
Lemma certificate_ok : respects lock_rank kept = true.
Proof. vm_compute. reflexivity. Qed.

(* threads that enter locks only along paths of the generated relation (the excluded edge aside) are never in a circular wait *)
Theorem loky_threads_never_wait_in_a_circle (d : list thread) :
  (forall t h w, In t d -> In h (holds t) -> wants t = Some w -> path kept h w) -> ~ deadlocked d.
Proof.
  intros P. apply (no_circular_wait lock_rank). intros t Ht h w Hh Hw.
  apply (respects_path lock_rank kept certificate_ok). exact (P t h w Ht Hh Hw).
Qed.

(* done-callbacks never run under one of the executor's own locks (a callback that submits would re-enter it):
   nothing but the pseudo-lock of the thread that runs them is held when a future is completed *)
Lemma callbacks_run_outside_the_locks :
  forallb (fun e => negb (lk_eqb (snd e) UserCb) || lk_eqb (fst e) TMgr) lock_edges = true.
Proof. vm_compute. reflexivity. Qed.

(* the manager thread never needs a lock under which it is joined or polled for, other than through the excluded edge *)
Lemma manager_is_joined_safely :
  forallb (fun e => negb (lk_eqb (fst e) TMgr) || negb (edge_in (snd e, TMgr) kept)) kept = true.
Proof. vm_compute. reflexivity. Qed.

(* H15: with the excluded edge the relation has a cycle -- the resizing thread holds _submit_resize_lock and polls for the manager,
   the manager runs a done-callback, the callback's submit() needs _submit_resize_lock *)
Example h15_cycle :
  In (LFactory, TMgr) lock_edges /\ In (TMgr, UserCb) lock_edges /\ In (UserCb, LFactory) lock_edges
  /\ lock_cycle_found = [LFactory; TMgr; UserCb] /\ submit_resize_lock_is_the_factory_lock = true.
Proof. vm_compute. repeat split; tauto. Qed.
Theorem full_relation_refuted : ~ exists rank, respects rank lock_edges = true.
Proof.
  intros [rank R]. unfold respects in R. rewrite forallb_forall in R.
  destruct h15_cycle as (A & B & C & _ & _).
  pose proof (R _ A) as X. pose proof (R _ B) as Y. pose proof (R _ C) as Z.
  apply Nat.ltb_lt in X, Y, Z. simpl in X, Y, Z. lia.
Qed.

(* non-vacuity: a configuration that follows the relation, and one that does not and IS a circular wait *)
Example a_disciplined_configuration :
  let user := mkthread [LFactory; LGlobal] (Some TMgr) in
  let mgr := mkthread [TMgr] (Some LMgmt) in
  (forall t h w, In t [user; mgr] -> In h (holds t) -> wants t = Some w -> path kept h w).
Proof.
  intros user mgr t h w [<-|[<-|[]]] Hh Hw; simpl in *; inversion Hw; subst.
  - destruct Hh as [<-|[<-|[]]]; apply path_one; vm_compute; tauto.
  - destruct Hh as [<-|[]]. apply path_one; vm_compute; tauto.
Qed.
Example the_h15_configuration_is_a_circular_wait :
  deadlocked [mkthread [LFactory] (Some TMgr); mkthread [TMgr; UserCb] (Some LFactory)].
Proof.
  split; [discriminate|]. intros t [<-|[<-|[]]].
  - exists TMgr, (mkthread [TMgr; UserCb] (Some LFactory)). simpl. tauto.
  - exists LFactory, (mkthread [LFactory] (Some TMgr)). simpl. tauto.
Qed.
