(* Theorems of the token-flow model, for every reachable state (any number of tasks, workers,
   user threads; any interleaving; any placement of worker deaths). *)
From Coq Require Import List Arith Bool Lia.
From LokyV Require Import Model.TokenFlow Proofs.TokenFlowInv.
Import ListNotations.

Theorem reachable_inv cap s : reachable cap s -> forall w, InvAt s w.
Proof.
  induction 1 as [|s l s' Hr IH Hs]; [apply InvAt_init|]. eapply step_inv; eauto.
Qed.

Lemma cnt_In l w : 1 <= cnt l w <-> In w l.
Proof.
  induction l as [|x l IH]; cbn; [split; [lia|tauto]|].
  destruct (Nat.eqb_spec x w); cbn; split; intros H; auto; try lia.
  - right. apply IH. lia.
  - destruct H as [H|H]; [congruence|]. apply IH in H. lia.
Qed.
Lemma cnt_NoDup l : (forall w, cnt l w <= 1) -> NoDup l.
Proof.
  induction l as [|x l IH]; intros H; constructor.
  - intros Hin. apply cnt_In in Hin. specialize (H x). cbn in H. rewrite Nat.eqb_refl in H. cbn in H. lia.
  - apply IH. intros w. specialize (H w). cbn in H. lia.
Qed.

(* a task body is executed at most once *)
Theorem at_most_once cap s : reachable cap s -> NoDup (executed s).
Proof.
  intros Hr. apply cnt_NoDup. intros w. destruct (reachable_inv cap s Hr w) as (_ & H2 & _).
  unfold ex in H2. lia.
Qed.

(* ... and never if its future is cancelled (cancel() returned True) *)
Theorem cancelled_never_executed cap s w :
  reachable cap s -> fut s w = Some FCancelled -> ~ In w (executed s).
Proof.
  intros Hr Hc Hin. apply cnt_In in Hin.
  destruct (reachable_inv cap s Hr w) as (_ & _ & _ & _ & _ & _ & _ & H8 & _).
  destruct (H8 Hin) as [E|[o E]]; congruence.
Qed.

(* a cancelled future stays cancelled *)
Lemma lookup_fail_all_terminal ws o : forall fs w f,
  lookup fs w = Some f -> terminal f = true -> lookup (fail_all fs ws o) w = Some f.
Proof.
  intros fs w f Hl Ht. destruct (fail_all_spec ws o fs w) as [E|(f' & E1 & E2 & _)]; [congruence|].
  rewrite Hl in E1. inversion E1; subst. congruence.
Qed.
Theorem cancelled_is_final s l s' w :
  (forall w, InvAt s w) -> step s l = Some s' -> fut s w = Some FCancelled -> fut s' w = Some FCancelled.
Proof.
  intros IH Hs Hc. unfold fut in *. destruct l; cbn [step] in Hs.
  all: repeat match type of Hs with
       | match ?x with _ => _ end = Some _ => destruct x eqn:?; try discriminate
       | (if ?x then _ else _) = Some _ => destruct x eqn:?; try discriminate
       end.
  all: inversion Hs; subst s'; clear Hs; cbn; try assumption.
  all: unfold fut in *.
  all: try (match goal with |- lookup (update _ ?k _) _ = _ =>
             destruct (Nat.eq_dec w k) as [->|Hne];
             [congruence | rewrite lookup_update_other by assumption; assumption] end).
  - (* USubmitA: the new id is fresh *)
    destruct (Nat.eq_dec w (next s)) as [->|Hne]; [|rewrite lookup_update_other by assumption; assumption].
    destruct (IH (next s)) as (_ & _ & _ & H4 & _). destruct (H4 (le_n _)) as [_ Hn]. unfold fut in Hn. congruence.
  - apply lookup_fail_all_terminal; auto.
  - destruct (Nat.eq_dec w w0) as [->|Hne]; [|rewrite lookup_update_other by assumption; assumption].
    match goal with H : lookup (futs s) w0 = Some ?f, H' : terminal ?f = false |- _ =>
      rewrite Hc in H; inversion H; subst; discriminate H' end.
Qed.

(* a value (or a task exception) in a future was produced by executing that very task *)
Theorem result_comes_from_its_own_execution cap s w o :
  reachable cap s -> fut s w = Some (FDone o) -> (o = Val \/ o = TaskExc) -> In w (executed s).
Proof.
  intros Hr Hf Ho. apply cnt_In.
  destruct (reachable_inv cap s Hr w) as (_ & _ & _ & _ & _ & _ & _ & _ & H9). eapply H9; eauto.
Qed.

(* a work id is in at most one place of the pipeline, and once executed it is nowhere upstream *)
Theorem token_unique cap s w :
  reachable cap s -> pre s w + post s w + down s w <= 1 /\ (In w (executed s) -> pre s w + post s w = 0).
Proof.
  intros Hr. destruct (reachable_inv cap s Hr w) as (H1 & H2 & _). split; [assumption|].
  intros Hin. apply cnt_In in Hin. unfold ex in H2. lia.
Qed.

(* ---------- queue slots are conserved (C04): no failure path leaks or double-releases one ---------- *)
Definition one {A} (_ : A) (_ : wid) : nat := 1.
Definition m_buf (m : mpc) (_ : wid) : nat := match m with MBuf _ => 1 | _ => 0 end.
Definition u_buf (c : upc) (_ : wid) : nat := match c with UBuf _ => 1 | _ => 0 end.
Definition f_hold (f : fpc) (_ : wid) : nat := match f with FHold _ => 1 | _ => 0 end.
Definition w_got (c : wpc) (_ : wid) : nat := match c with WGot _ | WDead true => 1 | _ => 0 end.

Definition slots (s : state) : nat :=
  slot s + length (buffer s) + length (cpipe s) + m_buf (mgr s) 0 + f_hold (fdr s) 0
  + sumf w_got (wrk s) 0 + sumf u_buf (usr s) 0.

Theorem slots_conserved s l s' : step s l = Some s' -> slots s' = slots s.
Proof.
  intros Hs. destruct l; cbn [step] in Hs.
  all: repeat match type of Hs with
       | match ?x with _ => _ end = Some _ => destruct x eqn:?; try discriminate
       | (if ?x then _ else _) = Some _ => destruct x eqn:?; try discriminate
       end.
  all: inversion Hs; subst s'; clear Hs.
  all: unfold wpc_of, upc_of in *.
  all: try match goal with |- context[update (wrk ?s0) ?p ?c] =>
         pose proof (sumf_update w_got (WDead false) (wrk s0) p c 0 eq_refl) end.
  all: try match goal with |- context[update (usr ?s0) ?p ?c] =>
         pose proof (sumf_update u_buf UIdle (usr s0) p c 0 eq_refl) end.
  all: unfold slots;
    cbn [next futs pending work_ids running buffer cpipe rpipe slot executed mgr fdr wrk usr
         set_futs set_pending set_work_ids set_running set_buffer set_cpipe set_rpipe set_slot
         set_executed set_mgr set_fdr set_wrk set_usr set_next] in *.
  all: rw_guards; cbn [m_buf f_hold w_got u_buf length] in *; rewrite ?app_length in *; cbn [length] in *.
  all: try lia.
Qed.

Theorem slots_invariant cap s : reachable cap s -> slots s = cap.
Proof.
  induction 1 as [|s l s' Hr IH Hs]; [unfold slots; cbn; lia|]. rewrite (slots_conserved _ _ _ Hs). exact IH.
Qed.

(* ---------- containment (C04): the failure paths touch one future only ---------- *)
Definition subject (s : state) (l : label) : option wid :=
  match l with
  | USubmitA _ => Some (next s)
  | UCancel w => Some w
  | MSetRunning => match mgr s with MGot w => Some w | _ => None end
  | MSetFuture _ => match mgr s with MRes2 w => Some w | _ => None end
  | MFailOne => match mgr s with MFail w => Some w | _ => None end
  | FErrSet => match fdr s with FErr3 w _ => Some w | _ => None end
  | _ => None
  end.
Definition mass_failure (l : label) : bool := match l with MFailAll _ => true | _ => false end.

Theorem one_future_per_step s l s' w :
  step s l = Some s' -> mass_failure l = false -> subject s l <> Some w -> fut s' w = fut s w.
Proof.
  intros Hs Hm Hsub. unfold fut. destruct l; try discriminate Hm; cbn [step] in Hs; cbn [subject] in Hsub.
  all: repeat match type of Hs with
       | match ?x with _ => _ end = Some _ => destruct x eqn:?; try discriminate
       | (if ?x then _ else _) = Some _ => destruct x eqn:?; try discriminate
       end.
  all: inversion Hs; subst s'; clear Hs; cbn; try reflexivity.
  all: try (apply lookup_update_other; intros ->; apply Hsub; reflexivity).
Qed.
