(* What the generated exit-code naming and formatting (Gen/Exit.v) compute, on posix. *)
From Coq Require Import List String ZArith Bool Lia.
From LokyV Require Import Lib.ExitLib Gen.Exit.
Import ListNotations.
Open Scope string_scope.
Open Scope Z_scope.

Section S.
Variable sig : Z -> option string.      (* signal.Signals(n).name; None = ValueError *)
Definition name (e : Z) : string := name_of exitcode_name_prog false sig e.

Lemma name_cases e :
  name e = if e <? 0 then match sig (- e) with Some n => n | None => "UNKNOWN" end
           else if e =? 255 then "UNKNOWN" else "EXIT".
Proof.
  unfold name, name_of, exitcode_name_prog. cbn [nexec app]. destruct (e <? 0) eqn:N.
  - destruct (sig (- e)); reflexivity.
  - cbn [nexec app]. destruct (e =? 255); reflexivity.
Qed.

Theorem name_of_a_signal e n : e < 0 -> sig (- e) = Some n -> name e = n.
Proof. intros H S. rewrite name_cases. apply Z.ltb_lt in H. rewrite H, S. reflexivity. Qed.
Theorem name_of_an_unknown_signal e : e < 0 -> sig (- e) = None -> name e = "UNKNOWN".
Proof. intros H S. rewrite name_cases. apply Z.ltb_lt in H. rewrite H, S. reflexivity. Qed.
Theorem name_of_an_exit_status e : 0 <= e -> e <> 255 -> name e = "EXIT".
Proof.
  intros H N. rewrite name_cases. destruct (Z.ltb_spec e 0); [lia|]. destruct (Z.eqb_spec e 255); [lia|]. reflexivity.
Qed.
Theorem name_of_255 : name 255 = "UNKNOWN".
Proof. rewrite name_cases. reflexivity. Qed.

(* the string put into the TerminatedWorkerError: every exit code that is not None, in order, with its name *)
Definition format_exitcodes (codes : list (option Z)) : string := format_with exitcodes_fmt exitcode_name_prog false sig codes.
Theorem format_names_every_exit_code codes :
  format_exitcodes codes = "{" ++ String.concat ", " (map (fun e => name e ++ "(" ++ dec e ++ ")") (somes codes)) ++ "}".
Proof. unfold format_exitcodes, format_with, exitcodes_fmt, name. cbn [f_open f_sep f_lpar f_rpar f_close]. reflexivity. Qed.
End S.

Lemma structure_ok : exit_codes_of_all_registered_workers_are_collected_with_bounded_polling = true /\ terminated_worker_error_names_the_exit_codes = true
                     /\ f_skips_none exitcodes_fmt = true.
Proof. repeat split; reflexivity. Qed.

Example format_example :
  format_exitcodes (fun n => if n =? 9 then Some "SIGKILL" else if n =? 11 then Some "SIGSEGV" else None) [Some (-9); None; Some 3; Some 255; Some (-77); Some 0]
  = "{SIGKILL(-9), EXIT(3), UNKNOWN(255), UNKNOWN(-77), EXIT(0)}".
Proof. vm_compute. reflexivity. Qed.
