From Coq Require Import List Arith Bool Lia Permutation.
From LokyV Require Import Lib.KillTreeLib Gen.KillTree Model.KillTree.
Import ListNotations.

(* ---- induction over process trees ---- *)
Section Ind.
  Variable P : ptree -> Prop.
  Hypothesis H : forall p l cs, Forall P cs -> P (PNode p l cs).
  Fixpoint ptree_ind' (t : ptree) : P t :=
    match t with
    | PNode p l cs =>
        H p l cs ((fix go (cs : list ptree) : Forall P cs :=
                     match cs with [] => Forall_nil P | c :: r => Forall_cons c (ptree_ind' c) (go r) end) cs)
    end.
End Ind.

(* ---- "before" ---- *)
Lemma before_app_l l l' x y : before l x y -> before (l ++ l') x y.
Proof. intros (l1 & l2 & l3 & E). exists l1, l2, (l3 ++ l'). subst. repeat (rewrite <- app_assoc; simpl). reflexivity. Qed.
Lemma before_app_r l l' x y : before l x y -> before (l' ++ l) x y.
Proof. intros (l1 & l2 & l3 & E). exists (l' ++ l1), l2, l3. subst. rewrite <- app_assoc. reflexivity. Qed.
Lemma before_split l l' x y : In x l -> In y l' -> before (l ++ l') x y.
Proof.
  intros Hx Hy. apply in_split in Hx as (a1 & a2 & E1). apply in_split in Hy as (b1 & b2 & E2). subst.
  exists a1, (a2 ++ b1), b2. repeat (rewrite <- app_assoc; simpl). reflexivity.
Qed.
Lemma before_rev l x y : before l x y -> before (rev l) y x.
Proof.
  intros (l1 & l2 & l3 & E). exists (rev l3), (rev l2), (rev l1). subst.
  repeat (rewrite rev_app_distr; simpl). repeat (rewrite <- app_assoc; simpl). reflexivity.
Qed.

(* ---- segments of flat_map / of the reversed concatenation ---- *)
Lemma flat_map_segment {A B} (f : A -> list B) cs c : In c cs -> exists X Y, flat_map f cs = X ++ f c ++ Y.
Proof. intros Hc. apply in_split in Hc as (a & b0 & E). subst. exists (flat_map f a), (flat_map f b0). rewrite flat_map_app. reflexivity. Qed.

Definition revcat (cs : list ptree) : list nat := fold_right (fun c acc => acc ++ psutil_listing c) [] cs.
Lemma revcat_segment cs c : In c cs -> exists X Y, revcat cs = X ++ psutil_listing c ++ Y.
Proof.
  induction cs as [|a r IH]; intros Hc; [destruct Hc|]. change (revcat (a :: r)) with (revcat r ++ psutil_listing a). destruct Hc as [E|Hc].
  - subst. exists (revcat r), []. rewrite app_nil_r. reflexivity.
  - destruct (IH Hc) as (X & Y & E). exists X, (Y ++ psutil_listing a). rewrite E. repeat rewrite <- app_assoc. reflexivity.
Qed.
Lemma revcat_in cs x : In x (revcat cs) <-> exists c, In c cs /\ In x (psutil_listing c).
Proof.
  induction cs as [|a r IH].
  - simpl. split; [intros []|intros (c & [] & _)].
  - change (revcat (a :: r)) with (revcat r ++ psutil_listing a). rewrite in_app_iff, IH. split.
    + intros [(c & Hc & Hx)|Hx]; [exists c; split; [right; exact Hc|exact Hx] | exists a; split; [left; reflexivity|exact Hx]].
    + intros (c & [E|Hc] & Hx); [subst; right; exact Hx | left; exists c; split; assumption].
Qed.
Lemma psutil_listing_eq p l cs : psutil_listing (PNode p l cs) = map root cs ++ revcat cs.
Proof. reflexivity. Qed.

Lemma before_segment l X Y x y : before l x y -> before (X ++ l ++ Y) x y.
Proof. intros Hb. apply before_app_r, before_app_l, Hb. Qed.

(* ---- the specification: children first, everything once ---- *)
Lemma flat_map_perm {A} (f g : A -> list nat) cs : Forall (fun c => Permutation (f c) (g c)) cs -> Permutation (flat_map f cs) (flat_map g cs).
Proof. induction 1 as [|c r Hc _ IH]; simpl; [constructor|]. apply Permutation_app; assumption. Qed.

Theorem postorder_perm : forall u, Permutation (postorder u) (pids u).
Proof.
  apply ptree_ind'. intros p l cs IH. simpl. apply Permutation_sym, Permutation_cons_app. rewrite app_nil_r.
  apply Permutation_sym, flat_map_perm, IH.
Qed.
Lemma postorder_in u x : In x (postorder u) <-> In x (pids u).
Proof. split; apply Permutation_in; [|apply Permutation_sym]; apply postorder_perm. Qed.
Lemma flat_postorder_in cs x : In x (flat_map postorder cs) <-> In x (flat_map pids cs).
Proof. rewrite !in_flat_map. split; intros (c & Hc & Hx); exists c; (split; [exact Hc|]); apply postorder_in; exact Hx. Qed.

Theorem postorder_children_first : forall u s d, In s (subtrees u) -> In d (descendants s) -> before (postorder u) d (root s).
Proof.
  apply (ptree_ind' (fun u => forall s d, In s (subtrees u) -> In d (descendants s) -> before (postorder u) d (root s))).
  intros p l cs IH s d Hs Hd. simpl in Hs. destruct Hs as [E|Hs].
  - subst s. simpl. unfold descendants in Hd; simpl in Hd. apply flat_postorder_in in Hd.
    apply before_split; [exact Hd | left; reflexivity].
  - apply in_flat_map in Hs as (c & Hc & Hs). rewrite Forall_forall in IH. specialize (IH c Hc s d Hs Hd).
    simpl. apply before_app_l. destruct (flat_map_segment postorder cs c Hc) as (X & Y & E). rewrite E. apply before_segment, IH.
Qed.

(* ---- _posix_recursive_kill, as generated ---- *)
Lemma exec_posix_node p l cs :
  exec_posix posix_recursive_kill_prog (PNode p l cs)
  = flat_map (fun c => if is_late c then [] else exec_posix posix_recursive_kill_prog c) cs ++ [p].
Proof. reflexivity. Qed.

Theorem posix_is_postorder_of_what_it_sees : forall t, exec_posix posix_recursive_kill_prog t = postorder (prune t).
Proof.
  apply ptree_ind'. intros p l cs IH. rewrite exec_posix_node. simpl. f_equal.
  induction IH as [|c r Hc _ IHr]; [reflexivity|]. simpl. rewrite flat_map_app, IHr. destruct (is_late c); simpl; [reflexivity|].
  rewrite app_nil_r, Hc. reflexivity.
Qed.

Lemma prune_no_late : forall t, no_late t = true -> prune t = t.
Proof.
  apply (ptree_ind' (fun t => no_late t = true -> prune t = t)). intros p l cs IH N. simpl in *. apply andb_prop in N as [_ N]. f_equal.
  induction IH as [|c r Hc _ IHr]; [reflexivity|]. simpl in *. apply andb_prop in N as [Nc Nr].
  assert (L : is_late c = false). { destruct c as [q lc ccs]; simpl in *. apply andb_prop in Nc as [Nc _]. destruct lc; [discriminate|reflexivity]. }
  rewrite L. simpl. rewrite (Hc Nc), (IHr Nr). reflexivity.
Qed.

(* ---- psutil's listing: every descendant once, a parent before its children ---- *)
Theorem listing_perm : forall u, Permutation (psutil_listing u) (descendants u).
Proof.
  apply ptree_ind'. intros p l cs IH. rewrite psutil_listing_eq. unfold descendants; simpl.
  induction IH as [|c r Hc _ IHr]; [constructor|]. simpl.
  destruct c as [q lc ccs]. simpl. apply perm_skip.
  (* map root r ++ (revcat r ++ listing c)  ~  descendants c ++ flat_map pids r *)
  fold (revcat r). rewrite app_assoc. eapply Permutation_trans; [apply Permutation_app_comm|].
  apply Permutation_app; [exact Hc | exact IHr].
Qed.
Lemma listing_in u x : In x (psutil_listing u) <-> In x (descendants u).
Proof. split; apply Permutation_in; [|apply Permutation_sym]; apply listing_perm. Qed.

Theorem listing_parents_first : forall u s d,
  In s (flat_map subtrees (children u)) -> In d (descendants s) -> before (psutil_listing u) (root s) d.
Proof.
  apply (ptree_ind' (fun u => forall s d, In s (flat_map subtrees (children u)) -> In d (descendants s) -> before (psutil_listing u) (root s) d)).
  intros p l cs IH s d Hs Hd. simpl in Hs. rewrite psutil_listing_eq.
  apply in_flat_map in Hs as (c & Hc & Hs). destruct c as [q lc ccs]. simpl in Hs. destruct Hs as [E|Hs].
  - subst s. simpl. apply before_split; [apply in_map_iff; exists (PNode q lc ccs); split; [reflexivity|exact Hc]|].
    apply revcat_in. exists (PNode q lc ccs). split; [exact Hc|]. apply listing_in. exact Hd.
  - rewrite Forall_forall in IH. specialize (IH _ Hc s d). simpl in IH. specialize (IH Hs Hd).
    apply before_app_r. destruct (revcat_segment cs _ Hc) as (X & Y & E). rewrite E. apply before_segment, IH.
Qed.

(* ---- _kill_process_tree_with_psutil, as generated ---- *)
Lemma exec_psutil_eq t : exec_psutil psutil_kill_prog t = mku (rev (psutil_listing (prune t)) ++ [root t]) true.
Proof. reflexivity. Qed.

Lemma root_prune t : root (prune t) = root t. Proof. destruct t; reflexivity. Qed.
Lemma pids_root_desc u : pids u = root u :: descendants u. Proof. destruct u; reflexivity. Qed.

Theorem psutil_kills_perm t : Permutation (ukills (exec_psutil psutil_kill_prog t)) (pids (prune t)).
Proof.
  rewrite exec_psutil_eq. simpl. rewrite pids_root_desc, root_prune. apply Permutation_sym, Permutation_cons_app. rewrite app_nil_r.
  apply Permutation_sym. eapply Permutation_trans; [apply Permutation_sym, Permutation_rev | apply listing_perm].
Qed.

Theorem psutil_children_first t s d :
  In s (subtrees (prune t)) -> In d (descendants s) -> before (ukills (exec_psutil psutil_kill_prog t)) d (root s).
Proof.
  intros Hs Hd. rewrite exec_psutil_eq. simpl. remember (prune t) as u eqn:Eu. rewrite <- (root_prune t), <- Eu.
  destruct u as [p l cs]. simpl in Hs. destruct Hs as [E|Hs].
  - subst s. apply before_split; [|left; reflexivity]. apply -> in_rev. apply listing_in. exact Hd.
  - apply before_app_l, before_rev. apply listing_parents_first; assumption.
Qed.

(* ---- the psutil-less wrapper, as generated ---- *)
Lemma exec_nopsutil_eq t fails :
  exec_nopsutil nopsutil_wrapper_prog posix_recursive_kill_prog t fails
  = mku (if fails then [root t] else exec_posix posix_recursive_kill_prog t) true.
Proof. unfold exec_nopsutil. destruct fails; simpl; rewrite ?app_nil_r; reflexivity. Qed.

(* ---- a process forked while the sweep is under way escapes both ---- *)
Definition racing_tree : ptree := PNode 1 false [PNode 2 false [PNode 4 true [PNode 5 false []]]; PNode 3 false []].
Example late_fork_escapes :
  NoDup (pids racing_tree)
  /\ exec_posix posix_recursive_kill_prog racing_tree = [2; 3; 1]
  /\ ukills (exec_psutil psutil_kill_prog racing_tree) = [3; 2; 1].
Proof. split; [repeat constructor; simpl; intuition discriminate|]. split; vm_compute; reflexivity. Qed.
Example late_fork_survivors :
  survivors (exec_posix posix_recursive_kill_prog racing_tree) racing_tree = [4; 5]
  /\ survivors (ukills (exec_psutil psutil_kill_prog racing_tree)) racing_tree = [4; 5].
Proof. vm_compute. split; reflexivity. Qed.

(* non-vacuity: three levels, nothing late *)
Definition nested_tree : ptree := PNode 10 false [PNode 11 false [PNode 13 false []; PNode 14 false [PNode 15 false []]]; PNode 12 false []].
Example nested_kills :
  no_late nested_tree = true
  /\ exec_posix posix_recursive_kill_prog nested_tree = [13; 15; 14; 11; 12; 10]
  /\ psutil_listing nested_tree = [11; 12; 13; 14; 15]
  /\ ukills (exec_psutil psutil_kill_prog nested_tree) = [15; 14; 13; 12; 11; 10].
Proof. vm_compute. repeat split; reflexivity. Qed.
