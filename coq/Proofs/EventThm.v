(* Proofs over Model/Event.v (method bodies: Gen/Event.v). *)
From Coq Require Import List Bool Arith Lia.
From LokyV Require Import Lib.EventLib Gen.Event Model.Event.
Import ListNotations.

(* ---- what the generated bodies do, by computation, for a flag in {0, 1} ---- *)
Definition wait_k : list eop := match rout (exec fuel wait_prog 0 false) with Susp k => k | _ => [] end.

Lemma is_set_0 : exec fuel is_set_prog 0 false = mkres 0 false (Done (Some false)). Proof. reflexivity. Qed.
Lemma is_set_1 : exec fuel is_set_prog 1 false = mkres 1 false (Done (Some true)). Proof. reflexivity. Qed.
Lemma set_0 : exec fuel set_prog 0 false = mkres 1 true (Done None). Proof. reflexivity. Qed.
Lemma set_1 : exec fuel set_prog 1 false = mkres 1 true (Done None). Proof. reflexivity. Qed.
Lemma clear_0 : exec fuel clear_prog 0 false = mkres 0 false (Done None). Proof. reflexivity. Qed.
Lemma clear_1 : exec fuel clear_prog 1 false = mkres 0 false (Done None). Proof. reflexivity. Qed.
Lemma wait_0 : exec fuel wait_prog 0 false = mkres 0 false (Susp wait_k). Proof. reflexivity. Qed.
Lemma wait_1 : exec fuel wait_prog 1 false = mkres 1 false (Done (Some true)). Proof. reflexivity. Qed.
Lemma wait_k_0 : exec fuel wait_k 0 false = mkres 0 false (Done (Some false)). Proof. reflexivity. Qed.
Lemma wait_k_1 : exec fuel wait_k 1 false = mkres 1 false (Done (Some true)). Proof. reflexivity. Qed.

(* ---- the invariant ---- *)
Definition good (p : nat * tst) : Prop := exists b, tmeth (snd p) = MWait b /\ cont (snd p) = wait_k.
Definition Inv (s : est) : Prop :=
  flag s <= 1 /\
  Forall good (thr s) /\
  (flag s = 1 -> Forall (fun p => woken (snd p) = true) (thr s)).     (* nobody sleeps un-notified while the event is set *)

Lemma inv0 : Inv est0.
Proof. unfold Inv, est0; simpl. repeat split; auto. Qed.

Lemma flag01 s : Inv s -> flag s = 0 \/ flag s = 1.
Proof. intros (H & _). lia. Qed.

Lemma find_in t l st : find t l = Some st -> In (t, st) l.
Proof.
  induction l as [|[x s] r IH]; simpl; [discriminate|]. destruct (Nat.eqb x t) eqn:E.
  - intros H. inversion H. apply Nat.eqb_eq in E. subst. left. reflexivity.
  - intros H. right. apply IH, H.
Qed.
Lemma remove_incl t l : incl (remove t l) l.
Proof.
  induction l as [|[x s] r IH]; simpl; [apply incl_refl|]. destruct (Nat.eqb x t).
  - apply incl_tl, IH.
  - apply incl_cons; [left; reflexivity | apply incl_tl, IH].
Qed.
Lemma Forall_incl {A} (P : A -> Prop) l l' : incl l' l -> Forall P l -> Forall P l'.
Proof. intros I F. apply Forall_forall. intros x Hx. rewrite Forall_forall in F. apply F, I, Hx. Qed.
Lemma wake_all_good l : Forall good l -> Forall good (wake_all l).
Proof. unfold wake_all. intros F. apply Forall_map. eapply Forall_impl; [|exact F]. intros [t st] (b & H1 & H2). exists b. simpl in *. auto. Qed.
Lemma wake_all_woken l : Forall (fun p => woken (snd p) = true) (wake_all l).
Proof. unfold wake_all. apply Forall_map. apply Forall_forall. intros; reflexivity. Qed.

Lemma step_inv s e : Inv s -> Inv (fst (step s e)).
Proof.
  intros I. pose proof I as (F1 & G & W). destruct (flag01 s I) as [Z|Z]; destruct e as [t m | t]; unfold step.
  - destruct (find t (thr s)); [exact I|]. rewrite Z.
    destruct m; unfold prog_of; [rewrite is_set_0 | rewrite set_0 | rewrite clear_0 | rewrite wait_0]; unfold apply_res, Inv; simpl.
    + repeat split; auto; try discriminate.
    + repeat split; auto using wake_all_good, wake_all_woken.
    + repeat split; auto; try discriminate.
    + repeat split; auto; [|discriminate]. constructor; [|exact G]. exists timed. auto.
  - destruct (find t (thr s)) as [st|] eqn:Fd; [|exact I].
    destruct (woken st || timed_of (tmeth st)); [|exact I].
    apply find_in in Fd. rewrite Forall_forall in G. destruct (G _ Fd) as (b & Hm & Hk). simpl in Hm, Hk. rewrite Hk, Z, wait_k_0.
    unfold apply_res, Inv; simpl. repeat split; auto; [|discriminate].
    eapply Forall_incl; [apply remove_incl|]. apply Forall_forall, G.
  - destruct (find t (thr s)); [exact I|]. rewrite Z.
    destruct m; unfold prog_of; [rewrite is_set_1 | rewrite set_1 | rewrite clear_1 | rewrite wait_1]; unfold apply_res, Inv; simpl.
    + destruct s; simpl in *; subst; repeat split; auto.
    + repeat split; auto using wake_all_good, wake_all_woken.
    + repeat split; auto; try discriminate.
    + destruct s; simpl in *; subst; repeat split; auto.
  - destruct (find t (thr s)) as [st|] eqn:Fd; [|exact I].
    destruct (woken st || timed_of (tmeth st)); [|exact I].
    apply find_in in Fd. pose proof G as G'. rewrite Forall_forall in G'. destruct (G' _ Fd) as (b & Hm & Hk). simpl in Hm, Hk. rewrite Hk, Z, wait_k_1.
    unfold apply_res, Inv; simpl. repeat split; auto.
    + eapply Forall_incl; [apply remove_incl | exact G].
    + intros _. eapply Forall_incl; [apply remove_incl | apply W, Z].
Qed.

Lemma run_inv es : forall s, Inv s -> Inv (fst (run es s)).
Proof.
  induction es as [|e es IH]; intros s I; simpl; [exact I|].
  destruct (step s e) as [s1 o] eqn:E. specialize (IH s1). destruct (run es s1) as [s2 os] eqn:R. simpl in *.
  apply IH. change s1 with (fst (s1, o)). rewrite <- E. apply step_inv, I.
Qed.
Theorem reach_inv s : reach s -> Inv s.
Proof. intros [es <-]. apply run_inv, inv0. Qed.

Definition is_set_now (s : est) : bool := Nat.eqb (flag s) 1.

(* ---- the contracts, for every reachable state ---- *)
Theorem wait_returns_true_iff_set s e t b r :
  reach s -> step s e = (fst (step s e), ORet t (MWait b) r) ->
  r = Some (is_set_now (fst (step s e))) /\ flag (fst (step s e)) = flag s.
Proof.
  intros R. pose proof (reach_inv s R) as I. pose proof I as (F1 & G & W). unfold is_set_now.
  destruct (flag01 s I) as [Z|Z]; destruct e as [t' m | t']; unfold step.
  - destruct (find t' (thr s)); [simpl; discriminate|]. rewrite Z.
    destruct m; unfold prog_of; [rewrite is_set_0 | rewrite set_0 | rewrite clear_0 | rewrite wait_0]; unfold apply_res; simpl;
      intros H; inversion H.
  - destruct (find t' (thr s)) as [st|] eqn:Fd; [|simpl; discriminate].
    destruct (woken st || timed_of (tmeth st)); [|simpl; discriminate].
    apply find_in in Fd. rewrite Forall_forall in G. destruct (G _ Fd) as (b' & Hm & Hk). simpl in Hm, Hk. rewrite Hk, Z, wait_k_0.
    unfold apply_res; simpl. intros H; inversion H. auto.
  - destruct (find t' (thr s)); [simpl; discriminate|]. rewrite Z.
    destruct m; unfold prog_of; [rewrite is_set_1 | rewrite set_1 | rewrite clear_1 | rewrite wait_1]; unfold apply_res; simpl;
      intros H; inversion H. auto.
  - destruct (find t' (thr s)) as [st|] eqn:Fd; [|simpl; discriminate].
    destruct (woken st || timed_of (tmeth st)); [|simpl; discriminate].
    apply find_in in Fd. rewrite Forall_forall in G. destruct (G _ Fd) as (b' & Hm & Hk). simpl in Hm, Hk. rewrite Hk, Z, wait_k_1.
    unfold apply_res; simpl. intros H; inversion H. auto.
Qed.

Theorem is_set_reads_the_flag s t : reach s -> find t (thr s) = None ->
  step s (Call t MIsSet) = (s, ORet t MIsSet (Some (is_set_now s))).
Proof.
  intros R Fd. pose proof (reach_inv s R) as I. unfold step, is_set_now. rewrite Fd.
  destruct (flag01 _ I) as [Z|Z]; rewrite Z; unfold prog_of; [rewrite is_set_0 | rewrite is_set_1]; unfold apply_res; simpl;
    destruct s; simpl in *; subst; reflexivity.
Qed.

Theorem set_sets_and_wakes_everyone s t : reach s -> find t (thr s) = None ->
  let s' := fst (step s (Call t MSet)) in
  flag s' = 1 /\ map fst (thr s') = map fst (thr s) /\ Forall (fun p => woken (snd p) = true) (thr s') /\
  snd (step s (Call t MSet)) = ORet t MSet None.
Proof.
  intros R Fd. pose proof (reach_inv s R) as I. unfold step. rewrite Fd.
  destruct (flag01 _ I) as [Z|Z]; rewrite Z; unfold prog_of; [rewrite set_0 | rewrite set_1]; unfold apply_res; simpl;
    (repeat split; auto using wake_all_woken; unfold wake_all; rewrite map_map; reflexivity).
Qed.

Theorem clear_clears_and_wakes_nobody s t : reach s -> find t (thr s) = None ->
  step s (Call t MClear) = (mke 0 (thr s), ORet t MClear None).
Proof.
  intros R Fd. pose proof (reach_inv s R) as I. unfold step. rewrite Fd.
  destruct (flag01 _ I) as [Z|Z]; rewrite Z; unfold prog_of; [rewrite clear_0 | rewrite clear_1]; reflexivity.
Qed.

Theorem wait_on_a_set_event_returns_at_once s t b : reach s -> find t (thr s) = None -> flag s = 1 ->
  step s (Call t (MWait b)) = (s, ORet t (MWait b) (Some true)).
Proof. intros R Fd Z. unfold step. rewrite Fd, Z. unfold prog_of. rewrite wait_1. destruct s; simpl in *; subst; reflexivity. Qed.

Theorem wait_on_a_clear_event_sleeps s t b : reach s -> find t (thr s) = None -> flag s = 0 ->
  step s (Call t (MWait b)) = (mke 0 ((t, mkt false (MWait b) wait_k) :: thr s), OSleep t).
Proof. intros R Fd Z. unfold step. rewrite Fd, Z. unfold prog_of. rewrite wait_0. reflexivity. Qed.

(* an untimed waiter comes back only after a set() reached it; a timed one may come back at any moment *)
Theorem untimed_waiter_needs_a_set s t st : reach s -> find t (thr s) = Some st -> tmeth st = MWait false -> woken st = false ->
  step s (Resume t) = (s, ONone).
Proof. intros R Fd M W. unfold step. rewrite Fd, W, M. reflexivity. Qed.

Theorem nothing_gets_stuck s e : reach s -> snd (step s e) <> OStuck.
Proof.
  intros R. pose proof (reach_inv s R) as I. pose proof I as (F1 & G & W).
  destruct e as [t m | t]; unfold step.
  - destruct (find t (thr s)); [simpl; discriminate|].
    destruct (flag01 _ I) as [Z|Z]; rewrite Z; destruct m; unfold prog_of;
      rewrite ?is_set_0, ?set_0, ?clear_0, ?wait_0, ?is_set_1, ?set_1, ?clear_1, ?wait_1; simpl; discriminate.
  - destruct (find t (thr s)) as [st|] eqn:Fd; [|simpl; discriminate].
    destruct (woken st || timed_of (tmeth st)); [|simpl; discriminate].
    apply find_in in Fd. rewrite Forall_forall in G. destruct (G _ Fd) as (b' & Hm & Hk). simpl in Hm, Hk. rewrite Hk.
    destruct (flag01 _ I) as [Z|Z]; rewrite Z; rewrite ?wait_k_0, ?wait_k_1; simpl; discriminate.
Qed.

(* non-vacuity: two waiters (one untimed), set wakes both, clear before they run: both report False *)
Example event_example :
  snd (run [Call 1 (MWait false); Call 2 (MWait true); Call 0 MIsSet; Call 0 MSet; Call 0 MIsSet; Call 3 (MWait false);
            Call 0 MClear; Resume 1; Resume 2; Call 0 MIsSet] est0)
  = [OSleep 1; OSleep 2; ORet 0 MIsSet (Some false); ORet 0 MSet None; ORet 0 MIsSet (Some true); ORet 3 (MWait false) (Some true);
     ORet 0 MClear None; ORet 1 (MWait false) (Some false); ORet 2 (MWait true) (Some false); ORet 0 MIsSet (Some false)].
Proof. reflexivity. Qed.
