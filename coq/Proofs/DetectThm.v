From Coq Require Import List Arith Bool Lia.
From LokyV Require Import Lib.DetectLib Gen.Detect Model.Detect.
Import ListNotations.

Lemma all_envs_complete e : In e all_envs.
Proof. destruct e as [[] [] []]; vm_compute; tauto. Qed.

(* ---- the decision of one round, for the 12 behaviours of its environment ---- *)
Definition want_broken (e : denv) : bool :=
  if res_ready e then match rc e with RItem => false | _ => true end else negb (wake_ready e).
Definition want_bpe (e : denv) : option bkind :=
  if res_ready e then match rc e with RItem => None | RTraceback => Some BTaskUnserialize | RRaises => Some BResultUnserialize end
  else if wake_ready e then None else Some BTerminatedWorker.
Definition bpe_eqb (a b : option bkind) : bool :=
  match a, b with
  | None, None | Some BTaskUnserialize, Some BTaskUnserialize | Some BResultUnserialize, Some BResultUnserialize
  | Some BTerminatedWorker, Some BTerminatedWorker => true | _, _ => false end.
Definition round_ok (e : denv) : bool :=
  let o := outcome e in
  d_returned o && negb (d_raised o) && d_waited o && d_cleared o &&
  match d_broken o with Some b => Bool.eqb b (want_broken e) | None => false end &&
  match d_bpe o with Some k => bpe_eqb k (want_bpe e) | None => false end &&
  Nat.eqb (d_recvs o) (if res_ready e then 1 else 0) &&
  match d_item o with
  | IItem => res_ready e && match rc e with RItem => true | _ => false end
  | ITrace => res_ready e && match rc e with RTraceback => true | _ => false end
  | INone => negb (res_ready e) || match rc e with RRaises => true | _ => false end
  | IUnset => false end.

Lemma every_round_ok : forallb round_ok all_envs = true.
Proof. vm_compute. reflexivity. Qed.

(* whatever wait() reports and whatever recv() does, one round of wait_result_broken_or_wakeup: waits without time-out on the result
   pipe, the wake-up pipe and the sentinel of every registered worker; reads at most one message, and only if the result pipe was
   reported ready; says "broken" exactly when that message is a worker's traceback or cannot be decoded, or when neither pipe was
   reported ready (then only a sentinel can have ended the wait); gives an error exactly when it says broken, of the matching kind;
   drains the wake-up pipe; returns, never raises *)
Theorem round_decision e :
  let o := outcome e in
  d_returned o = true /\ d_raised o = false /\ d_waited o = true /\ d_cleared o = true /\
  d_broken o = Some (want_broken e) /\ (exists k, d_bpe o = Some k /\ bpe_eqb k (want_bpe e) = true) /\
  d_recvs o = (if res_ready e then 1 else 0) /\
  (d_item o = IItem <-> res_ready e = true /\ rc e = RItem).
Proof.
  pose proof (proj1 (forallb_forall round_ok all_envs) every_round_ok e (all_envs_complete e)) as H.
  destruct e as [[] [] []]; vm_compute in H |- *; repeat split; try reflexivity; try discriminate; eauto;
    try (intros [A B]; discriminate); try (intros A; discriminate).
Qed.

Lemma sb_table rr wr r : says_broken (mkdenv rr wr r) = (if rr then match r with RItem => false | _ => true end else negb wr).
Proof. destruct rr, wr, r; vm_compute; reflexivity. Qed.

(* ---- a death is out-prioritised only by messages ---- *)
Lemma pos_S n : pos (S n) = true. Proof. reflexivity. Qed.
Lemma step_budget s e :
  quiet_rounds (dstep s e) + backlog (dstep s e)
  <= quiet_rounds s + backlog s + (match e with MsgArrives | WakeArrives => 1 | _ => 0 end).
Proof.
  destruct s as [m w d f q]. destruct e as [rr wr r| | |]; unfold dstep, backlog; simpl.
  - unfold round_possible; simpl. rewrite sb_table.
    destruct rr, wr, r, d, f, m as [|m], w as [|w]; simpl; lia.
  - destruct (pos w); lia.
  - destruct w; simpl; lia.
  - lia.
Qed.

Theorem quiet_rounds_are_paid_by_messages es : forall s,
  quiet_rounds (drun_all es s) + backlog (drun_all es s) <= quiet_rounds s + backlog s + arrivals es.
Proof.
  unfold drun_all, arrivals. induction es as [|e es IH]; intros s; simpl; [lia|].
  specialize (IH (dstep s e)). pose proof (step_budget s e) as B. destruct e; simpl in *; lia.
Qed.

(* the manager is never blocked while a registered worker is dead, and with nothing left in the pipes the next round flags the pool *)
Theorem dead_worker_ends_the_wait s : dead s = true -> flagged s = false -> round_possible s false false = true.
Proof. intros D F. unfold round_possible. rewrite D, F. reflexivity. Qed.
Theorem empty_pipes_then_flagged s rr wr r :
  dead s = true -> msgs s = 0 -> wakes s = 0 -> round_possible s rr wr = true -> flagged (dstep s (Round rr wr r)) = true.
Proof.
  intros D M W P. unfold dstep. rewrite P. simpl. rewrite sb_table. unfold round_possible in P. rewrite M, W in P.
  destruct rr, wr; simpl in P; try discriminate. reflexivity.
Qed.
(* once flagged, the manager makes no further round (it runs terminate_broken and ends: Model/Pool.v) *)
Theorem flagged_is_final s rr wr r : flagged s = true -> dstep s (Round rr wr r) = s.
Proof. intros F. unfold dstep, round_possible. rewrite F. rewrite !andb_false_r. reflexivity. Qed.

(* non-vacuity: two results and a wake-up are ahead of the death; the fourth round flags the pool *)
Example detection_after_the_backlog :
  let s := drun_all [MsgArrives; MsgArrives; WakeArrives; Death; Round true true RItem; Round true false RItem; Round false false RItem]
                    (mkdet 0 0 false false 0) in
  flagged s = true /\ quiet_rounds s = 2.
Proof. vm_compute. split; reflexivity. Qed.
