From Coq Require Import List Bool.
From LokyV Require Import Lib.InitLib Gen.Init.
Import ListNotations.

Section T.
Variables I A : Type.

Lemma zip_of_kept (k : list (option I * A)) :
  (forall p, In p k -> exists i, fst p = Some i) ->
  zip_calls (map fst k) (map snd k) = Some (wanted k).
Proof.
  induction k as [|[o a] k IH]; intros H; [reflexivity|]. simpl.
  destruct (H (o, a) (or_introl eq_refl)) as [i E]. simpl in E. subst o. simpl.
  rewrite IH; [reflexivity|]. intros p Hp. apply H. right. exact Hp.
Qed.

Lemma wanted_filter (l : list (option I * A)) :
  wanted (filter (fun p => match fst p with Some _ => true | None => false end) l) = wanted l.
Proof. induction l as [|[[i|] a] l IH]; simpl; [reflexivity | f_equal; exact IH | exact IH]. Qed.

Lemma filter_all_some (l : list (option I * A)) p :
  In p (filter (fun p => match fst p with Some _ => true | None => false end) l) -> exists i, fst p = Some i.
Proof. intros H. apply filter_In in H. destruct H as [_ H]. destruct (fst p) as [i|]; [exists i; reflexivity | discriminate]. Qed.

(* for every list of (initializer or None, arguments): the pair built by _chain_initializers, called the way the worker calls it,
   runs every initializer that is not None exactly once, in the order given, each with its own arguments -- and never fails *)
Theorem prepared_initializer_runs_each_once_in_order (l : list (option I * A)) :
  calls chained_call (chain chain_shape l) = Some (wanted l).
Proof.
  unfold chain, chain_shape, chained_call, kept. cbn [keep on_single].
  set (k := filter (fun p : option I * A => match fst p with Some _ => true | None => false end) l).
  assert (W : wanted k = wanted l) by apply wanted_filter.
  assert (S : forall p, In p k -> exists i, fst p = Some i) by (intros p; apply filter_all_some).
  destruct k as [|[o a] k'] eqn:E; [simpl; rewrite <- W; reflexivity|].
  destruct (S (o, a) (or_introl eq_refl)) as [i Ei]. simpl in Ei. subst o.
  destruct k' as [|q k''].
  - simpl. rewrite <- W. reflexivity.
  - cbn [calls]. rewrite <- W. apply (zip_of_kept ((Some i, a) :: q :: k'')). exact S.
Qed.
End T.

(* the variants the vocabulary can express and the source does not use are wrong: all initializers called with the first one's
   arguments; a None initializer kept in the chain *)
Example first_args_for_all_is_wrong :
  calls EachWithTheFirstArgs (chain chain_shape [(Some 1, 10); (Some 2, 20)]) <> Some (wanted [(Some 1, 10); (Some 2, 20)]).
Proof. vm_compute. discriminate. Qed.
Example keeping_none_is_wrong :
  calls chained_call (chain (mkrule KeepAll EmptyGivesNone SingleGivesItself ManyGiveChained) [(None, 10); (Some 2, 20)]) = None.
Proof. vm_compute. reflexivity. Qed.
