(* C10: proofs over Model/Resize.v (whose program is Gen/Resize.v, regenerated from the source). *)
From Coq Require Import List Arith Bool Lia.
From LokyV Require Import Lib.ResizeLib Gen.Resize Model.Resize.
Import ListNotations.

(* the program the model was proved against (a different program breaks this lemma first) *)
Lemma prog_is : prog = [ZRaiseIfNone; ZReturnIfSame; ZIfNotStarted [ZSetMax; ZReturn]; ZWaitJobs; ZAcquire; ZSnapshotAlive; ZSetMax;
                        ZPostSentinels; ZRelease; ZWaitShrunk; ZAcquire; ZAdjustIfLive; ZRelease; ZWaitAllAlive].
Proof. reflexivity. Qed.
Lemma facts_hold : wait_job_completion_waits_until_nothing_is_pending = true /\ submit_is_excluded_during_resize = true
                   /\ idle_exit_gives_up_when_the_management_lock_is_taken = true.
Proof. repeat split; reflexivity. Qed.

Definition suf (k : nat) : list rz := skipn (14 - k) prog.
Definition K (s : rs) : nat := Nat.min (rsnap s) (newv s).
Definition in_lock (k : nat) : bool := (6 <=? k) && (k <=? 9) || (2 <=? k) && (k <=? 3).

(* what holds when k instructions are left *)
Definition Ph (k : nat) (s : rs) : Prop :=
  started s = true /\ bad s = false /\ 0 < maxw s /\
  (k <= 13 -> rnew s <> None /\ 0 < newv s) /\
  (rnew s <> None -> 0 < newv s) /\
  mlock s = in_lock k /\
  (k <= 10 -> pending s = 0) /\
  (k <= 7 -> maxw s = newv s) /\
  (broken s = true -> pending s = 0) /\
  (0 < pending s -> 0 < al s + ex s + de s) /\
  (7 <= k <= 8 -> al s <= rsnap s) /\
  (4 <= k <= 6 -> al s <= newv s + sent s) /\
  (clean0 s = true -> faults s = 0 -> broken s = false ->
     de s = 0 /\
     (7 <= k -> sent s = 0 /\ ex s = 0 /\ left s = 0) /\
     (3 <= k -> spawned s = 0) /\
     (7 <= k <= 8 -> rsnap s = al s) /\
     (3 <= k <= 6 -> al s = K s + sent s /\ left s + sent s = rsnap s - K s /\ ex s <= left s) /\
     (3 <= k <= 4 -> al s + ex s <= newv s) /\
     (k <= 2 -> al s = newv s /\ ex s = 0 /\ sent s = 0 /\ left s = rsnap s - K s /\ spawned s = newv s - K s)).

Definition Out (s : rs) : Prop :=
  started s = true /\ bad s = false /\ 0 < maxw s /\ mlock s = false /\ (broken s = true -> pending s = 0)
  /\ (0 < pending s -> 0 < al s + ex s + de s).

Definition Inv (s : rs) : Prop :=
  match pc s with
  | None => Out s
  | Some l => exists k, k <= 14 /\ l = suf k /\ Ph k s
  end.

Lemma inv_pool n p : 0 < n -> Inv (pool n p).
Proof. intros H. unfold Inv, pool, Out; simpl. repeat split; auto; try lia; discriminate. Qed.

Ltac inst :=
  repeat match goal with
  | H : _ /\ _ |- _ => destruct H
  | H : (?a <= ?b) -> _ |- _ => first [ specialize (H ltac:(lia)) | clear H ]
  | H : (?a <= ?b <= ?c) -> _ |- _ => first [ specialize (H ltac:(lia)) | clear H ]
  | H : (0 < ?a) -> _ |- _ => first [ specialize (H ltac:(lia)) | fail ]
  | H : (Some _ <> None) -> _ |- _ => specialize (H ltac:(discriminate))
  | H : ?g -> _, G : ?g |- _ => specialize (H G)
  end.
Ltac fin := repeat split; intros; try discriminate; try congruence; try lia; auto.
Ltac clean_hyps F :=
  match goal with
  | C0 : clean0 _ = true, F0 : faults _ = 0, B0 : broken _ = false |- _ => specialize (F C0 F0 B0)
  end.

Lemma rstep_inv s : Inv s -> Inv (step s RStep).
Proof.
  unfold Inv, step. destruct (pc s) as [l|] eqn:P; [|rewrite P; auto].
  intros (k & Hk & -> & H).
  pose proof H as H0. destruct H as (St & Bd & Mx & Rn & Rp & Ml & Pn & Mw & Bp & Pp & G8 & G7 & F).
  assert (E : k = 0 \/ k = 1 \/ k = 2 \/ k = 3 \/ k = 4 \/ k = 5 \/ k = 6 \/ k = 7 \/ k = 8 \/ k = 9 \/ k = 10 \/ k = 11 \/ k = 12
              \/ k = 13 \/ k = 14) by lia.
  repeat (destruct E as [E|E]); subst k; unfold suf; simpl skipn; cbv beta iota; unfold instr, in_lock in *; simpl in Ml.
  - (* returns *) unfold set_pc; simpl. unfold Out. fin.
  - (* ZWaitAllAlive *)
    destruct (negb (broken s) && negb (Nat.eqb (ex s + de s) 0)) eqn:C.
    + rewrite P. exists 1. split; [lia|]. split; [reflexivity|]. exact H0.
    + unfold set_pc; simpl. exists 0. split; [lia|]. split; [reflexivity|]. unfold Ph, in_lock, K, newv in *; simpl. inst.
      fin; try clean_hyps F; inst; fin.
  - (* ZRelease *) simpl. exists 1. split; [lia|]. split; [reflexivity|]. unfold Ph, in_lock, K, newv in *; simpl. inst.
    fin; try clean_hyps F; inst; fin.
  - (* ZAdjustIfLive *)
    destruct (broken s) eqn:Bk.
    + unfold set_pc; simpl. exists 2. split; [lia|]. split; [reflexivity|]. unfold Ph, in_lock, K, newv, len in *; simpl. rewrite ?Bk. inst.
      fin; try clean_hyps F; inst; fin.
    + simpl. exists 2. split; [lia|]. split; [reflexivity|]. unfold Ph, in_lock, K, newv, len in *; simpl. rewrite ?Bk. inst.
      fin; try clean_hyps F; inst; fin.
  - (* ZAcquire *) rewrite Ml. simpl. exists 3. split; [lia|]. split; [reflexivity|]. unfold Ph, in_lock, K, newv in *; simpl. inst.
    fin; try clean_hyps F; inst; fin.
  - (* ZWaitShrunk *)
    destruct (Nat.ltb (newv s) (len s) && negb (broken s)) eqn:C.
    + rewrite P. exists 5. split; [lia|]. split; [reflexivity|]. exact H0.
    + unfold set_pc; simpl. exists 4. split; [lia|]. split; [reflexivity|]. unfold Ph, in_lock, K, newv, len in *; simpl. inst.
      fin; try clean_hyps F; inst;
        match goal with B0 : broken s = false |- _ => rewrite B0 in C; simpl in C; rewrite andb_true_r in C; apply Nat.ltb_ge in C end; fin.
  - (* ZRelease *) simpl. exists 5. split; [lia|]. split; [reflexivity|]. unfold Ph, in_lock, K, newv in *; simpl. inst.
    fin; try clean_hyps F; inst; fin.
  - (* ZPostSentinels *) simpl. exists 6. split; [lia|]. split; [reflexivity|]. unfold Ph, in_lock, K, newv in *; simpl. inst.
    fin; try (rewrite Bd; match goal with H : pending s = 0 |- _ => rewrite H end; reflexivity); try clean_hyps F; inst; fin.
  - (* ZSetMax *) simpl. exists 7. split; [lia|]. split; [reflexivity|]. unfold Ph, in_lock, K, newv in *; simpl. inst.
    fin; try clean_hyps F; inst; fin.
  - (* ZSnapshotAlive *) simpl. exists 8. split; [lia|]. split; [reflexivity|]. unfold Ph, in_lock, K, newv in *; simpl. inst.
    fin; try clean_hyps F; inst; fin.
  - (* ZAcquire *) rewrite Ml. simpl. exists 9. split; [lia|]. split; [reflexivity|]. unfold Ph, in_lock, K, newv in *; simpl. inst.
    fin; try clean_hyps F; inst; fin.
  - (* ZWaitJobs *)
    pose proof facts_hold as (F1 & _ & _). rewrite F1. simpl.
    destruct (Nat.eqb (pending s) 0) eqn:C; simpl.
    + apply Nat.eqb_eq in C. unfold set_pc; simpl. exists 10. split; [lia|]. split; [reflexivity|].
      unfold Ph, in_lock, K, newv in *; simpl. inst. fin; try clean_hyps F; inst; fin.
    + rewrite P. exists 11. split; [lia|]. split; [reflexivity|]. exact H0.
  - (* ZIfNotStarted *) rewrite St. unfold set_pc; simpl. exists 11. split; [lia|]. split; [reflexivity|].
    unfold Ph, in_lock, K, newv in *; simpl. inst. fin; try clean_hyps F; inst; fin.
  - (* ZReturnIfSame *)
    destruct (Nat.eqb (newv s) (maxw s)); unfold set_pc; simpl.
    + unfold Out. fin.
    + exists 12. split; [lia|]. split; [reflexivity|]. unfold Ph, in_lock, K, newv in *; simpl. inst. fin; try clean_hyps F; inst; fin.
  - (* ZRaiseIfNone *)
    destruct (rnew s) as [n|] eqn:R; unfold set_pc; simpl.
    + exists 13. split; [lia|]. split; [reflexivity|]. unfold Ph, in_lock, K, newv in *; simpl. rewrite R in *. inst.
      fin; try clean_hyps F; inst; fin.
    + unfold Out. fin.
Qed.

Ltac per_goal := repeat split; intros; try clean_hyps_any; inst; fin
with clean_hyps_any :=
  match goal with
  | C0 : clean0 _ = true, F0 : faults _ = 0, B0 : broken _ = false, F : clean0 _ = true -> _ |- _ => specialize (F C0 F0 B0)
  end.

Lemma env_inv s e : e <> RStep -> Inv s -> Inv (step s e).
Proof.
  intros NE I. pose proof facts_hold as (F1 & F2 & F3).
  destruct e; try congruence; unfold Inv, step in *.
  - (* Call *)
    destruct (pc s) as [l|] eqn:P; [rewrite P; exact I|].
    destruct n as [[|n]|]; simpl; try (rewrite P; exact I).
    + destruct I as (St & Bd & Mx & Ml & Bp & Pp).
      exists 14. split; [lia|]. split; [reflexivity|]. unfold Ph, in_lock, K, newv; simpl.
      repeat split; intros; try discriminate; try lia; auto.
      all: try (match goal with H : Nat.eqb _ 0 = true |- _ => apply Nat.eqb_eq in H end; lia).
    + destruct I as (St & Bd & Mx & Ml & Bp & Pp).
      exists 14. split; [lia|]. split; [reflexivity|]. unfold Ph, in_lock, K, newv; simpl.
      repeat split; intros; try discriminate; try lia; auto; try congruence.
      all: try (match goal with H : Nat.eqb _ 0 = true |- _ => apply Nat.eqb_eq in H end; lia).
  - (* Submit *)
    destruct (broken s) eqn:B; [exact I|].
    destruct (pc s) as [l|] eqn:P.
    + rewrite F2. rewrite P. exact I.
    + simpl. destruct I as (St & Bd & Mx & Ml & Bp & Pp). unfold Out, len; simpl.
      repeat split; auto; intros; try discriminate; lia.
  - (* Complete *)
    destruct (al s) as [|a] eqn:A; [exact I|]. destruct (pending s) as [|p] eqn:Pd; [exact I|]. simpl.
    destruct (pc s) as [l|] eqn:P; simpl.
    + destruct I as (k & Hk & -> & H). exists k. split; [exact Hk|]. split; [reflexivity|].
      unfold Ph, K, newv, len in *; simpl. rewrite ?A, ?Pd in *.
      destruct H as (St & Bd & Mx & Rn & Rp & Ml & Pn & Mw & Bp & Pp & G8 & G7 & F).
      repeat split; intros; try clean_hyps_any; inst; fin.
    + unfold Out in *; simpl. rewrite ?A, ?Pd in *. destruct I as (St & Bd & Mx & Ml & Bp & Pp). repeat split; intros; inst; fin.
  - (* TakeSentinel *)
    destruct (al s) as [|a] eqn:A; [exact I|]. destruct (sent s) as [|n] eqn:Sn; [exact I|]. simpl.
    destruct (pc s) as [l|] eqn:P; simpl.
    + destruct I as (k & Hk & -> & H). exists k. split; [exact Hk|]. split; [reflexivity|].
      unfold Ph, K, newv, len in *; simpl. rewrite ?A, ?Sn in *.
      destruct H as (St & Bd & Mx & Rn & Rp & Ml & Pn & Mw & Bp & Pp & G8 & G7 & F).
      repeat split; intros; try clean_hyps_any; inst; fin.
    + unfold Out in *; simpl. rewrite ?A, ?Sn in *. destruct I as (St & Bd & Mx & Ml & Bp & Pp). repeat split; intros; inst; fin.
  - (* IdleExit *)
    destruct (al s) as [|a] eqn:A; [exact I|]. rewrite F3. simpl.
    destruct (mlock s) eqn:M; [exact I|].
    destruct (pc s) as [l|] eqn:P; simpl.
    + destruct I as (k & Hk & -> & H). exists k. split; [exact Hk|]. split; [reflexivity|].
      unfold Ph, K, newv, len in *; simpl. rewrite ?A, ?M in *.
      destruct H as (St & Bd & Mx & Rn & Rp & Ml & Pn & Mw & Bp & Pp & G8 & G7 & F).
      assert (NL : 7 <= k <= 8 -> False).
      { intros G. unfold in_lock in Ml. destruct k as [|[|[|[|[|[|[|[|[|k]]]]]]]]]; simpl in Ml; try discriminate; lia. }
      repeat split; intros; try discriminate; try (exfalso; apply NL; lia); inst; fin.
    + unfold Out in *; simpl. rewrite ?A, ?M in *. destruct I as (St & Bd & Mx & Ml & Bp & Pp). repeat split; intros; inst; fin.
  - (* Crash *)
    destruct (al s) as [|a] eqn:A; [exact I|]. simpl.
    destruct (pc s) as [l|] eqn:P; simpl.
    + destruct I as (k & Hk & -> & H). exists k. split; [exact Hk|]. split; [reflexivity|].
      unfold Ph, K, newv, len in *; simpl. rewrite ?A in *.
      destruct H as (St & Bd & Mx & Rn & Rp & Ml & Pn & Mw & Bp & Pp & G8 & G7 & F).
      repeat split; intros; try discriminate; inst; fin.
    + unfold Out in *; simpl. rewrite ?A in *. destruct I as (St & Bd & Mx & Ml & Bp & Pp). repeat split; intros; inst; fin.
  - (* Reap *)
    destruct (ex s) as [|e'] eqn:Ex; [exact I|]. destruct (mlock s) eqn:M; [exact I|]. simpl.
    destruct (pc s) as [l|] eqn:P; simpl.
    + destruct I as (k & Hk & -> & H). exists k. split; [exact Hk|]. split; [reflexivity|].
      unfold Ph, K, newv, len in *; simpl. rewrite ?Ex, ?M in *.
      destruct H as (St & Bd & Mx & Rn & Rp & Ml & Pn & Mw & Bp & Pp & G8 & G7 & F).
      assert (NL : 7 <= k <= 8 -> False).
      { intros G. unfold in_lock in Ml. destruct k as [|[|[|[|[|[|[|[|[|k]]]]]]]]]; simpl in Ml; try discriminate; lia. }
      destruct (Nat.eqb (pending s) 0) eqn:Pz; [apply Nat.eqb_eq in Pz | apply Nat.eqb_neq in Pz];
        repeat split; intros; try clean_hyps_any; try (exfalso; apply NL; lia); inst; fin.
    + unfold Out in *; simpl. rewrite ?Ex, ?M in *. destruct I as (St & Bd & Mx & Ml & Bp & Pp).
      destruct (Nat.eqb (pending s) 0) eqn:Pz; [apply Nat.eqb_eq in Pz | apply Nat.eqb_neq in Pz]; repeat split; intros; inst; fin.
  - (* Detect *)
    destruct (de s) as [|d] eqn:D; [exact I|]. destruct (broken s) eqn:B; [exact I|]. simpl.
    destruct (pc s) as [l|] eqn:P; simpl.
    + destruct I as (k & Hk & -> & H). exists k. split; [exact Hk|]. split; [reflexivity|].
      unfold Ph, K, newv, len in *; simpl. rewrite ?D, ?B in *.
      destruct H as (St & Bd & Mx & Rn & Rp & Ml & Pn & Mw & Bp & Pp & G8 & G7 & F).
      repeat split; intros; try discriminate; inst; fin.
    + unfold Out in *; simpl. rewrite ?D, ?B in *. destruct I as (St & Bd & Mx & Ml & Bp & Pp). repeat split; intros; inst; fin.
Qed.

Lemma suf_length k : k <= 14 -> length (suf k) = k.
Proof.
  intros H.
  assert (E : k = 0 \/ k = 1 \/ k = 2 \/ k = 3 \/ k = 4 \/ k = 5 \/ k = 6 \/ k = 7 \/ k = 8 \/ k = 9 \/ k = 10 \/ k = 11 \/ k = 12
              \/ k = 13 \/ k = 14) by lia.
  repeat (destruct E as [E|E]); subst k; reflexivity.
Qed.

Lemma step_inv s e : Inv s -> Inv (step s e).
Proof. intros I. destruct e; try (apply env_inv; [discriminate | exact I]). apply rstep_inv, I. Qed.
Theorem run_inv es : forall s, Inv s -> Inv (run es s).
Proof. unfold run. induction es as [|e es IH]; intros s I; simpl; [exact I|]. apply IH, step_inv, I. Qed.

Section Reachable.
Variables (n p : nat) (es : list ev).
Hypothesis Npos : 0 < n.
Let s := run es (pool n p).

(* sentinels are never posted while a future is unresolved: resizing never takes a worker away from submitted work *)
Theorem never_posts_while_work_is_pending : bad s = false.
Proof.
  pose proof (run_inv es (pool n p) (inv_pool n p Npos)) as I. fold s in I. unfold Inv in I.
  destruct (pc s); [destruct I as (k & _ & _ & H); apply H | apply I].
Qed.

(* when the call is about to return on a pool that is not broken, and nobody idle-timed-out or died since it began (and nobody had
   left unreaped when it began): exactly the requested number of workers, all alive, none leaving; min(alive-when-it-looked, new) of
   the previous workers were kept, the others left on a sentinel each, and only the difference was started *)
Theorem resize_returns_as_asked :
  pc s = Some [] -> clean0 s = true -> faults s = 0 -> broken s = false ->
  maxw s = newv s /\ al s = newv s /\ ex s = 0 /\ de s = 0 /\ sent s = 0 /\
  left s = rsnap s - Nat.min (rsnap s) (newv s) /\ spawned s = newv s - Nat.min (rsnap s) (newv s).
Proof.
  intros P C0 F0 B0.
  pose proof (run_inv es (pool n p) (inv_pool n p Npos)) as I. fold s in I. unfold Inv in I. rewrite P in I.
  destruct I as (k & Hk & E & H).
  assert (k = 0).
  { destruct k as [|k]; [reflexivity|]. exfalso.
    pose proof (suf_length (S k) Hk) as L. rewrite <- E in L. discriminate. }
  subst k. destruct H as (_ & _ & _ & _ & _ & _ & _ & Mw & _ & _ & _ & _ & F).
  destruct (F C0 F0 B0) as (D & _ & _ & _ & _ & _ & Z). destruct (Z ltac:(lia)) as (A & X & Sn & L & Sp).
  unfold K in *. repeat split; auto. apply Mw. lia.
Qed.
End Reachable.

(* deadlock freedom of the call: whenever the resizing thread is blocked, an event of the workers / the manager is enabled that
   strictly decreases pending + 2*sentinels + exited + dead; only faults (idle exits, deaths) and the posting itself increase it *)
Definition mu (s : rs) : nat := pending s + 2 * sent s + ex s + de s.
Theorem blocked_resize_can_always_progress s :
  Inv s -> blocked s = true -> exists e, In e [Complete; TakeSentinel; Reap; Detect] /\ mu (step s e) < mu s.
Proof.
  unfold Inv, blocked. destruct (pc s) as [l|] eqn:P; [|discriminate].
  intros (k & Hk & -> & H) B.
  destruct H as (St & Bd & Mx & Rn & Rp & Ml & Pn & Mw & Bp & Pp & G8 & G7 & F).
  pose proof facts_hold as (F1 & F2 & F3).
  assert (E : k = 0 \/ k = 1 \/ k = 2 \/ k = 3 \/ k = 4 \/ k = 5 \/ k = 6 \/ k = 7 \/ k = 8 \/ k = 9 \/ k = 10 \/ k = 11 \/ k = 12
              \/ k = 13 \/ k = 14) by lia.
  repeat (destruct E as [E|E]); subst k; unfold suf in B; simpl skipn in B; cbv beta iota in B; unfold instr, in_lock in *; simpl in Ml;
    try discriminate; try (rewrite Ml in B; discriminate).
  - (* ZWaitAllAlive *)
    destruct (broken s) eqn:Br; simpl in B; [discriminate|]. destruct (Nat.eqb (ex s + de s) 0) eqn:Z; [discriminate|]. apply Nat.eqb_neq in Z.
    destruct (ex s) as [|e'] eqn:Ex.
    + exists Detect. split; [simpl; auto|]. unfold step, mu. destruct (de s) as [|d] eqn:D; [lia|]. rewrite Br. simpl. rewrite Ex. lia.
    + exists Reap. split; [simpl; auto|]. unfold step, mu. rewrite Ex, Ml. simpl. lia.
  - (* ZAdjustIfLive *) destruct (broken s); discriminate.
  - (* ZWaitShrunk *)
    destruct (broken s) eqn:Br; [rewrite andb_false_r in B; discriminate|]. simpl in B. rewrite andb_true_r in B.
    destruct (Nat.ltb (newv s) (len s)) eqn:C; [|discriminate]. clear B. apply Nat.ltb_lt in C. rename C into B. unfold len in B.
    destruct (ex s) as [|e'] eqn:Ex.
    + destruct (de s) as [|d] eqn:D.
      * exists TakeSentinel. split; [simpl; auto|]. specialize (G7 ltac:(lia)).
        unfold step, mu. destruct (al s) as [|a] eqn:A; [lia|]. destruct (sent s) as [|m] eqn:Sn; [lia|]. simpl. rewrite Ex, D. lia.
      * exists Detect. split; [simpl; auto|]. unfold step, mu. rewrite D, Br. simpl. rewrite Ex. lia.
    + exists Reap. split; [simpl; auto|]. unfold step, mu. rewrite Ex, Ml. simpl. lia.
  - (* ZWaitJobs *)
    rewrite F1 in B. simpl in B. destruct (Nat.eqb (pending s) 0) eqn:Z; [discriminate|]. apply Nat.eqb_neq in Z.
    destruct (broken s) eqn:Br; [specialize (Bp eq_refl); lia|].
    specialize (Pp ltac:(lia)).
    destruct (al s) as [|a] eqn:A.
    + destruct (de s) as [|d] eqn:D.
      * exists Reap. split; [simpl; auto|]. unfold step, mu. destruct (ex s) as [|e'] eqn:Ex; [lia|]. rewrite Ml. simpl. rewrite D. lia.
      * exists Detect. split; [simpl; auto|]. unfold step, mu. rewrite D, Br. simpl. lia.
    + exists Complete. split; [simpl; auto|]. unfold step, mu. rewrite A. destruct (pending s) as [|q] eqn:Q; [lia|]. simpl. lia.
  - destruct (started s); discriminate.
  - destruct (Nat.eqb (newv s) (maxw s)); discriminate.
  - destruct (rnew s); discriminate.
Qed.

(* non-vacuity: shrink 4 -> 2 and grow 2 -> 5 with work in flight, as evaluated *)
Example shrink_example :
  let s := run (Call (Some 2) :: repeat RStep 3 ++ [Complete] ++ repeat RStep 7 ++ [TakeSentinel; TakeSentinel; Reap; Reap] ++ repeat RStep 5)
               (pool 4 1) in
  pc s = Some [] /\ al s = 2 /\ left s = 2 /\ spawned s = 0 /\ bad s = false /\ faults s = 0.
Proof. vm_compute. repeat split; reflexivity. Qed.
Example grow_example :
  let s := run (Call (Some 5) :: repeat RStep 14) (pool 2 0) in pc s = Some [] /\ al s = 5 /\ left s = 0 /\ spawned s = 3.
Proof. vm_compute. repeat split; reflexivity. Qed.
