(* Refinement: the functional spec of resource_tracker.main (Spec/TrackerSpec.v, proved equal
   to the generated code in Char/TrackerChar.v) implements the abstract count machine. *)
From Coq Require Import List String Ascii ZArith Bool Lia.
From LokyV Require Import Lib.PyLib Lib.StmTac Lib.DictFacts Spec.TrackerSpec Model.TrackerAbs.
Import ListNotations.
Open Scope string_scope.

Section R.
Variable keys : list string.

Definition classify (line : string) : req :=
  match parse3 line with
  | Err _ => Bad
  | Ok (cmd, name, rtype) =>
      if String.eqb cmd "PROBE" then Probe
      else if negb (known keys rtype) then Bad
      else if String.eqb cmd "REGISTER" then Reg (rtype, name)
      else if String.eqb cmd "UNREGISTER" then Unreg (rtype, name)
      else if String.eqb cmd "MAYBE_UNLINK" then Maybe (rtype, name)
      else Bad
  end.

Definition count_of (reg : registry) (k : key) : nat :=
  match dget reg (fst k) with
  | Some inner => match dget inner (snd k) with Some z => Z.to_nat z | None => 0 end
  | None => 0
  end.

Definition Inv (reg : registry) : Prop :=
  NoDup (dkeys reg)
  /\ (forall t, dmem reg t = known keys t)
  /\ (forall t inner, dget reg t = Some inner ->
        NoDup (dkeys inner) /\ forall n z, dget inner n = Some z -> (1 <= z)%Z).

Definition out_eff (o : out) : eff :=
  match o with Cleanup (t, n) => ECall t [n] | Report => EReport end.

Lemma key_eqb_true a b : key_eqb a b = true <-> a = b.
Proof.
  destruct a as [a1 a2], b as [b1 b2]. unfold key_eqb; cbn.
  rewrite andb_true_iff, !String.eqb_eq. split; [intros [-> ->]; auto|intros H; inversion H; auto].
Qed.

(* updating one inner entry changes exactly one count *)
Lemma count_set (reg : registry) t inner n z :
  dget reg t = Some inner ->
  forall k, count_of (dset reg t (dset inner n z)) k = upd (count_of reg) (t, n) (Z.to_nat z) k.
Proof.
  intros Hg [t' n']. unfold count_of, upd, key_eqb; cbn [fst snd].
  destruct (String.eqb t' t) eqn:Et; cbn [andb].
  - apply String.eqb_eq in Et; subst t'. rewrite dget_dset_same, Hg.
    destruct (String.eqb n' n) eqn:En.
    + apply String.eqb_eq in En; subst n'. rewrite dget_dset_same. reflexivity.
    + rewrite dget_dset_other by assumption. reflexivity.
  - rewrite dget_dset_other by assumption. reflexivity.
Qed.
Lemma count_remove (reg : registry) t inner n :
  dget reg t = Some inner -> NoDup (dkeys inner) ->
  forall k, count_of (dset reg t (dremove inner n)) k = upd (count_of reg) (t, n) 0 k.
Proof.
  intros Hg Hn [t' n']. unfold count_of, upd, key_eqb; cbn [fst snd].
  destruct (String.eqb t' t) eqn:Et; cbn [andb].
  - apply String.eqb_eq in Et; subst t'. rewrite dget_dset_same, Hg.
    destruct (String.eqb n' n) eqn:En.
    + apply String.eqb_eq in En; subst n'. rewrite dget_dremove_same by assumption. reflexivity.
    + rewrite dget_dremove_other by assumption. reflexivity.
  - rewrite dget_dset_other by assumption. reflexivity.
Qed.

Lemma Inv_dset reg t inner inner' :
  Inv reg -> dget reg t = Some inner ->
  NoDup (dkeys inner') -> (forall n z, dget inner' n = Some z -> (1 <= z)%Z) ->
  Inv (dset reg t inner').
Proof.
  intros (Hn & Hk & Hi) Hg Hn' Hz. split; [apply NoDup_dset; assumption|]. split.
  - intros t'. rewrite <- Hk. unfold dmem.
    destruct (String.eqb t' t) eqn:Et.
    + apply String.eqb_eq in Et; subst. rewrite dget_dset_same, Hg. reflexivity.
    + rewrite dget_dset_other by assumption. reflexivity.
  - intros t' in0. destruct (String.eqb t' t) eqn:Et.
    + apply String.eqb_eq in Et; subst. rewrite dget_dset_same. intros H; inversion H; subst. auto.
    + rewrite dget_dset_other by assumption. apply Hi.
Qed.

Lemma known_inner reg t : Inv reg -> known keys t = true -> exists inner, dget reg t = Some inner.
Proof. intros (_ & Hk & _) H. rewrite <- Hk in H. apply dmem_dget in H. exact H. Qed.

Lemma count_pos reg t inner n z : Inv reg -> dget reg t = Some inner -> dget inner n = Some z ->
  count_of reg (t, n) = Z.to_nat z /\ (1 <= z)%Z.
Proof.
  intros (_ & _ & Hi) Hg Hz. unfold count_of; cbn. rewrite Hg, Hz. split; auto.
  destruct (Hi _ _ Hg) as [_ H]. eauto.
Qed.
Lemma count_zero reg t inner n : dget reg t = Some inner -> dget inner n = None ->
  count_of reg (t, n) = 0.
Proof. intros Hg Hz. unfold count_of; cbn. rewrite Hg, Hz. reflexivity. Qed.


Lemma dset_dset_same {V} (d : dict V) k v w : dset (dset d k v) k w = dset d k w.
Proof.
  induction d as [|[k' v'] d IH]; cbn.
  - rewrite String.eqb_refl. reflexivity.
  - destruct (String.eqb k k') eqn:E; cbn; rewrite E; [reflexivity|]. rewrite IH. reflexivity.
Qed.

Lemma count_replace (reg : registry) t inner inner' n (v : option Z) :
  dget reg t = Some inner ->
  (forall n', dget inner' n' = if String.eqb n' n then v else dget inner n') ->
  forall k, count_of (dset reg t inner') k =
            upd (count_of reg) (t, n) (match v with Some z => Z.to_nat z | None => 0 end) k.
Proof.
  intros Hg Hi [t' n']. unfold count_of, upd, key_eqb; cbn [fst snd].
  destruct (String.eqb t' t) eqn:Et; cbn [andb].
  - apply String.eqb_eq in Et; subst t'. rewrite dget_dset_same, Hg, Hi.
    destruct (String.eqb n' n); reflexivity.
  - rewrite dget_dset_other by assumption. reflexivity.
Qed.

(* arun only looks at the count function pointwise *)
Lemma astep_ext c c' r : (forall k, c k = c' k) ->
  snd (astep c r) = snd (astep c' r) /\ forall k, fst (astep c r) k = fst (astep c' r) k.
Proof.
  intros H. destruct r as [|k|k|k|]; cbn; auto.
  - split; auto. intros k'. unfold upd. rewrite H. destruct (key_eqb k' k); auto.
  - rewrite <- H. destruct (c k); cbn; auto. split; auto. intros k'. unfold upd.
    destruct (key_eqb k' k); auto.
  - rewrite <- H. destruct (c k) as [|[|m]]; cbn; auto.
    + split; auto. intros k'. unfold upd. destruct (key_eqb k' k); auto.
    + split; auto. intros k'. unfold upd. destruct (key_eqb k' k); auto.
Qed.
Lemma arun_ext rs : forall c c', (forall k, c k = c' k) ->
  fst (arun c rs) = fst (arun c' rs) /\ forall k, snd (arun c rs) k = snd (arun c' rs) k.
Proof.
  induction rs as [|r rs IH]; intros c c' H; cbn [arun]; [auto|].
  destruct (astep_ext c c' r H) as [Ho Hc].
  destruct (astep c r) as [c1 o1], (astep c' r) as [c1' o1']. cbn [fst snd] in *. subst o1'.
  destruct (IH c1 c1' Hc) as [Hos Hcf].
  destruct (arun c1 rs) as [os cf], (arun c1' rs) as [os' cf']. cbn [fst snd] in *. subst. auto.
Qed.

Theorem step_refines reg effs line :
  Inv reg ->
  exists reg',
    step_line keys (reg, effs) line
      = (reg', (effs ++ map out_eff (snd (astep (count_of reg) (classify line))))%list)
    /\ Inv reg'
    /\ forall k, count_of reg' k = fst (astep (count_of reg) (classify line)) k.
Proof.
  intros HI. unfold step_line, handle, classify. cbn [fst snd].
  destruct (parse3 line) as [[[cmd name] rtype]|e]; cbn [astep fst snd map].
  2:{ exists reg. auto. }
  destruct (String.eqb cmd "PROBE"); cbn [astep fst snd map].
  { exists reg. rewrite app_nil_r. auto. }
  destruct (known keys rtype) eqn:Hk; cbn [negb astep fst snd map].
  2:{ exists reg. auto. }
  destruct (known_inner reg rtype HI Hk) as [inner Hg]. rewrite Hg.
  pose proof HI as (HN & HK & Hin). destruct (Hin _ _ Hg) as [HNi Hzi].
  destruct (String.eqb cmd "REGISTER"); cbn [astep fst snd map].
  { destruct (dget inner name) as [c|] eqn:Hc.
    - destruct (count_pos _ _ _ _ _ HI Hg Hc) as [Hcnt Hpos].
      exists (dset reg rtype (dset inner name (c + 1)%Z)). rewrite app_nil_r. split; [reflexivity|]. split.
      + eapply Inv_dset; eauto. apply NoDup_dset; auto.
        intros n z. destruct (String.eqb n name) eqn:En.
        * apply String.eqb_eq in En; subst. rewrite dget_dset_same. intros H; inversion H. lia.
        * rewrite dget_dset_other by assumption. apply Hzi.
      + intros k. rewrite count_set by assumption. rewrite Hcnt. f_equal. lia.
    - pose proof (count_zero _ _ _ _ Hg Hc) as Hcnt.
      exists (dset reg rtype (dset inner name 1%Z)). rewrite app_nil_r. split; [reflexivity|]. split.
      + eapply Inv_dset; eauto. apply NoDup_dset; auto.
        intros n z. destruct (String.eqb n name) eqn:En.
        * apply String.eqb_eq in En; subst. rewrite dget_dset_same. intros H; inversion H. lia.
        * rewrite dget_dset_other by assumption. apply Hzi.
      + intros k. rewrite count_set by assumption. rewrite Hcnt. reflexivity. }
  destruct (String.eqb cmd "UNREGISTER"); cbn [astep fst snd map].
  { unfold dmem. destruct (dget inner name) as [c|] eqn:Hc.
    - destruct (count_pos _ _ _ _ _ HI Hg Hc) as [Hcnt Hpos].
      destruct (count_of reg (rtype, name)) as [|m] eqn:Hm; [lia|]. cbn [fst snd map].
      exists (dset reg rtype (dremove inner name)). rewrite app_nil_r. split; [reflexivity|]. split.
      + eapply Inv_dset; eauto. apply NoDup_dremove; auto.
        intros n z. destruct (String.eqb n name) eqn:En.
        * apply String.eqb_eq in En; subst. rewrite dget_dremove_same by assumption. discriminate.
        * rewrite dget_dremove_other by assumption. apply Hzi.
      + intros k. apply count_remove; assumption.
    - rewrite (count_zero _ _ _ _ Hg Hc). cbn [fst snd map]. exists reg. auto. }
  destruct (String.eqb cmd "MAYBE_UNLINK"); cbn [astep fst snd map].
  2:{ exists reg. auto. }
  destruct (dget inner name) as [c|] eqn:Hc.
  2:{ rewrite (count_zero _ _ _ _ Hg Hc). cbn [fst snd map]. exists reg. auto. }
  destruct (count_pos _ _ _ _ _ HI Hg Hc) as [Hcnt Hpos]. rewrite Hcnt.
  destruct (Z.eqb_spec (c - 1) 0) as [Hz|Hz].
  - assert (c = 1%Z) by lia. subst c. cbn [Z.to_nat Pos.to_nat Pos.iter_op Nat.add fst snd map].
    unfold do_cleanup. rewrite dset_dset_same.
    exists (dset reg rtype (dremove (dset inner name (1 - 1)%Z) name)). split; [reflexivity|].
    assert (Hn2 : NoDup (dkeys (dset inner name (1 - 1)%Z))) by (apply NoDup_dset; auto).
    split.
    + eapply Inv_dset; eauto. apply NoDup_dremove; auto.
      intros n z. destruct (String.eqb n name) eqn:En.
      * apply String.eqb_eq in En; subst. rewrite dget_dremove_same by assumption. discriminate.
      * rewrite dget_dremove_other, dget_dset_other by assumption. apply Hzi.
    + apply (count_replace reg rtype inner _ name None Hg).
      intros n'. destruct (String.eqb n' name) eqn:En.
      * apply String.eqb_eq in En; subst. apply dget_dremove_same; assumption.
      * rewrite dget_dremove_other, dget_dset_other by assumption. reflexivity.
  - destruct (Z.to_nat c) as [|[|m]] eqn:Hm; try lia. cbn [fst snd map].
    exists (dset reg rtype (dset inner name (c - 1)%Z)). rewrite app_nil_r. split; [reflexivity|]. split.
    + eapply Inv_dset; eauto. apply NoDup_dset; auto.
      intros n z. destruct (String.eqb n name) eqn:En.
      * apply String.eqb_eq in En; subst. rewrite dget_dset_same. intros H; inversion H. lia.
      * rewrite dget_dset_other by assumption. apply Hzi.
    + intros k. rewrite count_set by assumption. f_equal. lia.
Qed.

(* the whole request loop *)
Theorem run_refines lines : forall reg effs,
  Inv reg ->
  exists reg',
    fold_left (step_line keys) lines (reg, effs)
      = (reg', (effs ++ map out_eff (List.concat (fst (arun (count_of reg) (map classify lines)))))%list)
    /\ Inv reg'
    /\ forall k, count_of reg' k = snd (arun (count_of reg) (map classify lines)) k.
Proof.
  induction lines as [|line lines IH]; intros reg effs HI; cbn [fold_left map arun List.concat fst snd].
  - exists reg. rewrite app_nil_r. auto.
  - destruct (step_refines reg effs line HI) as (reg1 & E1 & HI1 & Hc1). rewrite E1.
    destruct (astep (count_of reg) (classify line)) as [c1 o1] eqn:Ea. cbn [fst snd] in *.
    destruct (IH reg1 (effs ++ map out_eff o1)%list HI1) as (reg2 & E2 & HI2 & Hc2).
    destruct (arun_ext (map classify lines) _ _ Hc1) as [Hos Hcf].
    rewrite Hos in E2.
    destruct (arun c1 (map classify lines)) as [os cf]. cbn [fst snd List.concat] in *.
    exists reg2. rewrite E2, map_app, app_assoc. split; [reflexivity|]. split; [assumption|].
    intros k. rewrite Hc2. apply Hcf.
Qed.

Lemma Inv_init : NoDup keys -> Inv (init_registry keys).
Proof.
  intros Hn. unfold init_registry, Inv. split; [|split].
  - unfold dkeys. rewrite map_map. cbn. rewrite map_id. exact Hn.
  - intros t. unfold dmem, known. induction keys as [|k ks IH]; cbn; [reflexivity|].
    destruct (String.eqb t k); cbn; [reflexivity|]. apply IH. inversion Hn; auto.
  - intros t inner H. assert (inner = []).
    { clear Hn. induction keys as [|k ks IH]; cbn in H; [discriminate|].
      destruct (String.eqb t k); [inversion H; auto|auto]. }
    subst. split; [constructor|]. intros n z; cbn; discriminate.
Qed.
Lemma count_init k : count_of (init_registry keys) k = zero k.
Proof.
  unfold count_of, init_registry, zero. destruct (dget _ (fst k)) as [inner|] eqn:E; [|reflexivity].
  assert (inner = []).
  { induction keys as [|k0 ks IH]; cbn in E; [discriminate|].
    destruct (String.eqb (fst k) k0); [inversion E; auto|auto]. }
  subst. reflexivity.
Qed.
End R.
