(* What one iteration of the worker's main loop (Gen/Worker.v) does, for every behaviour of its environment. *)
From Coq Require Import List Bool Arith.
From LokyV Require Import Lib.WorkerLib Gen.Worker.
Import ListNotations.

Definition it (e : wenv) : wres := iteration worker_loop e.
Opaque it.
Definition fin_eqb (a b : fin) : bool :=
  match a, b with FNext, FNext | FContinue, FContinue | FReturn, FReturn | FExit1, FExit1 | FStuck, FStuck => true | _, _ => false end.
Lemma fin_eqb_eq a b : fin_eqb a b = true -> a = b. Proof. destruct a, b; simpl; congruence. Qed.
Definition is_item (g : gout) : bool := match g with GItem => true | _ => false end.

Ltac by_enumeration chk :=
  let H := fresh in
  assert (H : forallb chk all_envs = true) by (vm_compute; reflexivity);
  rewrite forallb_forall in H; intros e; specialize (H e (all_envs_complete e)).

(* one call item taken = exactly one result message, whatever the task and the pickling of its result do; none otherwise *)
Definition chk_one_message (e : wenv) : bool :=
  Nat.eqb (count is_result (acts (it e))) (if is_item (get e) then 1 else 0) &&
  Nat.eqb (count is_run (acts (it e))) (if is_item (get e) then 1 else 0).
Theorem one_item_one_message : forall e,
  count is_result (acts (it e)) = (if is_item (get e) then 1 else 0) /\ count is_run (acts (it e)) = (if is_item (get e) then 1 else 0).
Proof. by_enumeration chk_one_message. unfold chk_one_message in *. apply andb_true_iff in H. destruct H as [A B]. split; apply Nat.eqb_eq; assumption. Qed.

(* a raising task or an unsendable result never ends the worker: the iteration ends normally unless the leak check fires *)
Definition chk_contained (e : wenv) : bool :=
  if is_item (get e) then (if psutil e && leak e then fin_eqb (wfin (it e)) FReturn else fin_eqb (wfin (it e)) FNext) else true.
Theorem task_failure_is_contained : forall e, get e = GItem -> wfin (it e) = if psutil e && leak e then FReturn else FNext.
Proof. by_enumeration chk_contained. intros G. unfold chk_contained in *. rewrite G in H. simpl in H. destruct (psutil e && leak e); apply fin_eqb_eq, H. Qed.

(* the worker never leaves cleanly without telling the parent first, and the result of its last task precedes the announcement *)
Definition chk_announced (e : wenv) : bool :=
  (if fin_eqb (wfin (it e)) FReturn then Nat.eqb (count is_pid (acts (it e))) 1 else Nat.eqb (count is_pid (acts (it e))) 0)
  && before is_result is_pid (acts (it e)).
Theorem clean_exit_iff_announced : forall e,
  (wfin (it e) = FReturn -> count is_pid (acts (it e)) = 1) /\ (wfin (it e) <> FReturn -> count is_pid (acts (it e)) = 0)
  /\ before is_result is_pid (acts (it e)) = true.
Proof.
  by_enumeration chk_announced. unfold chk_announced in *. apply andb_true_iff in H. destruct H as [A B].
  destruct (wfin (it e)) eqn:F; simpl in A; apply Nat.eqb_eq in A; repeat split; auto; try discriminate; congruence.
Qed.

(* when it leaves: on a sentinel, on an idle time-out with the management lock free, on a detected leak -- and on nothing else *)
Definition chk_when_it_leaves (e : wenv) : bool :=
  match get e with
  | GSentinel => fin_eqb (wfin (it e)) FReturn
  | GEmpty => if mgmt_free e then fin_eqb (wfin (it e)) FReturn else fin_eqb (wfin (it e)) FContinue && match acts (it e) with [] => true | _ => false end
  | GItem => true
  | GError => fin_eqb (wfin (it e)) FExit1 && existsb (fun x => match x with APutTraceback => true | _ => false end) (acts (it e))
  end.
Theorem leaves_on_sentinel : forall e, get e = GSentinel -> wfin (it e) = FReturn.
Proof. by_enumeration chk_when_it_leaves. intros G. unfold chk_when_it_leaves in *. rewrite G in H. apply fin_eqb_eq, H. Qed.
Theorem idle_exit_only_with_the_management_lock_free : forall e, get e = GEmpty ->
  if mgmt_free e then wfin (it e) = FReturn else (wfin (it e) = FContinue /\ acts (it e) = []).
Proof.
  by_enumeration chk_when_it_leaves. intros G. unfold chk_when_it_leaves in *. rewrite G in H. destruct (mgmt_free e).
  - apply fin_eqb_eq, H.
  - apply andb_true_iff in H. destruct H as [A B]. split; [apply fin_eqb_eq, A|]. destruct (acts (it e)); [reflexivity|discriminate].
Qed.
Theorem undecodable_item_is_loud : forall e, get e = GError -> wfin (it e) = FExit1 /\ In APutTraceback (acts (it e)).
Proof.
  by_enumeration chk_when_it_leaves. intros G. unfold chk_when_it_leaves in *. rewrite G in H. apply andb_true_iff in H. destruct H as [A B].
  split; [apply fin_eqb_eq, A|]. apply existsb_exists in B. destruct B as [x [I X]]. destruct x; try discriminate. exact I.
Qed.

(* the management lock is only probed: released at once, never held across a message or at the end of the iteration *)
Definition chk_mgmt (e : wenv) : bool := acquire_then_release (acts (it e)) && negb (holds_mgmt (it e)).
Theorem management_lock_is_only_probed : forall e, acquire_then_release (acts (it e)) = true /\ holds_mgmt (it e) = false.
Proof. by_enumeration chk_mgmt. unfold chk_mgmt in *. apply andb_true_iff in H. destruct H as [A B]. split; [exact A|]. destruct (holds_mgmt (it e)); [discriminate|reflexivity]. Qed.

(* the hand-shake wait is bounded except on the leak path *)
Definition chk_bounded (e : wenv) : bool :=
  if psutil e && leak e && is_item (get e) then true else negb (existsb (fun x => match x with AWaitExit false => true | _ => false end) (acts (it e))).
Theorem handshake_wait_is_bounded : forall e, (psutil e && leak e && is_item (get e)) = false -> ~ In (AWaitExit false) (acts (it e)).
Proof.
  by_enumeration chk_bounded. intros G I. unfold chk_bounded in *. rewrite G in H. apply negb_true_iff in H.
  assert (X : existsb (fun x => match x with AWaitExit false => true | _ => false end) (acts (it e)) = true) by (apply existsb_exists; eexists; split; [exact I|reflexivity]).
  congruence.
Qed.

Definition chk_not_stuck (e : wenv) : bool := negb (fin_eqb (wfin (it e)) FStuck).
Theorem iteration_never_stuck : forall e, wfin (it e) <> FStuck.
Proof. by_enumeration chk_not_stuck. unfold chk_not_stuck in *. intros F. rewrite F in H. discriminate. Qed.

(* between taking a call item and running it the worker sends nothing to the parent: the manager thread is not told that a slot of
   the call queue was freed (what Model/QueueCap.v calls "wake on take"; finding H19 rests on it) *)
Fixpoint sends_before_run (l : list act) (got : bool) : bool :=
  match l with
  | [] => false
  | AGet :: k => sends_before_run k true
  | ARun :: _ => false
  | (APutPid | APutResult | APutException | APutSendError | APutTraceback) :: k => got || sends_before_run k got
  | _ :: k => sends_before_run k got
  end.
Definition wake_on_take : bool := existsb (fun e => is_item (get e) && sends_before_run (acts (it e)) false) all_envs.
Theorem worker_taking_an_item_tells_nobody : wake_on_take = false.
Proof. vm_compute. reflexivity. Qed.
