From Coq Require Import List Bool Arith Lia.
From LokyV Require Import Lib.LedgerLib Gen.Ledger Model.KillLock.
Import ListNotations.

Lemma locked_ok : kill_workers_holds_the_management_lock = true. Proof. reflexivity. Qed.

Definition KInv (s : ks) : Prop := hold s <> ByDead /\ (hold s = ByLive -> 0 < alive s).

Lemma step_kinv s e : external e = false -> KInv s -> KInv (step s e).
Proof.
  unfold step. rewrite locked_ok. intros X [H1 H2]. destruct s as [h a k]. simpl in *.
  destruct e; try discriminate; simpl; destruct h; try destruct a; simpl; unfold KInv; simpl; split; try congruence; try lia;
    intros; try discriminate; try (apply H2; assumption); lia.
Qed.

(* loky's own kills never leave the management lock with a dead process: whatever the workers and the manager do, absent kills from
   outside, the lock is free or held by a live worker whose next action releases it *)
Theorem own_kills_never_orphan_the_lock n es : forallb (fun e => negb (external e)) es = true ->
  hold (run es (ks0 n)) <> ByDead /\
  manager_can_take_the_lock (step (run es (ks0 n)) Release) = true.
Proof.
  intros X.
  assert (I : KInv (run es (ks0 n))).
  { unfold run. assert (I0 : KInv (ks0 n)) by (unfold KInv, ks0; simpl; split; [discriminate|intros; discriminate]).
    revert I0. generalize (ks0 n). induction es as [|e es IH]; intros s I0; simpl; [exact I0|].
    simpl in X. apply andb_true_iff in X. destruct X as [Xe Xr]. apply IH; [exact Xr|]. apply step_kinv; [|exact I0].
    destruct (external e); [discriminate|reflexivity]. }
  destruct I as [H1 H2]. split; [exact H1|].
  unfold step, manager_can_take_the_lock. rewrite locked_ok. destruct (run es (ks0 n)) as [h a k]. simpl in *. destruct h; simpl; congruence.
Qed.

(* H10: without the lock around the kills, a worker caught between acquire and release takes the lock to its grave *)
Example h10_kill_without_the_lock :
  let s := fold_left (step_with false) [Probe; MgrKillAll] (ks0 2) in hold s = ByDead /\ manager_can_take_the_lock (step_with false s Release) = false.
Proof. vm_compute. split; reflexivity. Qed.
(* H5 (known): a kill from outside can still do it *)
Example h5_external_kill_of_the_holder :
  let s := run [Probe; ExtKillHolder; MgrKillAll] (ks0 2) in hold s = ByDead /\ killed_all s = false.
Proof. vm_compute. split; reflexivity. Qed.
