(* Proofs over Model/Pool.v (C01, C02, C05, C06, C08). *)
From Coq Require Import List Arith Bool Lia.
From LokyV Require Import Lib.LedgerLib Lib.PoolLib Gen.Ledger Gen.Pool Model.Pool.
Import ListNotations.

(* ------------------------------------------------------------------------------------------------------------------ *)
(* 0. submit() and the flags                                                                                            *)
Lemma submit_refused_when_closed p : closed p = true -> user p = true -> sexec submit_prog p = None.
Proof.
  unfold closed. intros C U. rewrite U in C. simpl in C. unfold submit_prog. simpl.
  destruct (broken p); [reflexivity|]. destruct (shut p); [reflexivity|]. destruct (gshut p); [reflexivity|]. discriminate.
Qed.
Lemma submit_refused_when_broken p : broken p = true -> sexec submit_prog p = None.
Proof. intros B. unfold submit_prog. simpl. rewrite B. reflexivity. Qed.

Lemma checks_fail_when_closed p : closed p = true -> user p = true -> checks_pass submit_prog p = None.
Proof.
  unfold closed. intros C U. rewrite U in C. simpl in C. unfold submit_prog. simpl.
  destruct (broken p); [reflexivity|]. destruct (shut p); [reflexivity|]. destruct (gshut p); [reflexivity|]. discriminate.
Qed.
Lemma checks_fail_when_broken p : broken p = true -> checks_pass submit_prog p = None.
Proof. intros B. unfold submit_prog. simpl. rewrite B. reflexivity. Qed.
Lemma checks_pass_means_open p r : checks_pass submit_prog p = Some r ->
  broken p = false /\ shut p = false /\ gshut p = false /\ r = skipn 3 submit_prog.
Proof.
  unfold submit_prog. simpl. destruct (broken p); [discriminate|]. destruct (shut p); [discriminate|]. destruct (gshut p); [discriminate|].
  intros H. inversion H. auto.
Qed.

Lemma submit_accepted p p' : sexec submit_prog p = Some p' ->
  broken p = false /\ shut p = false /\ gshut p = false /\
  pending p' = S (pending p) /\ submitted p' = S (submitted p) /\ ok p' = ok p /\ failB p' = failB p /\ failS p' = failS p /\
  shut p' = shut p /\ broken p' = broken p /\ kill p' = kill p /\ gshut p' = gshut p /\ user p' = user p /\ mgr p' = mgr p /\
  maxw p' = maxw p /\ refused p' = refused p /\
  procs p' = (if ensure_running_tops_up_then_starts_manager then procs p ++ repeat WAlive (maxw p - length (procs p)) else procs p).
Proof.
  unfold submit_prog. simpl. destruct (broken p) eqn:B; [discriminate|]. destruct (shut p) eqn:S; [discriminate|].
  destruct (gshut p) eqn:G; [discriminate|]. intros H. inversion H; subst; clear H.
  destruct ensure_running_tops_up_then_starts_manager; simpl; rewrite ?B, ?S, ?G; repeat split; reflexivity.
Qed.

Lemma shutting_down_means_closed p : beval is_shutting_down_expr p = true -> closed p = true.
Proof.
  unfold is_shutting_down_expr, closed. simpl. destruct (gshut p), (user p), (shut p), (broken p); simpl; auto.
Qed.

Lemma flag_broken_sets p : let q := fexec flag_as_broken_prog None p in
  broken q = true /\ shut q = true /\ user q = user p /\ gshut q = gshut p /\ pending q = pending p /\ procs q = procs p /\ mgr q = mgr p
  /\ submitted q = submitted p /\ ok q = ok p /\ failB q = failB p /\ failS q = failS p /\ kill q = kill p /\ maxw q = maxw p.
Proof. unfold flag_as_broken_prog, fexec. simpl. repeat split; reflexivity. Qed.
Lemma flag_shutdown_sets arg p : let q := fexec flag_as_shutting_down_prog arg p in
  shut q = true /\ broken q = broken p /\ user q = user p /\ gshut q = gshut p /\ pending q = pending p /\ procs q = procs p
  /\ mgr q = mgr p /\ submitted q = submitted p /\ ok q = ok p /\ failB q = failB p /\ failS q = failS p /\ maxw q = maxw p
  /\ kill q = match arg with Some k => k | None => kill p end.
Proof. unfold flag_as_shutting_down_prog, fexec. simpl. destruct arg; simpl; repeat split; reflexivity. Qed.

(* ------------------------------------------------------------------------------------------------------------------ *)
(* 1. Abstract interpretation of the manager's operation lists: all paths (kill_workers set or not).                     *)
Record ab := mka { a_c : bool;      (* the pool is known to be closed: nothing new can be accepted *)
                   a_bk : bool;     (* the broken flag is known to be set *)
                   a_pz : bool;     (* no unresolved future *)
                   a_pe : bool;     (* process table empty *)
                   a_err : bool }.  (* a future was failed with BrokenProcessPool before the flag was set *)
Definition aprim (o : rop) (a : ab) : ab :=
  match o with
  | FlagBroken => mka true true (a_pz a) (a_pe a) (a_err a)
  | FlagShutdown => mka true (a_bk a) (a_pz a) (a_pe a) (a_err a)
  | FailPending => mka (a_c a) (a_bk a) (a_c a) (a_pe a) (a_err a || negb (a_bk a))
  | FailPendingShut => mka (a_c a) (a_bk a) (a_c a) (a_pe a) (a_err a)
  | KillWorkers | JoinAllProcesses => mka (a_c a) (a_bk a) (a_pz a) (a_c a) (a_err a)
  | _ => a
  end.
Definition simple (o : rop) : bool := match o with IfKillWorkers _ => false | _ => true end.
Fixpoint apaths (ops : list rop) (a : ab) : list ab :=
  match ops with
  | [] => [a]
  | IfKillWorkers inner :: r => apaths r (fold_left (fun a o => aprim o a) inner a) ++ apaths r a
  | o :: r => apaths r (aprim o a)
  end.
Definition wf_ops (ops : list rop) : bool :=
  forallb (fun o => match o with IfKillWorkers inner => forallb simple inner | _ => true end) ops.
Definition final (t : tag) (a : ab) : bool :=
  negb (a_err a) && match t with TShutting => a_c a | _ => a_pz a && a_pe a end.
Definition good (t : tag) (ops : list rop) (a : ab) : bool := forallb (final t) (apaths ops a).
Definition awf (a : ab) : bool := (a_c a || negb (a_pz a || a_pe a)).

Definition approx (p : pool) (a : ab) : Prop :=
  (a_c a = true -> closed p = true) /\ (a_bk a = true -> broken p = true) /\
  (a_pz a = true -> pending p = 0) /\ (a_pe a = true -> procs p = []).

Lemma apaths_simple_app inner : forall r a, forallb simple inner = true ->
  apaths (inner ++ r) a = apaths r (fold_left (fun a o => aprim o a) inner a).
Proof.
  induction inner as [|o inner IH]; intros r a H; simpl; [reflexivity|].
  simpl in H. apply andb_true_iff in H. destruct H as [Ho Hi].
  destruct o; simpl in Ho; try discriminate; simpl; apply IH; exact Hi.
Qed.

Lemma awf_closed a : awf a = true -> a_pz a = true -> a_c a = true.
Proof. unfold awf. intros W Z. rewrite Z in W. simpl in W. rewrite orb_false_r in W. exact W. Qed.
Lemma awf_prim o a : awf a = true -> awf (aprim o a) = true.
Proof. unfold awf. destruct a as [c bk pz pe er]. destruct o; simpl; auto; destruct c, pz, pe; simpl; auto. Qed.
Lemma awf_prims inner : forall a, awf a = true -> awf (fold_left (fun a o => aprim o a) inner a) = true.
Proof. induction inner as [|o inner IH]; intros a H; simpl; auto. apply IH, awf_prim, H. Qed.

(* the error bit never goes away *)
Lemma err_prim o a : a_err a = true -> a_err (aprim o a) = true.
Proof. destruct o; simpl; auto. intros ->. reflexivity. Qed.
Lemma err_paths ops : forall t a, a_err a = true -> good t ops a = false.
Proof.
  unfold good. induction ops as [|o r IH]; intros t a E.
  - simpl. unfold final. rewrite E. reflexivity.
  - destruct (simple o) eqn:So.
    + assert (X : apaths (o :: r) a = apaths r (aprim o a)) by (destruct o; try discriminate; reflexivity).
      rewrite X. apply IH, err_prim, E.
    + destruct o; try discriminate. simpl. rewrite forallb_app. rewrite (IH t a E). apply andb_false_r.
Qed.

Lemma closed_stable_flags p q :
  user q = user p -> gshut q = gshut p -> (shut p = true -> shut q = true) -> closed p = true -> closed q = true.
Proof.
  unfold closed. intros -> -> S C. destruct (user p); simpl in *; auto. destruct (shut p); simpl in *.
  - rewrite S by reflexivity. reflexivity.
  - rewrite C. apply orb_true_r.
Qed.

Lemma cprim_sound o p a : simple o = true -> awf a = true -> a_err (aprim o a) = false ->
  approx p a -> approx (cprim o p) (aprim o a) /\ (failB (cprim o p) <> failB p -> broken (cprim o p) = true)
  /\ user (cprim o p) = user p /\ gshut (cprim o p) = gshut p /\ kill (cprim o p) = kill p /\ maxw (cprim o p) = maxw p
  /\ (shut p = true -> shut (cprim o p) = true) /\ (broken p = true -> broken (cprim o p) = true)
  /\ submitted (cprim o p) = submitted p /\ ok (cprim o p) = ok p
  /\ failB (cprim o p) + failS (cprim o p) + pending (cprim o p) = failB p + failS p + pending p
  /\ length (procs (cprim o p)) <= length (procs p) /\ mgr (cprim o p) = mgr p.
Proof.
  intros S W E (Ac & Ab & Az & Ae).
  destruct o; try discriminate; unfold approx, closed in *; simpl in *; repeat split; auto; try lia.
  - intros H. rewrite (Ae H). reflexivity.
  - rewrite map_length. lia.
  - intros _. apply Ab. apply orb_false_iff in E. destruct E as [_ E]. apply negb_false_iff in E. exact E.
Qed.

(* the three lists the manager walks, as generated from the current source *)
Definition a0 : ab := mka false false false false false.           (* nothing known (entering terminate_broken) *)
Definition a_shutting : ab := mka true false false false false.    (* is_shutting_down() was true *)
Definition a_joining : ab := mka true false true false false.      (* ... and nothing was pending *)
Lemma lists_well_formed : wf_ops broken_ops && wf_ops shutting_ops && wf_ops joining_ops = true.
Proof. vm_compute. reflexivity. Qed.
Lemma wf_broken : wf_ops broken_ops = true. Proof. vm_compute. reflexivity. Qed.
Lemma wf_shutting : wf_ops shutting_ops = true. Proof. vm_compute. reflexivity. Qed.
Lemma wf_joining : wf_ops joining_ops = true. Proof. vm_compute. reflexivity. Qed.
Lemma broken_list_good : good TBroken broken_ops a0 = true.
Proof. vm_compute. reflexivity. Qed.
Lemma shutting_list_good : good TShutting shutting_ops a_shutting = true.
Proof. vm_compute. reflexivity. Qed.
Lemma joining_list_good : good TJoining joining_ops a_joining = true.
Proof. vm_compute. reflexivity. Qed.

(* ------------------------------------------------------------------------------------------------------------------ *)
(* 2. The invariant.                                                                                                    *)
Definition SubLive (p : pool) : Prop :=
  match sub p with Some r => user p = true /\ closed p = false /\ broken p = false /\ exists k, r = skipn k submit_prog | None => True end.

Definition Inv (p : pool) : Prop :=
  (failB p > 0 -> broken p = true) /\
  submitted p = ok p + failB p + failS p + pending p /\
  length (procs p) <= maxw p /\ SubLive p /\
  match mgr p with
  | MLoop => True
  | MOps t ops => wf_ops ops = true /\ exists a, approx p a /\ awf a = true /\ good t ops a = true
  | MDone => pending p = 0 /\ procs p = [] /\ closed p = true
  end.

Lemma inv0 n : Inv (pool0 n).
Proof. unfold Inv, SubLive, pool0; simpl. repeat split; auto; lia. Qed.

Lemma sublive_closed p : SubLive p -> closed p = true -> sub p = None.
Proof. unfold SubLive. destruct (sub p); [intros (_ & C & _) H; congruence | auto]. Qed.

Lemma top_up_length p : length (procs p) <= maxw p -> length (procs (top_up p)) <= maxw p.
Proof. unfold top_up. simpl. rewrite app_length, repeat_length. lia. Qed.

Lemma set_nth_length l : forall i v, length (set_nth l i v) = length l.
Proof. induction l as [|h t IH]; intros [|i] v; simpl; auto. Qed.
Lemma del_nth_length l : forall i, length (del_nth l i) <= length l.
Proof. induction l as [|h t IH]; intros [|i]; simpl; auto. specialize (IH i). lia. Qed.

Lemma good_tail t o r a : simple o = true -> good t (o :: r) a = true -> good t r (aprim o a) = true /\ a_err (aprim o a) = false.
Proof.
  intros S G. assert (G' : good t r (aprim o a) = true) by (destruct o; try discriminate; exact G).
  split; [exact G'|]. destruct (a_err (aprim o a)) eqn:E; [|reflexivity]. rewrite (err_paths r t _ E) in G'. discriminate.
Qed.

(* approx survives everything the environment does while the manager walks a list (no resize) *)
Lemma approx_env p q a :
  awf a = true -> approx p a ->
  (closed p = true -> (closed q = true /\ pending q = pending p /\ procs q = procs p)) ->
  (closed p = true -> closed q = true) -> (broken p = true -> broken q = true) -> approx q a.
Proof.
  unfold awf. intros W (Ac & Ab & Az & Ae) Hc Hc' Hb. destruct a as [c bk pz pe er]. simpl in *.
  destruct c; simpl in W.
  - destruct (Hc (Ac eq_refl)) as (C & Pn & Pr). repeat split; auto; intros H; [rewrite Pn | rewrite Pr]; auto.
  - apply negb_true_iff, orb_false_iff in W. destruct W as [-> ->]. repeat split; auto; discriminate.
Qed.

Lemma inv_fields p q :
  user q = user p -> shut q = shut p -> broken q = broken p -> gshut q = gshut p -> maxw q = maxw p -> procs q = procs p ->
  pending q = pending p -> submitted q = submitted p -> ok q = ok p -> failB q = failB p -> failS q = failS p -> mgr q = mgr p ->
  SubLive q -> Inv p -> Inv q.
Proof.
  unfold Inv, approx, closed. intros -> -> -> -> -> -> -> -> -> -> -> -> S (I1 & I2 & I3 & _ & I4). auto.
Qed.
Lemma sublive_same p q : sub q = sub p -> user q = user p -> shut q = shut p -> gshut q = gshut p -> broken q = broken p ->
  SubLive p -> SubLive q.
Proof. unfold SubLive, closed. intros -> -> -> -> ->. auto. Qed.
Lemma sublive_none q : sub q = None -> SubLive q.
Proof. unfold SubLive. intros ->. exact I. Qed.

Lemma skipn_cons {A} (l : list A) : forall k o r, skipn k l = o :: r -> skipn (S k) l = r.
Proof.
  induction l as [|x l IH]; intros [|k] o r H; simpl in *; try discriminate.
  - inversion H. reflexivity.
  - apply (IH k o r H).
Qed.

Lemma cprim_unlocked o p : needs_lock o = false -> simple o = true ->
  shut (cprim o p) = shut p /\ broken (cprim o p) = broken p /\ user (cprim o p) = user p /\ gshut (cprim o p) = gshut p
  /\ sub (cprim o p) = sub p.
Proof. destruct o; simpl; intros; try discriminate; auto. Qed.
Lemma cprim_sub o p : sub (cprim o p) = sub p.
Proof. destruct o; reflexivity. Qed.

Lemma mgrop_simple p t o r : mgr p = MOps t (o :: r) -> simple o = true ->
  step p MgrOp = if needs_lock o && negb (lock_free p) then p else set_mgr (cprim o p) (MOps t r).
Proof. intros M S. unfold step. rewrite M. destruct o; try discriminate; destruct t; reflexivity. Qed.
Lemma mgrop_ifkill p t ops r : mgr p = MOps t (IfKillWorkers ops :: r) ->
  step p MgrOp = set_mgr p (MOps t (if kill p then ops ++ r else r)).
Proof. intros M. unfold step. rewrite M. destruct t; reflexivity. Qed.
Lemma mgrop_end p t : mgr p = MOps t [] ->
  step p MgrOp = match t with TShutting => if Nat.eqb (pending p) 0 then set_mgr p (MOps TJoining joining_ops) else set_mgr p MLoop
                            | _ => set_mgr p MDone end.
Proof. intros M. unfold step. rewrite M. destruct t; reflexivity. Qed.

Lemma resize_guard_ok : resize_tops_up_only_on_a_live_pool = true. Proof. reflexivity. Qed.

(* a pool that is open (not closed) keeps its phase condition when something changes that leaves it open, the broken flag and the
   manager's position alone *)
Lemma open_phase p q :
  closed p = false -> closed q = false -> broken q = broken p -> mgr q = mgr p ->
  match mgr p with
  | MLoop => True
  | MOps t ops => wf_ops ops = true /\ exists a, approx p a /\ awf a = true /\ good t ops a = true
  | MDone => pending p = 0 /\ procs p = [] /\ closed p = true
  end ->
  match mgr q with
  | MLoop => True
  | MOps t ops => wf_ops ops = true /\ exists a, approx q a /\ awf a = true /\ good t ops a = true
  | MDone => pending q = 0 /\ procs q = [] /\ closed q = true
  end.
Proof.
  intros NC Cq Bq Mq I4. rewrite Mq. destruct (mgr p) as [|t ops|]; [exact I| |].
  - destruct I4 as (Wf & a & (Ac & Ab & Az & Ae) & W & Gd). split; [exact Wf|]. exists a. split; [|split; assumption].
    assert (a_c a = false) by (destruct (a_c a); [specialize (Ac eq_refl); congruence | reflexivity]).
    unfold awf in W. rewrite H in W. simpl in W. apply negb_true_iff, orb_false_iff in W. destruct W as [Wz We].
    unfold approx. rewrite H, Wz, We. repeat split; try discriminate. intros X. rewrite Bq. apply Ab, X.
  - destruct I4 as (_ & _ & C). congruence.
Qed.

Lemma step_inv p e : Inv p -> Inv (step p e).
Proof.
  intros HI. pose proof HI as (I1 & I2 & I3 & SL & I4). destruct e; unfold step.
  13: { (* ResizeTopUp *)
    rewrite resize_guard_ok. cbn [negb orb].
    destruct (user p && (negb (closed p) && negb (broken p))) eqn:G; [|exact HI].
    apply andb_true_iff in G. destruct G as [U G]. apply andb_true_iff in G. destruct G as [NC NB].
    apply negb_true_iff in NC. apply negb_true_iff in NB.
    unfold Inv. simpl. split; [exact I1|]. split; [exact I2|]. split; [rewrite app_length, repeat_length; lia|].
    split; [apply (sublive_same p); auto|].
    apply (open_phase p (top_up p)); auto. }
  - (* Submit: the leading checks *)
    destruct (user p && lock_free p) eqn:G; [|exact HI]. apply andb_true_iff in G. destruct G as [U LF].
    assert (SN : sub p = None) by (unfold lock_free in LF; destruct (sub p); [discriminate | reflexivity]).
    destruct (checks_pass submit_prog p) as [rest|] eqn:C.
    + destruct (checks_pass_means_open p rest C) as (B & Sh & Gs & R).
      apply (inv_fields p); simpl; auto.
      unfold SubLive; simpl. destruct rest; [exact I|]. repeat split; auto.
      * unfold closed; simpl. rewrite U, Sh, Gs. reflexivity.
      * exists 3. exact R.
    + apply (inv_fields p); simpl; auto. apply sublive_none. reflexivity.
  - (* SubmitStep *)
    destruct (sub p) as [[|o r]|] eqn:SB; [apply (inv_fields p); simpl; auto; apply sublive_none; reflexivity | | exact HI].
    unfold SubLive in SL. rewrite SB in SL. destruct SL as (U & NC & NB & k & K).
    assert (Sh : shut p = false /\ gshut p = false).
    { unfold closed in NC. rewrite U in NC. simpl in NC. apply orb_false_iff in NC. exact NC. }
    destruct Sh as [Sh Gs].
    assert (NR : raises o p = false) by (destruct o; simpl; auto).
    assert (SLn : forall q, sub q = match r with [] => None | _ => Some r end -> user q = user p -> shut q = shut p -> gshut q = gshut p ->
                            broken q = broken p -> SubLive q).
    { intros q Hs Hu Hsh Hg Hb. unfold SubLive. rewrite Hs. destruct r; [exact I|].
      unfold closed. rewrite Hu, Hsh, Hg, Hb. repeat split; auto. exists (S k). symmetry. apply (skipn_cons _ _ o). symmetry. exact K. }
    assert (PH : forall q, closed q = false -> broken q = broken p -> mgr q = mgr p ->
                 match mgr q with
                 | MLoop => True
                 | MOps t ops => wf_ops ops = true /\ exists a, approx q a /\ awf a = true /\ good t ops a = true
                 | MDone => pending q = 0 /\ procs q = [] /\ closed q = true
                 end).
    { intros q Cq Bq Mq. rewrite Mq. destruct (mgr p) as [|t ops|]; [exact I| |].
      - destruct I4 as (Wf & a & (Ac & Ab & Az & Ae) & W & Gd). split; [exact Wf|]. exists a. split; [|split; assumption].
        assert (a_c a = false) by (destruct (a_c a); [specialize (Ac eq_refl); congruence | reflexivity]).
        unfold awf in W. rewrite H in W. simpl in W. apply negb_true_iff, orb_false_iff in W. destruct W as [Wz We].
        unfold approx. rewrite H, Wz, We. repeat split; try discriminate. intros X. rewrite Bq. apply Ab, X.
      - destruct I4 as (_ & _ & C). congruence. }
    unfold sop1. destruct o; rewrite ?NR.
    all: try (apply (inv_fields p); simpl; auto; apply SLn; reflexivity).
    + (* SAddPending *)
      unfold Inv; simpl. split; [exact I1|]. split; [lia|]. split; [exact I3|].
      split; [apply SLn; reflexivity|]. apply (PH (mkp (user p) (shut p) (broken p) (kill p) (gshut p) (maxw p) (procs p) (S (pending p))
                                                      (S (submitted p)) (ok p) (failB p) (failS p) (refused p) (mgr p)
                                                      (match r with [] => None | _ => Some r end))); auto.
    + (* SEnsureRunning *)
      destruct ensure_running_tops_up_then_starts_manager.
      * unfold Inv; simpl. split; [exact I1|]. split; [exact I2|]. split; [rewrite app_length, repeat_length; lia|].
        split; [apply SLn; reflexivity|].
        apply (PH (set_sub (top_up p) (match r with [] => None | _ => Some r end))); auto.
      * apply (inv_fields p); simpl; auto; apply SLn; reflexivity.
  - (* ShutdownCall *)
    destruct (user p && lock_free p && shutdown_flags_first_with_kill_argument) eqn:G; [|exact HI].
    apply andb_true_iff in G. destruct G as [G _]. apply andb_true_iff in G. destruct G as [_ LF].
    assert (SN : sub p = None) by (unfold lock_free in LF; destruct (sub p); [discriminate | reflexivity]).
    pose proof (flag_shutdown_sets (Some k) p) as F. cbv zeta in F.
    destruct F as (Sh & B & U & G & Pn & Pr & M & Su & Ok & FB & FS & Mx & K).
    assert (SQ : sub (fexec flag_as_shutting_down_prog (Some k) p) = None) by (unfold flag_as_shutting_down_prog, fexec; simpl; exact SN).
    unfold Inv. rewrite FB, B, Su, Ok, FS, Pn, Pr, M, Mx. split; [exact I1|]. split; [exact I2|]. split; [exact I3|].
    split; [apply sublive_none, SQ|].
    assert (C : closed (fexec flag_as_shutting_down_prog (Some k) p) = true) by (unfold closed; rewrite Sh; destruct (user _); reflexivity).
    destruct (mgr p) as [|t ops|]; [exact I| |].
    + destruct I4 as (Wf & a & A & W & Gd). split; [exact Wf|]. exists a. split; [|split; assumption].
      apply (approx_env p _ a W A); auto; congruence.
    + destruct I4 as (Z & E & _). auto.
  - (* Drop *)
    destruct (lock_free p) eqn:LF; [|exact HI].
    assert (SN : sub p = None) by (unfold lock_free in LF; destruct (sub p); [discriminate | reflexivity]).
    unfold Inv; simpl. split; [exact I1|]. split; [exact I2|]. split; [exact I3|]. split; [apply sublive_none; exact SN|].
    destruct (mgr p) as [|t ops|]; [exact I| |].
    + destruct I4 as (Wf & a & A & W & Gd). split; [exact Wf|]. exists a. split; [|split; assumption].
      apply (approx_env p _ a W A); simpl; auto.
    + destruct I4 as (Z & E & _). auto.
  - (* InterpreterExit *)
    destruct (lock_free p) eqn:LF; [|exact HI].
    assert (SN : sub p = None) by (unfold lock_free in LF; destruct (sub p); [discriminate | reflexivity]).
    unfold Inv; simpl. split; [exact I1|]. split; [exact I2|]. split; [exact I3|]. split; [apply sublive_none; exact SN|].
    destruct (mgr p) as [|t ops|]; [exact I| |].
    + destruct I4 as (Wf & a & A & W & Gd). split; [exact Wf|]. exists a. split; [|split; assumption].
      apply (approx_env p _ a W A); simpl; auto; unfold closed; simpl; intros; rewrite ?orb_true_r; auto.
    + destruct I4 as (Z & E & _). repeat split; auto. unfold closed; simpl. rewrite orb_true_r. reflexivity.
  - (* Crash *)
    destruct (nth_error (procs p) i) as [[| |]|] eqn:N; try exact HI.
    unfold Inv; simpl. rewrite set_nth_length. split; [exact I1|]. split; [exact I2|]. split; [exact I3|].
    split; [apply (sublive_same p); auto|].
    destruct (mgr p) as [|t ops|]; [exact I| |].
    + destruct I4 as (Wf & a & (Ac & Ab & Az & Ae) & W & Gd). split; [exact Wf|]. exists a. split; [|split; assumption].
      repeat split; auto. intros H. rewrite (Ae H) in N. destruct i; discriminate.
    + destruct I4 as (Z & E & C). rewrite E in N. destruct i; discriminate.
  - (* IdleExit *)
    destruct (nth_error (procs p) i) as [[| |]|] eqn:N; try exact HI.
    unfold Inv; simpl. rewrite set_nth_length. split; [exact I1|]. split; [exact I2|]. split; [exact I3|].
    split; [apply (sublive_same p); auto|].
    destruct (mgr p) as [|t ops|]; [exact I| |].
    + destruct I4 as (Wf & a & (Ac & Ab & Az & Ae) & W & Gd). split; [exact Wf|]. exists a. split; [|split; assumption].
      repeat split; auto. intros H. rewrite (Ae H) in N. destruct i; discriminate.
    + destruct I4 as (Z & E & C). rewrite E in N. destruct i; discriminate.
  - (* Complete *)
    destruct (nth_error (procs p) i) as [[| |]|]; try exact HI.
    destruct (pending p) as [|n] eqn:Pn; [exact HI|].
    unfold in_loop. destruct (mgr p) eqn:M; try exact HI.
    unfold Inv; simpl. split; [exact I1|]. split; [lia|]. split; [exact I3|]. split; [apply (sublive_same p); auto | exact I].
  - (* Reap *)
    destruct (nth_error (procs p) i) as [[| |]|]; try exact HI.
    unfold in_loop. destruct (mgr p) eqn:M; try exact HI.
    assert (L : length (del_nth (procs p) i) <= maxw p) by (pose proof (del_nth_length (procs p) i); lia).
    destruct (user p && negb (Nat.eqb (pending p) 0) && clean_exit_reads_counters_after_the_pop_and_respawns_when_work_waits).
    + unfold Inv; simpl. rewrite ?M. split; [exact I1|]. split; [exact I2|]. split; [rewrite app_length, repeat_length; simpl; lia|].
      split; [apply (sublive_same p); auto | exact I].
    + unfold Inv; simpl. rewrite ?M. split; [exact I1|]. split; [exact I2|]. split; [exact L|]. split; [apply (sublive_same p); auto | exact I].
  - (* Detect *)
    destruct (in_loop p && existsb is_dead (procs p)); [|exact HI].
    unfold Inv; simpl. split; [exact I1|]. split; [exact I2|]. split; [exact I3|]. split; [apply (sublive_same p); auto|].
    split; [exact wf_broken|].
    exists a0. split; [unfold approx, a0; simpl; repeat split; discriminate|]. split; [reflexivity | exact broken_list_good].
  - (* CheckShut *)
    destruct (in_loop p && beval is_shutting_down_expr p) eqn:C; [|exact HI].
    apply andb_true_iff in C. destruct C as [_ C]. apply shutting_down_means_closed in C.
    unfold Inv; simpl. split; [exact I1|]. split; [exact I2|]. split; [exact I3|]. split; [apply (sublive_same p); auto|].
    split; [exact wf_shutting|].
    exists a_shutting. split; [unfold approx, a_shutting; simpl; repeat split; auto; discriminate|].
    split; [reflexivity | exact shutting_list_good].
  - (* MgrOp *)
    change (Inv (step p MgrOp)).
    destruct (mgr p) as [|t ops|] eqn:M; try (unfold step; rewrite M; exact HI).
    destruct I4 as (Wf & a & A & W & Gd).
    destruct ops as [|o r].
    + (* end of a list *)
      rewrite (mgrop_end p t M).
      assert (F : final t a = true) by (unfold good in Gd; simpl in Gd; apply andb_true_iff in Gd; apply Gd).
      unfold final in F. apply andb_true_iff in F. destruct F as [_ F]. destruct A as (Ac & Ab & Az & Ae).
      destruct t.
      * apply andb_true_iff in F. destruct F as [Fz Fe]. unfold Inv; simpl.
        split; [exact I1|]. split; [exact I2|]. split; [exact I3|]. split; [apply (sublive_same p); auto|].
        repeat split; auto. apply Ac, (awf_closed a W Fz).
      * destruct (Nat.eqb (pending p) 0) eqn:Z.
        -- apply Nat.eqb_eq in Z. unfold Inv; simpl.
           split; [exact I1|]. split; [exact I2|]. split; [exact I3|]. split; [apply (sublive_same p); auto|]. split; [exact wf_joining|].
           exists a_joining. split; [unfold approx, a_joining; simpl; repeat split; auto; discriminate|].
           split; [reflexivity | exact joining_list_good].
        -- unfold Inv; simpl. split; [exact I1|]. split; [exact I2|]. split; [exact I3|]. split; [apply (sublive_same p); auto | exact I].
      * apply andb_true_iff in F. destruct F as [Fz Fe]. unfold Inv; simpl.
        split; [exact I1|]. split; [exact I2|]. split; [exact I3|]. split; [apply (sublive_same p); auto|].
        repeat split; auto. apply Ac, (awf_closed a W Fz).
    + destruct (simple o) eqn:So.
      * (* a primitive operation *)
        rewrite (mgrop_simple p t o r M So).
        destruct (needs_lock o && negb (lock_free p)) eqn:NL; [exact HI|].
        destruct (good_tail t o r a So Gd) as [Gr Er].
        destruct (cprim_sound o p a So W Er A) as (A' & FB & U & G & K & Mx & Sh & B & Su & Ok & Cons & Len & Mg).
        assert (Wr : wf_ops r = true) by (simpl in Wf; apply andb_true_iff in Wf; apply Wf).
        unfold Inv; simpl. split; [|split; [|split; [|split]]].
        -- intros H. destruct (Nat.eq_dec (failB (cprim o p)) (failB p)) as [E|E]; [rewrite E in H; apply B, I1, H | apply FB; exact E].
        -- lia.
        -- lia.
        -- (* SubLive *)
           destruct (needs_lock o) eqn:Nk.
           ++ simpl in NL. apply negb_false_iff in NL. unfold lock_free in NL.
              apply sublive_none. simpl. rewrite cprim_sub. destruct (sub p); [discriminate | reflexivity].
           ++ destruct (cprim_unlocked o p Nk So) as (X1 & X2 & X3 & X4 & X5).
              apply (sublive_same p); simpl; auto.
        -- split; [exact Wr|]. exists (aprim o a). split; [|split; [apply awf_prim, W | exact Gr]].
           destruct A' as (x1 & x2 & x3 & x4). repeat split; auto.
      * (* the kill_workers block *)
        destruct o; try discriminate. rewrite (mgrop_ifkill p t ops r M).
        simpl in Wf. apply andb_true_iff in Wf. destruct Wf as [Wi Wr].
        unfold good in Gd. simpl in Gd. rewrite forallb_app in Gd. apply andb_true_iff in Gd. destruct Gd as [G1 G2].
        unfold Inv; simpl. split; [exact I1|]. split; [exact I2|]. split; [exact I3|]. split; [apply (sublive_same p); auto|]. split.
        -- destruct (kill p); [|exact Wr]. unfold wf_ops. rewrite forallb_app. fold (wf_ops r). rewrite Wr, andb_true_r.
           clear - Wi. induction ops as [|x xs IH]; simpl in *; auto. apply andb_true_iff in Wi. destruct Wi as [Sx Wi].
           rewrite (IH Wi), andb_true_r. destruct x; auto; discriminate.
        -- exists a. split; [exact A|]. split; [exact W|]. destruct (kill p); [|exact G2].
           unfold good. rewrite (apaths_simple_app ops r a Wi). exact G1.
Qed.

Lemma run_inv es : forall p, Inv p -> Inv (run es p).
Proof.
  unfold run. induction es as [|e es IH]; intros p I; simpl; [exact I|]. apply IH. apply step_inv. exact I.
Qed.

(* the number of registered workers never exceeds max_workers, resize top-ups included *)
Lemma size_inv p e : length (procs p) <= maxw p -> length (procs (step p e)) <= maxw (step p e) /\ maxw (step p e) = maxw p.
Proof.
  intros L. destruct e; unfold step.
  - destruct (user p && lock_free p); [|auto]. destruct (checks_pass submit_prog p); simpl; auto.
  - destruct (sub p) as [[|o r]|]; simpl; auto.
    unfold sop1. destruct o; try (destruct (raises _ p)); simpl; auto.
    all: try (destruct ensure_running_tops_up_then_starts_manager; simpl; auto).
    all: rewrite app_length, repeat_length; split; [lia | reflexivity].
  - destruct (user p && lock_free p && shutdown_flags_first_with_kill_argument); [|auto].
    pose proof (flag_shutdown_sets (Some k) p) as F. cbv zeta in F. destruct F as (_ & _ & _ & _ & _ & Pr & _ & _ & _ & _ & _ & Mx & _).
    rewrite Pr, Mx. auto.
  - destruct (lock_free p); simpl; auto.
  - destruct (lock_free p); simpl; auto.
  - destruct (nth_error (procs p) i) as [[| |]|]; simpl; rewrite ?set_nth_length; auto.
  - destruct (nth_error (procs p) i) as [[| |]|]; simpl; rewrite ?set_nth_length; auto.
  - destruct (nth_error (procs p) i) as [[| |]|]; auto. destruct (pending p); auto. destruct (in_loop p); simpl; auto.
  - destruct (nth_error (procs p) i) as [[| |]|]; auto. destruct (in_loop p); auto.
    pose proof (del_nth_length (procs p) i).
    destruct (user p && negb (Nat.eqb (pending p) 0)); simpl; [rewrite app_length, repeat_length; simpl; lia | lia].
  - destruct (in_loop p && existsb is_dead (procs p)); simpl; auto.
  - destruct (in_loop p && beval is_shutting_down_expr p); simpl; auto.
  - destruct (mgr p) as [|t [|o r]|]; auto.
    + destruct t; simpl; auto. destruct (Nat.eqb (pending p) 0); simpl; auto.
    + assert (H : length (procs (cprim o p)) <= maxw (cprim o p) /\ maxw (cprim o p) = maxw p).
      { pose proof (flag_broken_sets p) as Fb. cbv zeta in Fb. destruct Fb as (_ & _ & _ & _ & _ & Prb & _ & _ & _ & _ & _ & _ & Mxb).
        pose proof (flag_shutdown_sets None p) as Fs. cbv zeta in Fs. destruct Fs as (_ & _ & _ & _ & _ & Prs & _ & _ & _ & _ & _ & Mxs & _).
        destruct o; unfold cprim; rewrite ?Prb, ?Mxb, ?Prs, ?Mxs; simpl; rewrite ?map_length; auto; split; auto; lia. }
      destruct t, o; simpl; try exact H; auto; destruct (lock_free p); simpl; try exact H; auto.
  - destruct (user p && (negb resize_tops_up_only_on_a_live_pool || negb (closed p) && negb (broken p))); auto. simpl. rewrite app_length, repeat_length. lia.
Qed.
Theorem never_more_than_max es : forall p, length (procs p) <= maxw p -> length (procs (run es p)) <= maxw p.
Proof.
  unfold run. induction es as [|e es IH]; intros p L; simpl; [exact L|].
  destruct (size_inv p e L) as [L' M]. rewrite <- M. apply IH. exact L'.
Qed.

(* ------------------------------------------------------------------------------------------------------------------ *)
(* 3. What the invariant gives.                                                                                         *)
Section Reachable.
Variable n : nat.
Variable es : list ev.
Let p := run es (pool0 n).

Theorem loud_before_any_broken_future : failB p > 0 -> broken p = true.
Proof. apply (run_inv es (pool0 n) (inv0 n)). Qed.

Theorem futures_accounted : submitted p = ok p + failB p + failS p + pending p.
Proof. apply (run_inv es (pool0 n) (inv0 n)). Qed.

Theorem manager_gone_means_all_settled :
  mgr p = MDone -> pending p = 0 /\ procs p = [] /\ closed p = true.
Proof. intros M. pose proof (run_inv es (pool0 n) (inv0 n)) as (_ & _ & _ & _ & I). fold p in I. rewrite M in I. exact I. Qed.

Theorem after_the_manager_nothing_is_accepted : mgr p = MDone -> user p = true -> step p Submit = refuse p.
Proof.
  intros M U. destruct (manager_gone_means_all_settled M) as (_ & _ & C).
  pose proof (run_inv es (pool0 n) (inv0 n)) as (_ & _ & _ & SL & _). fold p in SL.
  pose proof (sublive_closed p SL C) as SN.
  unfold step, lock_free. rewrite U, SN. cbn [andb]. rewrite (checks_fail_when_closed p C U). reflexivity.
Qed.
End Reachable.

(* a submit() that finds the lock free on a broken / shut-down pool raises: nothing is registered *)
Theorem broken_pool_refuses p : user p = true -> sub p = None -> broken p = true ->
  pending (step p Submit) = pending p /\ refused (step p Submit) = S (refused p) /\ submitted (step p Submit) = submitted p
  /\ sub (step p Submit) = None.
Proof. intros U SN B. unfold step, lock_free. rewrite U, SN. cbn [andb]. rewrite (checks_fail_when_broken p B). simpl. auto. Qed.

(* graceful shutdown never drops work: without kill_workers no future is failed with ShutdownExecutorError *)
Definition never_kill (es : list ev) : bool := forallb (fun e => match e with ShutdownCall true => false | _ => true end) es.
Definition no_top_shutfail (ops : list rop) : bool := forallb (fun o => match o with FailPendingShut => false | _ => true end) ops.
Definition Inv5 (p : pool) : Prop :=
  kill p = false /\ failS p = 0 /\ match mgr p with MOps _ ops => no_top_shutfail ops = true | _ => True end.
Lemma lists_no_top_shutfail : no_top_shutfail broken_ops && no_top_shutfail shutting_ops && no_top_shutfail joining_ops = true.
Proof. vm_compute. reflexivity. Qed.
Lemma nts_broken : no_top_shutfail broken_ops = true. Proof. vm_compute. reflexivity. Qed.
Lemma nts_shutting : no_top_shutfail shutting_ops = true. Proof. vm_compute. reflexivity. Qed.
Lemma nts_joining : no_top_shutfail joining_ops = true. Proof. vm_compute. reflexivity. Qed.
Lemma inv5_ext p q : kill q = kill p -> failS q = failS p -> mgr q = mgr p -> Inv5 p -> Inv5 q.
Proof. unfold Inv5. intros -> -> ->. auto. Qed.
Lemma step_inv5 p e : e <> ShutdownCall true -> Inv5 p -> Inv5 (step p e).
Proof.
  intros NE HI. pose proof HI as (K & F & M). destruct e; unfold step.
  - destruct (user p && lock_free p); [|exact HI]. destruct (checks_pass submit_prog p); apply (inv5_ext p); simpl; auto.
  - destruct (sub p) as [[|o r]|]; [apply (inv5_ext p); simpl; auto | | exact HI].
    unfold sop1. destruct o; try (destruct (raises _ p)); try (destruct ensure_running_tops_up_then_starts_manager);
      apply (inv5_ext p); simpl; auto.
  - destruct k; [congruence|]. destruct (user p && lock_free p && shutdown_flags_first_with_kill_argument); [|exact HI].
    pose proof (flag_shutdown_sets (Some false) p) as X. cbv zeta in X. destruct X as (_ & _ & _ & _ & _ & _ & Mg & _ & _ & _ & FS & _ & K').
    unfold Inv5. rewrite K', FS, Mg. auto.
  - destruct (lock_free p); first [exact HI | apply (inv5_ext p); simpl; auto].
  - destruct (lock_free p); first [exact HI | apply (inv5_ext p); simpl; auto].
  - destruct (nth_error (procs p) i) as [[| |]|]; try exact HI; try (apply (inv5_ext p); simpl; auto).
  - destruct (nth_error (procs p) i) as [[| |]|]; try exact HI; try (apply (inv5_ext p); simpl; auto).
  - destruct (nth_error (procs p) i) as [[| |]|]; try exact HI. destruct (pending p); try exact HI.
    destruct (in_loop p); try exact HI; try (apply (inv5_ext p); simpl; auto).
  - destruct (nth_error (procs p) i) as [[| |]|]; try exact HI. destruct (in_loop p); try exact HI.
    destruct (user p && negb (Nat.eqb (pending p) 0)); try exact HI; try (apply (inv5_ext p); simpl; auto).
  - destruct (in_loop p && existsb is_dead (procs p)); [|exact HI]. unfold Inv5; simpl. split; [exact K|]. split; [exact F | exact nts_broken].
  - destruct (in_loop p && beval is_shutting_down_expr p); [|exact HI]. unfold Inv5; simpl. split; [exact K|]. split; [exact F | exact nts_shutting].
  - destruct (mgr p) as [|t [|o r]|] eqn:E; try exact HI.
    + destruct t.
      * unfold Inv5; simpl. auto.
      * destruct (Nat.eqb (pending p) 0); unfold Inv5; simpl; [split; [exact K|]; split; [exact F | exact nts_joining] | auto].
      * unfold Inv5; simpl. auto.
    + simpl in M. apply andb_true_iff in M. destruct M as [Mo Mr].
      pose proof (flag_broken_sets p) as Xb. cbv zeta in Xb. destruct Xb as (_ & _ & _ & _ & _ & _ & _ & _ & _ & _ & FSb & Kb & _).
      pose proof (flag_shutdown_sets None p) as Xs. cbv zeta in Xs. destruct Xs as (_ & _ & _ & _ & _ & _ & _ & _ & _ & _ & FSs & _ & Ks).
      destruct o; try discriminate; destruct t; unfold Inv5, cprim; simpl; try (destruct (lock_free p); simpl; rewrite ?E);
        rewrite ?FSb, ?Kb, ?FSs, ?Ks, ?K; auto.
  - destruct (user p && (negb resize_tops_up_only_on_a_live_pool || negb (closed p) && negb (broken p))); try exact HI; try (apply (inv5_ext p); simpl; auto).
Qed.
Theorem graceful_never_drops es n : never_kill es = true -> failS (run es (pool0 n)) = 0.
Proof.
  intros N. assert (H : forall p, Inv5 p -> never_kill es = true -> Inv5 (run es p)).
  { clear N. unfold run. induction es as [|e es' IH]; intros p I N; simpl; [exact I|].
    simpl in N. apply andb_true_iff in N. destruct N as [Ne N]. apply IH; [|exact N]. apply step_inv5; [|exact I].
    intros ->. discriminate. }
  apply (H (pool0 n)); [unfold Inv5, pool0; simpl; auto | exact N].
Qed.
Theorem graceful_delivers_everything es n :
  never_kill es = true -> let p := run es (pool0 n) in
  mgr p = MDone -> broken p = false -> ok p = submitted p /\ procs p = [] /\ closed p = true.
Proof.
  intros NK p M B.
  destruct (manager_gone_means_all_settled n es M) as (Z & E & C). fold p in Z, E, C.
  pose proof (futures_accounted n es) as A. fold p in A.
  pose proof (graceful_never_drops es n NK) as S. fold p in S.
  pose proof (loud_before_any_broken_future n es) as L. fold p in L.
  assert (failB p = 0) by (destruct (failB p) eqn:F; [reflexivity | rewrite L in B by lia; discriminate]).
  repeat split; auto. lia.
Qed.

(* forced shutdown: a second (or first) shutdown(kill_workers=True) always sets the flag, and from then on the manager alone
   reaches the end in a fixed number of its own steps, whatever the tasks are doing *)
Theorem forced_flag_always_set p : user p = true -> sub p = None ->
  kill (step p (ShutdownCall true)) = true /\ shut (step p (ShutdownCall true)) = true.
Proof.
  intros U SN. unfold step, lock_free. rewrite U, SN.
  assert (E : true && true && shutdown_flags_first_with_kill_argument = true) by reflexivity. rewrite E.
  pose proof (flag_shutdown_sets (Some true) p) as X. cbv zeta in X. destruct X as (Sh & _ & _ & _ & _ & _ & _ & _ & _ & _ & _ & _ & K). auto.
Qed.
Lemma run_cons e es p : run (e :: es) p = run es (step p e).
Proof. reflexivity. Qed.
Lemma detect_fires p : mgr p = MLoop -> existsb is_dead (procs p) = true -> step p Detect = set_mgr p (MOps TBroken broken_ops).
Proof. intros M D. unfold step, in_loop. rewrite M, D. reflexivity. Qed.

Definition forced_steps : list ev := CheckShut :: repeat MgrOp 16.
Theorem forced_shutdown_is_prompt u gs mx pr pn su okc fb fs rf :
  let p := mkp u true false true gs mx pr pn su okc fb fs rf MLoop None in
  let q := run forced_steps p in
  mgr q = MDone /\ pending q = 0 /\ procs q = [] /\ failS q = fs + pn /\ ok q = okc /\ failB q = fb.
Proof. intros p q. subst q p. destruct u, gs; cbv -[Nat.add]; repeat split; reflexivity. Qed.

(* the same after a death: every unresolved future fails with the BrokenProcessPool error, every worker is gone, the flag is set *)
Definition broken_steps : list ev := Detect :: repeat MgrOp 11.
Theorem death_fails_everything_loudly u sh k gs mx pr1 pr2 pn su okc fb fs rf :
  let p := mkp u sh false k gs mx (pr1 ++ WDead :: pr2) pn su okc fb fs rf MLoop None in
  let q := run broken_steps p in
  mgr q = MDone /\ broken q = true /\ pending q = 0 /\ procs q = [] /\ failB q = fb + pn /\ ok q = okc /\ failS q = fs.
Proof.
  intros p q. subst q.
  assert (Dt : step p Detect = set_mgr p (MOps TBroken broken_ops)).
  { apply detect_fires; [reflexivity|]. unfold p. cbn [procs]. rewrite existsb_app. cbn [existsb is_dead]. apply orb_true_r. }
  unfold broken_steps. rewrite run_cons, Dt. subst p.
  cbv -[Nat.add]. repeat split; reflexivity.
Qed.

(* H8 on the model (fixed): an unguarded top-up that arrives after the manager is gone leaves workers nobody will ever kill or
   reap; the guarded one (what ResizeTopUp is now) does nothing on a broken pool *)
Definition submit_all : list ev := Submit :: repeat SubmitStep 7.
Example unguarded_resize_after_the_end_leaves_workers :
  let p := run (submit_all ++ [Crash 0; Detect; MgrOp; MgrOp; MgrOp; MgrOp; MgrOp; MgrOp; MgrOp; MgrOp; MgrOp; MgrOp; MgrOp]) (pool0 2) in
  mgr p = MDone /\ procs p = [] /\ broken p = true /\ procs (top_up p) = [WAlive; WAlive] /\ step p ResizeTopUp = p.
Proof. vm_compute. auto 6. Qed.

Example graceful_example :
  let p := run (submit_all ++ submit_all ++ [Complete 0; ShutdownCall false; CheckShut; MgrOp; MgrOp; MgrOp; Complete 1; CheckShut; MgrOp; MgrOp;
                MgrOp; MgrOp; MgrOp; MgrOp; MgrOp; MgrOp; MgrOp; MgrOp; Submit]) (pool0 2) in
  mgr p = MDone /\ ok p = 2 /\ submitted p = 2 /\ refused p = 1 /\ procs p = [] /\ broken p = false.
Proof. vm_compute. auto 10. Qed.

Theorem shut_down_pool_refuses p : user p = true -> sub p = None -> shut p = true ->
  pending (step p Submit) = pending p /\ refused (step p Submit) = S (refused p) /\ submitted (step p Submit) = submitted p.
Proof.
  intros U SN S. unfold step, lock_free. rewrite U, SN. cbn [andb].
  assert (C : closed p = true) by (unfold closed; rewrite S; destruct (user p); reflexivity).
  rewrite (checks_fail_when_closed p C U). simpl. auto.
Qed.

(* every accepted submit tops the pool back up to exactly max_workers *)
Theorem accepted_submit_fills_the_pool p p' :
  length (procs p) <= maxw p -> sexec submit_prog p = Some p' -> length (procs p') = maxw p /\ pending p' = S (pending p).
Proof.
  intros L S. destruct (submit_accepted p p' S) as (_ & _ & _ & Pn & _ & _ & _ & _ & _ & _ & _ & _ & _ & _ & _ & _ & Pr).
  split; [|exact Pn]. rewrite Pr. assert (ensure_running_tops_up_then_starts_manager = true) as -> by reflexivity.
  rewrite app_length, repeat_length. lia.
Qed.

(* idle exits are invisible to the size of a pool that has work waiting: when the manager reaps a clean exit while a future is
   unresolved (and the executor is still referenced) it tops the pool back up to max_workers *)
Theorem reap_refills_when_work_waits p i :
  in_loop p = true -> nth_error (procs p) i = Some WExited -> user p = true -> pending p <> 0 -> length (procs p) <= maxw p ->
  length (procs (step p (Reap i))) = maxw p /\ broken (step p (Reap i)) = broken p /\ pending (step p (Reap i)) = pending p.
Proof.
  intros L N U P Le. unfold step. rewrite N, L, U.
  assert (E : Nat.eqb (pending p) 0 = false) by (apply Nat.eqb_neq; exact P). rewrite E.
  assert (clean_exit_reads_counters_after_the_pop_and_respawns_when_work_waits = true) as -> by reflexivity.
  simpl. rewrite app_length, repeat_length. pose proof (del_nth_length (procs p) i). split; [lia | auto].
Qed.
Theorem idle_exit_is_not_a_break p i : broken (step p (IdleExit i)) = broken p /\ pending (step p (IdleExit i)) = pending p.
Proof. unfold step. destruct (nth_error (procs p) i) as [[| |]|]; simpl; auto. Qed.

(* submit() registers the job before it tops the pool up, so an idle exit that happens in between is seen by one of the two *)
Fixpoint index_of (x : sop) (l : list sop) : nat :=
  match l with [] => 0 | y :: t => if match x, y with SAddPending, SAddPending | SEnsureRunning, SEnsureRunning => true | _, _ => false end
                                   then 0 else S (index_of x t) end.
Theorem submit_registers_before_topping_up : index_of SAddPending submit_prog < index_of SEnsureRunning submit_prog.
Proof. vm_compute. repeat constructor. Qed.

(* ------------------------------------------------------------------------------------------------------------------ *)
(* 4. A registered job is never left without a worker (C07 / C08), with submit() NOT atomic: its statements interleave with idle
      exits, reaps and completions in every possible way.  Healthy executor: referenced, no shutdown, no death. *)
Definition healthy_ev (e : ev) : bool :=
  match e with Submit | SubmitStep | IdleExit _ | Reap _ | Complete _ => true | _ => false end.
Definition sub_suffix (p : pool) : Prop := match sub p with Some r => exists k, r = skipn k submit_prog | None => True end.
Definition Served (p : pool) : Prop :=
  user p = true /\ mgr p = MLoop /\ closed p = false /\ broken p = false /\ 0 < maxw p /\ sub_suffix p /\
  (0 < pending p -> procs p <> [] \/ ensure_due p = true).

Lemma served0 n : 0 < n -> Served (pool0 n).
Proof. intros H. unfold Served, sub_suffix, pool0, closed; simpl. repeat split; auto. intros X; lia. Qed.

Lemma nonempty_app (l : list wst) k : 0 < k \/ l <> [] -> l ++ repeat WAlive k <> [].
Proof. intros [H|H]; destruct l; try discriminate; [destruct k; [lia | discriminate] | congruence]. Qed.
Lemma set_nth_nonempty (l : list wst) i v : l <> [] -> set_nth l i v <> [].
Proof. destruct l; [congruence|]. destruct i; discriminate. Qed.

(* in the generated program the top-up comes after the registration: every suffix that starts with the registration contains it *)
Lemma ensure_after_add k r : skipn k submit_prog = SAddPending :: r -> existsb is_ensure r = true.
Proof.
  unfold submit_prog. intros H.
  do 11 (destruct k as [|k]; [simpl in H; try discriminate; inversion H; subst; reflexivity|]); simpl in H; destruct k; discriminate.
Qed.

Lemma nxt_due (r : list sop) : existsb is_ensure r = true -> match r with [] => None | _ => Some r end = Some r.
Proof. destruct r; [discriminate | reflexivity]. Qed.

Lemma served_step p e : healthy_ev e = true -> Served p -> Served (step p e).
Proof.
  intros HE HS. pose proof HS as (U & M & C & B & Mx & SF & J). destruct e; try discriminate; unfold step.
  - (* Submit: takes the lock, runs the leading checks *)
    rewrite U. destruct (lock_free p) eqn:LF; [|exact HS].
    assert (SN : sub p = None) by (unfold lock_free in LF; destruct (sub p); [discriminate | reflexivity]).
    cbn [andb]. destruct (checks_pass submit_prog p) as [rest|] eqn:CP.
    + destruct (checks_pass_means_open p rest CP) as (_ & _ & _ & R).
      unfold Served, sub_suffix, closed, ensure_due in *; simpl. rewrite SN in J.
      split; [exact U|]. split; [first [exact M | reflexivity]|]. split; [exact C|]. split; [exact B|]. split; [exact Mx|]. split.
      * destruct rest; [exact I | exists 3; exact R].
      * intros X. destruct (J X) as [Y|Y]; [left; exact Y | discriminate].
    + unfold Served, sub_suffix, closed, ensure_due in *; simpl. rewrite SN in J. auto 10.
  - (* SubmitStep *)
    destruct (sub p) as [[|o r]|] eqn:SB.
    + unfold Served, sub_suffix, closed, ensure_due in *; simpl. rewrite SB in J.
      split; [exact U|]. split; [first [exact M | reflexivity]|]. split; [exact C|]. split; [exact B|]. split; [exact Mx|]. split; [exact I|].
      intros X. destruct (J X) as [Y|Y]; [left; exact Y | discriminate].
    + unfold sub_suffix in SF. rewrite SB in SF. destruct SF as (k & K).
      assert (Kr : r = skipn (S k) submit_prog) by (symmetry; apply (skipn_cons _ _ o); symmetry; exact K).
      assert (Sh : shut p = false /\ gshut p = false).
      { unfold closed in C. rewrite U in C. simpl in C. apply orb_false_iff in C. exact C. }
      destruct Sh as [Sh Gs].
      assert (NR : raises o p = false) by (destruct o; simpl; auto).
      assert (SFr : forall q, sub q = match r with [] => None | _ => Some r end -> sub_suffix q).
      { intros q Hq. unfold sub_suffix. rewrite Hq. destruct r; [exact I | exists (S k); exact Kr]. }
      unfold ensure_due in J. rewrite SB in J.
      unfold sop1. destruct o; rewrite ?NR.
      all: try (unfold Served, closed, ensure_due; simpl;
                split; [exact U|]; split; [first [exact M | reflexivity]|]; split; [exact C|]; split; [exact B|]; split; [exact Mx|]; split; [apply SFr; reflexivity|];
                intros X; destruct (J X) as [Y|Y]; [left; exact Y | right; simpl in Y; rewrite (nxt_due r Y); exact Y]).
      * (* SAddPending: the top-up is still to come *)
        pose proof (ensure_after_add k r (eq_sym K)) as D.
        unfold Served, closed, ensure_due; simpl.
        split; [exact U|]. split; [first [exact M | reflexivity]|]. split; [exact C|]. split; [exact B|]. split; [exact Mx|]. split; [apply SFr; reflexivity|].
        intros _. right. rewrite (nxt_due r D). exact D.
      * (* SEnsureRunning *)
        assert (ensure_running_tops_up_then_starts_manager = true) as -> by reflexivity.
        unfold Served, closed, ensure_due, top_up; simpl.
        split; [exact U|]. split; [first [exact M | reflexivity]|]. split; [exact C|]. split; [exact B|]. split; [exact Mx|]. split; [apply SFr; reflexivity|].
        intros _. left. apply nonempty_app. destruct (procs p) as [|w l]; [left; simpl; lia | right; discriminate].
    + exact HS.
  - (* IdleExit *)
    destruct (nth_error (procs p) i) as [[| |]|] eqn:N; try exact HS.
    unfold Served, sub_suffix, closed, ensure_due in *; simpl.
    split; [exact U|]. split; [first [exact M | reflexivity]|]. split; [exact C|]. split; [exact B|]. split; [exact Mx|]. split; [exact SF|].
    intros X. destruct (J X) as [Y|Y]; [left; apply set_nth_nonempty, Y | right; exact Y].
  - (* Complete *)
    destruct (nth_error (procs p) i) as [[| |]|] eqn:N; try exact HS.
    destruct (pending p) as [|q] eqn:Pn; [exact HS|].
    unfold in_loop. rewrite M. unfold Served, sub_suffix, closed, ensure_due in *; simpl.
    split; [exact U|]. split; [first [exact M | reflexivity]|]. split; [exact C|]. split; [exact B|]. split; [exact Mx|]. split; [exact SF|].
    intros X. left. intros E. rewrite E in N. destruct i; discriminate.
  - (* Reap: the manager pops and joins a clean exit, and refills the pool when work waits *)
    destruct (nth_error (procs p) i) as [[| |]|] eqn:N; try exact HS.
    unfold in_loop. rewrite M, U.
    assert (clean_exit_reads_counters_after_the_pop_and_respawns_when_work_waits = true) as -> by reflexivity.
    destruct (Nat.eqb (pending p) 0) eqn:Z; cbn [andb negb].
    + apply Nat.eqb_eq in Z. unfold Served, sub_suffix, closed, ensure_due in *; simpl.
      split; [exact U|]. split; [first [exact M | reflexivity]|]. split; [exact C|]. split; [exact B|]. split; [exact Mx|]. split; [exact SF|]. intros X. lia.
    + unfold Served, sub_suffix, closed, ensure_due, top_up in *; simpl.
      split; [exact U|]. split; [first [exact M | reflexivity]|]. split; [exact C|]. split; [exact B|]. split; [exact Mx|]. split; [exact SF|].
      intros _. left. apply nonempty_app.
      destruct (del_nth (procs p) i) as [|w l]; [left; simpl; lia | right; discriminate].
Qed.

Theorem registered_job_always_has_a_worker_coming n es :
  0 < n -> forallb healthy_ev es = true -> let p := run es (pool0 n) in
  0 < pending p -> procs p <> [] \/ ensure_due p = true.
Proof.
  intros H HE. assert (S : Served (run es (pool0 n))).
  { generalize (served0 n H). generalize (pool0 n). unfold run. induction es as [|e es IH]; intros p0 S0; simpl; [exact S0|].
    simpl in HE. apply andb_true_iff in HE. destruct HE as [He Hes]. apply IH; [exact Hes | apply served_step; assumption]. }
  intros p. apply S.
Qed.

(* the opposite order (top the pool up, then register) loses the job: all idle workers leave in between (seeded change C07_b) *)
Example top_up_before_registering_loses_the_job :
  let prog := [SEnsureRunning; SAddPending] in
  let p0 := set_sub (pool0 1) (Some prog) in
  let p := run [SubmitStep; IdleExit 0; Reap 0; SubmitStep] p0 in
  pending p = 1 /\ procs p = [] /\ ensure_due p = false /\ mgr p = MLoop.
Proof. vm_compute. auto. Qed.
