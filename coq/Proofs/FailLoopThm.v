From Coq Require Import List Arith Bool Lia.
From LokyV Require Import Lib.LedgerLib Model.FailLoop.
Import ListNotations.

Lemma cancel_nth_length l : forall i, length (cancel_nth l i) = length l.
Proof. induction l as [|f r IH]; intros [|j]; simpl; try reflexivity; destruct f; simpl; try rewrite IH; reflexivity. Qed.

Lemma cancel_nth_fresh l : forall i, fresh l = true -> fresh (cancel_nth l i) = true.
Proof.
  unfold fresh. induction l as [|f r IH]; intros [|j] H; simpl in *; try reflexivity.
  - destruct f; simpl in *; assumption.
  - destruct f; simpl in *; try discriminate; apply IH, H.
Qed.

(* ---- the guarded loop (try / except InvalidStateError) ---- *)
Definition G := CatchInvalidState.
Definition left (s : fl) : nat := match lphase s with Next => S (length (todo s)) | _ => 0 end.
Definition Inv (n : nat) (s : fl) : Prop :=
  (lphase s = Next \/ (lphase s = Finished /\ todo s = [])) /\
  forallb terminal (handled s) = true /\
  length (handled s) + length (todo s) = n.

Lemma inv_start t : Inv (length t) (start t).
Proof. unfold Inv, start; simpl. auto. Qed.

Lemma step_inv n s e : Inv n s -> Inv n (step G s e).
Proof.
  intros (P & T & L). destruct s as [h td ph]. simpl in *. destruct e as [i|]; simpl.
  - unfold Inv; simpl. rewrite cancel_nth_length. repeat split; try assumption.
    destruct P as [->|[-> ->]]; [left; reflexivity | right; split; [reflexivity | destruct i; reflexivity]].
  - destruct P as [->|[-> ->]]; simpl.
    + destruct td as [|f r]; simpl.
      * unfold Inv; simpl. repeat split; auto.
      * unfold Inv; simpl. repeat split; [left; reflexivity | | rewrite app_length; simpl in *; lia].
        rewrite forallb_app, T. simpl. destruct f; reflexivity.
    + unfold Inv; simpl. repeat split; auto.
Qed.

Lemma run_inv n es : forall s, Inv n s -> Inv n (run G es s).
Proof. unfold run. induction es as [|e es IH]; intros s I; simpl; [exact I|]. apply IH, step_inv, I. Qed.

Lemma step_left n s e : Inv n s -> left (step G s e) = left s - (match e with Mgr => 1 | _ => 0 end).
Proof.
  intros (P & _ & _). destruct s as [h td ph]. simpl in *. destruct e as [i|]; simpl.
  - unfold left; simpl. rewrite cancel_nth_length. destruct ph; lia.
  - destruct P as [->|[-> ->]]; simpl; [|reflexivity]. destruct td as [|f r]; unfold left; simpl; lia.
Qed.

Lemma run_left n es : forall s, Inv n s -> left (run G es s) = left s - mgr_steps es.
Proof.
  unfold run, mgr_steps. induction es as [|e es IH]; intros s I; simpl; [lia|].
  rewrite (IH _ (step_inv n s e I)), (step_left n s e I). destruct e; simpl; lia.
Qed.

(* whatever the owners of the futures cancel, and whenever: the loop never lets InvalidStateError escape; once it has ended every
   item of the table has an outcome (failed by the manager or cancelled by its owner) and none was lost; it ends after at most one
   step per item plus one *)
Theorem guarded_loop_never_crashes table es :
  let s := run G es (start table) in
  lphase s <> Crashed /\
  (lphase s = Finished -> todo s = [] /\ forallb terminal (handled s) = true /\ length (handled s) = length table) /\
  (length table < mgr_steps es -> lphase s = Finished).
Proof.
  intros s. pose proof (run_inv _ es _ (inv_start table)) as I. pose proof (run_left _ es _ (inv_start table)) as Lf.
  fold s in I, Lf. clearbody s. destruct I as (P & T & L). split; [|split].
  - destruct P as [->|[-> _]]; discriminate.
  - intros F. destruct P as [P|[_ E]]; [rewrite P in F; discriminate|]. rewrite E in L. simpl in L. repeat split; try assumption. lia.
  - intros M. unfold left, start in Lf. cbn [lphase todo] in Lf. destruct P as [P|[P _]]; [|exact P]. rewrite P in Lf. lia.
Qed.

(* ---- the two other shapes ---- *)
(* bare set_exception: one future cancelled while it waits is enough (H14, the pinned source) *)
Example bare_loop_crashes_on_a_cancelled_future :
  let s := run NoGuard [Cancel 1; Mgr; Mgr] (start [Waiting; Waiting; Waiting]) in
  lphase s = Crashed /\ todo s = [Cancelled; Waiting].
Proof. vm_compute. split; reflexivity. Qed.
(* check-then-act: the cancellation lands between the test and the call *)
Example checking_first_still_crashes :
  let s := run CheckFirst [Mgr; Cancel 0; Mgr] (start [Waiting; Running]) in
  lphase s = Crashed /\ todo s = [Cancelled; Running].
Proof. vm_compute. split; reflexivity. Qed.
(* non-vacuity: the guarded loop on the same histories *)
Example guarded_loop_on_the_same_histories :
  lphase (run G [Cancel 1; Mgr; Mgr; Mgr; Mgr] (start [Waiting; Waiting; Waiting])) = Finished /\
  handled (run G [Cancel 1; Mgr; Mgr; Mgr; Mgr] (start [Waiting; Waiting; Waiting])) = [Failed; Cancelled; Failed] /\
  handled (run G [Mgr; Cancel 0; Mgr; Mgr] (start [Waiting; Running])) = [Failed; Failed].
Proof. vm_compute. repeat split; reflexivity. Qed.
