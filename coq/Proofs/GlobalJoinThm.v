From Coq Require Import List Arith Bool Lia.
From LokyV Require Import Model.GlobalJoin.
Import ListNotations.
Local Arguments Nat.sub : simpl never.

(* the situation: thread 1 is inside ex1.shutdown(wait=True), holding the global lock, its task needs n more ticks *)
Definition held (n : nat) : gj := mkgj n 0 false false CHolding CStart true.

Definition Inv (n : nat) (s : gj) : Prop :=
  rem1 s + ticks s >= n /\ (m1_done s = true -> rem1 s = 0) /\
  (c1 s = CHolding -> lock s = true /\ (c2 s = CStart \/ c2 s = CFlagged)) /\
  (c1 s = CDone -> m1_done s = true) /\ (c1 s = CHolding \/ c1 s = CDone).

Lemma inv_held n : Inv n (held n).
Proof. unfold Inv, held; simpl. repeat split; try lia; try discriminate; auto. Qed.

Lemma step_inv n s e : Inv n s -> Inv n (gstep true s e).
Proof.
  intros (A & B & C & D & E). destruct s as [r t m1 m2 p1 p2 l]. unfold Inv in *; simpl in *.
  destruct E as [E|E]; subst p1.
  - (* thread 1 holds the lock *)
    destruct (C eq_refl) as [L P2]. subst l.
    destruct e; simpl;
      repeat match goal with |- context [if ?b then _ else _] => destruct b eqn:? end; simpl;
      repeat split; intros; try discriminate; try lia; auto.
    all: try (match goal with H : _ && _ = true |- _ => apply andb_prop in H as [? ?] end).
    all: try (match goal with H : (_ =? 0) = true |- _ => apply Nat.eqb_eq in H end); try lia.
    all: try (specialize (B ltac:(assumption)); lia).
    all: try (destruct p2; simpl in *; try discriminate; auto; destruct P2; discriminate).
  - (* thread 1 has returned *)
    specialize (D eq_refl). subst m1. specialize (B eq_refl).
    destruct e; simpl;
      repeat match goal with |- context [if ?b then _ else _] => destruct b eqn:? end; simpl;
      repeat split; intros; try discriminate; try lia; auto.
Qed.
Lemma run_inv n es : forall s, Inv n s -> Inv n (grun true es s).
Proof. unfold grun. induction es as [|e es IH]; intros s I; simpl; [exact I|]. apply IH, step_inv, I. Qed.

(* the forced call cannot have got past the lock before executor 1's task has run its n ticks: whatever the two threads and the two
   manager threads do, in whatever order *)
Theorem forced_call_waits_for_the_other_executors_task n es :
  let s := grun true es (held n) in (c2 s = CHolding \/ c2 s = CDone) -> n <= ticks s.
Proof.
  intros s H. destruct (run_inv n es (held n) (inv_held n)) as (A & B & C & D & E). fold s in A, B, C, D, E.
  destruct E as [E|E].
  - destruct (C E) as [_ [Y|Y]]; destruct H as [H|H]; congruence.
  - specialize (B (D E)). lia.
Qed.

(* ... although its EFFECT is immediate: executor 2's manager thread has ended (futures failed, workers killed) without a single tick *)
Example effect_is_prompt n : let s := grun true [C2Flag; M2End] (held n) in m2_done s = true /\ ticks s = 0 /\ c2 s = CFlagged.
Proof. repeat split; reflexivity. Qed.

(* the full statement ("completes in time independent of how long the running tasks would take") is false: for every n there is a
   history in which the forced call is still waiting after n ticks, every step it could take having been offered to it *)
Theorem forced_call_promptness_refuted n :
  exists es, let s := grun true es (held (S n)) in
    ticks s = n /\ m2_done s = true /\ c2 s = CFlagged /\ gstep true s C2Acquire = s.
Proof.
  exists ([C2Flag; M2End] ++ repeat Tick n). unfold grun. rewrite fold_left_app. simpl fold_left at 2.
  assert (G : forall k t r, fold_left (gstep true) (repeat Tick k) (mkgj r t false true CHolding CFlagged true)
                            = mkgj (r - k) (t + k) false true CHolding CFlagged true).
  { induction k as [|k IH]; intros t r; simpl; [f_equal; lia|]. rewrite IH. f_equal; lia. }
  unfold held. simpl. rewrite G. simpl. repeat split; lia.
Qed.

(* without the lock around the join the forced call returns after its own three steps, whatever executor 1 is doing *)
Theorem without_the_lock_the_forced_call_is_prompt s0 :
  c2 s0 = CStart -> let s := grun false [C2Flag; M2End; C2Acquire; C2JoinRelease] s0 in c2 s = CDone /\ ticks s = ticks s0.
Proof. destruct s0 as [r t m1 m2 p1 p2 l]; simpl. intros E. subst p2. simpl. split; reflexivity. Qed.
