(* Invariants of the Condition model (Model/Cond.v), for any number of threads and any interleaving. *)
From Coq Require Import List Arith Bool Lia.
From LokyV Require Import Model.Cond.
Import ListNotations.

Definition holds (c : pc) : bool :=
  match c with Idle | WBlocked _ | WPassed _ _ | WRelock _ _ => false | _ => true end.
Definition inA (c : pc) : nat := match c with WReg _ | WBlocked _ => 1 | _ => 0 end.
Definition inB (c : pc) : nat := match c with WPassed _ _ => 1 | _ => 0 end.
Definition out (c : pc) : nat :=
  match c with NGrab _ n => n | NPost _ n => S n | NWait _ _ k => k | _ => 0 end.
Definition canc (c : pc) : nat := match c with NCancel2 _ => 1 | _ => 0 end.
Definition cur_posted (c : pc) : nat :=
  match c with NGrab _ n | NPost _ n => n | NWait _ p _ | NDrain _ p => p | _ => 0 end.
Definition holder_pc (s : state) : pc := match lock s with Some h => pc_of s h | None => Idle end.

Fixpoint sumf (f : pc -> nat) (l : list (tid * pc)) : nat :=
  match l with [] => 0 | (_, c) :: tl => f c + sumf f tl end.
Lemma sumf_update f l t c : f Idle = 0 ->
  sumf f (update l t c) + f (match lookup l t with Some x => x | None => Idle end) = sumf f l + f c.
Proof.
  intros H0. induction l as [|[t' c'] l IH]; cbn; [lia|]. destruct (Nat.eqb t t'); cbn; lia.
Qed.
Lemma lookup_update_same l t c : lookup (update l t c) t = Some c.
Proof. induction l as [|[t' c'] l IH]; cbn; [rewrite Nat.eqb_refl; auto|]. destruct (Nat.eqb t t') eqn:E; cbn; rewrite E; auto. Qed.
Lemma lookup_update_other l t t' c : t' <> t -> lookup (update l t c) t' = lookup l t'.
Proof.
  intros Hne. induction l as [|[t0 c0] l IH]; cbn.
  - destruct (Nat.eqb_spec t' t); [contradiction|reflexivity].
  - destruct (Nat.eqb_spec t t0); cbn.
    + subst. destruct (Nat.eqb_spec t' t0); [contradiction|reflexivity].
    + destruct (Nat.eqb t' t0); auto.
Qed.

(* notify() grabs at most one sleeper *)
Definition single_ok (c : pc) : Prop :=
  match c with
  | NGrab false n | NPost false n => n = 0
  | NWait false p _ | NDrain false p => p = 1
  | _ => True end.
(* wait() reports False only after its time-out fired *)
Definition false_ok (c : pc) : Prop :=
  match c with WPassed tmo false | WRelock tmo false | WDone tmo false => tmo = true | _ => True end.
(* no new sleeper can register while notify_all waits for / drains its sleepers *)
Definition all_phase (c : pc) : bool := match c with NWait true _ _ | NDrain true _ => true | _ => false end.

Record Inv (s : state) : Prop := {
  i_lock_a : forall t, holds (pc_of s t) = true -> lock s = Some t;
  i_lock_b : forall h, lock s = Some h -> holds (pc_of s h) = true;
  i_count  : sleeping s + out (holder_pc s) = woken s + sumf inA (thr s) + sumf inB (thr s) + canc (holder_pc s);
  i_tokens : wsem s + consumed s + stolen s = posted s;
  i_wsem   : wsem s <= cur_posted (holder_pc s);
  i_single : forall t, single_ok (pc_of s t);
  i_false  : forall t, false_ok (pc_of s t);
  i_noreg  : all_phase (holder_pc s) = true -> sleeping s = 0;
  i_noassert : forall t, pc_of s t <> AssertFailed
}.

Lemma Inv_init : Inv init.
Proof. constructor; cbn; intros; try discriminate; try lia; auto. Qed.

Lemma pc_of_upd_same s lk sl wk ws t c po co st : pc_of (upd s lk sl wk ws t c po co st) t = c.
Proof. unfold pc_of, upd; cbn. rewrite lookup_update_same. reflexivity. Qed.
Lemma pc_of_upd_other s lk sl wk ws t c po co st t' : t' <> t -> pc_of (upd s lk sl wk ws t c po co st) t' = pc_of s t'.
Proof. intros H. unfold pc_of, upd; cbn. rewrite lookup_update_other by assumption. reflexivity. Qed.
Lemma pc_of_set_same s t c : pc_of (set_pc s t c) t = c.
Proof. unfold pc_of, set_pc; cbn. rewrite lookup_update_same. reflexivity. Qed.
Lemma pc_of_set_other s t c t' : t' <> t -> pc_of (set_pc s t c) t' = pc_of s t'.
Proof. intros H. unfold pc_of, set_pc; cbn. rewrite lookup_update_other by assumption. reflexivity. Qed.

Lemma holder_pc_eq s t : lock s = Some t -> holder_pc s = pc_of s t.
Proof. unfold holder_pc. intros ->. reflexivity. Qed.

(* a step of the lock holder that keeps the lock and is not inside wait() *)
Lemma Inv_holder_step s t c c' sl' wk' ws' po' co' st' :
  Inv s -> lock s = Some t -> pc_of s t = c ->
  holds c' = true ->
  sl' + out c' + woken s + canc c + inA c + inB c = wk' + canc c' + sleeping s + out c + inA c' + inB c' ->
  ws' + co' + st' = po' -> ws' <= cur_posted c' ->
  single_ok c' -> false_ok c' -> (all_phase c' = true -> sl' = 0) -> c' <> AssertFailed ->
  Inv (upd s (Some t) sl' wk' ws' t c' po' co' st').
Proof.
  intros HI Hl Hc Hh Hcount Htok Hws Hsing Hfalse Hnoreg Hna.
  destruct HI as [La Lb Ic It Iw Is If In Ia].
  pose proof (sumf_update inA (thr s) t c' eq_refl) as SA.
  pose proof (sumf_update inB (thr s) t c' eq_refl) as SB.
  unfold pc_of in Hc. rewrite Hc in SA, SB.
  rewrite (holder_pc_eq s t Hl) in *. unfold pc_of in Ic, Iw, In. rewrite Hc in Ic, Iw, In.
  constructor; cbn [lock sleeping woken wsem thr posted consumed stolen upd].
  - intros t'. destruct (Nat.eq_dec t' t) as [->|Hne]; [reflexivity|].
    rewrite pc_of_upd_other by assumption. intros H. apply La in H. congruence.
  - intros h Hh'. inversion Hh'; subst h. rewrite pc_of_upd_same. exact Hh.
  - unfold holder_pc; cbn [lock upd]. rewrite pc_of_upd_same. cbn [thr upd]. lia.
  - exact Htok.
  - unfold holder_pc; cbn [lock upd]. rewrite pc_of_upd_same. exact Hws.
  - intros t'. destruct (Nat.eq_dec t' t) as [->|Hne]; [rewrite pc_of_upd_same; exact Hsing|].
    rewrite pc_of_upd_other by assumption. apply Is.
  - intros t'. destruct (Nat.eq_dec t' t) as [->|Hne]; [rewrite pc_of_upd_same; exact Hfalse|].
    rewrite pc_of_upd_other by assumption. apply If.
  - unfold holder_pc; cbn [lock upd]. rewrite pc_of_upd_same. exact Hnoreg.
  - intros t'. destruct (Nat.eq_dec t' t) as [->|Hne]; [rewrite pc_of_upd_same; exact Hna|].
    rewrite pc_of_upd_other by assumption. apply Ia.
Qed.

(* a step of a thread that does not hold the lock and does not take it (inside wait()) *)
Lemma Inv_nonholder_step s t c c' sl' wk' ws' po' co' st' :
  Inv s -> pc_of s t = c -> holds c = false -> holds c' = false ->
  sl' + woken s + inA c + inB c = wk' + sleeping s + inA c' + inB c' ->
  (sl' = sleeping s \/ all_phase (holder_pc s) = false) ->
  ws' + co' + st' = po' -> ws' <= wsem s ->
  false_ok c' -> single_ok c' -> c' <> AssertFailed ->
  Inv (upd s (lock s) sl' wk' ws' t c' po' co' st').
Proof.
  intros HI Hc Hh Hh' Hcount Hsl Htok Hws Hfalse Hsing Hna.
  destruct HI as [La Lb Ic It Iw Is If In Ia].
  pose proof (sumf_update inA (thr s) t c' eq_refl) as SA.
  pose proof (sumf_update inB (thr s) t c' eq_refl) as SB.
  unfold pc_of in Hc. rewrite Hc in SA, SB.
  assert (Hhold : holder_pc (upd s (lock s) sl' wk' ws' t c' po' co' st') = holder_pc s).
  { unfold holder_pc; cbn [lock upd]. destruct (lock s) as [h|] eqn:El; [|reflexivity].
    destruct (Nat.eq_dec h t) as [->|Hne]; [|apply pc_of_upd_other; assumption].
    exfalso. pose proof (Lb t eq_refl) as Hb. unfold pc_of in Hb. rewrite Hc in Hb. congruence. }
  constructor; rewrite ?Hhold; cbn [lock sleeping woken wsem thr posted consumed stolen upd].
  - intros t'. destruct (Nat.eq_dec t' t) as [->|Hne]; [rewrite pc_of_upd_same; congruence|].
    rewrite pc_of_upd_other by assumption. apply La.
  - intros h Hl. destruct (Nat.eq_dec h t) as [->|Hne]; [|rewrite pc_of_upd_other by assumption; apply Lb; assumption].
    exfalso. pose proof (Lb t Hl) as Hb. unfold pc_of in Hb. rewrite Hc in Hb. congruence.
  - lia.
  - exact Htok.
  - lia.
  - intros t'. destruct (Nat.eq_dec t' t) as [->|Hne]; [rewrite pc_of_upd_same; exact Hsing|].
    rewrite pc_of_upd_other by assumption. apply Is.
  - intros t'. destruct (Nat.eq_dec t' t) as [->|Hne]; [rewrite pc_of_upd_same; exact Hfalse|].
    rewrite pc_of_upd_other by assumption. apply If.
  - intros Hp. destruct Hsl as [->|Hsl]; [apply In; exact Hp|congruence].
  - intros t'. destruct (Nat.eq_dec t' t) as [->|Hne]; [rewrite pc_of_upd_same; exact Hna|].
    rewrite pc_of_upd_other by assumption. apply Ia.
Qed.

(* a step that takes or releases the lock *)
Lemma Inv_lock_change s t c c' (take : bool) :
  Inv s -> pc_of s t = c ->
  (if take then lock s = None /\ holds c = false /\ holds c' = true
   else lock s = Some t /\ holds c' = false) ->
  inA c = inA c' -> inB c = inB c' ->
  out c = 0 -> canc c = 0 -> cur_posted c = 0 -> all_phase c = false ->
  out c' = 0 -> canc c' = 0 -> cur_posted c' = 0 -> all_phase c' = false ->
  single_ok c' -> false_ok c' -> c' <> AssertFailed ->
  Inv (upd s (if take then Some t else None) (sleeping s) (woken s) (wsem s) t c' (posted s) (consumed s) (stolen s)).
Proof.
  intros HI Hc Hlk HA HB Ho Hk Hp Hph Ho' Hk' Hp' Hph' Hsing Hfalse Hna.
  destruct HI as [La Lb Ic It Iw Is If In Ia].
  pose proof (sumf_update inA (thr s) t c' eq_refl) as SA.
  pose proof (sumf_update inB (thr s) t c' eq_refl) as SB.
  unfold pc_of in Hc. rewrite Hc in SA, SB.
  assert (Hold : out (holder_pc s) = 0 /\ canc (holder_pc s) = 0 /\ cur_posted (holder_pc s) = 0).
  { destruct take.
    - destruct Hlk as (Hl & _). unfold holder_pc. rewrite Hl. cbn. auto.
    - destruct Hlk as (Hl & _). unfold holder_pc. rewrite Hl. unfold pc_of. rewrite Hc. auto. }
  destruct Hold as (Ho0 & Hk0 & Hp0).
  assert (Hnew : holder_pc (upd s (if take then Some t else None) (sleeping s) (woken s) (wsem s) t c'
                                (posted s) (consumed s) (stolen s)) = if take then c' else Idle).
  { unfold holder_pc; cbn [lock upd]. destruct take; [rewrite pc_of_upd_same|]; reflexivity. }
  constructor; rewrite ?Hnew; cbn [lock sleeping woken wsem thr posted consumed stolen upd].
  - intros t'. destruct (Nat.eq_dec t' t) as [->|Hne].
    + rewrite pc_of_upd_same. destruct take; [reflexivity|]. destruct Hlk as (_ & Hh). congruence.
    + rewrite pc_of_upd_other by assumption. intros H. apply La in H. destruct take.
      * destruct Hlk as (Hl & _). congruence.
      * destruct Hlk as (Hl & _). congruence.
  - intros h Hl'. destruct take; [|discriminate]. inversion Hl'; subst h. rewrite pc_of_upd_same.
    destruct Hlk as (_ & _ & H). exact H.
  - destruct take; cbn; lia.
  - exact It.
  - destruct take; cbn; lia.
  - intros t'. destruct (Nat.eq_dec t' t) as [->|Hne]; [rewrite pc_of_upd_same; exact Hsing|].
    rewrite pc_of_upd_other by assumption. apply Is.
  - intros t'. destruct (Nat.eq_dec t' t) as [->|Hne]; [rewrite pc_of_upd_same; exact Hfalse|].
    rewrite pc_of_upd_other by assumption. apply If.
  - destruct take; [rewrite Hph'|cbn]; discriminate.
  - intros t'. destruct (Nat.eq_dec t' t) as [->|Hne]; [rewrite pc_of_upd_same; exact Hna|].
    rewrite pc_of_upd_other by assumption. apply Ia.
Qed.

Lemma set_pc_upd s t c :
  set_pc s t c = upd s (lock s) (sleeping s) (woken s) (wsem s) t c (posted s) (consumed s) (stolen s).
Proof. reflexivity. Qed.

Ltac holder_facts HI Hpc :=
  let La := fresh "La" in
  pose proof (i_lock_a _ HI) as La;
  match type of Hpc with pc_of ?s ?t = ?c =>
    let Hl := fresh "Hl" in
    assert (Hl : lock s = Some t) by (apply La; rewrite Hpc; reflexivity)
  end.

Theorem step_inv s l s' : Inv s -> step s l = Some s' -> Inv s'.
Proof.
  intros HI Hs. destruct l as [t|t|t tmo|t all|t|t|t]; cbn [step] in Hs.
  - (* Acquire *)
    destruct (pc_of s t) eqn:Hpc; try discriminate. destruct (lock s) eqn:Hl; try discriminate.
    inversion Hs; subst s'. apply (Inv_lock_change s t Idle Hold true); auto; cbn; auto; discriminate.
  - (* Release *)
    destruct (pc_of s t) eqn:Hpc; try discriminate. inversion Hs; subst s'.
    holder_facts HI Hpc.
    apply (Inv_lock_change s t Hold Idle false); auto; cbn; auto; discriminate.
  - (* StartWait *)
    destruct (pc_of s t) eqn:Hpc; try discriminate. inversion Hs; subst s'.
    holder_facts HI Hpc. rewrite Hl.
    pose proof (i_tokens _ HI). pose proof (i_wsem _ HI) as Hw. rewrite (holder_pc_eq _ _ Hl), Hpc in Hw.
    apply (Inv_holder_step s t Hold); auto; cbn in *; try lia; auto; try discriminate.
  - (* StartNotify *)
    destruct (pc_of s t) eqn:Hpc; try discriminate. inversion Hs; subst s'. rewrite set_pc_upd.
    holder_facts HI Hpc. rewrite Hl.
    pose proof (i_tokens _ HI). pose proof (i_wsem _ HI) as Hw. rewrite (holder_pc_eq _ _ Hl), Hpc in Hw.
    apply (Inv_holder_step s t Hold); auto; cbn in *; try lia; auto; try discriminate.
  - (* Step *)
    pose proof (i_tokens _ HI) as Ht. pose proof (i_single _ HI t) as Hsg. pose proof (i_false _ HI t) as Hf.
    pose proof (i_count _ HI) as Hcnt. pose proof (i_wsem _ HI) as Hw. pose proof (i_noreg _ HI) as Hnr.
    destruct (pc_of s t) eqn:Hpc; try discriminate.
    + (* WReg: release the lock *)
      inversion Hs; subst s'. holder_facts HI Hpc.
      apply (Inv_lock_change s t (WReg tmo) (WBlocked tmo) false); auto; cbn; auto; discriminate.
    + (* WBlocked: take a token *)
      destruct (wsem s) eqn:Ews; try discriminate. inversion Hs; subst s'.
      apply (Inv_nonholder_step s t (WBlocked tmo)); auto; cbn in *; try lia; auto; try discriminate.
    + (* WPassed: woken.release *)
      inversion Hs; subst s'.
      apply (Inv_nonholder_step s t (WPassed tmo got)); auto; cbn in *; try lia; auto; try discriminate.
    + (* WRelock: take the lock back *)
      destruct (lock s) eqn:Hl; try discriminate. inversion Hs; subst s'.
      apply (Inv_lock_change s t (WRelock tmo got) (WDone tmo got) true); auto; cbn in *; auto; discriminate.
    + (* NStart *)
      holder_facts HI Hpc. rewrite (holder_pc_eq _ _ Hl), Hpc in *. cbn in Hw.
      destruct (wsem s) eqn:Ews; [|lia]. inversion Hs; subst s'. rewrite set_pc_upd, Hl, Ews.
      apply (Inv_holder_step s t (NStart all)); auto; cbn in *; try lia; auto; try discriminate.
    + (* NCancel *)
      holder_facts HI Hpc. rewrite (holder_pc_eq _ _ Hl), Hpc in *. cbn in *.
      destruct (woken s) eqn:Ewk; inversion Hs; subst s'; rewrite ?set_pc_upd, ?Hl, ?Ewk.
      * apply (Inv_holder_step s t (NCancel all)); auto; cbn in *; try lia; auto; try discriminate.
        destruct all; cbn; auto.
      * apply (Inv_holder_step s t (NCancel all)); auto; cbn in *; try lia; auto; try discriminate.
    + (* NCancel2: the assert *)
      holder_facts HI Hpc. rewrite (holder_pc_eq _ _ Hl), Hpc in *. cbn in *.
      destruct (sleeping s) eqn:Esl; [exfalso; lia|]. inversion Hs; subst s'. rewrite Hl.
      apply (Inv_holder_step s t (NCancel2 all)); auto; cbn in *; try lia; auto; try discriminate.
    + (* NGrab *)
      holder_facts HI Hpc. rewrite (holder_pc_eq _ _ Hl), Hpc in *. cbn in *.
      destruct (sleeping s) eqn:Esl.
      * destruct (Nat.eqb_spec n 0); inversion Hs; subst s'; rewrite set_pc_upd, Hl, Esl.
        -- subst n. apply (Inv_holder_step s t (NGrab all 0)); auto; cbn in *; try lia; auto; try discriminate.
        -- apply (Inv_holder_step s t (NGrab all n)); auto; cbn in *; try lia; auto; try discriminate.
           destruct all; cbn; auto; lia.
      * inversion Hs; subst s'. rewrite Hl.
        apply (Inv_holder_step s t (NGrab all n)); auto; cbn in *; try lia; auto; try discriminate.
    + (* NPost *)
      holder_facts HI Hpc. rewrite (holder_pc_eq _ _ Hl), Hpc in *. cbn in *.
      inversion Hs; subst s'. rewrite Hl.
      destruct all.
      * apply (Inv_holder_step s t (NPost true n)); auto; cbn in *; try lia; auto; try discriminate.
      * apply (Inv_holder_step s t (NPost false n)); auto; cbn in *; try lia; auto; try discriminate.
    + (* NWait *)
      holder_facts HI Hpc. rewrite (holder_pc_eq _ _ Hl), Hpc in *. cbn in *.
      destruct k as [|k'].
      * inversion Hs; subst s'. rewrite set_pc_upd, Hl.
        eapply Inv_holder_step; [exact HI|exact Hl|exact Hpc|..]; auto; cbn in *; try lia; auto; try discriminate.
        all: try (destruct all; cbn in *; auto; lia).
      * destruct (woken s) eqn:Ewk; try discriminate. inversion Hs; subst s'. rewrite Hl.
        destruct k'.
        -- eapply Inv_holder_step; [exact HI|exact Hl|exact Hpc|..]; auto; cbn in *; try lia; auto; try discriminate.
           all: try (destruct all; cbn in *; auto; lia).
        -- eapply Inv_holder_step; [exact HI|exact Hl|exact Hpc|..]; auto; cbn in *; try lia; auto; try discriminate.
           all: try (destruct all; cbn in *; auto; lia).
    + (* NDrain *)
      holder_facts HI Hpc. rewrite (holder_pc_eq _ _ Hl), Hpc in *. cbn in *.
      destruct (wsem s) eqn:Ews; inversion Hs; subst s'; rewrite ?set_pc_upd, ?Hl, ?Ews.
      * eapply Inv_holder_step; [exact HI|exact Hl|exact Hpc|..]; auto; cbn in *; try lia; auto; try discriminate.
      * destruct all.
        -- eapply Inv_holder_step; [exact HI|exact Hl|exact Hpc|..]; auto; cbn in *; try lia; auto; try discriminate.
        -- eapply Inv_holder_step; [exact HI|exact Hl|exact Hpc|..]; auto; cbn in *; try lia; auto; try discriminate.
  - (* Timeout *)
    destruct (pc_of s t) eqn:Hpc; try discriminate. destruct tmo; try discriminate.
    inversion Hs; subst s'. rewrite set_pc_upd. pose proof (i_tokens _ HI).
    apply (Inv_nonholder_step s t (WBlocked true)); auto; cbn in *; try lia; auto; try discriminate.
  - (* Finish *)
    pose proof (i_tokens _ HI) as Ht. pose proof (i_count _ HI) as Hcnt. pose proof (i_wsem _ HI) as Hw.
    destruct (pc_of s t) eqn:Hpc; try discriminate; inversion Hs; subst s'; rewrite set_pc_upd;
      holder_facts HI Hpc; rewrite (holder_pc_eq _ _ Hl), Hpc in *; cbn in *; rewrite Hl.
    + apply (Inv_holder_step s t (WDone tmo got)); auto; cbn in *; try lia; auto; try discriminate.
    + apply (Inv_holder_step s t NDone); auto; cbn in *; try lia; auto; try discriminate.
Qed.

Theorem reachable_inv s : reachable s -> Inv s.
Proof. induction 1; [apply Inv_init|eapply step_inv; eauto]. Qed.
