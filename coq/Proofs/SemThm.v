From Coq Require Import List Arith Bool Lia.
From LokyV Require Import Model.Sem.
Import ListNotations.

(* value never exceeds maxvalue: BoundedSemaphore(n) = (Semaphore, n, n) refuses over-release; Lock = (Semaphore,1,1) *)
Lemma release_bounded t s s' : skind s = Semaphore -> value s <= maxvalue s -> release t s = Done s' ->
  value s' <= maxvalue s' /\ maxvalue s' = maxvalue s /\ skind s' = Semaphore /\ value s' = S (value s).
Proof.
  intros Hk Hv. unfold release. rewrite Hk. destruct (Nat.leb_spec (maxvalue s) (value s)); [discriminate|].
  intros H'; inversion H'; subst; cbn. repeat split; auto; lia.
Qed.
Lemma acquire_sem t s s' : skind s = Semaphore -> try_acquire t s = Done s' ->
  S (value s') = value s /\ maxvalue s' = maxvalue s /\ skind s' = Semaphore.
Proof.
  intros Hk. unfold try_acquire. rewrite Hk. destruct (owner s); destruct (value s) eqn:Ev; try discriminate;
    intros H; inversion H; subst; cbn; auto.
Qed.

Theorem bounded_never_above_max ops : forall s held s' held',
  skind s = Semaphore -> value s <= maxvalue s -> run s held ops = Some (s', held') -> value s' <= maxvalue s'.
Proof.
  induction ops as [|[t|t] ops IH]; intros s held s' held' Hk Hv Hr; cbn in Hr.
  - inversion Hr; subst; auto.
  - destruct (try_acquire t s) as [s1| | |] eqn:Ea; try (eapply IH; eauto; fail).
    destruct (acquire_sem _ _ _ Hk Ea) as (H1 & H2 & H3). eapply IH; [exact H3| |exact Hr]. lia.
  - destruct (release t s) as [s1| | |] eqn:Er; try (eapply IH; eauto; fail).
    destruct (release_bounded _ _ _ Hk Hv Er) as (H1 & H2 & H3 & H4). eapply IH; eauto.
Qed.
Theorem over_release_refused t n : release t (new Semaphore n n) = ValueError.
Proof. unfold release, new; cbn. rewrite Nat.leb_refl. reflexivity. Qed.

(* Semaphore(n): value + tokens held = n, hence at most n holders, whatever the sequence of acquires and of
   releases by holders *)

Theorem semaphore_conservation ops : forall s held s' held',
  skind s = Semaphore ->
  run s held ops = Some (s', held') ->
  (* every release is performed while a token is held *)
  (forall pre t post sx hx, ops = pre ++ Rel t :: post -> run s held pre = Some (sx, hx) -> 1 <= hx) ->
  value s' + held' = value s + held.
Proof.
  induction ops as [|[t|t] ops IH]; intros s held s' held' Hk Hr Hdisc; cbn in Hr.
  - inversion Hr; subst; auto.
  - destruct (try_acquire t s) as [s1| | |] eqn:Ea.
    + destruct (acquire_sem _ _ _ Hk Ea) as (H1 & H2 & H3). rewrite Hk in Hr.
      rewrite (IH s1 (S held) s' held' H3 Hr); [lia|].
      intros pre t' post sx hx Ho Hp. apply (Hdisc (Acq t :: pre) t' post sx hx); [rewrite Ho; reflexivity|].
      cbn. rewrite Ea, Hk. exact Hp.
    + apply (IH s held s' held' Hk Hr). intros pre t' post sx hx Ho Hp.
      apply (Hdisc (Acq t :: pre) t' post sx hx); [rewrite Ho; reflexivity|]. cbn. rewrite Ea. exact Hp.
    + apply (IH s held s' held' Hk Hr). intros pre t' post sx hx Ho Hp.
      apply (Hdisc (Acq t :: pre) t' post sx hx); [rewrite Ho; reflexivity|]. cbn. rewrite Ea. exact Hp.
    + apply (IH s held s' held' Hk Hr). intros pre t' post sx hx Ho Hp.
      apply (Hdisc (Acq t :: pre) t' post sx hx); [rewrite Ho; reflexivity|]. cbn. rewrite Ea. exact Hp.
  - pose proof (Hdisc [] t ops s held eq_refl eq_refl) as Hh.
    destruct (release t s) as [s1| | |] eqn:Er.
    + assert (Hv : value s1 = S (value s) /\ skind s1 = Semaphore).
      { unfold release in Er. rewrite Hk in Er. destruct (maxvalue s <=? value s); [discriminate|].
        inversion Er; subst; cbn; auto. }
      destruct Hv as [Hv Hk1]. rewrite Hk in Hr.
      rewrite (IH s1 (held - 1) s' held' Hk1 Hr); [lia|].
      intros pre t' post sx hx Ho Hp. apply (Hdisc (Rel t :: pre) t' post sx hx); [rewrite Ho; reflexivity|].
      cbn. rewrite Er, Hk. exact Hp.
    + apply (IH s held s' held' Hk Hr). intros pre t' post sx hx Ho Hp.
      apply (Hdisc (Rel t :: pre) t' post sx hx); [rewrite Ho; reflexivity|]. cbn. rewrite Er. exact Hp.
    + apply (IH s held s' held' Hk Hr). intros pre t' post sx hx Ho Hp.
      apply (Hdisc (Rel t :: pre) t' post sx hx); [rewrite Ho; reflexivity|]. cbn. rewrite Er. exact Hp.
    + apply (IH s held s' held' Hk Hr). intros pre t' post sx hx Ho Hp.
      apply (Hdisc (Rel t :: pre) t' post sx hx); [rewrite Ho; reflexivity|]. cbn. rewrite Er. exact Hp.
Qed.

(* RLock: only the owner can re-enter, only the owner can release *)
Theorem rlock_reentrant_for_owner_only t t' v m c :
  t' <> t ->
  (exists s', try_acquire t (mksem RecursiveMutex 0 m (Some t) (S c)) = Done s' /\ count s' = S (S c))
  /\ try_acquire t' (mksem RecursiveMutex 0 m (Some t) (S c)) = WouldBlock
  /\ release t' (mksem RecursiveMutex v m (Some t) (S c)) = AssertionError.
Proof.
  intros Hne. unfold try_acquire, release; cbn.
  rewrite Nat.eqb_refl. destruct (Nat.eqb_spec t t'); [congruence|]. cbn.
  split; [eexists; split; reflexivity|]. auto.
Qed.
