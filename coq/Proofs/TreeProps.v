From Coq Require Import List String Ascii ZArith Bool Lia.
From LokyV Require Import Lib.PyLib Gen.Depth Char.DepthChar Model.Tree.
Import ListNotations.
Open Scope string_scope.
Open Scope Z_scope.

Section T.
Variable MAX : Z.

(* creation succeeds iff ... *)
Lemma create_iff t p m pr : nth_error (procs t) p = Some pr -> 0 <= p_depth pr ->
  (snd (step MAX t (Create p m)) = Done
   <-> (m <> "fork" \/ p_depth pr = 0) /\ (MAX <= 0 \/ p_depth pr < MAX)).
Proof.
  intros Hp Hd. cbn [step]. rewrite Hp, check_max_depth_char. cbn [fst]. unfold check_fails.
  destruct (String.eqb_spec m "fork") as [->|Hm];
    destruct (Z.gtb_spec (p_depth pr) 0) as [G1|G1];
    destruct (Z.ltb_spec 0 MAX) as [G2|G2];
    destruct (Z.gtb_spec (p_depth pr + 1) MAX) as [G3|G3]; cbn; split;
    try discriminate; try reflexivity;
    try (intros _; split; [first [left; assumption | right; lia] | lia]);
    try (intros [[F1|F1] [F2|F2]]; try congruence; lia).
Qed.
(* a refused creation changes nothing (no process is spawned) *)
Lemma create_refused_frame t p m : snd (step MAX t (Create p m)) = RecursionError ->
  fst (step MAX t (Create p m)) = t.
Proof.
  cbn [step]. destruct (nth_error (procs t) p); [|discriminate].
  destruct (fst (check_max_depth m MAX (p_depth p0) [])); cbn; auto; discriminate.
Qed.

Definition Inv (t : tree) : Prop :=
  (* depths: root 0, every other process one more than the creator of its executor *)
  (forall i pr, nth_error (procs t) i = Some pr ->
     match p_parent pr with
     | None => p_depth pr = 0
     | Some q => exists pq, nth_error (procs t) q = Some pq /\ p_depth pr = p_depth pq + 1
     end /\ 0 <= p_depth pr)
  (* executors exist only where the check passed *)
  /\ (forall x ex, nth_error (execs t) x = Some ex ->
        exists po, nth_error (procs t) (x_owner ex) = Some po
                   /\ (MAX <= 0 \/ p_depth po < MAX)
                   /\ (x_method ex <> "fork" \/ p_depth po = 0)).

Lemma Inv_init : Inv init_tree.
Proof.
  split.
  - intros [|[|i]] pr H; cbn in H; inversion H; subst; cbn; split; lia.
  - intros [|x] ex H; cbn in H; discriminate.
Qed.

Lemma nth_error_snoc {A} (l : list A) a i x : nth_error (l ++ [a]) i = Some x ->
  nth_error l i = Some x \/ (i = List.length l /\ x = a).
Proof.
  intros H. destruct (Nat.lt_ge_cases i (List.length l)).
  - rewrite nth_error_app1 in H by assumption. auto.
  - rewrite nth_error_app2 in H by assumption.
    destruct (i - List.length l)%nat as [|k] eqn:E; cbn in H.
    + inversion H. right. split; [lia|reflexivity].
    + destruct k; discriminate.
Qed.
Lemma nth_error_weaken {A} (l : list A) a i x : nth_error l i = Some x -> nth_error (l ++ [a]) i = Some x.
Proof. intros H. rewrite nth_error_app1; [assumption|]. apply nth_error_Some. congruence. Qed.

Lemma Inv_step t o : Inv t -> Inv (fst (step MAX t o)).
Proof.
  intros [Hp Hx]. destruct o as [p m|x]; cbn [step].
  - destruct (nth_error (procs t) p) as [pr|] eqn:Ep; [|split; assumption].
    destruct (Hp _ _ Ep) as [_ Hd].
    pose proof (create_iff t p m pr Ep Hd) as Hiff. cbn [step] in Hiff. rewrite Ep in Hiff.
    destruct (fst (check_max_depth m MAX (p_depth pr) [])) eqn:Ec; cbn [fst snd] in *;
      try (split; assumption).
    all: split; cbn [procs execs]; [assumption|];
      intros x ex Hex; apply nth_error_snoc in Hex; destruct Hex as [Hex|[_ ->]]; [eauto|];
      cbn [x_owner x_method]; exists pr; split; [assumption|];
      destruct (proj1 Hiff eq_refl) as [H1 H2]; auto.
  - destruct (nth_error (execs t) x) as [ex|] eqn:Ex; [|split; assumption].
    destruct (Hx _ _ Ex) as (po & Epo & Hmax & Hfork). rewrite Epo, child_depth_char. cbn [fst].
    destruct (Hp _ _ Epo) as [_ Hd0].
    split; cbn [procs execs].
    + intros i pr Hi. apply nth_error_snoc in Hi. destruct Hi as [Hi|[_ ->]].
      * destruct (Hp _ _ Hi) as [H1 H2]. split; [|assumption].
        destruct (p_parent pr) as [q|]; [|assumption]. destruct H1 as (pq & Eq & Hq).
        exists pq. split; [apply nth_error_weaken; assumption|assumption].
      * cbn [p_parent p_depth]. split; [|lia]. exists po. split; [apply nth_error_weaken; assumption|reflexivity].
    + intros y ey Hy. destruct (Hx _ _ Hy) as (py & Ey & H1 & H2).
      exists py. split; [apply nth_error_weaken; assumption|auto].
Qed.

Lemma Inv_run ops : Inv (run MAX ops).
Proof.
  unfold run. generalize Inv_init. generalize init_tree as t.
  induction ops as [|o ops IH]; intros t Ht; cbn [fold_left]; [assumption|].
  apply IH. apply Inv_step. assumption.
Qed.

(* no process deeper than MAX, whatever the history of creations, respawns, resizes, reuse *)
Lemma depth_bound ops i pr : 1 <= MAX -> nth_error (procs (run MAX ops)) i = Some pr -> p_depth pr <= MAX.
Proof.
  intros HM Hi. destruct (Inv_run ops) as [Hp Hx].
  (* a worker's parent owns an executor: strengthen through the parent relation *)
  assert (Hs : forall t, Inv t ->
            (forall j pj, nth_error (procs t) j = Some pj -> p_depth pj <= MAX) ->
            forall o, forall j pj, nth_error (procs (fst (step MAX t o))) j = Some pj -> p_depth pj <= MAX).
  { intros t [Hp' Hx'] Hb o j pj. destruct o as [p m|x]; cbn [step].
    - destruct (nth_error (procs t) p); [|apply Hb].
      destruct (fst (check_max_depth m MAX (p_depth p0) [])); cbn [fst procs]; apply Hb.
    - destruct (nth_error (execs t) x) as [ex|] eqn:Ex; [|apply Hb].
      destruct (Hx' _ _ Ex) as (po & Epo & Hmax & _). rewrite Epo, child_depth_char. cbn [fst procs].
      intros Hj. apply nth_error_snoc in Hj. destruct Hj as [Hj|[_ ->]]; [eapply Hb; eauto|].
      cbn [p_depth]. lia. }
  revert i pr Hi. unfold run.
  assert (G : forall ops t, Inv t -> (forall j pj, nth_error (procs t) j = Some pj -> p_depth pj <= MAX) ->
              forall j pj, nth_error (procs (fold_left (fun t o => fst (step MAX t o)) ops t)) j = Some pj ->
                           p_depth pj <= MAX).
  { clear ops Hp Hx. induction ops as [|o ops IH]; intros t Ht Hb; cbn [fold_left]; [exact Hb|].
    apply IH; [apply Inv_step; assumption|]. apply Hs; assumption. }
  apply G; [apply Inv_init|]. intros [|[|j]] pj H; cbn in H; inversion H; subst; cbn; lia.
Qed.
End T.
