From Coq Require Import List String Ascii ZArith Bool Lia.
From LokyV Require Import Lib.PyLib Gen.Depth Char.DepthChar Model.Tree.
Import ListNotations.
Open Scope string_scope.
Open Scope Z_scope.

Lemma nth_error_snoc {A} (l : list A) a i x : nth_error (l ++ [a]) i = Some x ->
  nth_error l i = Some x \/ (i = List.length l /\ x = a).
Proof.
  intros H. destruct (Nat.lt_ge_cases i (List.length l)).
  - rewrite nth_error_app1 in H by assumption. auto.
  - rewrite nth_error_app2 in H by assumption.
    destruct (i - List.length l)%nat as [|k] eqn:E; cbn in H.
    + inversion H. right. split; [lia|reflexivity].
    + destruct k; discriminate.
Qed.
Lemma nth_error_weaken {A} (l : list A) a i x : nth_error l i = Some x -> nth_error (l ++ [a]) i = Some x.
Proof. intros H. rewrite nth_error_app1; [assumption|]. apply nth_error_Some. congruence. Qed.
Lemma nth_set_nth_eq {A} (l : list A) i a x : nth_error l i = Some x -> nth_error (set_nth l i a) i = Some a.
Proof. revert i. induction l as [|y l IH]; intros [|i] H; simpl in *; try discriminate; auto. Qed.
Lemma nth_set_nth_neq {A} (l : list A) i j a : i <> j -> nth_error (set_nth l i a) j = nth_error l j.
Proof. revert i j. induction l as [|y l IH]; intros [|i] [|j] H; simpl; auto; try congruence. Qed.

Section T.
Variable MAX : Z.

Definition step' := step_with true true MAX.
Lemma step_is t o : step MAX t o = step' t o.
Proof. unfold step, step'. rewrite early_ok, guard_ok. reflexivity. Qed.

Definition good_proc (t : tree) (pr : proc) : Prop :=
  0 <= p_real pr /\
  match p_parent pr with
  | None => p_real pr = 0 /\ p_phase pr = Running
  | Some q => exists pq, nth_error (procs t) q = Some pq /\ p_real pr = p_real pq + 1
  end /\
  p_ship pr = p_real pr /\
  (p_phase pr = Loading -> p_var pr = 0) /\ (p_phase pr <> Loading -> p_var pr = p_real pr).
Definition good_exec (t : tree) (ex : exec) : Prop :=
  exists po, nth_error (procs t) (x_owner ex) = Some po /\
    (x_loading ex = false -> (MAX <= 0 \/ p_real po < MAX) /\ (x_method ex <> "fork" \/ p_real po = 0)).
Definition Inv (t : tree) : Prop :=
  (forall i pr, nth_error (procs t) i = Some pr -> good_proc t pr) /\
  (forall x ex, nth_error (execs t) x = Some ex -> good_exec t ex).

Lemma Inv_init : Inv init_tree.
Proof.
  split.
  - intros [|[|i]] pr H; cbn in H; inversion H; subst. unfold good_proc, root; cbn. repeat split; try lia; try congruence.
  - intros [|x] ex H; cbn in H; discriminate.
Qed.

(* creation succeeds iff (not fork, or depth 0) and (unlimited or depth < MAX) -- in a process that has entered _process_worker *)
Lemma create_iff t p m pr : Inv t -> nth_error (procs t) p = Some pr -> p_phase pr <> Loading ->
  (snd (step MAX t (Create p m)) = Done
   <-> (m <> "fork" \/ p_real pr = 0) /\ (MAX <= 0 \/ p_real pr < MAX)).
Proof.
  intros [Hp _] Ep Ph. destruct (Hp _ _ Ep) as (Hd & _ & _ & _ & Hv). specialize (Hv Ph).
  rewrite step_is. unfold step'. cbn [step_with]. rewrite Ep, check_max_depth_char, Hv. cbn [fst]. unfold check_fails.
  destruct (String.eqb_spec m "fork") as [->|Hm];
    destruct (Z.gtb_spec (p_real pr) 0) as [G1|G1];
    destruct (Z.ltb_spec 0 MAX) as [G2|G2];
    destruct (Z.gtb_spec (p_real pr + 1) MAX) as [G3|G3]; cbn; split;
    try discriminate; try reflexivity;
    try (intros _; split; [first [left; assumption | right; lia] | lia]);
    try (intros [[F1|F1] [F2|F2]]; try congruence; lia).
Qed.
(* a refused creation changes nothing (no process is spawned) *)
Lemma create_refused_frame t p m : snd (step MAX t (Create p m)) = RecursionError ->
  fst (step MAX t (Create p m)) = t.
Proof.
  rewrite step_is. unfold step'. cbn [step_with]. destruct (nth_error (procs t) p); [|discriminate].
  destruct (fst (check_max_depth m MAX (p_var p0) [])); cbn; auto; discriminate.
Qed.

Lemma check_passes m d : check_fails m MAX d = false -> 0 <= d -> (m <> "fork" \/ d = 0) /\ (MAX <= 0 \/ d < MAX).
Proof.
  unfold check_fails. intros H Hd.
  destruct (String.eqb_spec m "fork") as [->|Hm];
    destruct (Z.gtb_spec d 0) as [G1|G1];
    destruct (Z.ltb_spec 0 MAX) as [G2|G2];
    destruct (Z.gtb_spec (d + 1) MAX) as [G3|G3]; cbn in H; try discriminate;
    (split; [first [left; assumption | right; lia] | lia]).
Qed.

Lemma real_kept t i pr a : nth_error (procs t) i = Some pr -> p_real a = p_real pr ->
  forall q pq, nth_error (procs t) q = Some pq -> exists pq', nth_error (set_nth (procs t) i a) q = Some pq' /\ p_real pq' = p_real pq.
Proof.
  intros Ei Hr q pq Eq. destruct (Nat.eq_dec i q) as [<-|N].
  - exists a. split; [eapply nth_set_nth_eq; eauto|]. congruence.
  - exists pq. split; [rewrite nth_set_nth_neq; assumption|reflexivity].
Qed.

Lemma Inv_update t i pr a : Inv t -> nth_error (procs t) i = Some pr ->
  p_real a = p_real pr -> p_ship a = p_ship pr -> p_parent a = p_parent pr -> p_parent pr <> None ->
  p_phase a <> Loading -> p_var a = p_ship pr ->
  Inv {| procs := set_nth (procs t) i a; execs := execs t |}.
Proof.
  intros [Hp Hx] Ei Hr Hs Hpa Hnn Hph Hv. pose proof (real_kept t i pr a Ei Hr) as K.
  assert (Gi : good_proc t pr) by (eapply Hp; eauto). destruct Gi as (G1 & G2 & G3 & G4 & G5).
  split; cbn [procs execs].
  - intros j pj Ej. destruct (Nat.eq_dec i j) as [<-|N].
    + rewrite (nth_set_nth_eq _ _ _ _ Ei) in Ej. inversion Ej; subst pj. unfold good_proc. cbn [procs].
      rewrite Hr, Hs, Hpa, Hv. repeat split; try assumption.
      * destruct (p_parent pr) as [q|]; [|congruence]. destruct G2 as (pq & Eq & Rq). destruct (K _ _ Eq) as (pq' & Eq' & Rq'). exists pq'. split; [assumption|lia].
      * intros F. congruence.
      * intros _. exact G3.
    + rewrite nth_set_nth_neq in Ej by assumption. destruct (Hp _ _ Ej) as (A1 & A2 & A3 & A4 & A5).
      unfold good_proc. cbn [procs]. repeat split; try assumption.
      destruct (p_parent pj) as [q|]; [|assumption]. destruct A2 as (pq & Eq & Rq). destruct (K _ _ Eq) as (pq' & Eq' & Rq'). exists pq'. split; [assumption|lia].
  - intros x ex Ex. destruct (Hx _ _ Ex) as (po & Eo & C). destruct (K _ _ Eo) as (po' & Eo' & Ro'). exists po'. cbn [procs]. split; [assumption|].
    rewrite Ro'. exact C.
Qed.

Lemma loading_has_parent t pr : good_proc t pr -> p_phase pr <> Running -> p_parent pr <> None.
Proof. intros (_ & G2 & _) Ph F. rewrite F in G2. destruct G2 as [_ R]. congruence. Qed.

Lemma Inv_step t o : Inv t -> Inv (fst (step MAX t o)).
Proof.
  intros I. pose proof I as [Hp Hx]. rewrite step_is. unfold step'. destruct o as [p m|x|i|i]; cbn [step_with].
  - (* Create *)
    destruct (nth_error (procs t) p) as [pr|] eqn:Ep; [|exact I].
    rewrite check_max_depth_char. cbn [fst]. destruct (check_fails m MAX (p_var pr)) eqn:Cf; [exact I|]. cbn [fst].
    split; cbn [procs execs]; [exact Hp|].
    intros y ey Ey. apply nth_error_snoc in Ey. destruct Ey as [Ey|[_ ->]]; [apply Hx in Ey; exact Ey|].
    exists pr. cbn [x_owner x_method x_loading]. split; [exact Ep|]. intros NL.
    destruct (Hp _ _ Ep) as (G1 & _ & _ & _ & G5).
    assert (Ph : p_phase pr <> Loading) by (destruct (p_phase pr); cbn in NL; congruence).
    rewrite (G5 Ph) in Cf. destruct (check_passes _ _ Cf G1) as [A B]. split; assumption.
  - (* Spawn *)
    destruct (nth_error (execs t) x) as [ex|] eqn:Ex; [|exact I].
    destruct (Hx _ _ Ex) as (po & Eo & C). rewrite Eo. cbn [andb].
    destruct (is_loading (p_phase po)) eqn:L; [exact I|].
    rewrite child_depth_char. cbn [fst].
    destruct (Hp _ _ Eo) as (G1 & G2 & G3 & G4 & G5).
    assert (Ph : p_phase po <> Loading) by (destruct (p_phase po); cbn in L; congruence).
    split; cbn [procs execs].
    + intros j pj Ej. apply nth_error_snoc in Ej. destruct Ej as [Ej|[_ ->]].
      * destruct (Hp _ _ Ej) as (A1 & A2 & A3 & A4 & A5). unfold good_proc. cbn [procs]. repeat split; try assumption.
        destruct (p_parent pj) as [q|]; [|assumption]. destruct A2 as (pq & Eq & Rq). exists pq. split; [apply nth_error_weaken; assumption|assumption].
      * unfold good_proc. cbn [procs p_real p_var p_ship p_phase p_parent]. repeat split; try lia.
        -- exists po. split; [apply nth_error_weaken; assumption|reflexivity].
        -- rewrite (G5 Ph). reflexivity.
        -- intros F. congruence.
    + intros y ey Ey. destruct (Hx _ _ Ey) as (py & Epy & Cy). exists py. split; [apply nth_error_weaken; assumption|exact Cy].
  - (* Begin *)
    destruct (nth_error (procs t) i) as [pr|] eqn:Ei; [|exact I].
    destruct (p_phase pr) eqn:Ph; try exact I. cbn [fst].
    eapply Inv_update; eauto; cbn [p_real p_ship p_parent p_phase p_var]; try reflexivity; try discriminate.
    apply (loading_has_parent t pr); [eapply Hp; eauto | congruence].
  - (* Install *)
    destruct (nth_error (procs t) i) as [pr|] eqn:Ei; [|exact I].
    destruct (p_phase pr) eqn:Ph; try exact I. cbn [fst].
    eapply Inv_update; eauto; cbn [p_real p_ship p_parent p_phase p_var]; try reflexivity; try discriminate.
    apply (loading_has_parent t pr); [eapply Hp; eauto | congruence].
Qed.

Lemma Inv_run ops : Inv (run MAX ops).
Proof.
  unfold run. generalize Inv_init. generalize init_tree as t.
  induction ops as [|o ops IH]; intros t Ht; cbn [fold_left]; [assumption|].
  apply IH. apply Inv_step. assumption.
Qed.

(* what a worker sees once it has entered _process_worker: exactly one more than the real depth of the process that created its
   executor -- whatever the history of creations, respawns, resizes, reuse *)
Lemma worker_sees_parent_plus_one ops i pr q : nth_error (procs (run MAX ops)) i = Some pr -> p_parent pr = Some q -> p_phase pr <> Loading ->
  exists pq, nth_error (procs (run MAX ops)) q = Some pq /\ p_var pr = p_real pq + 1 /\ p_real pr = p_real pq + 1.
Proof.
  intros Ei Pa Ph. destruct (Inv_run ops) as [Hp _]. destruct (Hp _ _ Ei) as (_ & G2 & _ & _ & G5). rewrite Pa in G2.
  destruct G2 as (pq & Eq & R). exists pq. rewrite (G5 Ph). auto.
Qed.

Definition some_exec_made_while_loading (t : tree) : Prop := exists x ex, nth_error (execs t) x = Some ex /\ x_loading ex = true.
Definition Bounded (t : tree) : Prop := some_exec_made_while_loading t \/ forall j pj, nth_error (procs t) j = Some pj -> p_real pj <= MAX.

Lemma Bounded_step t o : 1 <= MAX -> Inv t -> Bounded t -> Bounded (fst (step MAX t o)).
Proof.
  intros HM I B. pose proof I as [Hp Hx]. rewrite step_is. unfold step'. destruct o as [p m|x|i|i]; cbn [step_with].
  - destruct (nth_error (procs t) p) as [pr|] eqn:Ep; [|exact B].
    destruct (fst (check_max_depth m MAX (p_var pr) [])); cbn [fst]; try exact B;
      (destruct B as [(y & ey & Ey & Ly)|B]; [left; exists y, ey; split; [apply nth_error_weaken; assumption|assumption] | ]);
      (destruct (is_loading (p_phase pr)) eqn:L;
       [left; exists (List.length (execs t)); eexists; cbn [execs]; split; [rewrite nth_error_app2, Nat.sub_diag by lia; reflexivity| cbn; first [reflexivity | exact L]]
       | right; exact B]).
  - destruct (nth_error (execs t) x) as [ex|] eqn:Ex; [|exact B].
    destruct (Hx _ _ Ex) as (po & Eo & C). rewrite Eo. cbn [andb].
    destruct (is_loading (p_phase po)) eqn:L; [exact B|]. rewrite child_depth_char. cbn [fst].
    destruct B as [(y & ey & Ey & Ly)|B]; [left; exists y, ey; split; assumption|].
    destruct (x_loading ex) eqn:XL; [left; exists x, ex; split; assumption|].
    right. cbn [procs]. intros j pj Ej. apply nth_error_snoc in Ej. destruct Ej as [Ej|[_ ->]]; [eapply B; eauto|].
    cbn [p_real]. destruct (C eq_refl) as [[C1|C1] _]; lia.
  - destruct (nth_error (procs t) i) as [pr|] eqn:Ei; [|exact B].
    destruct (p_phase pr); try exact B. cbn [fst].
    destruct B as [B|B]; [left; exact B|]. right. cbn [procs]. intros j pj Ej.
    destruct (Nat.eq_dec i j) as [<-|N].
    + rewrite (nth_set_nth_eq _ _ _ _ Ei) in Ej. inversion Ej; subst pj. cbn [p_real]. eapply B; eauto.
    + rewrite nth_set_nth_neq in Ej by assumption. eapply B; eauto.
  - destruct (nth_error (procs t) i) as [pr|] eqn:Ei; [|exact B].
    destruct (p_phase pr); try exact B. cbn [fst].
    destruct B as [B|B]; [left; exact B|]. right. cbn [procs]. intros j pj Ej.
    destruct (Nat.eq_dec i j) as [<-|N].
    + rewrite (nth_set_nth_eq _ _ _ _ Ei) in Ej. inversion Ej; subst pj. cbn [p_real]. eapply B; eauto.
    + rewrite nth_set_nth_neq in Ej by assumption. eapply B; eauto.
Qed.

(* no process ever runs deeper than MAX, unless an executor was constructed by a worker that was still loading its arguments *)
Lemma depth_bound ops i pr : 1 <= MAX -> nth_error (procs (run MAX ops)) i = Some pr ->
  p_real pr <= MAX \/ some_exec_made_while_loading (run MAX ops).
Proof.
  intros HM Ei.
  assert (G : forall ops t, Inv t -> Bounded t -> Bounded (fold_left (fun t o => fst (step MAX t o)) ops t)).
  { clear Ei ops i pr. intros ops. induction ops as [|o ops IH]; intros t I B; cbn [fold_left]; [exact B|].
    apply IH; [apply Inv_step; assumption|]. apply Bounded_step; assumption. }
  assert (B0 : Bounded init_tree).
  { right. intros [|[|j]] pj H; cbn in H; inversion H; subst; cbn; lia. }
  destruct (G ops init_tree Inv_init B0) as [B|B]; [right; exact B|left; eapply B; exact Ei].
Qed.
End T.

(* D2 (known finding): a worker that constructs an executor while its own arguments are still being unpickled is checked against
   the module default 0, not against its depth: with MAX = 1 a process runs at depth 2 *)
Example loading_window_escapes_the_bound :
  let t := run 1 [Create 0 "loky"; Spawn 0; Create 1 "loky"; Begin 1; Install 1; Spawn 1] in
  map p_real (procs t) = [0; 1; 2] /\ map x_loading (execs t) = [false; true].
Proof. vm_compute. split; reflexivity. Qed.

(* D1 (fixed by /repo's "fix: install the nesting depth before the initializer"): with the depth installed only after the
   initializer, an executor built and used by the initializer is accepted at depth 1 >= MAX = 1 and its worker is told it runs at
   depth 1 although it runs at depth 2 *)
Example initializer_window_with_late_install :
  let t := fold_left (fun t o => fst (step_with false true 1 t o)) [Create 0 "loky"; Spawn 0; Begin 1; Create 1 "loky"; Spawn 1; Begin 2; Install 2] init_tree in
  map p_real (procs t) = [0; 1; 2] /\ map p_var (procs t) = [0; 0; 1] /\ map x_loading (execs t) = [false; false].
Proof. vm_compute. repeat split; reflexivity. Qed.
Example initializer_window_with_early_install :
  let t := run 1 [Create 0 "loky"; Spawn 0; Begin 1; Create 1 "loky"] in
  List.length (execs t) = 1%nat /\ snd (step 1 t (Create 1 "loky")) = RecursionError.
Proof. vm_compute. split; reflexivity. Qed.
