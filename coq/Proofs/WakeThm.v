(* Proofs over Model/Wake.v: no wake-up is lost. *)
From Coq Require Import List Arith Bool Lia.
From LokyV Require Import Lib.LedgerLib Gen.Ledger Lib.PoolLib Gen.Pool Model.Wake.
Import ListNotations.

Lemma rechecks_holds : manager_rechecks_work_ids_when_shutting_down = true.
Proof. reflexivity. Qed.
(* submit() registers the item, publishes its id and only then writes the wake-up byte *)
Lemma wake_ops_is : wake_ops = [SAddPending; SPutWorkId; SWakeup].
Proof. reflexivity. Qed.
(* a forced shutdown forgets the work ids of the items it drops *)
Lemma drains_holds : forced_shutdown_forgets_the_waiting_work_ids = true.
Proof. reflexivity. Qed.

Definition b2n (b : bool) := if b then 1 else 0.
(* a wake-up byte is still to be written by the submit() in progress *)
Definition wahead (l : list sop) : nat := if existsb (fun o => match o with SWakeup => true | _ => false end) l then 1 else 0.
Definition subshape (l : list sop) (n : nat) : Prop :=
  (l = [] /\ n = 0) \/ (l = [SAddPending; SPutWorkId; SWakeup] /\ n = 0) \/ (l = [SPutWorkId; SWakeup] /\ n = 1) \/ (l = [SWakeup] /\ n = 0).

Definition WInv (s : ws) : Prop :=
  (ph s = MExit \/ nd s = results s + b2n (have s)) /\      (* results of dropped items may remain in the pipe once the manager has left *)
  subshape (sub s) (nt s) /\
  (shut s = true -> sub s = []) /\
  stale s = 0 /\ (kill s = true -> shut s = true) /\
  match ph s with
  | MAdd => have s = false /\ (shut s = true -> 0 < wake s + results s + nr s)
  | MWait => have s = false /\
             (0 < np s + nc s -> 0 < wake s + wahead (sub s)) /\     (* a published item is never forgotten: its wake-up byte is there or coming *)
             (shut s = true -> 0 < wake s + results s + nr s)        (* while shutting down the manager is never parked for good *)
  | MCheck => have s = false
  | MExit => have s = false /\ in_table s = 0 /\ shut s = true
  | MCrashed => False
  | _ => True
  end.

Lemma winv0 : WInv ws0.
Proof. unfold WInv, ws0, subshape; simpl. repeat split; auto; try discriminate; try lia. Qed.

Ltac shape := unfold subshape; first [left; split; [reflexivity|lia] | right; left; split; [reflexivity|lia]
                                       | right; right; left; split; [reflexivity|lia] | right; right; right; split; [reflexivity|lia]].
Ltac eqbs := repeat match goal with
                    | H : Nat.eqb _ _ = true |- _ => apply Nat.eqb_eq in H
                    | H : Nat.eqb _ _ = false |- _ => apply Nat.eqb_neq in H end.
Ltac fin := eqbs; unfold WInv, in_table, upd_sub, wahead, b2n in *; simpl in *;
            repeat match goal with H : _ /\ _ |- _ => destruct H | H : _ \/ _ |- _ => destruct H end; subst; try discriminate;
            repeat match goal with |- context [if ?b then _ else _] => destruct b end;
            repeat match goal with |- _ /\ _ => split end;
            try shape; try (left; reflexivity); try (right; simpl in *; lia); intros; simpl in *; try discriminate; try congruence; try lia.
Ltac proj := cbn [Wake.np Wake.nc Wake.nr Wake.nd Wake.wake Wake.results Wake.have Wake.shut Wake.ph Wake.nt Wake.sub Wake.kill Wake.stale] in *.
Ltac go := repeat (proj; cbv zeta; unfold in_table, upd_sub; proj;
                   match goal with
                   | |- WInv (if ?b then _ else _) => destruct b eqn:?
                   | |- WInv (match ?x with _ => _ end) => destruct x eqn:?
                   end).

Lemma step_winv s e : WInv s -> WInv (step s e).
Proof.
  unfold step. rewrite rechecks_holds, drains_holds, wake_ops_is. intros I.
  destruct s as [nt np nc nr nd wake results have shut ph sub kill stale].
  pose proof I as (D & SS & SH & ST & KS & P). proj. subst stale.
  destruct SS as [[-> ->]|[[-> ->]|[[-> ->]|[-> ->]]]];
  (destruct shut; [try (specialize (SH eq_refl); discriminate)|]);
  (destruct kill; [try (specialize (KS eq_refl); discriminate)|]);
  destruct e; unfold step_with; go; first [exact I | try destruct ph; fin].
Qed.

Theorem run_winv es : forall s, WInv s -> WInv (run es s).
Proof. unfold run. induction es as [|e es IH]; intros s I; simpl; [exact I|]. apply IH, step_winv, I. Qed.

(* every history of submissions (statement by statement), cancellations, shutdowns, completions and manager steps: the manager is
   parked, with no submit() in progress and nothing inside the pool to wake it, only when the table is empty and the pool is not
   shutting down *)
Theorem no_wake_up_is_lost es : let s := run es ws0 in asleep_for_good s = true -> shut s = false /\ in_table s = 0.
Proof.
  intros s A. pose proof (run_winv es ws0 winv0) as I. fold s in I. clearbody s.
  destruct s as [nt np nc nr nd wake results have shut ph sub kill stale].
  unfold asleep_for_good in A. proj. destruct ph; try discriminate. destruct sub; [|discriminate].
  apply andb_true_iff in A. destruct A as [A1 A2].
  destruct I as (D & SS & SH & ST & KS & P). proj. destruct SS as [[_ ->]|[[E _]|[[E _]|[E _]]]]; try discriminate.
  destruct shut; fin.
Qed.

(* when the manager has left, nothing is in its table *)
Theorem manager_leaves_an_empty_table es : let s := run es ws0 in ph s = MExit -> in_table s = 0 /\ shut s = true.
Proof.
  intros s E. pose proof (run_winv es ws0 winv0) as I. fold s in I. clearbody s.
  destruct s as [nt np nc nr nd wake results have shut ph sub kill stale]. simpl in E. subst ph. fin.
Qed.

(* while it is there, a manager that was asked to stop always has a step to make once the dispatched jobs have finished *)
Theorem shutting_down_manager_is_never_stuck es :
  let s := run es ws0 in shut s = true -> ph s <> MExit -> nr s = 0 -> step s Mgr <> s.
Proof.
  intros s Sh P R. pose proof (run_winv es ws0 winv0) as I. fold s in I. clearbody s.
  unfold step. rewrite rechecks_holds, drains_holds.
  destruct s as [nt np nc nr nd wake results have shut ph sub kill stale]. simpl in Sh, P, R. subst shut nr.
  destruct I as (D & SS & SH & ST & KS & PP). proj. subst stale.
  unfold step_with; proj.
  destruct ph; try congruence; try contradiction; cbv zeta; unfold in_table; proj; simpl.
  all: repeat match goal with
              | |- context [if ?b then _ else _] => destruct b eqn:?
              | |- context [match ?r with 0 => _ | S _ => _ end] => destruct r
              end.
  all: try (intros X; inversion X; fail).
  all: fin.
Qed.

(* the manager thread never dies of a stale work id, forced shutdowns included *)
Theorem manager_never_crashes es : ph (run es ws0) <> MCrashed.
Proof.
  pose proof (run_winv es ws0 winv0) as (_ & _ & _ & _ & _ & P). intros E. rewrite E in P. exact P.
Qed.

(* H11: without the re-check the manager can be parked for ever while the pool is shutting down *)
Example h11_lost_wake_up :
  let s := fold_left (step_with false true wake_ops) [Mgr; SubmitBegin; SubStep; SubStep; SubStep; Cancel; Shutdown; Mgr; Mgr; Mgr; Mgr; Mgr] ws0 in
  asleep_for_good s = true /\ shut s = true /\ in_table s = 0.
Proof. vm_compute. auto. Qed.
Example h11_fixed :
  let s := run [Mgr; SubmitBegin; SubStep; SubStep; SubStep; Cancel; Shutdown; Mgr; Mgr; Mgr; Mgr] ws0 in ph s = MExit.
Proof. vm_compute. reflexivity. Qed.
(* writing the wake-up byte before the work id is published loses the job: the manager wakes, clears the pipe, finds nothing, sleeps *)
Example wake_up_before_publishing_loses_the_job :
  let s := fold_left (step_with true true [SWakeup; SAddPending; SPutWorkId]) [Mgr; SubmitBegin; SubStep; Mgr; Mgr; Mgr; Mgr; Mgr; SubStep; SubStep] ws0 in
  asleep_for_good s = true /\ in_table s = 1.
Proof. vm_compute. auto. Qed.
(* the first version of the H11 repair: re-checking the work ids after a forced shutdown dropped the items but kept their ids *)
Example recheck_without_forgetting_the_ids_kills_the_manager :
  let s := fold_left (step_with true false wake_ops) [Mgr; SubmitBegin; SubStep; SubStep; SubStep; ShutdownKill; Mgr; Mgr; Mgr; Mgr] ws0 in
  ph s = MCrashed.
Proof. vm_compute. reflexivity. Qed.
Example forced_shutdown_with_a_waiting_id :
  let s := run [Mgr; SubmitBegin; SubStep; SubStep; SubStep; ShutdownKill; Mgr; Mgr; Mgr; Mgr] ws0 in ph s = MExit /\ in_table s = 0.
Proof. vm_compute. split; reflexivity. Qed.
