(* Proofs over Model/Wake.v: no wake-up is lost. *)
From Coq Require Import List Arith Bool Lia.
From LokyV Require Import Lib.LedgerLib Gen.Ledger Model.Wake.
Import ListNotations.

Lemma rechecks_holds : manager_rechecks_work_ids_when_shutting_down = true.
Proof. reflexivity. Qed.

Definition b2n (b : bool) := if b then 1 else 0.
Definition WInv (s : ws) : Prop :=
  nd s = results s + b2n (have s) /\
  match ph s with
  | MAdd => have s = false /\ (shut s = true -> 0 < wake s + results s + nr s)
  | MWait => have s = false /\
             (0 < np s + nc s -> 0 < wake s) /\            (* an untouched item is never forgotten: its wake-up byte is still there *)
             (shut s = true -> 0 < wake s + results s + nr s)   (* while shutting down the manager is never parked for good *)
  | MCheck => have s = false
  | MExit => have s = false /\ in_table s = 0 /\ shut s = true
  | _ => True
  end.

Lemma winv0 : WInv ws0.
Proof. unfold WInv, ws0; simpl. repeat split; auto; discriminate. Qed.

Ltac fin := unfold WInv, in_table in *; simpl in *; intuition (subst; unfold b2n in *; simpl in *; try discriminate; try congruence; try lia).

Lemma step_winv s e : WInv s -> WInv (step s e).
Proof.
  unfold step. rewrite rechecks_holds. intros I.
  destruct s as [np nc nr nd wake results have shut ph].
  destruct e; unfold step_with; cbn [Wake.np Wake.nc Wake.nr Wake.nd Wake.wake Wake.results Wake.have Wake.shut Wake.ph].
  - (* Submit *) destruct shut; [exact I|]. destruct ph; fin.
  - (* Cancel *) destruct np as [|n]; [exact I|]. destruct ph; fin.
  - (* Shutdown *) destruct ph; fin.
  - (* Finish *) destruct nr as [|n]; [exact I|]. destruct ph; fin.
  - (* Mgr *) destruct ph.
    + fin.
    + destruct (Nat.eqb (wake + results) 0) eqn:Z; [exact I|]. apply Nat.eqb_neq in Z. destruct results; fin.
    + fin.
    + destruct have; fin.
    + destruct shut.
      * unfold in_table; cbn [Wake.np Wake.nc Wake.nr Wake.nd Wake.wake Wake.results Wake.have Wake.shut Wake.ph].
        destruct (Nat.eqb (0 + 0 + (nr + np) + nd) 0) eqn:Z; [apply Nat.eqb_eq in Z | apply Nat.eqb_neq in Z]; fin.
      * fin.
    + exact I.
Qed.

Theorem run_winv es : forall s, WInv s -> WInv (run es s).
Proof. unfold run. induction es as [|e es IH]; intros s I; simpl; [exact I|]. apply IH, step_winv, I. Qed.

(* every history of submissions, cancellations, shutdowns, completions and manager steps: the manager is parked with nothing
   inside the pool to wake it only when the table is empty and the pool is not shutting down *)
Theorem no_wake_up_is_lost es : let s := run es ws0 in asleep_for_good s = true -> shut s = false /\ in_table s = 0.
Proof.
  intros s A. pose proof (run_winv es ws0 winv0) as I. fold s in I. clearbody s.
  destruct s as [np nc nr nd wake results have shut ph].
  unfold asleep_for_good in A. cbn [Wake.ph Wake.wake Wake.results Wake.nr] in A. destruct ph; try discriminate.
  apply andb_true_iff in A. destruct A as [A1 A2]. apply Nat.eqb_eq in A1. apply Nat.eqb_eq in A2.
  destruct shut; fin.
Qed.

(* when the manager has left, nothing is in its table *)
Theorem manager_leaves_an_empty_table es : let s := run es ws0 in ph s = MExit -> in_table s = 0 /\ shut s = true.
Proof.
  intros s E. pose proof (run_winv es ws0 winv0) as I. fold s in I. clearbody s.
  destruct s as [np nc nr nd wake results have shut ph]. simpl in E. subst ph. fin.
Qed.

(* once the manager has left it stays gone, and while it is there shutting down always lets it make a step *)
Theorem shutting_down_manager_is_never_stuck es :
  let s := run es ws0 in shut s = true -> ph s <> MExit -> nr s = 0 -> step s Mgr <> s.
Proof.
  intros s Sh P R. pose proof (run_winv es ws0 winv0) as I. fold s in I. clearbody s.
  unfold step. rewrite rechecks_holds.
  destruct s as [np nc nr nd wake results have shut ph]. simpl in Sh, P, R. subst shut nr.
  unfold step_with; cbn [Wake.np Wake.nc Wake.nr Wake.nd Wake.wake Wake.results Wake.have Wake.shut Wake.ph].
  destruct ph; try congruence; try discriminate.
  - destruct (Nat.eqb (wake + results) 0) eqn:Z.
    + apply Nat.eqb_eq in Z. fin.
    + destruct results; discriminate.
  - unfold in_table; cbn [Wake.np Wake.nc Wake.nr Wake.nd Wake.wake Wake.results Wake.have Wake.shut Wake.ph].
    destruct (Nat.eqb (0 + 0 + (0 + np) + nd) 0); discriminate.
Qed.

(* H11: without the re-check the manager can be parked for ever while the pool is shutting down *)
Example h11_lost_wake_up :
  let s := fold_left (step_with false) [Mgr; Submit; Cancel; Shutdown; Mgr; Mgr; Mgr; Mgr; Mgr] ws0 in
  asleep_for_good s = true /\ shut s = true /\ in_table s = 0.
Proof. vm_compute. auto. Qed.
Example h11_fixed :
  let s := run [Mgr; Submit; Cancel; Shutdown; Mgr; Mgr; Mgr; Mgr] ws0 in ph s = MExit.
Proof. vm_compute. reflexivity. Qed.
