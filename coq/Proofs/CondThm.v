From Coq Require Import List Arith Bool Lia.
From LokyV Require Import Model.Cond Proofs.CondInv.
Import ListNotations.

(* the two assert statements of notify()/notify_all() can never trip *)
Theorem asserts_never_fail s t : reachable s -> pc_of s t <> AssertFailed.
Proof. intros H. apply (i_noassert _ (reachable_inv s H)). Qed.

(* the condition's lock is a mutex: two threads are never both in a lock-holding position *)
Theorem lock_mutex s t t' : reachable s -> holds (pc_of s t) = true -> holds (pc_of s t') = true -> t = t'.
Proof.
  intros H H1 H2. pose proof (reachable_inv s H) as HI.
  pose proof (i_lock_a _ HI t H1). pose proof (i_lock_a _ HI t' H2). congruence.
Qed.

(* wait() returns holding the lock *)
Theorem wait_returns_with_lock s t tmo got : reachable s -> pc_of s t = WDone tmo got -> lock s = Some t.
Proof. intros H Hpc. apply (i_lock_a _ (reachable_inv s H)). rewrite Hpc. reflexivity. Qed.

(* ... and reports False only after its time-out fired *)
Theorem false_only_after_timeout s t tmo : reachable s -> pc_of s t = WDone tmo false -> tmo = true.
Proof. intros H Hpc. pose proof (i_false _ (reachable_inv s H) t) as Hf. rewrite Hpc in Hf. exact Hf. Qed.

(* notify_all: when it has collected its acknowledgements, no thread is left between its
   _sleeping_count.release() and its _woken_count.release(): every waiter that was asleep has passed the
   semaphore -- with a token (wait() returns True) unless its own time-out fired *)
Theorem notify_all_wakes_everyone s h p :
  reachable s -> lock s = Some h -> pc_of s h = NDrain true p ->
  sumf inA (thr s) = 0 /\ sumf inB (thr s) = 0 /\ woken s = 0 /\ sleeping s = 0.
Proof.
  intros H Hl Hpc. pose proof (reachable_inv s H) as HI.
  pose proof (i_count _ HI) as Hc. pose proof (i_noreg _ HI) as Hn.
  rewrite (holder_pc_eq _ _ Hl), Hpc in *. cbn in *. specialize (Hn eq_refl). lia.
Qed.

Lemma sumf_zero f l t c : sumf f l = 0 -> lookup l t = Some c -> f c = 0.
Proof.
  induction l as [|[t' c'] l IH]; cbn; [discriminate|]. intros Hs. destruct (Nat.eqb t t').
  - intros E; inversion E; subst. lia.
  - apply IH. lia.
Qed.
Corollary notify_all_no_waiter_left_asleep s h p t tmo :
  reachable s -> lock s = Some h -> pc_of s h = NDrain true p -> pc_of s t <> WBlocked tmo.
Proof.
  intros H Hl Hpc Ht. destruct (notify_all_wakes_everyone s h p H Hl Hpc) as (HA & _).
  unfold pc_of in Ht. destruct (lookup (thr s) t) as [c|] eqn:E; [|discriminate]. subst c.
  pose proof (sumf_zero inA _ _ _ HA E). discriminate.
Qed.

(* token accounting on _wait_semaphore: every True return consumed one posted token; notify() posts at most one *)
Theorem tokens_accounted s : reachable s -> wsem s + consumed s + stolen s = posted s.
Proof. intros H. apply (i_tokens _ (reachable_inv s H)). Qed.
Theorem notify_posts_at_most_one s t p k : reachable s -> pc_of s t = NWait false p k -> p = 1.
Proof. intros H Hpc. pose proof (i_single _ (reachable_inv s H) t) as Hs. rewrite Hpc in Hs. exact Hs. Qed.
(* between notifications the wait semaphore is back to zero (so a later wait() cannot return spuriously) *)
Theorem wsem_zero_when_quiet s : reachable s -> cur_posted (holder_pc s) = 0 -> wsem s = 0.
Proof. intros H Hq. pose proof (i_wsem _ (reachable_inv s H)). lia. Qed.

(* sleeping - woken counts the threads inside wait(), when no notification is in progress *)
Theorem sleeping_minus_woken s :
  reachable s -> out (holder_pc s) = 0 -> canc (holder_pc s) = 0 ->
  sleeping s = woken s + sumf inA (thr s) + sumf inB (thr s).
Proof. intros H Ho Hc. pose proof (i_count _ (reachable_inv s H)). lia. Qed.

(* N1 -- notify() does NOT always wake a waiter whose time-out is not expiring: the token posted for the
   untimed waiter 1 is taken back because the timed waiter 2 acknowledged in its place. *)
Definition n1_schedule : list label :=
  [Acquire 1; StartWait 1 false; Step 1;            (* untimed waiter asleep *)
   Acquire 2; StartWait 2 true; Step 2;             (* timed waiter asleep *)
   Acquire 0; Timeout 2;                            (* its time-out fires (it has not yet released woken) *)
   StartNotify 0 false; Step 0; Step 0; Step 0; Step 0;   (* notify(): grabs a sleeper, posts one token *)
   Step 2;                                          (* the timed-out waiter releases _woken_count *)
   Step 0;                                          (* notify() takes that acknowledgement ... *)
   Step 0;                                          (* ... and re-zeroes _wait_semaphore: the token is gone *)
   Finish 0; Release 0].
Theorem notify_wakes_one_refuted :
  exists s, run init n1_schedule = Some s
            /\ pc_of s 0 = Idle                       (* notify() returned and the lock was released *)
            /\ pc_of s 1 = WBlocked false             (* the untimed waiter still sleeps *)
            /\ wsem s = 0 /\ posted s = 1 /\ consumed s = 0 /\ stolen s = 1.
Proof. eexists. vm_compute. repeat split; reflexivity. Qed.
