(* C09: what the factory program generated from loky/reusable_executor.py computes, for every state and every arguments,
   and what that implies for every history of calls, breakages and user shutdowns. *)
From Coq Require Import List ZArith Bool Arith Lia.
From LokyV Require Import Lib.ReuseLib Gen.Reuse.
Import ListNotations.
Open Scope Z_scope.

Definition healthy (x : exr) : bool := negb (xbroken x) && negb (xshut x).
Definition same_kwargs (a : args) (g : gst) : bool := match g_kw g with Some k => Nat.eqb (a_kw a) k | None => false end.
Definition allows (a : args) (g : gst) : bool :=
  match a_reuse a with RTrue => true | RFalse => false | RAuto => same_kwargs a g end.
Definition ctx_fork (c : ctxk) : bool := match c with CtxStr b | CtxObj b => b | CtxNone => false end.
Definition valid (a : args) : bool := match a_max a with Some z => 0 <? z | None => true end && negb (ctx_fork (a_ctx a)).
Definition want (a : args) (g : gst) : Z :=
  match a_max a with
  | Some z => z
  | None => match a_reuse a, g_cur g with RTrue, Some p => xmax p | _, _ => g_cpu g end
  end.
Definition resized (p : exr) (m : Z) : exr := mkx (xid p) m (xkw p) (xbroken p) (xshut p) (xjoined p) (xkilled p).
Definition put_down (p : exr) (kill : bool) : exr := mkx (xid p) (xmax p) (xkw p) (xbroken p) true true (xkilled p || kill).
Definition brand_new (a : args) (g : gst) : exr := mkx (g_next g) (want a g) (a_kw a) false false false false.

(* the specification: one page, no program *)
Definition spec (a : args) (g : gst) : out :=
  if valid a then
    match g_cur g with
    | Some p =>
        if healthy p && allows a g
        then Ret (Some (resized p (want a g))) true (with_cur g (Some (resized p (want a g))))
        else Ret (Some (brand_new a g)) false
                 (mkg (Some (brand_new a g)) (Some (a_kw a)) (S (g_next g)) (g_retired g ++ [put_down p (a_kill a)]) (g_cpu g))
    | None => Ret (Some (brand_new a g)) false (mkg (Some (brand_new a g)) (Some (a_kw a)) (S (g_next g)) (g_retired g) (g_cpu g))
    end
  else Exc g.

(* the first pass through the program: either an answer, or the recursive call after the previous instance was put down *)
Definition resolved (c : ctxk) : ctxk := match c with CtxStr b => CtxObj b | c => c end.
Definition spec1 (a : args) (g : gst) : out :=
  if valid a then
    match g_cur g with
    | Some p =>
        if healthy p && allows a g
        then Ret (Some (resized p (want a g))) true (with_cur g (Some (resized p (want a g))))
        else Rec (mkargs (Some (want a g)) (a_kw a) RAuto false (resolved (a_ctx a)))
                 (mkg None None (g_next g) (g_retired g ++ [put_down p (a_kill a)]) (g_cpu g))
    | None => Ret (Some (brand_new a g)) false (mkg (Some (brand_new a g)) (Some (a_kw a)) (S (g_next g)) (g_retired g) (g_cpu g))
    end
  else Exc g.

Lemma first_pass : forall a g, exec factory a (frame0 a) g = spec1 a g.
Proof.
  intros [mx kw ru kill cx] [cur gk nx ret cpu].
  destruct mx as [[|z|z]|]; destruct cx as [|[|]|[|]]; destruct ru;
    destruct cur as [[pid pmax pkw [|] [|] pj pk]|]; destruct gk as [k|];
    cbv -[Nat.eqb]; try reflexivity;
    try (destruct (Nat.eqb kw k); try reflexivity); destruct pj, pk; reflexivity.
Qed.

(* every executor the factory knows has a positive size, and so has the machine *)
Definition wf (g : gst) : bool := (0 <? g_cpu g) && match g_cur g with Some p => 0 <? xmax p | None => true end.

Lemma want_pos a g : valid a = true -> wf g = true -> 0 <? want a g = true.
Proof.
  unfold valid, wf, want. intros V W. apply andb_true_iff in V. destruct V as [V _]. apply andb_true_iff in W. destruct W as [W1 W2].
  destruct (a_max a); [exact V|]. destruct (a_reuse a); try exact W1. destruct (g_cur g); [exact W2 | exact W1].
Qed.

Theorem factory_meets_spec : forall a g, wf g = true -> call factory 2 a g = spec a g.
Proof.
  intros a g W. unfold call. fold (exec factory a (frame0 a) g). rewrite first_pass. unfold spec1, spec.
  destruct (valid a) eqn:V; [|reflexivity].
  destruct (g_cur g) as [p|] eqn:C; [|reflexivity].
  destruct (healthy p && allows a g); [reflexivity|].
  match goal with |- context [exec factory ?a' (frame0 ?a') ?g'] => rewrite (first_pass a' g') end.
  unfold spec1. simpl.
  assert (V' : valid (mkargs (Some (want a g)) (a_kw a) RAuto false (resolved (a_ctx a))) = true).
  { unfold valid. simpl. rewrite (want_pos a g V W). simpl. unfold valid in V. apply andb_true_iff in V. destruct V as [_ V].
    destruct (a_ctx a); exact V. }
  rewrite V'. unfold brand_new, want. simpl. rewrite C. reflexivity.
Qed.

(* ---- consequences, stated on the specification ---- *)
Corollary never_ill_typed a g : wf g = true -> call factory 2 a g <> Bad.
Proof. intros W. rewrite factory_meets_spec by exact W. unfold spec. destruct (valid a); [|discriminate]. destruct (g_cur g); [|discriminate].
       destruct (healthy e && allows a g); discriminate. Qed.

Corollary invalid_arguments_change_nothing a g : wf g = true -> valid a = false -> call factory 2 a g = Exc g.
Proof. intros W H. rewrite factory_meets_spec by exact W. unfold spec. rewrite H. reflexivity. Qed.

Corollary returned_is_live_and_sized a g :
  wf g = true -> valid a = true -> exists x reused g', call factory 2 a g = Ret (Some x) reused g' /\ g_cur g' = Some x
                                         /\ healthy x = true /\ xmax x = want a g.
Proof.
  intros W H. rewrite factory_meets_spec by exact W. unfold spec. rewrite H. destruct (g_cur g) as [p|] eqn:C.
  - destruct (healthy p && allows a g) eqn:HA.
    + apply andb_true_iff in HA. destruct HA as [Hh _]. eexists _, _, _. split; [reflexivity|]. simpl. repeat split; auto.
    + eexists _, _, _. split; [reflexivity|]. simpl. repeat split; auto.
  - eexists _, _, _. split; [reflexivity|]. simpl. repeat split; auto.
Qed.

Corollary previous_instance_iff a g x reused g' :
  wf g = true -> call factory 2 a g = Ret (Some x) reused g' ->
  (reused = true <-> exists p, g_cur g = Some p /\ healthy p = true /\ allows a g = true /\ xid x = xid p).
Proof.
  intros W. rewrite factory_meets_spec by exact W. unfold spec. destruct (valid a); [|discriminate]. destruct (g_cur g) as [p|] eqn:C.
  - destruct (healthy p && allows a g) eqn:HA; intros E; inversion E; subst; clear E.
    + apply andb_true_iff in HA. destruct HA. split; [intros _; exists p; auto | auto].
    + split; [discriminate|]. intros (q & Hq & Hh & Hal & _). inversion Hq; subst q. rewrite Hh, Hal in HA. discriminate.
  - intros E; inversion E; subst. split; [discriminate|]. intros (q & Hq & _). discriminate.
Qed.

Corollary replacement_shuts_down_first a g x g' :
  wf g = true -> call factory 2 a g = Ret (Some x) false g' ->
  xid x = g_next g /\ g_next g' = S (g_next g) /\ xkw x = a_kw a /\ g_kw g' = Some (a_kw a) /\ xmax x = want a g /\
  match g_cur g with
  | Some p => g_retired g' = g_retired g ++ [put_down p (a_kill a)]
  | None => g_retired g' = g_retired g
  end.
Proof.
  intros W. rewrite factory_meets_spec by exact W. unfold spec. destruct (valid a); [|discriminate]. destruct (g_cur g) as [p|] eqn:C.
  - destruct (healthy p && allows a g) eqn:HA; intros E; inversion E; subst; simpl; auto 10.
  - intros E; inversion E; subst; simpl; auto 10.
Qed.

Corollary reuse_leaves_the_rest_alone a g x g' :
  wf g = true -> call factory 2 a g = Ret (Some x) true g' ->
  g_next g' = g_next g /\ g_retired g' = g_retired g /\ g_kw g' = g_kw g /\ xmax x = want a g.
Proof.
  intros W. rewrite factory_meets_spec by exact W. unfold spec. destruct (valid a); [|discriminate]. destruct (g_cur g) as [p|] eqn:C.
  - destruct (healthy p && allows a g) eqn:HA; intros E; inversion E; subst; simpl; auto.
  - intros E; inversion E.
Qed.

(* ---- histories ---- *)
Inductive hev := ECall (a : args) | EBreak | EUserShutdown (wait : bool).
Definition hstep (g : gst) (e : hev) : gst :=
  match e with
  | ECall a => match call factory 2 a g with Ret _ _ g' => g' | _ => g end
  | EBreak => match g_cur g with
              | Some p => with_cur g (Some (mkx (xid p) (xmax p) (xkw p) true (xshut p) (xjoined p) (xkilled p)))
              | None => g end
  | EUserShutdown w => match g_cur g with
                       | Some p => with_cur g (Some (mkx (xid p) (xmax p) (xkw p) (xbroken p) true (xjoined p || w) (xkilled p)))
                       | None => g end
  end.
Definition hrun (es : list hev) (g : gst) : gst := fold_left hstep es g.
Definition g0 (cpu : Z) : gst := mkg None None 0 [] cpu.

Definition put_down_ok (x : exr) : bool := xshut x && xjoined x.
Fixpoint increasing (lo : nat) (l : list nat) : bool :=
  match l with [] => true | i :: t => Nat.leb lo i && increasing (S i) t end.
Definition all_ids (g : gst) : list nat := map xid (g_retired g) ++ match g_cur g with Some p => [xid p] | None => [] end.

Definition HInv (g : gst) : Prop :=
  forallb put_down_ok (g_retired g) = true /\
  (exists lo, increasing lo (all_ids g) = true) /\ Forall (fun i => (i < g_next g)%nat) (all_ids g) /\
  match g_cur g with Some p => g_kw g = Some (xkw p) | None => g_kw g = None end /\
  wf g = true.

Lemma increasing_snoc l : forall lo i, increasing lo l = true -> Forall (fun j => (j < i)%nat) l -> (lo <= i)%nat -> increasing lo (l ++ [i]) = true.
Proof.
  induction l as [|j t IH]; intros lo i H F L; simpl.
  - rewrite andb_true_r. apply Nat.leb_le. exact L.
  - simpl in H. apply andb_true_iff in H. destruct H as [H1 H2]. rewrite H1. simpl.
    inversion F; subst. apply IH; auto.
Qed.
Lemma Forall_lt_S l n : Forall (fun i => (i < n)%nat) l -> Forall (fun i => (i < S n)%nat) l.
Proof. intros F. eapply Forall_impl; [|exact F]. simpl. intros; lia. Qed.

Lemma hinv0 cpu : 0 < cpu -> HInv (g0 cpu).
Proof.
  intros P. unfold HInv, g0, all_ids, wf; simpl. split; [reflexivity|]. split; [exists 0%nat; reflexivity|].
  split; [constructor|]. split; [reflexivity|]. rewrite andb_true_r. apply Z.ltb_lt, P.
Qed.

Lemma wf_cur g p : wf g = true -> 0 <? xmax p = true -> wf (with_cur g (Some p)) = true.
Proof. unfold wf. simpl. intros W P. apply andb_true_iff in W. destruct W as [W _]. rewrite W, P. reflexivity. Qed.

Lemma hstep_inv g e : HInv g -> HInv (hstep g e).
Proof.
  intros HI. pose proof HI as (R & (lo & I) & F & K & W). destruct e as [a | | w]; unfold hstep.
  - (* a call *)
    rewrite factory_meets_spec by exact W. unfold spec. destruct (valid a) eqn:V; [|exact HI].
    pose proof (want_pos a g V W) as WP.
    destruct (g_cur g) as [p|] eqn:C.
    + destruct (healthy p && allows a g) eqn:HA.
      * (* reuse: only the size changes *)
        unfold HInv, all_ids in *; simpl. rewrite C in *. simpl.
        split; [exact R|]. split; [exists lo; exact I|]. split; [exact F|]. split; [exact K|]. apply wf_cur; assumption.
      * (* replacement *)
        unfold HInv, all_ids in *; simpl. rewrite C in *.
        split; [rewrite forallb_app, R; reflexivity|].
        rewrite map_app. simpl. rewrite <- app_assoc. simpl.
        split; [|split; [|split; [reflexivity|]]].
        -- exists lo. change [xid p; g_next g] with ([xid p] ++ [g_next g]). rewrite app_assoc. apply increasing_snoc; auto.
           assert (L : exists i0 t0, map xid (g_retired g) ++ [xid p] = i0 :: t0)
             by (destruct (map xid (g_retired g)); simpl; eauto).
           destruct L as (i0 & t0 & E). rewrite E in I, F.
           simpl in I. apply andb_true_iff in I. destruct I as [I1 _]. apply Nat.leb_le in I1.
           inversion F; subst. lia.
        -- change [xid p; g_next g] with ([xid p] ++ [g_next g]). rewrite app_assoc.
           apply Forall_app. split; [apply Forall_lt_S, F | constructor; [simpl; lia | constructor]].
        -- unfold wf in *. simpl. apply andb_true_iff in W. destruct W as [W _]. rewrite W. exact WP.
    + unfold HInv, all_ids in *; simpl. rewrite C in *. rewrite app_nil_r in *.
      split; [exact R|]. split; [|split; [|split; [reflexivity|]]].
      * destruct (map xid (g_retired g)) as [|i t] eqn:E; [exists 0%nat; reflexivity|].
        exists lo. apply increasing_snoc; auto.
        simpl in I. apply andb_true_iff in I. destruct I as [I1 _]. apply Nat.leb_le in I1. inversion F; subst. lia.
      * apply Forall_app. split; [apply Forall_lt_S, F | constructor; [simpl; lia | constructor]].
      * unfold wf in *. simpl. apply andb_true_iff in W. destruct W as [W _]. rewrite W. exact WP.
  - destruct (g_cur g) as [p|] eqn:C; [|exact HI].
    unfold HInv, all_ids in *; simpl. rewrite C in *. simpl.
    split; [exact R|]. split; [exists lo; exact I|]. split; [exact F|]. split; [exact K|].
    unfold wf in *. simpl. rewrite C in W. exact W.
  - destruct (g_cur g) as [p|] eqn:C; [|exact HI].
    unfold HInv, all_ids in *; simpl. rewrite C in *. simpl.
    split; [exact R|]. split; [exists lo; exact I|]. split; [exact F|]. split; [exact K|].
    unfold wf in *. simpl. rewrite C in W. exact W.
Qed.

Theorem history_invariant cpu es : 0 < cpu -> HInv (hrun es (g0 cpu)).
Proof.
  intros P. unfold hrun. generalize (hinv0 cpu P). generalize (g0 cpu). induction es as [|e es IH]; intros g H; simpl; [exact H|].
  apply IH, hstep_inv, H.
Qed.

(* non-vacuity *)
Definition a1 := mkargs (Some 2) 7 RAuto false CtxNone.
Definition a2 := mkargs (Some 3) 7 RAuto false CtxNone.
Definition a3 := mkargs (Some 3) 8 RAuto true (CtxStr false).
Example history_example :
  let g := hrun [ECall a1; ECall a2; EBreak; ECall a2; ECall a3; EUserShutdown false; ECall (mkargs None 8 RTrue false CtxNone)] (g0 16) in
  all_ids g = [0; 1; 2; 3]%nat /\ map xmax (g_retired g) = [3; 3; 3] /\ option_map xmax (g_cur g) = Some 3
  /\ map xkilled (g_retired g) = [false; true; false].
Proof. vm_compute. auto. Qed.
