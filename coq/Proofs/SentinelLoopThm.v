From Coq Require Import List Arith Bool NArith Lia.
From LokyV Require Import Lib.LedgerLib Gen.Ledger Model.SentinelLoop.
Import ListNotations.
Local Arguments Nat.sub : simpl never.
Local Arguments Nat.mul : simpl never.

Definition weight (p : phase) : nat := match p with Outer => 2 | Inner 0 => 3 | Inner (S _) => 1 | Done | Raised => 0 end.
Definition measure (n K : nat) (s : sl) : nat := 3 * (n - sent s) + 3 * (S K - grown s) + weight (ph s).
Definition Inv (n K : nat) (s : sl) : Prop :=
  sent s <= n /\ grown s <= K /\
  match ph s with
  | Inner t => sent s + t = n
  | Done => sent s = n \/ saw_none_alive s = true
  | _ => True
  end.

Lemma inv0 n K : Inv n K sl0. Proof. unfold Inv, sl0; simpl. lia. Qed.

Lemma step_inv n K s a : Inv n K s -> Inv n K (step n K s a).
Proof.
  intros (A & B & C). destruct s as [st g p sn]. unfold Inv, step in *; simpl in *.
  destruct p as [|[|t]| |]; simpl.
  - destruct (Nat.ltb st n) eqn:E; [apply Nat.ltb_lt in E | apply Nat.ltb_ge in E].
    + destruct (Nat.ltb 0 (alive a)); simpl; repeat split; try lia; try (right; reflexivity).
    + simpl. repeat split; try lia; try (left; lia).
  - simpl. repeat split; lia.
  - destruct (put a); simpl.
    + repeat split; lia.
    + destruct (Nat.leb K g) eqn:E; simpl; [repeat split; lia|]. apply Nat.leb_gt in E. repeat split; lia.
  - repeat split; assumption.
  - repeat split; assumption.
Qed.
Lemma run_inv n K es : forall s, Inv n K s -> Inv n K (run n K es s).
Proof. unfold run. induction es as [|e es IH]; intros s I; simpl; [exact I|]. apply IH, step_inv, I. Qed.

Lemma step_measure n K s a : Inv n K s -> ended s = false -> measure n K (step n K s a) < measure n K s.
Proof.
  intros (A & B & C) E. destruct s as [st g p sn]. unfold measure, step, ended in *; simpl in *.
  destruct p as [|[|t]| |]; simpl in *; try discriminate.
  - destruct (Nat.ltb st n) eqn:L; [apply Nat.ltb_lt in L|]; simpl.
    + destruct (Nat.ltb 0 (alive a)); simpl; [|lia]. destruct (n - st) eqn:X; [lia|]. simpl. lia.
    + lia.
  - lia.
  - destruct (put a); simpl.
    + destruct t; simpl; lia.
    + destruct (Nat.leb K g) eqn:L; simpl; [lia|]. apply Nat.leb_gt in L. lia.
Qed.

Lemma ended_stays n K s a : ended s = true -> step n K s a = s.
Proof. destruct s as [st g p sn]; destruct p; simpl; try discriminate; reflexivity. Qed.

(* whatever the queue and the workers do, the loop ends within 3 n + 3 K + 6 answers of its environment *)
Theorem loop_ends n K es : 3 * n + 3 * K + 6 <= length es -> ended (run n K es sl0) = true.
Proof.
  intros L.
  assert (G : forall es s, Inv n K s -> measure n K s < length es \/ ended s = true -> ended (run n K es s) = true).
  { clear es L. induction es as [|e es IH]; intros s I H.
    - simpl in *. destruct H as [H|H]; [lia | exact H].
    - unfold run; simpl. fold (run n K es (step n K s e)). destruct (ended s) eqn:E.
      + rewrite (ended_stays n K s e E). apply IH; [exact I | right; exact E].
      + apply IH; [apply step_inv, I|]. left. pose proof (step_measure n K s e I E). destruct H as [H|H]; [simpl in H; lia | congruence]. }
  apply G; [apply inv0|]. left. unfold measure, sl0; simpl. lia.
Qed.

(* it never posts more sentinels than workers it found; when it ends normally every sentinel was posted or no child was alive any
   more; it gives up only after the queue was full K + 1 times *)
Theorem loop_outcome n K es :
  let s := run n K es sl0 in
  sent s <= n /\ (ph s = Done -> sent s = n \/ saw_none_alive s = true) /\ (ph s = Raised -> grown s = K).
Proof.
  intros s. pose proof (run_inv n K es sl0 (inv0 n K)) as I. fold s in I.
  assert (R : forall es s0, (ph s0 = Raised -> grown s0 = K) -> grown s0 <= K -> ph (run n K es s0) = Raised -> grown (run n K es s0) = K).
  { clear. induction es as [|e es IH]; intros s0 H B; [exact H|]. unfold run; simpl. fold (run n K es (step n K s0 e)).
    apply IH.
    - destruct s0 as [st g p sn]; unfold step; simpl in *. destruct p as [|[|t]| |]; simpl; try discriminate; try exact H.
      + destruct (Nat.ltb st n); [destruct (Nat.ltb 0 (alive e))|]; simpl; discriminate.
      + destruct (put e); simpl; [discriminate|]. destruct (Nat.leb K g) eqn:L; simpl; [|discriminate]. apply Nat.leb_le in L. intros _. lia.
    - destruct s0 as [st g p sn]; unfold step; simpl in *. destruct p as [|[|t]| |]; simpl; try lia.
      + destruct (Nat.ltb st n); [destruct (Nat.ltb 0 (alive e))|]; simpl; lia.
      + destruct (put e); simpl; [lia|]. destruct (Nat.leb K g) eqn:L; simpl; [lia|]. apply Nat.leb_gt in L. lia. }
  destruct I as (A & B & C). split; [exact A|]. split.
  - intros D. rewrite D in C. exact C.
  - apply R; simpl; [discriminate | lia].
Qed.

(* ---- the constants of the source ---- *)
Definition give_up_after : option nat := first_exceeded sentinel_loop_cool0 sentinel_loop_factor sentinel_loop_limit 400 0.
Lemma give_up_after_value : give_up_after = Some 47.
Proof. vm_compute. reflexivity. Qed.

(* non-vacuity: three workers, the queue full twice, then room *)
Example loop_example :
  let s := run 3 47 [mkans 3 POk; mkans 3 POk; mkans 3 PFull; mkans 3 POk; mkans 2 PFull; mkans 2 POk; mkans 2 POk; mkans 2 POk; mkans 1 POk; mkans 1 POk] sl0 in
  ph s = Done /\ sent s = 3 /\ grown s = 2.
Proof. vm_compute. repeat split; reflexivity. Qed.
