From Coq Require Import List Arith Bool Lia.
From LokyV Require Import Model.SentinelPost.
Import ListNotations.

(* ---- H16: with the nominal queue (cap slots) and more leaving workers than it has room for, the resize wedges ---- *)
Theorem posting_can_wedge :
  forall cap lv target, cap < lv - target ->
    wedged (run (repeat Post cap) (begin cap 0 lv target)).
Proof.
  intros cap lv target H. unfold begin. simpl.
  assert (G : forall n f q t, run (repeat Post n) (mksp (n + f) q 0 lv (n + t) 0) = mksp f (n + q) 0 lv t 0).
  { induction n as [|n IH]; intros f q t; [reflexivity|].
    unfold run. cbn [repeat fold_left].
    change (step (mksp (S n + f) q 0 lv (S n + t) 0) Post) with (mksp (n + f) (S q) 0 lv (n + t) 0).
    fold (run (repeat Post n) (mksp (n + f) (S q) 0 lv (n + t) 0)). rewrite IH. f_equal. lia. }
  specialize (G cap 0 0 (lv - target - cap)). replace (cap + 0) with cap in G by lia.
  replace (cap + (lv - target - cap)) with (lv - target) in G by lia. rewrite G.
  remember (lv - target - cap) as t eqn:Et. destruct t as [|t]; [lia|].
  split; [simpl; lia|]. intros e. destruct e; unfold step, locked; simpl; try reflexivity.
  destruct cap; reflexivity.
Qed.

(* the instance of the simulation and of findings/H16_real.py: 5 (resp. 3) slots, 8 (resp. 6) workers all leaving, target 1 *)
Example h16_instances :
  wedged (run (repeat Post 5) (begin 5 0 8 1)) /\ wedged (run (repeat Post 3) (begin 3 0 6 1)).
Proof. split; apply posting_can_wedge; simpl; lia. Qed.

(* ---- partial: when the sentinels to post fit into the free slots plus the workers still reading, posting never wedges ---- *)
Definition Inv (cap : nat) (s : sp) : Prop := to_post s <= slots s + readers s /\ inq s + slots s = cap.

Lemma step_inv cap s e : Inv cap s -> Inv cap (step s e).
Proof.
  intros [A B]. destruct s as [f q r l t g]. unfold Inv in *; simpl in *. destruct e; simpl.
  - destruct t as [|t]; [simpl; lia|]. destruct f as [|f]; simpl; lia.
  - destruct q as [|q]; [simpl; lia|]. destruct r as [|r]; simpl; lia.
  - unfold locked; simpl. destruct (Nat.eqb t 0) eqn:E; simpl; [|lia]. destruct l; simpl; lia.
  - unfold locked; simpl. destruct (Nat.eqb t 0) eqn:E; simpl; [|lia]. apply Nat.eqb_eq in E. subst. destruct r; simpl; lia.
Qed.
Lemma run_inv cap es : forall s, Inv cap s -> Inv cap (run es s).
Proof. unfold run. induction es as [|e es IH]; intros s I; simpl; [exact I|]. apply IH, step_inv, I. Qed.

Theorem posting_partial cap rd lv target es :
  0 < cap -> (rd + lv) - target <= cap + rd ->
  let s := run es (begin cap rd lv target) in
  ~ wedged s /\ (to_post s > 0 -> step s Post <> s \/ step s Take <> s).
Proof.
  intros C H s. assert (I : Inv cap s).
  { apply run_inv. unfold Inv, begin; simpl. lia. }
  destruct I as [A B]. clearbody s. destruct s as [f q r l t g]. simpl in *.
  assert (P : t > 0 -> step (mksp f q r l t g) Post <> mksp f q r l t g \/ step (mksp f q r l t g) Take <> mksp f q r l t g).
  { intros T. destruct t as [|t]; [lia|]. destruct f as [|f].
    - right. simpl. destruct q as [|q]; [lia|]. destruct r as [|r]; [lia|]. intros X; inversion X; try lia.
    - left. simpl. intros X; inversion X; try lia. }
  split; [|exact P]. intros [T W]. destruct (P T) as [X|X]; apply X, W.
Qed.

(* with no worker leaving when the resize looks, and none able to start leaving while it holds the lock, the condition holds *)
Corollary no_leaver_no_wedge cap rd target es : 0 < cap -> ~ wedged (run es (begin cap rd 0 target)).
Proof. intros C. apply (posting_partial cap rd 0 target es C). lia. Qed.
