(* C17: properties of the cpu_count specification (Spec/CpuSpec.v), lifted to the generated code
   through Char/CpuChar.v. *)
From Coq Require Import List String Ascii ZArith Bool Lia.
From LokyV Require Import Lib.PyLib Lib.CpuCfg Gen.Cpu Spec.CpuSpec Char.CpuChar.
Import ListNotations.
Open Scope string_scope.
Open Scope Z_scope.

(* exact ceiling *)
Lemma ceil_div_spec q p c : 0 < p -> ceil_div q p = Ok c -> (c - 1) * p < q <= c * p.
Proof.
  intros Hp. unfold ceil_div. destruct (Z.eqb_spec p 0); [lia|]. intros H; inversion H; subst.
  pose proof (Z.div_mod (- q) p ltac:(lia)). pose proof (Z.mod_pos_bound (- q) p Hp). nia.
Qed.
Lemma ceil_div_ok q p : p <> 0 -> exists c, ceil_div q p = Ok c.
Proof. intros H. unfold ceil_div. destruct (Z.eqb_spec p 0); [lia|eauto]. Qed.

Section P.
Variable cfg : cpu_cfg.
Notation os := (os_count cfg).

(* --- the logical count: max(1, min(os, affinity, cgroup, env)) --- *)
Lemma logical_formula flag cache av w cv ev :
  affinity_spec cfg os = (Ok av, w) -> cgroup_spec cfg os = Ok cv -> env_spec cfg os = Ok ev ->
  flag = false ->
  fst (fst (cpu_count_spec cfg flag cache))
  = Ret (DInt (Z.max 1 (Z.min os (Z.min av (Z.min cv ev))))).
Proof.
  intros Ha Hc He ->. unfold cpu_count_spec, user_spec. rewrite Ha, Hc, He. cbn. f_equal. f_equal. lia.
Qed.

Lemma gen_logical_formula cache eff0 av w cv ev :
  affinity_spec cfg os = (Ok av, w) -> cgroup_spec cfg os = Ok cv -> env_spec cfg os = Ok ev ->
  exists l, cpu_count_run cfg false cache eff0
            = (Ret (DInt (Z.max 1 (Z.min os (Z.min av (Z.min cv ev))))), l)
            /\ cpu_count_v_physical_cores_cache l = cache.
Proof.
  intros Ha Hc He. destruct (cpu_count_char cfg false cache eff0) as (l & E & _ & Hcache).
  exists l. rewrite E. rewrite (logical_formula false cache av w cv ev Ha Hc He eq_refl). split; [reflexivity|].
  rewrite Hcache. unfold cpu_count_spec, user_spec. rewrite Ha, Hc, He. reflexivity.
Qed.

(* each limit is what the property says it is *)
Lemma affinity_limit av w :
  affinity_spec cfg os = (Ok av, w) ->
  match c_affinity cfg with
  | Ok n => av = n                                        (* the affinity mask size *)
  | Err _ =>
      match c_psutil_import cfg with
      | None => if c_psutil_has_affinity cfg then av = c_psutil_affinity cfg else av = os
      | Some _ => av = os                                 (* no way to inspect: no limit *)
      end
  end.
Proof.
  unfold affinity_spec. destruct (c_affinity cfg) as [n|e]; [intros H; inversion H; auto|].
  destruct (exn_isa e NotImplementedError || false); [|discriminate].
  destruct (c_psutil_import cfg) as [e'|].
  - destruct (exn_isa e' ImportError || false); [|discriminate]. intros H; inversion H; auto.
  - destruct (c_psutil_has_affinity cfg); intros H; inversion H; auto.
Qed.

(* quota/period as integers, when a cgroup bandwidth limit is configured *)
Definition quota_period : res (option (Z * Z)) :=
  rbind (cgroup_strings cfg) (fun qp =>
    if dyn_eqb (fst qp) (DStr "max") then Ok None
    else rbind (dyn_int (fst qp)) (fun q => rbind (dyn_int (snd qp)) (fun p => Ok (Some (q, p))))).

Lemma cgroup_limit cv :
  cgroup_spec cfg os = Ok cv ->
  match quota_period with
  | Ok (Some (q, p)) => if (0 <? q) && (0 <? p) then (cv - 1) * p < q <= cv * p else cv = os
  | Ok None => cv = os
  | Err _ => False
  end.
Proof.
  unfold cgroup_spec, quota_period. destruct (cgroup_strings cfg) as [[q p]|e]; cbn [rbind fst snd]; [|discriminate].
  destruct (dyn_eqb q (DStr "max")); [intros H; inversion H; auto|].
  destruct (dyn_int q) as [qi|]; cbn [rbind]; [|discriminate].
  destruct (dyn_int p) as [pi|]; cbn [rbind]; [|discriminate].
  destruct (0 <? qi) eqn:Eq, (0 <? pi) eqn:Ep; cbn [andb]; try (intros H; inversion H; auto; fail).
  intros H. apply ceil_div_spec; [apply Z.ltb_lt; assumption|assumption].
Qed.

Lemma env_limit ev :
  env_spec cfg os = Ok ev ->
  match dget (c_env cfg) "LOKY_MAX_CPU_COUNT" with
  | Some s => py_int_of_str s = Ok ev
  | None => ev = os
  end.
Proof.
  unfold env_spec. destruct (dget (c_env cfg) "LOKY_MAX_CPU_COUNT"); cbn; [auto|]. intros H; inversion H; auto.
Qed.

(* --- at least 1 --- *)
Definition cache_ok (c : dyn) : Prop := c = DNone \/ c = NF \/ exists n, c = DInt n /\ 1 <= n.

Lemma physical_ok cache : cache_ok cache ->
  cache_ok (snd (physical_spec cfg cache))
  /\ (fst (fst (physical_spec cfg cache)) = NF
      \/ exists n, fst (fst (physical_spec cfg cache)) = DInt n /\ 1 <= n).
Proof.
  intros [->|[->|(n & -> & Hn)]]; unfold physical_spec; cbn.
  - destruct (c_probe cfg) as [n|e]; cbn.
    + destruct (Z.ltb_spec n 1); cbn; unfold cache_ok; [auto 6|]. split; [|right]; eauto 8.
    + unfold cache_ok; auto 6.
  - unfold cache_ok; auto 6.
  - unfold cache_ok. split; [|right]; eauto 8.
Qed.

Lemma result_ge_1 flag cache n :
  cache_ok cache ->
  fst (fst (cpu_count_spec cfg flag cache)) = Ret (DInt n) -> 1 <= n.
Proof.
  intros Hc. unfold cpu_count_spec. destruct (user_spec cfg os) as [[u|e] w]; [|discriminate].
  destruct flag; cbn [negb].
  - destruct (u <? os).
    + cbn. intros H; inversion H. lia.
    + destruct (physical_ok cache Hc) as [_ Hp].
      destruct (physical_spec cfg cache) as [[ph ex] c']. cbn [fst snd] in *.
      destruct Hp as [->|(m & -> & Hm)]; cbn.
      * intros H; inversion H. lia.
      * unfold NF. cbn. intros H; inversion H. lia.
  - cbn. intros H; inversion H. lia.
Qed.
Lemma cache_stays_ok flag cache : cache_ok cache -> cache_ok (snd (cpu_count_spec cfg flag cache)).
Proof.
  intros Hc. unfold cpu_count_spec. destruct (user_spec cfg os) as [[u|e] w]; [|exact Hc].
  destruct flag; cbn [negb]; [|exact Hc]. destruct (u <? os); [exact Hc|].
  destruct (physical_ok cache Hc) as [Hc' _].
  destruct (physical_spec cfg cache) as [[ph ex] c']. cbn [snd] in Hc'.
  destruct (negb (dyn_eqb ph NF)); exact Hc'.
Qed.

(* --- only_physical_cores --- *)
Lemma physical_formula cache u w :
  user_spec cfg os = (Ok u, w) ->
  fst (fst (cpu_count_spec cfg true cache)) =
  if u <? os then Ret (DInt (Z.max 1 (Z.min os u)))             (* a user limit is below the OS count *)
  else match fst (fst (physical_spec cfg cache)) with
       | DStr "not found" => Ret (DInt (Z.max 1 (Z.min os u)))   (* detection failed: logical value *)
       | v => Ret v                                              (* the detected / cached core count *)
       end.
Proof.
  intros Hu. unfold cpu_count_spec. rewrite Hu. cbn [negb].
  destruct (Z.ltb_spec u os).
  - cbn. f_equal. f_equal. lia.
  - destruct (physical_spec cfg cache) as [[ph ex] c']. cbn [fst snd].
    destruct ph as [|z|s|e]; cbn; try reflexivity.
    destruct (String.eqb_spec s "not found") as [->|Hne]; cbn.
    + f_equal. f_equal. lia.
    + destruct s as [|a s']; [reflexivity|].
      (* s <> "not found": the match falls in the default branch *)
      repeat match goal with
             | |- context[match ?x with _ => _ end] => destruct x; try reflexivity; try congruence
             end.
Qed.

(* --- raising inputs --- *)
Lemma raises_iff flag cache e :
  fst (fst (cpu_count_spec cfg flag cache)) = Raise e <-> fst (user_spec cfg os) = Err e.
Proof.
  unfold cpu_count_spec. destruct (user_spec cfg os) as [[u|e'] w]; cbn [fst].
  - split; [|discriminate]. destruct flag; cbn [negb]; [|discriminate].
    destruct (u <? os); [discriminate|]. destruct (physical_spec cfg cache) as [[ph ex] c'].
    destruct (negb (dyn_eqb ph NF)); cbn; [|discriminate].
    intros H. exfalso. inversion H.
  - split; intros H; inversion H; reflexivity.
Qed.

(* --- the physical-core warning is emitted at most once over any sequence of calls --- *)
Fixpoint run_calls (flags : list bool) (cache : dyn) : list eff :=
  match flags with
  | [] => []
  | f :: tl => let r := cpu_count_spec cfg f cache in (snd (fst r) ++ run_calls tl (snd r))%list
  end.
Definition n_phys (l : list eff) : nat :=
  List.length (filter (fun e => eff_eqb e W_PHYS) l).

Lemma n_phys_app a b : n_phys (a ++ b) = (n_phys a + n_phys b)%nat.
Proof. unfold n_phys. rewrite filter_app, app_length. reflexivity. Qed.

Lemma call_warns flag cache :
  (n_phys (snd (fst (cpu_count_spec cfg flag cache))) <= 1)%nat
  /\ (cache <> DNone -> n_phys (snd (fst (cpu_count_spec cfg flag cache))) = 0%nat
                        /\ snd (cpu_count_spec cfg flag cache) <> DNone)
  /\ (n_phys (snd (fst (cpu_count_spec cfg flag cache))) = 1%nat ->
      snd (cpu_count_spec cfg flag cache) <> DNone).
Proof.
  unfold cpu_count_spec. destruct (user_spec cfg os) as [[u|e] w]; cbn [fst snd].
  2:{ destruct w; cbn; repeat split; auto; try lia; discriminate. }
  destruct flag; cbn [negb].
  2:{ cbn [fst snd]. destruct w; cbn; repeat split; auto; lia. }
  destruct (u <? os); cbn [fst snd].
  1:{ destruct w; cbn; repeat split; auto; lia. }
  unfold physical_spec. destruct cache as [|z|s|e]; cbn [dyn_is_none negb].
  - destruct (c_probe cfg) as [n|e]; [destruct (n <? 1)|]; destruct w; cbn;
      repeat split; try lia; try discriminate; try congruence.
  - destruct w; cbn; repeat split; auto; try lia; discriminate.
  - cbn [fst snd]. destruct (negb (dyn_eqb (DStr s) NF)); destruct w; cbn;
      repeat split; auto; try lia; discriminate.
  - destruct w; cbn; repeat split; auto; try lia; discriminate.
Qed.

Lemma warn_once_from flags : forall cache,
  (n_phys (run_calls flags cache) <= 1)%nat
  /\ (cache <> DNone -> n_phys (run_calls flags cache) = 0%nat).
Proof.
  induction flags as [|f tl IH]; intros cache; cbn [run_calls]; [cbn; split; auto|].
  rewrite n_phys_app. destruct (call_warns f cache) as (H1 & H2 & H3).
  destruct (IH (snd (cpu_count_spec cfg f cache))) as [I1 I2]. split.
  - destruct (Nat.eq_dec (n_phys (snd (fst (cpu_count_spec cfg f cache)))) 1) as [E|E].
    + rewrite (I2 (H3 E)). lia.
    + lia.
  - intros Hc. destruct (H2 Hc) as [E0 Hn]. rewrite E0, (I2 Hn). reflexivity.
Qed.
End P.

(* ---------- lifted to the generated code ---------- *)
Section G.
Variable cfg : cpu_cfg.
Notation os := (os_count cfg).

Fixpoint gen_calls (flags : list bool) (cache : dyn) (effs : list eff) : list eff :=
  match flags with
  | [] => effs
  | f :: tl => let '(_, l) := cpu_count_run cfg f cache effs in
               gen_calls tl (cpu_count_v_physical_cores_cache l) (cpu_count_v_eff l)
  end.

Lemma gen_calls_spec flags : forall cache effs,
  gen_calls flags cache effs = (effs ++ run_calls cfg flags cache)%list.
Proof.
  induction flags as [|f tl IH]; intros cache effs; cbn [gen_calls run_calls].
  - rewrite app_nil_r. reflexivity.
  - destruct (cpu_count_char cfg f cache effs) as (l & E & He & Hc). rewrite E, IH, He, Hc, app_assoc.
    reflexivity.
Qed.

Lemma gen_warn_once flags cache :
  (n_phys (gen_calls flags cache []) <= 1)%nat.
Proof. rewrite gen_calls_spec. cbn [app]. apply warn_once_from. Qed.

Lemma gen_ge_1 flag cache eff0 n l :
  cache_ok cache -> cpu_count_run cfg flag cache eff0 = (Ret (DInt n), l) ->
  1 <= n /\ cache_ok (cpu_count_v_physical_cores_cache l).
Proof.
  intros Hc E. destruct (cpu_count_char cfg flag cache eff0) as (l' & E' & _ & Hc').
  rewrite E in E'. inversion E'; subst l'. split.
  - eapply result_ge_1; eauto.
  - rewrite Hc'. apply cache_stays_ok. exact Hc.
Qed.

Lemma gen_value_is_int flag cache eff0 v l :
  cache_ok cache -> cpu_count_run cfg flag cache eff0 = (Ret v, l) -> exists n, v = DInt n.
Proof.
  intros Hc E. destruct (cpu_count_char cfg flag cache eff0) as (l' & E' & _ & _).
  rewrite E in E'. inversion E' as [[Hv Hl]]. clear E'. revert Hv.
  unfold cpu_count_spec. destruct (user_spec cfg os) as [[u|e] w]; [|discriminate].
  destruct flag; cbn [negb].
  - destruct (u <? os); [cbn; intros H; inversion H; eauto|].
    destruct (physical_ok cfg cache Hc) as [_ Hp].
    destruct (physical_spec cfg cache) as [[ph ex] c']. cbn [fst snd] in *.
    destruct Hp as [->|(m & -> & Hm)]; cbn; intros H; inversion H; eauto.
  - cbn. intros H; inversion H; eauto.
Qed.

Lemma gen_physical cache eff0 u w :
  user_spec cfg os = (Ok u, w) ->
  exists l, cpu_count_run cfg true cache eff0 =
    ((if u <? os then Ret (DInt (Z.max 1 (Z.min os u)))
      else match fst (fst (physical_spec cfg cache)) with
           | DStr "not found" => Ret (DInt (Z.max 1 (Z.min os u)))
           | v => Ret v
           end), l).
Proof.
  intros Hu. destruct (cpu_count_char cfg true cache eff0) as (l & E & _ & _).
  exists l. rewrite E, (physical_formula cfg cache u w Hu). reflexivity.
Qed.

Lemma gen_raises_iff flag cache eff0 e :
  (exists l, cpu_count_run cfg flag cache eff0 = (Raise e, l)) <-> fst (user_spec cfg os) = Err e.
Proof.
  destruct (cpu_count_char cfg flag cache eff0) as (l & E & _ & _). rewrite <- raises_iff. split.
  - intros (l' & E'). rewrite E' in E. inversion E. eauto.
  - intros H. exists l. rewrite E, H. reflexivity.
Qed.
End G.
