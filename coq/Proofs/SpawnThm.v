(* C18 / C02: exit-status decoding, environment overlay, descriptor inheritance (Gen/Spawn.v). *)
From Coq Require Import List String ZArith Bool Lia.
From LokyV Require Import Lib.PyLib Lib.StmTac Lib.DictFacts Lib.PosixLib Gen.Spawn.
Import ListNotations.
Open Scope Z_scope.

(* ---- status: exit code c in 0..255 |-> c ; terminating signal g in 1..126 |-> -g (core-dump bit or not) ---- *)
Definition status_exit (c : Z) : Z := Z.shiftl c 8.
Definition status_signal (g : Z) (core : bool) : Z := g + (if core then 128 else 0).

Definition check_exit (n : nat) : bool :=
  match gen_returncode (status_exit (Z.of_nat n)) with Ok r => r =? Z.of_nat n | Err _ => false end.
Definition check_signal (n : nat) : bool :=
  let g := Z.of_nat (S n) in
  match gen_returncode (status_signal g false), gen_returncode (status_signal g true) with
  | Ok a, Ok b => (a =? - g) && (b =? - g)
  | _, _ => false end.
Lemma all_exit_codes : forallb check_exit (List.seq 0%nat 256%nat) = true. Proof. vm_compute. reflexivity. Qed.
Lemma all_signals : forallb check_signal (List.seq 0%nat 126%nat) = true. Proof. vm_compute. reflexivity. Qed.

Theorem returncode_of_exit c : 0 <= c <= 255 -> gen_returncode (status_exit c) = Ok c.
Proof.
  intros H. pose proof all_exit_codes as A. rewrite forallb_forall in A.
  specialize (A (Z.to_nat c)). unfold check_exit in A. rewrite Z2Nat.id in A by lia.
  assert (Hin : In (Z.to_nat c) (List.seq 0%nat 256%nat)) by (apply in_seq; lia). specialize (A Hin).
  destruct (gen_returncode (status_exit c)) as [r|]; [|discriminate]. apply Z.eqb_eq in A. congruence.
Qed.
Theorem returncode_of_signal g core : 1 <= g <= 126 -> gen_returncode (status_signal g core) = Ok (- g).
Proof.
  intros H. pose proof all_signals as A. rewrite forallb_forall in A.
  specialize (A (Z.to_nat (g - 1))). unfold check_signal in A.
  replace (Z.of_nat (S (Z.to_nat (g - 1)))) with g in A by lia.
  assert (Hin : In (Z.to_nat (g - 1)) (List.seq 0%nat 126%nat)) by (apply in_seq; lia). specialize (A Hin).
  destruct (gen_returncode (status_signal g false)) as [a|] eqn:Ea; [|discriminate].
  destruct (gen_returncode (status_signal g true)) as [b|] eqn:Eb; [|discriminate].
  apply andb_true_iff in A. destruct A as [A1 A2]. apply Z.eqb_eq in A1, A2. subst a b.
  destruct core; [exact Eb|exact Ea].
Qed.

(* ---- environment: child sees the overlay's value if the key is overridden, the parent's otherwise ---- *)
Theorem child_env_lookup overlay : forall parent k,
  NoDup (dkeys overlay) ->
  dget (gen_child_env parent overlay) k = match dget overlay k with Some v => Some v | None => dget parent k end.
Proof.
  unfold gen_child_env. induction overlay as [|[k0 v0] ov IH]; intros parent k Hn; cbn [fold_left dget]; [reflexivity|].
  cbn in Hn. inversion Hn; subst. rewrite IH by assumption. cbn [fst snd].
  destruct (String.eqb_spec k k0) as [->|Hne].
  - assert (dget ov k0 = None) by (apply dget_None_notin; assumption). rewrite H. apply dget_dset_same.
  - destruct (dget ov k); [reflexivity|]. apply dget_dset_other. apply String.eqb_neq. assumption.
Qed.

(* ---- descriptors: the child has stdio and the keep list, nothing else, whatever is open in the parent ---- *)
Theorem child_fds_exact open keep fd :
  In fd (gen_child_fds open keep) <-> In fd open /\ (fd = 0 \/ fd = 1 \/ fd = 2 \/ In fd keep).
Proof.
  unfold gen_child_fds. rewrite filter_In. split; intros [H1 H2]; split; auto.
  - apply orb_true_iff in H2. destruct H2 as [H2|H2]; apply existsb_exists in H2; destruct H2 as (x & Hx & E);
      apply Z.eqb_eq in E; subst; cbn in Hx; intuition.
  - apply orb_true_iff. destruct H2 as [->|[->|[->|H2]]]; try (left; reflexivity).
    right. apply existsb_exists. exists fd. split; [assumption|apply Z.eqb_refl].
Qed.
Theorem keep_list_exact cr cw tr mtr reg fd :
  In fd (gen_keep_list cr cw tr mtr reg) <-> In fd reg \/ fd = cr \/ fd = cw \/ fd = tr \/ fd = mtr.
Proof. unfold gen_keep_list. rewrite !in_app_iff. cbn. intuition. Qed.

Theorem spawn_structure :
  parent_closes_child_ends = true /\ loky_process_default_no_main = true /\ main_fixup_only_when_asked = true
  /\ tracker_handle_shipped = true /\ worker_runs_initializer_first_and_exits_on_failure = true
  /\ every_spawn_ships_initializer = true.
Proof. repeat split; reflexivity. Qed.
