From Coq Require Import List Arith Bool Lia.
From LokyV Require Import Model.FeederPipe.
Import ListNotations.

(* once the workers have been killed with the parent's read end closed, and the queue closed, the feeder thread -- wherever it
   stands, blocked in a write or not, whatever is left in its buffer -- ends at its next step and stays ended *)
Theorem killed_and_closed_feeder_ends s :
  let s1 := step true (step true s KillAll) CloseQueue in
  th (step true s1 FeederStep) = Ended.
Proof.
  destruct s as [t b c r n p]. unfold step, no_reader; simpl. rewrite andb_false_r. simpl.
  destruct t; try reflexivity; destruct b; reflexivity.
Qed.

Lemma ended_is_final k s e : th s = Ended -> th (step k s e) = Ended.
Proof. destruct s as [t b c r n p]; simpl; intros ->. destruct e; simpl; try reflexivity. destruct n; reflexivity. Qed.

Theorem feeder_stays_ended k es : forall s, th s = Ended -> th (run k es s) = Ended.
Proof. unfold run. induction es as [|e es IH]; intros s H; simpl; [exact H|]. apply IH, ended_is_final, H. Qed.

(* ... in any order of the two calls, and whatever else happens in between or afterwards (worker reads cannot happen any more) *)
Theorem forced_shutdown_ends_the_feeder es1 es2 es3 s :
  th (step true (run true (es1 ++ KillAll :: es2 ++ CloseQueue :: es3) s) FeederStep) = Ended.
Proof.
  set (s' := run true (es1 ++ KillAll :: es2 ++ CloseQueue :: es3) s).
  assert (H : readers s' = 0 /\ parent_reader s' = false /\ closing s' = true).
  { unfold s', run. rewrite fold_left_app. simpl. rewrite fold_left_app. simpl.
    set (a := fold_left (step true) es1 s).
    assert (K : forall es x, readers x = 0 /\ parent_reader x = false -> readers (fold_left (step true) es x) = 0 /\ parent_reader (fold_left (step true) es x) = false).
    { induction es as [|e es IH]; intros x [A B]; simpl; [split; assumption|]. apply IH.
      destruct x as [t b c r n p]; simpl in *; subst. destruct e; simpl; try (split; reflexivity).
      destruct t; simpl; try (split; reflexivity); try (destruct b; split; reflexivity).
      destruct b; [destruct c|]; split; reflexivity. }
    assert (C : forall es x, closing x = true -> closing (fold_left (step true) es x) = true).
    { induction es as [|e es IH]; intros x A; simpl; [assumption|]. apply IH.
      destruct x as [t b c r n p]; simpl in *; subst. destruct e; simpl; try reflexivity.
      - destruct t; simpl; try reflexivity; unfold no_reader; simpl.
        + destruct b; [reflexivity|]. destruct (Nat.eqb n 0 && negb p); [reflexivity|]. destruct r; reflexivity.
        + destruct (Nat.eqb n 0 && negb p); [reflexivity|]. destruct r; reflexivity.
      - destruct n; reflexivity. }
    destruct (K es2 (step true a KillAll)) as [R P].
    { destruct a as [t b c r n p]; simpl. rewrite andb_false_r. split; reflexivity. }
    set (b := fold_left (step true) es2 (step true a KillAll)) in *.
    destruct (K es3 (step true b CloseQueue)) as [R' P'].
    { destruct b as [t b0 c r n p]; simpl in *. split; assumption. }
    split; [exact R'|]. split; [exact P'|]. apply C. destruct b as [t b0 c r n p]; reflexivity. }
  destruct H as (R & P & C). destruct s' as [t b c r n p]. simpl in *. subst. unfold step, no_reader; simpl.
  destruct t; try reflexivity; destruct b; reflexivity.
Qed.

(* H17: with the parent's read end left open a feeder blocked in a write stays blocked for ever: no step is enabled for it and
   nothing else can happen any more *)
Example h17_blocked_for_ever :
  let s := run false [FeederStep; FeederStep; KillAll; CloseQueue] (mkfp Idle 2 false 1 2 true) in
  th s = Blocked /\ forall e, step false s e = s.
Proof. vm_compute. split; [reflexivity|]. intros []; reflexivity. Qed.
(* the same history with the read end closed by kill_workers() *)
Example h17_same_history_repaired :
  th (run true [FeederStep; FeederStep; KillAll; CloseQueue; FeederStep] (mkfp Idle 2 false 1 2 true)) = Ended.
Proof. vm_compute. reflexivity. Qed.
