From Coq Require Import List Arith Bool String Lia.
From LokyV Require Import Lib.PyLib Gen.Lifecycle Spec.TrackerSpec Model.TrackerLife.
Import ListNotations.

Lemma sig_safe_true : sig_safe = true. Proof. reflexivity. Qed.

(* ---- list-update facts ---- *)
Lemma nth_upd_same {A} (l : list A) i f x : nth_error l i = Some x -> nth_error (upd l i f) i = Some (f x).
Proof. revert i. induction l as [|y l IH]; intros [|i]; cbn; try discriminate; [intros H; inversion H; auto|apply IH]. Qed.
Lemma nth_upd_other {A} (l : list A) i j f : i <> j -> nth_error (upd l i f) j = nth_error l j.
Proof. revert i j. induction l as [|y l IH]; intros [|i] [|j] H; cbn; auto; try congruence. Qed.
Lemma upd_length {A} (l : list A) i f : List.length (upd l i f) = List.length l.
Proof. revert i. induction l as [|y l IH]; intros [|i]; cbn [upd List.length]; auto. Qed.
Lemma nth_app_inv {A} (l : list A) a i x : nth_error (l ++ [a]) i = Some x -> nth_error l i = Some x \/ (i = List.length l /\ x = a).
Proof.
  intros H. destruct (Nat.lt_ge_cases i (List.length l)).
  - rewrite nth_error_app1 in H by assumption. auto.
  - rewrite nth_error_app2 in H by assumption. destruct (i - List.length l) as [|k] eqn:E; cbn in H.
    + inversion H. right. split; [lia|reflexivity].
    + destruct k; discriminate.
Qed.
Lemma writers_zero s t i p : writers s t = 0 -> nth_error (procs s) i = Some p -> alive p = true -> handle p <> t.
Proof.
  unfold writers. intros Hw Hi Ha Hh. apply nth_error_In in Hi.
  assert (In p (filter (fun p => alive p && Nat.eqb (handle p) t) (procs s))).
  { apply filter_In. split; [assumption|]. rewrite Ha, Hh, Nat.eqb_refl. reflexivity. }
  destruct (filter _ (procs s)); [contradiction|discriminate].
Qed.

(* ---- signals never take a tracker down, whenever they are delivered (start-up included) ---- *)
Theorem signal_never_kills s t s' :
  step s (Signal t) = Some s' -> tr_alive s t = true /\ tr_alive s' t = true.
Proof.
  unfold step, tr_alive. destruct (nth_error (trackers s) t) as [x|] eqn:E; [|discriminate].
  destruct (t_alive x) eqn:Ea; [|discriminate]. rewrite sig_safe_true.
  destruct (t_sig x); intros H; inversion H; subst; cbn; rewrite ?E, ?Ea; auto.
  rewrite (nth_upd_same _ _ _ _ E). cbn. auto.
Qed.
(* and every start-up step keeps it alive; a signal that arrived while masked is discarded at the unblock *)
Theorem boot_keeps_alive s t s' : step s (TrackerBoot t) = Some s' -> tr_alive s' t = true.
Proof.
  unfold step, tr_alive. destruct (nth_error (trackers s) t) as [x|] eqn:E; [|discriminate].
  destruct (t_alive x) eqn:Ea; [|discriminate].
  destruct (t_sig x); intros H; inversion H; subst; cbn; rewrite (nth_upd_same _ _ _ _ E); reflexivity.
Qed.

(* ---- self-healing: after any tracked operation the process has a live tracker, and the operation does not fail ---- *)
Theorem op_heals s p pr : nth_error (procs s) p = Some pr -> alive pr = true ->
  exists s' pr', step s (Op p) = Some s' /\ nth_error (procs s') p = Some pr' /\ alive pr' = true
                 /\ tr_alive s' (handle pr') = true.
Proof.
  intros Hp Ha. unfold step. rewrite Hp. destruct pr as [a h]. cbn in Ha. subst a.
  destruct (tr_alive s h) eqn:Et.
  - exists s, (mkp true h). auto.
  - eexists. eexists. split; [reflexivity|]. cbn [procs trackers]. split; [apply (nth_upd_same _ _ _ _ Hp)|].
    split; [reflexivity|]. unfold tr_alive. cbn [trackers handle]. rewrite nth_error_app2 by lia.
    rewrite Nat.sub_diag. reflexivity.
Qed.

(* ---- invariants ---- *)
Definition tracker_of (s : state) (t : nat) : option tracker := nth_error (trackers s) t.
Record Inv (s : state) : Prop := {
  (* a tracker that swept has no live holder: the sweep happens only after the last member is gone *)
  i_swept : forall t x i p, tracker_of s t = Some x -> t_swept x = true ->
                            nth_error (procs s) i = Some p -> alive p = true -> handle p <> t;
  i_handle : forall i p, nth_error (procs s) i = Some p -> handle p < List.length (trackers s);
  (* a registered semaphore that still exists is registered with a tracker that has not swept *)
  i_sem : forall j y x, nth_error (sems s) j = Some y -> s_exists y = true -> s_stage y <> Created ->
                        tracker_of s (s_tracker y) = Some x -> t_swept x = false;
  i_semtr : forall j y, nth_error (sems s) j = Some y -> s_tracker y < List.length (trackers s)
}.
Lemma Inv_init : Inv init.
Proof.
  constructor; cbn.
  - intros t x [|[|i]] p Ht Hs Hp Ha; cbn in *; try discriminate. destruct t as [|[|t]]; cbn in Ht; inversion Ht; subst; discriminate.
  - intros [|[|i]] p H; cbn in H; inversion H; subst; cbn; lia.
  - intros [|j]; discriminate.
  - intros [|j]; discriminate.
Qed.

Ltac inv_step H := unfold step in H;
  repeat match type of H with
         | match ?x with _ => _ end = Some _ => destruct x eqn:?; try discriminate
         | (if ?x then _ else _) = Some _ => destruct x eqn:?; try discriminate
         end; inversion H; subst; clear H.

(* a semaphore whose UNREGISTER has been sent no longer exists -- true because the finalizer, as it reads in the source,
   unlinks first and unregisters second (the order is the generated fact semlock_cleanup_unlinks_then_unregisters) *)
Definition Inv2 (s : state) : Prop :=
  forall j y, nth_error (sems s) j = Some y -> s_stage y = Unregistered -> s_exists y = false.
Lemma Inv2_init : Inv2 init.
Proof. intros [|j] y H; discriminate. Qed.
Lemma inv2_map (l : list sem) (c : sem -> bool) :
  (forall j y, nth_error l j = Some y -> s_stage y = Unregistered -> s_exists y = false) ->
  forall j y, nth_error (map (fun x => if c x then mks false (s_owner x) (s_stage x) (s_tracker x) else x) l) j = Some y ->
              s_stage y = Unregistered -> s_exists y = false.
Proof.
  intros H j y Hj Hs. rewrite nth_error_map in Hj. destruct (nth_error l j) as [y0|] eqn:Ej; [|discriminate].
  cbn in Hj. inversion Hj; subst y; clear Hj. destruct (c y0); cbn in *; [reflexivity | eapply H; eauto].
Qed.
Lemma inv2_upd (l : list sem) i (v : sem) :
  (forall j y, nth_error l j = Some y -> s_stage y = Unregistered -> s_exists y = false) ->
  (s_stage v = Unregistered -> s_exists v = false) ->
  forall j y, nth_error (upd l i (fun _ => v)) j = Some y -> s_stage y = Unregistered -> s_exists y = false.
Proof.
  intros H Hv j y Hj Hs. destruct (Nat.eq_dec i j) as [->|Hne].
  - destruct (nth_error l j) as [y0|] eqn:Ej.
    + rewrite (nth_upd_same _ _ _ _ Ej) in Hj. inversion Hj; subst. auto.
    + assert (nth_error (upd l j (fun _ => v)) j = None) by (apply nth_error_None; rewrite upd_length; apply nth_error_None; exact Ej).
      congruence.
  - rewrite nth_upd_other in Hj by assumption. eapply H; eauto.
Qed.
Theorem step_inv2 s e s' : Inv2 s -> step s e = Some s' -> Inv2 s'.
Proof.
  intros I H. unfold Inv2 in *. destruct e; unfold step in H.
  - destruct (nth_error (procs s) p) as [[[|] h]|]; try discriminate. inversion H; subst; exact I.
  - destruct (nth_error (procs s) p) as [[[|] h]|]; try discriminate. inversion H; subst; exact I.
  - destruct (nth_error (procs s) p) as [[[|] h]|]; try discriminate. inversion H; subst; cbn [sems]. apply inv2_map, I.
  - destruct (tr_alive s t); [|discriminate]. inversion H; subst; exact I.
  - destruct (nth_error (trackers s) t) as [x0|]; [|discriminate]. destruct (t_alive x0); [|discriminate].
    destruct sig_safe; [|inversion H; subst; exact I].
    destruct (t_sig x0); inversion H; subst; exact I.
  - destruct (nth_error (trackers s) t) as [x0|]; [|discriminate]. destruct (t_alive x0); [|discriminate].
    destruct (t_sig x0); inversion H; subst; exact I.
  - destruct (nth_error (procs s) p) as [[[|] h]|]; try discriminate. destruct (tr_alive s h); inversion H; subst; exact I.
  - destruct (nth_error (trackers s) t) as [x0|]; [|discriminate].
    destruct (t_alive x0 && Nat.eqb (writers s t) 0); [|discriminate]. inversion H; subst; cbn [sems]. apply inv2_map, I.
  - destruct (nth_error (procs s) p) as [[[|] h]|]; try discriminate. inversion H; subst; cbn [sems].
    intros j y Hj Hs. apply nth_app_inv in Hj. destruct Hj as [Hj|[_ ->]]; [eapply I; eauto | discriminate].
  - destruct (nth_error (sems s) i) as [[ex o [| | |] t]|]; try discriminate.
    destruct (nth_error (procs s) o) as [[[|] h]|]; try discriminate. inversion H; subst; cbn [sems].
    apply inv2_upd; [exact I | discriminate].
  - destruct (nth_error (sems s) i) as [[ex o [| | |] t]|]; try discriminate.
    destruct (nth_error (procs s) o) as [[[|] h]|]; try discriminate. inversion H; subst; cbn [sems].
    apply inv2_upd; [exact I | discriminate].
  - destruct (nth_error (sems s) i) as [[[|] o [| | |] t]|]; try discriminate.
    destruct (nth_error (procs s) o) as [[[|] h]|]; try discriminate. inversion H; subst; cbn [sems].
    apply inv2_upd; [exact I | cbn; discriminate].
  - destruct (nth_error (sems s) i) as [[[|] o [| | |] t]|]; try discriminate;
      destruct (nth_error (procs s) o) as [[[|] h]|]; try discriminate; cbn in H; try discriminate;
      inversion H; subst; cbn [sems]; (apply inv2_upd; [exact I | reflexivity]).
  - destruct (nth_error (procs s) p) as [[[|] h]|]; try discriminate. cbn in H. inversion H; subst; exact I.
Qed.

Theorem step_inv s e s' : Inv s -> Inv2 s -> step s e = Some s' -> Inv s'.
Proof.
  intros [Is Ih Ie It] I2 H. destruct e.
  - (* Spawn *) unfold step in H. destruct (nth_error (procs s) p) as [[[|] handle0]|] eqn:Heqo; try discriminate.
    inversion H; subst; clear H. constructor; cbn [procs trackers sems]; unfold tracker_of in *; cbn [trackers]; auto.
    + intros t x i q Ht Hs Hq Ha. apply nth_app_inv in Hq. destruct Hq as [Hq|[_ ->]]; [eapply Is; eauto|].
      cbn. eapply (Is t x p (mkp true handle0)); eauto.
    + intros i q Hq. apply nth_app_inv in Hq. destruct Hq as [Hq|[_ ->]]; [eauto|]. cbn. apply (Ih p _ Heqo).
  - (* Die *) unfold step in H. destruct (nth_error (procs s) p) as [[[|] handle0]|] eqn:Heqo; try discriminate.
    inversion H; subst; clear H. constructor; cbn [procs trackers sems]; unfold tracker_of in *; cbn [trackers]; auto.
    + intros t x i q Ht Hs Hq Ha. destruct (Nat.eq_dec p i) as [->|Hne].
      * rewrite (nth_upd_same _ _ _ _ Heqo) in Hq. inversion Hq; subst. discriminate.
      * rewrite nth_upd_other in Hq by assumption. eapply Is; eauto.
    + intros i q Hq. destruct (Nat.eq_dec p i) as [->|Hne].
      * rewrite (nth_upd_same _ _ _ _ Heqo) in Hq. inversion Hq; subst. cbn. apply (Ih i _ Heqo).
      * rewrite nth_upd_other in Hq by assumption. eauto.
  - (* ExitClean *) unfold step in H. destruct (nth_error (procs s) p) as [[[|] handle0]|] eqn:Heqo; try discriminate.
    inversion H; subst; clear H. constructor; cbn [procs trackers sems]; unfold tracker_of in *; cbn [trackers]; auto.
    + intros t x i q Ht Hs Hq Ha. destruct (Nat.eq_dec p i) as [->|Hne].
      * rewrite (nth_upd_same _ _ _ _ Heqo) in Hq. inversion Hq; subst. discriminate.
      * rewrite nth_upd_other in Hq by assumption. eapply Is; eauto.
    + intros i q Hq. destruct (Nat.eq_dec p i) as [->|Hne].
      * rewrite (nth_upd_same _ _ _ _ Heqo) in Hq. inversion Hq; subst. cbn. apply (Ih i _ Heqo).
      * rewrite nth_upd_other in Hq by assumption. eauto.
    + intros j y x Hj Hex Hst Ht. rewrite nth_error_map in Hj. destruct (nth_error (sems s) j) as [y0|] eqn:Ej; [|discriminate].
      cbn in Hj. inversion Hj; subst y. clear Hj.
      destruct (Nat.eqb (s_owner y0) p && match s_stage y0 with Guarded => true | _ => false end); cbn in *; [discriminate|].
      eapply Ie; eauto.
    + intros j y Hj. rewrite nth_error_map in Hj. destruct (nth_error (sems s) j) as [y0|] eqn:Ej; [|discriminate].
      cbn in Hj. inversion Hj; subst y.
      destruct (Nat.eqb (s_owner y0) p && match s_stage y0 with Guarded => true | _ => false end); cbn; eapply It; eauto.
  - (* KillTracker *) unfold step in H. destruct (tr_alive s t) eqn:Hal; [|discriminate]. inversion H; subst; clear H.
    unfold tr_alive in Hal. destruct (nth_error (trackers s) t) as [x0|] eqn:Et; [|discriminate].
    constructor; cbn [procs trackers sems]; unfold tracker_of in *; cbn [trackers]; rewrite ?upd_length; auto.
    + intros t' x i q Ht Hs Hq Ha. destruct (Nat.eq_dec t t') as [->|Hne].
      * rewrite (nth_upd_same _ _ _ _ Et) in Ht. inversion Ht; subst. cbn in Hs. eapply Is; eauto.
      * rewrite nth_upd_other in Ht by assumption. eapply Is; eauto.
    + intros j y x Hj Hex Hst Ht. destruct (Nat.eq_dec t (s_tracker y)) as [E|Hne].
      * rewrite E in *. rewrite (nth_upd_same _ _ _ _ Et) in Ht. inversion Ht; subst. cbn. eapply Ie; eauto.
      * rewrite nth_upd_other in Ht by assumption. eapply Ie; eauto.
  - (* Signal *) unfold step in H. destruct (nth_error (trackers s) t) as [x0|] eqn:Et; [|discriminate].
    destruct (t_alive x0); [|discriminate]. rewrite sig_safe_true in H.
    destruct (t_sig x0); inversion H; subst; try (constructor; auto; fail).
    constructor; cbn [procs trackers sems]; unfold tracker_of in *; cbn [trackers]; rewrite ?upd_length; auto.
    + intros t' x i q Ht Hs Hq Ha. destruct (Nat.eq_dec t t') as [->|Hne].
      * rewrite (nth_upd_same _ _ _ _ Et) in Ht. inversion Ht; subst. cbn in Hs. eapply Is; eauto.
      * rewrite nth_upd_other in Ht by assumption. eapply Is; eauto.
    + intros j y x Hj Hex Hst Ht. destruct (Nat.eq_dec t (s_tracker y)) as [E|Hne].
      * rewrite E in *. rewrite (nth_upd_same _ _ _ _ Et) in Ht. inversion Ht; subst. cbn. eapply Ie; eauto.
      * rewrite nth_upd_other in Ht by assumption. eapply Ie; eauto.
  - (* TrackerBoot *) unfold step in H. destruct (nth_error (trackers s) t) as [x0|] eqn:Et; [|discriminate].
    destruct (t_alive x0); [|discriminate].
    destruct (t_sig x0); inversion H; subst.
    all: constructor; cbn [procs trackers sems]; unfold tracker_of in *; cbn [trackers]; rewrite ?upd_length; auto.
    all: try (intros t' x i q Ht Hs Hq Ha; destruct (Nat.eq_dec t t') as [->|Hne];
              [rewrite (nth_upd_same _ _ _ _ Et) in Ht; inversion Ht; subst; cbn in Hs; eapply Is; eauto
              |rewrite nth_upd_other in Ht by assumption; eapply Is; eauto]).
    all: intros j y x Hj Hex Hst Ht; destruct (Nat.eq_dec t (s_tracker y)) as [E|Hne];
         [rewrite E in *; rewrite (nth_upd_same _ _ _ _ Et) in Ht; inversion Ht; subst; cbn; eapply Ie; eauto
         |rewrite nth_upd_other in Ht by assumption; eapply Ie; eauto].
  - (* Op *) unfold step in H. destruct (nth_error (procs s) p) as [[[|] h]|] eqn:Ep; try discriminate.
    destruct (tr_alive s h) eqn:Ea; inversion H; subst; [constructor; auto|].
    constructor; cbn [procs trackers sems]; unfold tracker_of in *; cbn [trackers]; rewrite ?app_length; cbn [List.length]; auto.
    + intros t x i q Ht Hs Hq Ha. apply nth_app_inv in Ht. destruct Ht as [Ht|[-> ->]]; [|discriminate].
      destruct (Nat.eq_dec p i) as [->|Hne].
      * rewrite (nth_upd_same _ _ _ _ Ep) in Hq. inversion Hq; subst. cbn. intros <-.
        assert (Hlt : List.length (trackers s) < List.length (trackers s)) by (apply nth_error_Some; congruence). lia.
      * rewrite nth_upd_other in Hq by assumption. eapply Is; eauto.
    + intros i q Hq. destruct (Nat.eq_dec p i) as [->|Hne].
      * rewrite (nth_upd_same _ _ _ _ Ep) in Hq. inversion Hq; subst. cbn. lia.
      * rewrite nth_upd_other in Hq by assumption. specialize (Ih _ _ Hq). lia.
    + intros j y x Hj Hex Hst Ht. apply nth_app_inv in Ht. destruct Ht as [Ht|[_ ->]]; [eapply Ie; eauto|reflexivity].
    + intros j y Hj. specialize (It _ _ Hj). lia.
  - (* TrackerEOF *) unfold step in H. destruct (nth_error (trackers s) t) as [x0|] eqn:Et; [|discriminate].
    destruct (t_alive x0 && Nat.eqb (writers s t) 0) eqn:Eg; [|discriminate]. inversion H; subst. clear H.
    apply andb_true_iff in Eg. destruct Eg as [_ Ew]. apply Nat.eqb_eq in Ew.
    constructor; cbn [procs trackers sems]; unfold tracker_of in *; cbn [trackers]; rewrite ?upd_length; auto.
    + intros t' x i q Ht Hs Hq Ha. destruct (Nat.eq_dec t t') as [->|Hne].
      * eapply writers_zero; eauto.
      * rewrite nth_upd_other in Ht by assumption. eapply Is; eauto.
    + intros j y x Hj Hex Hst Ht. rewrite nth_error_map in Hj. destruct (nth_error (sems s) j) as [y0|] eqn:Ej; [|discriminate].
      cbn in Hj. inversion Hj; subst y. clear Hj.
      destruct (Nat.eqb_spec (s_tracker y0) t) as [E|Hne]; cbn [andb] in *.
      * destruct (s_stage y0) eqn:Es; cbn in *; try discriminate; [congruence|].
        pose proof (I2 j y0 Ej Es). congruence.
      * cbn in *. rewrite nth_upd_other in Ht by congruence. eapply Ie; eauto.
    + intros j y Hj. rewrite nth_error_map in Hj. destruct (nth_error (sems s) j) as [y0|] eqn:Ej; [|discriminate].
      cbn in Hj. inversion Hj; subst y.
      destruct (Nat.eqb (s_tracker y0) t && match s_stage y0 with Created | Unregistered => false | _ => true end); cbn; eapply It; eauto.
  - (* SemCreate *) unfold step in H. destruct (nth_error (procs s) p) as [[[|] handle0]|] eqn:Heqo; try discriminate.
    inversion H; subst; clear H. constructor; cbn [procs trackers sems]; unfold tracker_of in *; auto.
    + intros j y x Hj Hex Hst Ht. apply nth_app_inv in Hj. destruct Hj as [Hj|[_ ->]]; [eapply Ie; eauto|]. cbn in Hst. congruence.
    + intros j y Hj. apply nth_app_inv in Hj. destruct Hj as [Hj|[_ ->]]; [eauto|]. cbn. apply (Ih p _ Heqo).
  - (* SemRegister *) unfold step in H. destruct (nth_error (sems s) i) as [[ex s_owner0 [| | |] tr0]|] eqn:Heqo; try discriminate.
    destruct (nth_error (procs s) s_owner0) as [[[|] handle0]|] eqn:Heqo0; try discriminate.
    inversion H; subst; clear H. constructor; cbn [procs trackers sems]; unfold tracker_of in *; auto.
    + intros j y x Hj Hex Hst Ht. destruct (Nat.eq_dec i j) as [->|Hne].
      * rewrite (nth_upd_same _ _ _ _ Heqo) in Hj. inversion Hj; subst y. cbn in *.
        destruct (t_swept x) eqn:Esw; [|reflexivity]. exfalso.
        eapply (Is handle0 x s_owner0 (mkp true handle0)); eauto.
      * rewrite nth_upd_other in Hj by assumption. eapply Ie; eauto.
    + intros j y Hj. destruct (Nat.eq_dec i j) as [->|Hne].
      * rewrite (nth_upd_same _ _ _ _ Heqo) in Hj. inversion Hj; subst y. cbn. apply (Ih s_owner0 _ Heqo0).
      * rewrite nth_upd_other in Hj by assumption. eauto.
  - (* SemGuard *) unfold step in H. destruct (nth_error (sems s) i) as [[ex s_owner0 [| | |] tr0]|] eqn:Heqo; try discriminate.
    destruct (nth_error (procs s) s_owner0) as [[[|] handle0]|] eqn:Heqo0; try discriminate.
    inversion H; subst; clear H. constructor; cbn [procs trackers sems]; unfold tracker_of in *; auto.
    + intros j y x Hj Hex Hst Ht. destruct (Nat.eq_dec i j) as [->|Hne].
      * rewrite (nth_upd_same _ _ _ _ Heqo) in Hj. inversion Hj; subst y. cbn in *.
        eapply (Ie j _ x Heqo); cbn; auto. discriminate.
      * rewrite nth_upd_other in Hj by assumption. eapply Ie; eauto.
    + intros j y Hj. destruct (Nat.eq_dec i j) as [->|Hne].
      * rewrite (nth_upd_same _ _ _ _ Heqo) in Hj. inversion Hj; subst y. cbn. apply (It j _ Heqo).
      * rewrite nth_upd_other in Hj by assumption. eauto.
  - (* SemCollect *) unfold step in H. destruct (nth_error (sems s) i) as [[[|] s_owner0 [| | |] tr0]|] eqn:Heqo; try discriminate.
    destruct (nth_error (procs s) s_owner0) as [[[|] handle0]|] eqn:Heqo0; try discriminate.
    inversion H; subst; clear H. constructor; cbn [procs trackers sems]; unfold tracker_of in *; auto.
    + intros j y x Hj Hex Hst Ht. destruct (Nat.eq_dec i j) as [->|Hne].
      * rewrite (nth_upd_same _ _ _ _ Heqo) in Hj. inversion Hj; subst y. cbn in *. discriminate.
      * rewrite nth_upd_other in Hj by assumption. eapply Ie; eauto.
    + intros j y Hj. destruct (Nat.eq_dec i j) as [->|Hne].
      * rewrite (nth_upd_same _ _ _ _ Heqo) in Hj. inversion Hj; subst y. cbn. apply (It j _ Heqo).
      * rewrite nth_upd_other in Hj by assumption. eauto.
  - (* SemForget *) unfold step in H.
    destruct (nth_error (sems s) i) as [[[|] s_owner0 [| | |] tr0]|] eqn:Heqo; try discriminate;
      destruct (nth_error (procs s) s_owner0) as [[[|] handle0]|] eqn:Heqo0; try discriminate; cbn in H; try discriminate;
      inversion H; subst; clear H; constructor; cbn [procs trackers sems]; unfold tracker_of in *; auto.
    + intros j y x Hj Hex Hst Ht. destruct (Nat.eq_dec i j) as [->|Hne].
      * rewrite (nth_upd_same _ _ _ _ Heqo) in Hj. inversion Hj; subst y. cbn in *. discriminate.
      * rewrite nth_upd_other in Hj by assumption. eapply Ie; eauto.
    + intros j y Hj. destruct (Nat.eq_dec i j) as [->|Hne].
      * rewrite (nth_upd_same _ _ _ _ Heqo) in Hj. inversion Hj; subst y. cbn. apply (It j _ Heqo).
      * rewrite nth_upd_other in Hj by assumption. eauto.
  - (* Bootstrap *) unfold step in H. destruct (nth_error (procs s) p) as [[[|] h]|]; try discriminate. cbn in H.
    inversion H; subst. constructor; auto.
Qed.
Theorem reachable_inv12 s : reachable s -> Inv s /\ Inv2 s.
Proof.
  induction 1 as [|s e s' Hr [I1 I2] Hs]; [split; [apply Inv_init | apply Inv2_init]|].
  split; [eapply step_inv; eauto | eapply step_inv2; eauto].
Qed.
Theorem reachable_inv s : reachable s -> Inv s.
Proof. intros H. apply reachable_inv12, H. Qed.

(* ---- one tracker for the whole tree, as long as no tracker is killed ---- *)
Definition no_tracker_kill (es : list ev) : bool :=
  forallb (fun e => match e with KillTracker _ => false | _ => true end) es.
Definition single (s : state) : Prop :=
  List.length (trackers s) = 1
  /\ (forall i p, nth_error (procs s) i = Some p -> handle p = 0)
  /\ ((exists i p, nth_error (procs s) i = Some p /\ alive p = true) -> tr_alive s 0 = true).

Lemma single_step s e s' : single s -> (match e with KillTracker _ => false | _ => true end) = true ->
  step s e = Some s' -> single s'.
Proof.
  intros (Hl & Hh & Ha) Hk H. destruct e; try discriminate Hk; unfold step in H.
  - destruct (nth_error (procs s) p) as [[[|] h]|] eqn:Ep; try discriminate. inversion H; subst; clear H.
    split; [exact Hl|]. split; cbn [procs trackers sems].
    + intros i q Hq. apply nth_app_inv in Hq. destruct Hq as [Hq|[_ ->]]; [eauto|]. cbn. apply (Hh p _ Ep).
    + intros Hex. apply Ha. exists p, (mkp true h). auto.
  - destruct (nth_error (procs s) p) as [[[|] h]|] eqn:Ep; try discriminate. inversion H; subst; clear H.
    split; [exact Hl|]. split; cbn [procs trackers sems].
    + intros i q Hq. destruct (Nat.eq_dec p i) as [->|Hne].
      * rewrite (nth_upd_same _ _ _ _ Ep) in Hq. inversion Hq; subst. cbn. apply (Hh i _ Ep).
      * rewrite nth_upd_other in Hq by assumption. eauto.
    + intros Hex. apply Ha. exists p, (mkp true h). auto.
  - destruct (nth_error (procs s) p) as [[[|] h]|] eqn:Ep; try discriminate. inversion H; subst; clear H.
    split; [exact Hl|]. split; cbn [procs trackers sems].
    + intros i q Hq. destruct (Nat.eq_dec p i) as [->|Hne].
      * rewrite (nth_upd_same _ _ _ _ Ep) in Hq. inversion Hq; subst. cbn. apply (Hh i _ Ep).
      * rewrite nth_upd_other in Hq by assumption. eauto.
    + intros Hex. apply Ha. exists p, (mkp true h). auto.
  - (* Signal *) destruct (nth_error (trackers s) t) as [x0|] eqn:Et; [|discriminate].
    destruct (t_alive x0) eqn:Eal; [|discriminate]. rewrite sig_safe_true in H.
    destruct (t_sig x0); inversion H; subst; try (split; auto; fail).
    split; [cbn; rewrite upd_length; exact Hl|]. split; [exact Hh|].
    intros Hex. specialize (Ha Hex). unfold tr_alive in *. cbn [trackers].
    destruct t as [|t]; [rewrite (nth_upd_same _ _ _ _ Et); reflexivity|rewrite nth_upd_other by discriminate; exact Ha].
  - (* TrackerBoot *) destruct (nth_error (trackers s) t) as [x0|] eqn:Et; [|discriminate].
    destruct (t_alive x0) eqn:Eal; [|discriminate].
    destruct (t_sig x0); inversion H; subst.
    all: split; [cbn; rewrite upd_length; exact Hl|]; split; [exact Hh|].
    all: intros Hex; specialize (Ha Hex); unfold tr_alive in *; cbn [trackers].
    all: destruct t as [|t]; [rewrite (nth_upd_same _ _ _ _ Et); reflexivity|rewrite nth_upd_other by discriminate; exact Ha].
  - (* Op: the tracker is alive, nothing is relaunched *)
    destruct (nth_error (procs s) p) as [[[|] h]|] eqn:Ep; try discriminate.
    assert (h = 0) by (apply (Hh p _ Ep)). subst h.
    rewrite Ha in H by (exists p, (mkp true 0); auto). inversion H; subst. split; auto.
  - (* TrackerEOF: only when nobody is left *)
    destruct (nth_error (trackers s) t) as [x0|] eqn:Et; [|discriminate].
    destruct (t_alive x0 && Nat.eqb (writers s t) 0) eqn:Eg; [|discriminate]. inversion H; subst; clear H.
    apply andb_true_iff in Eg. destruct Eg as [_ Ew]. apply Nat.eqb_eq in Ew.
    split; [cbn; rewrite upd_length; exact Hl|]. split; [exact Hh|].
    intros (i & q & Hq & Hal). exfalso. cbn [procs] in Hq.
    assert (t = 0). { assert (t < 1) by (rewrite <- Hl; apply nth_error_Some; congruence). lia. } subst t.
    apply (writers_zero s 0 i q Ew Hq Hal). apply (Hh i q Hq).
  - destruct (nth_error (procs s) p) as [[[|] h]|] eqn:Ep; try discriminate. inversion H; subst. split; auto.
  - destruct (nth_error (sems s) i) as [[ex o [| | |] tr0]|]; try discriminate.
    destruct (nth_error (procs s) o) as [[[|] h]|]; try discriminate. inversion H; subst. split; auto.
  - destruct (nth_error (sems s) i) as [[ex o [| | |] tr0]|]; try discriminate.
    destruct (nth_error (procs s) o) as [[[|] h]|]; try discriminate. inversion H; subst. split; auto.
  - destruct (nth_error (sems s) i) as [[[|] o [| | |] tr0]|]; try discriminate.
    destruct (nth_error (procs s) o) as [[[|] h]|]; try discriminate. inversion H; subst. split; auto.
  - destruct (nth_error (sems s) i) as [[[|] o [| | |] tr0]|]; try discriminate;
      destruct (nth_error (procs s) o) as [[[|] h]|]; try discriminate; cbn in H; try discriminate; inversion H; subst; split; auto.
  - destruct (nth_error (procs s) p) as [[[|] h]|]; try discriminate. cbn in H. inversion H; subst. split; auto.
Qed.
Theorem single_tracker es : forall s s', single s -> no_tracker_kill es = true -> run s es = Some s' -> single s'.
Proof.
  induction es as [|e es IH]; intros s s' Hs Hk Hr; cbn in *; [inversion Hr; subst; auto|].
  apply andb_true_iff in Hk. destruct Hk as [Hk1 Hk2].
  destruct (step s e) as [s1|] eqn:E; [|discriminate]. apply (IH s1 s'); [eapply single_step; eauto|exact Hk2|exact Hr].
Qed.
Lemma single_init : single init.
Proof. split; [reflexivity|]. split; [intros [|[|i]] p H; cbn in H; inversion H; auto|reflexivity]. Qed.

(* ---- C13: nothing registered survives its tracker's sweep; the only hole is the creation window ---- *)
Theorem no_leak_after_sweep s j y x :
  reachable s -> nth_error (sems s) j = Some y -> s_stage y <> Created ->
  nth_error (trackers s) (s_tracker y) = Some x -> t_swept x = true -> s_exists y = false.
Proof.
  intros Hr Hj Hst Ht Hsw. destruct (s_exists y) eqn:E; [|reflexivity].
  pose proof (i_sem _ (reachable_inv s Hr) j y x Hj E Hst Ht). congruence.
Qed.
Theorem sweep_only_after_last_member s t x i p :
  reachable s -> nth_error (trackers s) t = Some x -> t_swept x = true ->
  nth_error (procs s) i = Some p -> alive p = true -> handle p <> t.
Proof. intros Hr. apply (i_swept _ (reachable_inv s Hr)). Qed.
(* a process killed between the kernel creation of a semaphore and its registration leaks it *)
Theorem creation_window_leaks :
  exists s, run init [SemCreate 0; Die 0; TrackerEOF 0] = Some s
            /\ (exists y, nth_error (sems s) 0 = Some y /\ s_exists y = true)
            /\ (exists x, nth_error (trackers s) 0 = Some x /\ t_swept x = true).
Proof. eexists. vm_compute. repeat split; eexists; split; reflexivity. Qed.
