(* C09 — get_reusable_executor always returns a live, correctly configured singleton.
   Subject: the factory program Gen/Reuse.v (regenerated from loky/reusable_executor.py) under the semantics of Lib/ReuseLib.v. *)
From Coq Require Import List ZArith Bool Arith.
From LokyV Require Import Lib.ReuseLib Gen.Reuse Proofs.ReuseThm.
Import ListNotations.
Open Scope Z_scope.

(* for every state and all arguments the program computes exactly what the one-page specification says *)
Theorem C09_factory_meets_spec : forall a g, wf g = true -> call factory 2 a g = spec a g.
Proof. exact factory_meets_spec. Qed.
Print Assumptions C09_factory_meets_spec.

(* valid arguments: an executor is returned, it is the singleton, it is neither broken nor shut down, it has the requested size *)
Theorem C09_returned_is_live_and_sized :
  forall a g, wf g = true -> valid a = true ->
    exists x reused g', call factory 2 a g = Ret (Some x) reused g' /\ g_cur g' = Some x /\ healthy x = true /\ xmax x = want a g.
Proof. exact returned_is_live_and_sized. Qed.
Print Assumptions C09_returned_is_live_and_sized.

(* it is the previous instance iff that one is healthy and reuse allows it *)
Theorem C09_previous_instance_iff :
  forall a g x reused g', wf g = true -> call factory 2 a g = Ret (Some x) reused g' ->
    (reused = true <-> exists p, g_cur g = Some p /\ healthy p = true /\ allows a g = true /\ xid x = xid p).
Proof. exact previous_instance_iff. Qed.
Print Assumptions C09_previous_instance_iff.

(* otherwise the previous instance is shut down with wait=True (and the caller's kill_workers) first, and the new one is built
   from the new arguments with the next id *)
Theorem C09_replacement_shuts_down_first :
  forall a g x g', wf g = true -> call factory 2 a g = Ret (Some x) false g' ->
    xid x = g_next g /\ g_next g' = S (g_next g) /\ xkw x = a_kw a /\ g_kw g' = Some (a_kw a) /\ xmax x = want a g /\
    match g_cur g with
    | Some p => g_retired g' = g_retired g ++ [put_down p (a_kill a)]
    | None => g_retired g' = g_retired g
    end.
Proof. exact replacement_shuts_down_first. Qed.
Print Assumptions C09_replacement_shuts_down_first.

(* every history of calls (valid or not), breakages and user shutdowns: ids strictly increase in creation order and stay below the
   counter, every replaced instance was completely shut down, the stored kwargs are those of the current instance *)
Theorem C09_history : forall cpu es, 0 < cpu -> HInv (hrun es (g0 cpu)).
Proof. exact history_invariant. Qed.
Print Assumptions C09_history.

Theorem C09_invalid_arguments_change_nothing : forall a g, wf g = true -> valid a = false -> call factory 2 a g = Exc g.
Proof. exact invalid_arguments_change_nothing. Qed.
Print Assumptions C09_invalid_arguments_change_nothing.

Theorem C09_structure :
  wrapper_passes_all_arguments = true /\ next_id_increments_under_lock = true /\ init_records_id_and_lock = true
  /\ submit_takes_the_factory_lock = true.
Proof. repeat split; reflexivity. Qed.
Print Assumptions C09_structure.

Example C09_example :
  let g := hrun [ECall a1; ECall a2; EBreak; ECall a2; ECall a3; EUserShutdown false; ECall (mkargs None 8 RTrue false CtxNone)] (g0 16) in
  all_ids g = [0; 1; 2; 3]%nat /\ map xmax (g_retired g) = [3; 3; 3] /\ option_map xmax (g_cur g) = Some 3.
Proof. vm_compute. auto. Qed.
