(* C14 — synchronisation primitives keep their contracts under every interleaving.
   Subjects: Model/Cond.v (Condition over three semaphores; tied to the code by trace validation of the real
   loky.backend.synchronize.Condition on the simulated kernel and by the source tripwire Char/SyncChar.v),
   Model/Sem.v (counting semaphore / recursive mutex) with the constructor tuples generated from the source. *)
From Coq Require Import List Arith Bool.
From LokyV Require Import Model.Cond Proofs.CondInv Proofs.CondThm Model.Sem Proofs.SemThm Gen.Sync Char.SyncChar.
From LokyV Require Lib.EventLib Gen.Event Model.Event Proofs.EventThm.
Import ListNotations.

(* ---- Condition: for any number of waiters and notifiers, any interleaving of their semaphore operations,
        time-outs firing at any instant ---- *)
Theorem C14_asserts_never_fail : forall s t, reachable s -> pc_of s t <> AssertFailed.
Proof. exact asserts_never_fail. Qed.
Print Assumptions C14_asserts_never_fail.

Theorem C14_cond_lock_mutex :
  forall s t t', reachable s -> holds (pc_of s t) = true -> holds (pc_of s t') = true -> t = t'.
Proof. exact lock_mutex. Qed.
Print Assumptions C14_cond_lock_mutex.

Theorem C14_wait_returns_holding_the_lock :
  forall s t tmo got, reachable s -> pc_of s t = WDone tmo got -> lock s = Some t.
Proof. exact wait_returns_with_lock. Qed.
Print Assumptions C14_wait_returns_holding_the_lock.

Theorem C14_wait_false_only_after_timeout :
  forall s t tmo, reachable s -> pc_of s t = WDone tmo false -> tmo = true.
Proof. exact false_only_after_timeout. Qed.
Print Assumptions C14_wait_false_only_after_timeout.

(* notify_all: once it has its acknowledgements nobody is left between sleeping.release and woken.release;
   in particular no waiter (timed or not) is still blocked on the wait semaphore *)
Theorem C14_notify_all_wakes_everyone :
  forall s h p, reachable s -> lock s = Some h -> pc_of s h = NDrain true p ->
    sumf inA (thr s) = 0 /\ sumf inB (thr s) = 0 /\ woken s = 0 /\ sleeping s = 0.
Proof. exact notify_all_wakes_everyone. Qed.
Print Assumptions C14_notify_all_wakes_everyone.
Theorem C14_notify_all_no_waiter_left_asleep :
  forall s h p t tmo, reachable s -> lock s = Some h -> pc_of s h = NDrain true p -> pc_of s t <> WBlocked tmo.
Proof. exact notify_all_no_waiter_left_asleep. Qed.
Print Assumptions C14_notify_all_no_waiter_left_asleep.

(* notify wakes at most one: it posts exactly one token, and every True return consumed a posted token *)
Theorem C14_notify_at_most_one : forall s t p k, reachable s -> pc_of s t = NWait false p k -> p = 1.
Proof. exact notify_posts_at_most_one. Qed.
Print Assumptions C14_notify_at_most_one.
Theorem C14_tokens_accounted : forall s, reachable s -> wsem s + consumed s + stolen s = posted s.
Proof. exact tokens_accounted. Qed.
Print Assumptions C14_tokens_accounted.

(* no burst leaves it unusable: between notifications the wait semaphore is zero and
   sleeping - woken = number of threads inside wait() *)
Theorem C14_wsem_zero_when_quiet : forall s, reachable s -> cur_posted (holder_pc s) = 0 -> wsem s = 0.
Proof. exact wsem_zero_when_quiet. Qed.
Print Assumptions C14_wsem_zero_when_quiet.
Theorem C14_sleeping_minus_woken :
  forall s, reachable s -> out (holder_pc s) = 0 -> canc (holder_pc s) = 0 ->
    sleeping s = woken s + sumf inA (thr s) + sumf inB (thr s).
Proof. exact sleeping_minus_woken. Qed.
Print Assumptions C14_sleeping_minus_woken.

(* "notify does wake one if some waiter's timeout is not expiring" is FALSE of the faithful model (finding N1):
   an 18-step schedule after which notify() has returned, the untimed waiter still sleeps and the token is gone *)
Theorem C14_notify_wakes_one_refuted :
  exists s, Cond.run init n1_schedule = Some s
            /\ pc_of s 0 = Idle /\ pc_of s 1 = WBlocked false
            /\ wsem s = 0 /\ posted s = 1 /\ consumed s = 0 /\ stolen s = 1.
Proof. exact notify_wakes_one_refuted. Qed.
Print Assumptions C14_notify_wakes_one_refuted.

(* ---- Lock / RLock / Semaphore / BoundedSemaphore ---- *)
Theorem C14_constructor_parameters :
  lock_params = (Semaphore, 1, 1) /\ rlock_params = (RecursiveMutex, 1, 1)
  /\ (forall v, semaphore_params v = (Semaphore, v, SEM_VALUE_MAX)) /\ (forall v, bounded_params v = (Semaphore, v, v)).
Proof. exact (conj lock_params_ok (conj rlock_params_ok (conj semaphore_params_ok bounded_params_ok))). Qed.
Print Assumptions C14_constructor_parameters.

Theorem C14_bounded_never_above_max :
  forall ops s held s' held',
    skind s = Semaphore -> value s <= maxvalue s -> Sem.run s held ops = Some (s', held') -> value s' <= maxvalue s'.
Proof. exact bounded_never_above_max. Qed.
Print Assumptions C14_bounded_never_above_max.
Theorem C14_over_release_refused : forall t n, release t (new Semaphore n n) = ValueError.
Proof. exact over_release_refused. Qed.
Print Assumptions C14_over_release_refused.
(* Semaphore(n) / Lock: value + tokens held is constant, so never more than n holders *)
Theorem C14_semaphore_conservation :
  forall ops s held s' held',
    skind s = Semaphore -> Sem.run s held ops = Some (s', held') ->
    (forall pre t post sx hx, ops = pre ++ Rel t :: post -> Sem.run s held pre = Some (sx, hx) -> 1 <= hx) ->
    value s' + held' = value s + held.
Proof. exact semaphore_conservation. Qed.
Print Assumptions C14_semaphore_conservation.
Theorem C14_rlock_reentrant_for_owner_only :
  forall t t' v m c, t' <> t ->
    (exists s', try_acquire t (mksem RecursiveMutex 0 m (Some t) (S c)) = Done s' /\ count s' = S (S c))
    /\ try_acquire t' (mksem RecursiveMutex 0 m (Some t) (S c)) = WouldBlock
    /\ release t' (mksem RecursiveMutex v m (Some t) (S c)) = AssertionError.
Proof. exact rlock_reentrant_for_owner_only. Qed.
Print Assumptions C14_rlock_reentrant_for_owner_only.

(* ---- Event (Model/Event.v; the four method bodies are Gen/Event.v, regenerated from the source) ---- *)
Theorem C14_event_wait_returns_true_iff_set :
  forall s e t b r, Event.reach s -> Event.step s e = (fst (Event.step s e), Event.ORet t (Event.MWait b) r) ->
    r = Some (EventThm.is_set_now (fst (Event.step s e))) /\ Event.flag (fst (Event.step s e)) = Event.flag s.
Proof. exact EventThm.wait_returns_true_iff_set. Qed.
Print Assumptions C14_event_wait_returns_true_iff_set.

Theorem C14_event_flag_is_binary_and_no_sleeper_while_set :
  forall s, Event.reach s -> Event.flag s <= 1 /\
    (Event.flag s = 1 -> Forall (fun p => Event.woken (snd p) = true) (Event.thr s)).
Proof. intros s R. destruct (EventThm.reach_inv s R) as (H1 & _ & H3). split; assumption. Qed.
Print Assumptions C14_event_flag_is_binary_and_no_sleeper_while_set.

Theorem C14_event_set_wakes_everyone :
  forall s t, Event.reach s -> Event.find t (Event.thr s) = None ->
    let s' := fst (Event.step s (Event.Call t Event.MSet)) in
    Event.flag s' = 1 /\ map fst (Event.thr s') = map fst (Event.thr s) /\
    Forall (fun p => Event.woken (snd p) = true) (Event.thr s') /\
    snd (Event.step s (Event.Call t Event.MSet)) = Event.ORet t Event.MSet None.
Proof. exact EventThm.set_sets_and_wakes_everyone. Qed.
Print Assumptions C14_event_set_wakes_everyone.

Theorem C14_event_is_set_and_clear :
  forall s t, Event.reach s -> Event.find t (Event.thr s) = None ->
    Event.step s (Event.Call t Event.MIsSet) = (s, Event.ORet t Event.MIsSet (Some (EventThm.is_set_now s)))
    /\ Event.step s (Event.Call t Event.MClear) = (Event.mke 0 (Event.thr s), Event.ORet t Event.MClear None).
Proof. intros s t R F. split; [apply EventThm.is_set_reads_the_flag | apply EventThm.clear_clears_and_wakes_nobody]; assumption. Qed.
Print Assumptions C14_event_is_set_and_clear.

Theorem C14_event_wait_sleeps_only_on_a_clear_event :
  forall s t b, Event.reach s -> Event.find t (Event.thr s) = None ->
    (Event.flag s = 1 -> Event.step s (Event.Call t (Event.MWait b)) = (s, Event.ORet t (Event.MWait b) (Some true)))
    /\ (Event.flag s = 0 -> snd (Event.step s (Event.Call t (Event.MWait b))) = Event.OSleep t).
Proof.
  intros s t b R F. split; intros Z.
  - apply EventThm.wait_on_a_set_event_returns_at_once; assumption.
  - rewrite (EventThm.wait_on_a_clear_event_sleeps s t b R F Z). reflexivity.
Qed.
Print Assumptions C14_event_wait_sleeps_only_on_a_clear_event.

Theorem C14_event_untimed_waiter_needs_a_set :
  forall s t st, Event.reach s -> Event.find t (Event.thr s) = Some st -> Event.tmeth st = Event.MWait false -> Event.woken st = false ->
    Event.step s (Event.Resume t) = (s, Event.ONone).
Proof. exact EventThm.untimed_waiter_needs_a_set. Qed.
Print Assumptions C14_event_untimed_waiter_needs_a_set.

Theorem C14_event_nothing_gets_stuck : forall s e, Event.reach s -> snd (Event.step s e) <> Event.OStuck.
Proof. exact EventThm.nothing_gets_stuck. Qed.
Print Assumptions C14_event_nothing_gets_stuck.
