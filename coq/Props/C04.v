(* C04 — task-level failures are contained to their own future.
   Subject: Model/TokenFlow.v (tied to /repo by trace validation). *)
From Coq Require Import List Arith Bool.
From LokyV Require Import Model.TokenFlow Proofs.TokenFlowInv Proofs.TokenFlowThm.
From LokyV Require Lib.WorkerLib Gen.Worker Proofs.WorkerThm.
From LokyV Require Lib.FlowLib Gen.Flow Model.FlowTie Proofs.FlowTieThm Lib.PoolLib Gen.Pool.
From LokyV Require Lib.LockLib Model.LockOrder Proofs.LockOrderThm.
From LokyV Require Gen.LockOrder.
Module LockOrderG := LokyV.Gen.LockOrder.
Import ListNotations.

(* every step other than the pool-wide failure of terminate_broken changes at most the future of the work id
   it is about: an unsendable task (feeder error path), a raising task, a failed result pickle resolve their own
   future and leave every sibling's untouched *)
Theorem C04_one_future_per_step :
  forall s l s' w, step s l = Some s' -> mass_failure l = false -> subject s l <> Some w -> fut s' w = fut s w.
Proof. exact one_future_per_step. Qed.
Print Assumptions C04_one_future_per_step.

(* queue slots are conserved by every step: the feeder's error path gives back exactly the slot the manager
   took, whatever the queue fill level; a slot is only ever lost with a worker that dies between receiving an
   item and releasing its slot (counted by [slots]) *)
Theorem C04_slots_conserved : forall s l s', step s l = Some s' -> slots s' = slots s.
Proof. exact slots_conserved. Qed.
Print Assumptions C04_slots_conserved.
Theorem C04_slots_invariant : forall cap s, reachable cap s -> slots s = cap.
Proof. exact slots_invariant. Qed.
Print Assumptions C04_slots_invariant.

(* a failed send never runs the task and never produces a value for it *)
Theorem C04_token_unique :
  forall cap s w, reachable cap s ->
    pre s w + post s w + down s w <= 1 /\ (In w (executed s) -> pre s w + post s w = 0).
Proof. exact token_unique. Qed.
Print Assumptions C04_token_unique.

(* non-vacuity: an unsendable task on a full one-slot queue, followed by a good task that still gets through *)
Example C04_example :
  match run (init 1) [USubmitA 0; USubmitB 0; USubmitA 0; USubmitB 0; MTake; MSetRunning; MAddRunning; MAcqSlot;
                      MBufAppend; FPop; FErrRelease; FErrPop; FErrRemove; FErrSet;
                      MTake; MSetRunning; MAddRunning; MAcqSlot; MBufAppend; FPop; FSend] with
  | Some s => fut s 0 = Some (FDone SendErr) /\ fut s 1 = Some FRunning /\ cpipe s = [ICall 1] /\ slots s = 1
              /\ pending s = [1] /\ running s = [1]
  | None => False
  end.
Proof. vm_compute. repeat split; reflexivity. Qed.

(* ---- inside the worker (its main loop is Gen/Worker.v, regenerated from _process_worker) ---- *)
(* a call item taken from the queue yields exactly one message for its future -- the result, the task's exception, or the error of
   sending the result -- and the worker goes on to the next item, whatever the task raised (BaseException included) *)
Theorem C04_worker_contains_task_failures :
  forall e, WorkerLib.get e = WorkerLib.GItem ->
    WorkerLib.count WorkerLib.is_result (WorkerLib.acts (WorkerThm.it e)) = 1 /\
    WorkerLib.count WorkerLib.is_run (WorkerLib.acts (WorkerThm.it e)) = 1 /\
    WorkerLib.wfin (WorkerThm.it e) = (if WorkerLib.psutil e && WorkerLib.leak e then WorkerLib.FReturn else WorkerLib.FNext).
Proof.
  intros e G. destruct (WorkerThm.one_item_one_message e) as [A B]. rewrite G in A, B. simpl in A, B.
  repeat split; try assumption. apply WorkerThm.task_failure_is_contained, G.
Qed.
Print Assumptions C04_worker_contains_task_failures.

Theorem C04_worker_sends_nothing_without_an_item :
  forall e, WorkerLib.get e <> WorkerLib.GItem -> WorkerLib.count WorkerLib.is_result (WorkerLib.acts (WorkerThm.it e)) = 0.
Proof. intros e G. destruct (WorkerThm.one_item_one_message e) as [A _]. destruct (WorkerLib.get e); simpl in A; congruence. Qed.
Print Assumptions C04_worker_sends_nothing_without_an_item.

(* ---- the token-flow model follows the source (Model/FlowTie.v) ----
   Besides trace validation (sampled schedules) the model is tied to the code by the ORDER in which each thread mutates the shared
   structures.  (1) Every step of TokenFlow.step -- any state, any label -- moves the acting thread's program counter along an edge
   of a small automaton and leaves the other threads' counters alone.  (2) The cycles of those automata from idle back to idle are
   exactly the mutation paths of the programs re-read from the source on every run (Gen/Flow.v: add_call_item_to_queue,
   process_result_item, _on_queue_feeder_error + Queue._feed, the forced-shutdown loop; Gen/Pool.v: submit):
     manager, dispatch : work id taken; set_running_or_notify_cancel; then running list, queue slot, buffer -- or, cancelled: del pending
     manager, result   : item popped from the table; future resolved; running list -- or nothing when the item is gone
     feeder            : buffer pop; send -- or slot given back; item popped; running list; future failed if the item was there
     forced shutdown   : popitem; future failed                submit : table entry first, id published second *)
Theorem C04_token_flow_follows_the_source :
  (forall s l s', step s l = Some s' -> FlowTieThm.conforms s l s') /\
  FlowTie.same_paths (FlowLib.paths Flow.add_call_item_prog) (FlowTie.starting_with (FlowTie.EK FlowLib.KTakeId) true FlowTie.mgr_cycles) = true /\
  FlowTie.same_paths (FlowLib.paths Flow.process_result_prog ++ [[]]) (FlowTie.starting_with FlowTie.ERecv false FlowTie.mgr_cycles) = true /\
  FlowTie.same_paths (FlowLib.paths Flow.feed_send_loop
                      ++ map (cons FlowLib.KPopBuffer) (FlowLib.paths (FlowLib.inline_hook Flow.feed_error_tail Flow.feeder_error_prog)))
                     (FlowTie.starting_with (FlowTie.EK FlowLib.KPopBuffer) true FlowTie.fdr_cycles) = true /\
  FlowTie.same_paths (FlowLib.paths Flow.forced_fail_body) (FlowTie.starting_with (FlowTie.EK FlowLib.KPopItem) true FlowTie.mgr_cycles) = true /\
  In (FlowTie.submit_publication Pool.submit_prog) FlowTie.usr_cycles.
Proof.
  split; [exact FlowTieThm.step_conforms|]. split; [exact FlowTieThm.add_call_item_order|]. split; [exact FlowTieThm.process_result_order|].
  split; [exact FlowTieThm.feeder_order|]. split; [exact FlowTieThm.forced_fail_order | exact FlowTieThm.submit_order].
Qed.
Print Assumptions C04_token_flow_follows_the_source.

(* done-callbacks never run under one of the executor's own locks: in the relation read off the source (Gen/LockOrder.v) the only
   thing held when a future is completed is the pseudo-lock of the thread doing it -- a callback that submits follow-up work cannot
   find the shutdown lock or the management lock taken by its own caller *)
Theorem C04_callbacks_run_outside_the_locks :
  forallb (fun e => negb (LockLib.lk_eqb (snd e) LockLib.UserCb) || LockLib.lk_eqb (fst e) LockLib.TMgr) LockOrderG.lock_edges = true.
Proof. exact LockOrderThm.callbacks_run_outside_the_locks. Qed.
Print Assumptions C04_callbacks_run_outside_the_locks.

(* a task's exception travels to the parent as the instance itself -- pickled with its own reducer, so its type, every constructor
   argument and every attribute arrive -- with the formatted remote traceback attached as __cause__ on arrival (shape fact of
   _ExceptionWithTraceback / _rebuild_exc; exceptions that are not type(e)( *e.args ) are exercised by the check: family excs and the
   transport zoo) *)
Theorem C04_exception_transport : Worker.task_exception_travels_as_the_instance_with_its_traceback_text = true.
Proof. reflexivity. Qed.
Print Assumptions C04_exception_transport.
