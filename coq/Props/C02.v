(* C02 — abrupt worker death is always detected and fails the pool loudly.
   Subject: Model/Pool.v over the operation lists of terminate_broken / join_executor_internals (Gen/Ledger.v) and submit() / the flag
   setters (Gen/Pool.v), all regenerated from the source.  Identity of the failed futures is Model/TokenFlow.v's business (C03/C04). *)
From Coq Require Import List Arith Bool.
From LokyV Require Import Lib.LedgerLib Lib.PoolLib Gen.Ledger Gen.Pool Model.Pool Proofs.PoolThm.
From LokyV Require Lib.WorkerLib Gen.Worker Proofs.WorkerThm.
From LokyV Require Lib.ExitLib Gen.Exit Proofs.ExitThm.
From LokyV Require Lib.ResizeLib Gen.Resize Model.Watch Proofs.WatchThm.
From LokyV Require Model.FailLoop Proofs.FailLoopThm.
From LokyV Require Lib.DetectLib Model.Detect Proofs.DetectThm.
From LokyV Require Gen.Detect.
Module DetectG := LokyV.Gen.Detect.
Import ListNotations.

(* at every point of every interleaving of submit / shutdown / deaths / idle exits / completions with the manager walking its lists
   one operation at a time: a future has been failed with the BrokenProcessPool error only if the broken flag is already set *)
Theorem C02_loud_before_any_broken_future :
  forall n es, failB (run es (pool0 n)) > 0 -> broken (run es (pool0 n)) = true.
Proof. exact loud_before_any_broken_future. Qed.
Print Assumptions C02_loud_before_any_broken_future.

(* ... and with the flag set every later submit raises *)
Theorem C02_broken_pool_refuses :
  forall p, user p = true -> sub p = None -> broken p = true ->
    pending (step p Submit) = pending p /\ refused (step p Submit) = S (refused p) /\ submitted (step p Submit) = submitted p
    /\ sub (step p Submit) = None.
Proof. exact broken_pool_refuses. Qed.
Print Assumptions C02_broken_pool_refuses.

(* from any state of the loop in which some worker is dead: the manager alone, in 12 of its own steps, fails every unresolved
   future with that error, kills and reaps every worker, and ends -- whatever the flags, the table and the counts were *)
Theorem C02_death_fails_everything_loudly :
  forall u sh k gs mx pr1 pr2 pn su okc fb fs rf,
    let p := mkp u sh false k gs mx (pr1 ++ WDead :: pr2) pn su okc fb fs rf MLoop None in
    let q := run broken_steps p in
    mgr q = MDone /\ broken q = true /\ pending q = 0 /\ procs q = [] /\ failB q = fb + pn /\ ok q = okc /\ failS q = fs.
Proof. exact death_fails_everything_loudly. Qed.
Print Assumptions C02_death_fails_everything_loudly.

(* when the manager is gone nothing is unresolved, no worker is registered, and nothing can be accepted any more *)
Theorem C02_manager_gone_means_all_settled :
  forall n es, mgr (run es (pool0 n)) = MDone ->
    pending (run es (pool0 n)) = 0 /\ procs (run es (pool0 n)) = [] /\ closed (run es (pool0 n)) = true.
Proof. exact manager_gone_means_all_settled. Qed.
Print Assumptions C02_manager_gone_means_all_settled.

(* _resize() top-ups included: they happen only while the pool is neither broken nor shut down (generated fact
   resize_tops_up_only_on_a_live_pool; false on the pinned source, finding H8, fixed).  Without the guard a top-up that arrives after
   the manager has gone leaves workers that are never killed nor reaped: *)
Theorem C02_unguarded_resize_refuted :
  exists es, let p := run es (pool0 2) in mgr p = MDone /\ procs p = [] /\ broken p = true /\ procs (top_up p) <> [] /\ step p ResizeTopUp = p.
Proof.
  exists (submit_all ++ [Crash 0; Detect; MgrOp; MgrOp; MgrOp; MgrOp; MgrOp; MgrOp; MgrOp; MgrOp; MgrOp; MgrOp; MgrOp]).
  vm_compute. repeat split; discriminate.
Qed.
Print Assumptions C02_unguarded_resize_refuted.

Theorem C02_structure :
  kill_workers_pops_and_kills_each = true /\ broken_by_sentinel_polls_exit_codes = true /\ flags_start_clear = true
  /\ kill_tree_psutil_joins_otherwise = true /\ kill_tree_nopsutil_always_joins = true.
Proof. repeat split; reflexivity. Qed.
Print Assumptions C02_structure.

(* ---- inside the worker (Gen/Worker.v) ---- *)
(* a call item that cannot be decoded in the worker is loud: the traceback is sent and the worker exits with status 1; and a worker
   never ends cleanly without having announced it (so that any other end is a death the manager must detect) *)
Theorem C02_worker_never_leaves_silently :
  forall e, (WorkerLib.get e = WorkerLib.GError -> WorkerLib.wfin (WorkerThm.it e) = WorkerLib.FExit1 /\ In WorkerLib.APutTraceback (WorkerLib.acts (WorkerThm.it e))) /\
            (WorkerLib.wfin (WorkerThm.it e) = WorkerLib.FReturn -> WorkerLib.count WorkerLib.is_pid (WorkerLib.acts (WorkerThm.it e)) = 1) /\
            (WorkerLib.wfin (WorkerThm.it e) <> WorkerLib.FReturn -> WorkerLib.count WorkerLib.is_pid (WorkerLib.acts (WorkerThm.it e)) = 0) /\
            WorkerLib.wfin (WorkerThm.it e) <> WorkerLib.FStuck.
Proof.
  intros e. split; [apply WorkerThm.undecodable_item_is_loud|]. destruct (WorkerThm.clean_exit_iff_announced e) as (A & B & _).
  repeat split; try assumption. apply WorkerThm.iteration_never_stuck.
Qed.
Print Assumptions C02_worker_never_leaves_silently.

(* ---- every registered worker is watched (Model/Watch.v; finding H13, fixed) ----
   the manager notices a death through the sentinels it waits on, a list it rebuilds each time it goes to sleep.  submit() and
   _resize() register new workers from other threads; they write the wake-up byte AFTER the registration (the two orders are read off
   submit_prog and resize_prog).  Hence: whenever the manager sleeps with nothing on its way to wake it and no submit / resize in
   progress, no registered worker is missing from its list -- any death will be noticed.  On the pinned source submit() woke the
   manager first: the worker re-started for the first task after an idle period was not watched, and a crash of that task hung the
   future for ever (20 of 20 real runs). *)
Theorem C02_every_registered_worker_is_watched :
  forall es, let s := Watch.run es Watch.wt0 in Watch.quiet s = true -> Watch.unw s = 0.
Proof. exact WatchThm.every_registered_worker_is_watched. Qed.
Print Assumptions C02_every_registered_worker_is_watched.

Example C02_h13_wake_up_before_the_spawn :
  let s := fold_left (Watch.step_with [Watch.UWake; Watch.USpawn] [])
             [Watch.MgrSnapshot; Watch.SubmitBegin; Watch.UserStep 0; Watch.MgrWake; Watch.MgrSnapshot; Watch.UserStep 1] Watch.wt0 in
  Watch.quiet s = true /\ Watch.unw s = 1.
Proof. vm_compute. split; reflexivity. Qed.

(* ---- failing the table (Model/FailLoop.v; finding H14, fixed) ----
   terminate_broken(): `for work_item in pending_work_items.values(): work_item.future.set_exception(bpe)`.
   A future still waiting in the table can be cancelled by its owner at any moment, also between two iterations, and
   Future.set_exception() raises InvalidStateError on a cancelled future.  How the loop guards the call is read off the source
   (broken_path_fail_guard).  For every table and every interleaving of cancellations with the loop: the error never escapes (the
   manager thread survives), when the loop has ended every item has an outcome (failed by the manager, or cancelled by its owner) and
   none was lost, and it ends after one step per item plus one.  On the pinned source the call was bare: one cancelled future killed
   the manager thread, the items after it were never failed, the workers neither killed nor joined (real reproduction
   findings/H14_real.py). *)
Theorem C02_failing_the_table_never_kills_the_manager :
  forall table es, let s := FailLoop.run broken_path_fail_guard es (FailLoop.start table) in
    FailLoop.lphase s <> FailLoop.Crashed /\
    (FailLoop.lphase s = FailLoop.Finished ->
       FailLoop.todo s = [] /\ forallb FailLoop.terminal (FailLoop.handled s) = true /\ length (FailLoop.handled s) = length table) /\
    (length table < FailLoop.mgr_steps es -> FailLoop.lphase s = FailLoop.Finished).
Proof. exact FailLoopThm.guarded_loop_never_crashes. Qed.
Print Assumptions C02_failing_the_table_never_kills_the_manager.

Example C02_h14_bare_call :
  let s := FailLoop.run NoGuard [FailLoop.Cancel 1; FailLoop.Mgr; FailLoop.Mgr] (FailLoop.start [FailLoop.Waiting; FailLoop.Waiting; FailLoop.Waiting]) in
  FailLoop.lphase s = FailLoop.Crashed /\ FailLoop.todo s = [FailLoop.Cancelled; FailLoop.Waiting].
Proof. vm_compute. split; reflexivity. Qed.

(* ---- the decision of the manager's wait (Gen/Detect.v: wait_result_broken_or_wakeup translated statement by statement) ----
   for every behaviour of the environment of one round (which pipes wait() reports ready, what recv() yields): the manager waits,
   without time-out, on the result pipe, the wake-up pipe and the sentinel of EVERY registered worker; it reads at most one message
   and only when the result pipe was reported ready; it says "broken" exactly when that message is a worker's traceback or cannot be
   decoded, or when neither pipe was reported ready (only a sentinel can then have ended the wait); the error it builds is of the
   matching kind and exists exactly when it says broken; it drains the wake-up pipe; it returns and never raises *)
Theorem C02_round_decision :
  forall e, let o := Detect.outcome e in
    DetectLib.d_returned o = true /\ DetectLib.d_raised o = false /\ DetectLib.d_waited o = true /\ DetectLib.d_cleared o = true /\
    DetectLib.d_broken o = Some (DetectThm.want_broken e) /\
    (exists k, DetectLib.d_bpe o = Some k /\ DetectThm.bpe_eqb k (DetectThm.want_bpe e) = true) /\
    DetectLib.d_recvs o = (if DetectLib.res_ready e then 1 else 0) /\
    (DetectLib.d_item o = DetectLib.IItem <-> DetectLib.res_ready e = true /\ DetectLib.rc e = DetectLib.RItem).
Proof. exact DetectThm.round_decision. Qed.
Print Assumptions C02_round_decision.

(* ---- a death is out-prioritised only by messages (Model/Detect.v) ----
   the sentinel of a dead process stays ready, so the manager is never blocked while a registered worker is dead; a round that does not
   flag the pool consumed a result message or the pending wake-ups: for every history of rounds (the OS choosing what wait() reports),
   arriving messages, wake-ups and deaths, the number of rounds made with a dead registered worker that did not flag the pool is at
   most the messages and wake-ups that were waiting plus those that arrived; with both pipes empty the next round flags it *)
Theorem C02_death_is_outprioritised_only_by_messages :
  (forall es s, Detect.quiet_rounds (Detect.drun_all es s) + Detect.backlog (Detect.drun_all es s)
                <= Detect.quiet_rounds s + Detect.backlog s + Detect.arrivals es) /\
  (forall s, Detect.dead s = true -> Detect.flagged s = false -> Detect.round_possible s false false = true) /\
  (forall s rr wr r, Detect.dead s = true -> Detect.msgs s = 0 -> Detect.wakes s = 0 -> Detect.round_possible s rr wr = true ->
                     Detect.flagged (Detect.dstep s (Detect.Round rr wr r)) = true).
Proof.
  split; [exact DetectThm.quiet_rounds_are_paid_by_messages|]. split; [exact DetectThm.dead_worker_ends_the_wait | exact DetectThm.empty_pipes_then_flagged].
Qed.
Print Assumptions C02_death_is_outprioritised_only_by_messages.

Theorem C02_wakeup_pipe_structure :
  DetectG.wakeup_writes_one_message_unless_closed = true /\ DetectG.clear_drains_every_message_unless_closed = true
  /\ DetectG.close_closes_both_ends_once = true.
Proof. repeat split; reflexivity. Qed.
Print Assumptions C02_wakeup_pipe_structure.

From Coq Require Import String ZArith.

(* ---- the exit codes in the error (Gen/Exit.v: _get_exitcode_name and _format_exitcodes translated from loky/backend/utils.py) ----
   the string put into the TerminatedWorkerError lists every exit code that is not None, in order, as NAME(code): the signal's name
   for a negative code (UNKNOWN if the OS has no such signal), EXIT for a status other than 255, UNKNOWN for 255; sig is the OS's
   table signal.Signals(n).name *)
Theorem C02_error_names_every_exit_code :
  forall (sig : BinNums.Z -> option String.string) (codes : list (option BinNums.Z)),
    ExitThm.format_exitcodes sig codes
    = String.append "{"%string (String.append (String.concat ", "%string (map (fun e => String.append (ExitThm.name sig e) (String.append "("%string (String.append (ExitLib.dec e) ")"%string)))
                                                              (ExitLib.somes codes))) "}"%string).
Proof. exact ExitThm.format_names_every_exit_code. Qed.
Print Assumptions C02_error_names_every_exit_code.

Theorem C02_exit_code_names :
  forall (sig : BinNums.Z -> option String.string) (e : BinNums.Z),
    (BinInt.Z.lt e BinNums.Z0 -> forall n, sig (BinInt.Z.opp e) = Some n -> ExitThm.name sig e = n) /\
    (BinInt.Z.lt e BinNums.Z0 -> sig (BinInt.Z.opp e) = None -> ExitThm.name sig e = "UNKNOWN"%string) /\
    (BinInt.Z.le BinNums.Z0 e -> e <> 255%Z -> ExitThm.name sig e = "EXIT"%string) /\
    ExitThm.name sig 255%Z = "UNKNOWN"%string.
Proof.
  intros sig e. split; [|split; [|split]].
  - intros H n S. apply ExitThm.name_of_a_signal; assumption.
  - apply ExitThm.name_of_an_unknown_signal.
  - apply ExitThm.name_of_an_exit_status.
  - apply ExitThm.name_of_255.
Qed.
Print Assumptions C02_exit_code_names.

(* the exit codes of all registered workers that have one are collected (bounded polling) and the string is part of the message *)
Theorem C02_exit_codes_structure :
  Exit.exit_codes_of_all_registered_workers_are_collected_with_bounded_polling = true /\ Exit.terminated_worker_error_names_the_exit_codes = true
  /\ ExitLib.f_skips_none Exit.exitcodes_fmt = true.
Proof. exact ExitThm.structure_ok. Qed.
Print Assumptions C02_exit_codes_structure.
