(* C07 — idle-timeout exits never lose or duplicate a task (the "never broken / re-spawn" clauses are
   decided by the schedule exploration, see DESIGN.md).  Subject: Model/TokenFlow.v. *)
From Coq Require Import List Arith Bool.
From LokyV Require Import Model.TokenFlow Proofs.TokenFlowInv Proofs.TokenFlowThm.
Import ListNotations.

(* a worker's idle time-out is not a step of the token flow: whatever the instants at which time-outs,
   re-spawns (WSpawn) and resizes (sentinels through the call queue) happen, *)
Theorem C07_no_duplicate_execution : forall cap s, reachable cap s -> NoDup (executed s).
Proof. exact at_most_once. Qed.
Print Assumptions C07_no_duplicate_execution.

Theorem C07_token_unique :
  forall cap s w, reachable cap s ->
    pre s w + post s w + down s w <= 1 /\ (In w (executed s) -> pre s w + post s w = 0).
Proof. exact token_unique. Qed.
Print Assumptions C07_token_unique.

(* a worker that consumed a sentinel (resize / shutdown) holds no task: in the model a sentinel and a call item
   are different items and [WTakeSentinel] is only enabled on a sentinel *)
Theorem C07_sentinel_exit_holds_no_task :
  forall s p s', step s (WTakeSentinel p) = Some s' -> wpc_of s p = WHold ISent /\ executed s' = executed s.
Proof.
  intros s p s' H. cbn [step] in H. destruct (wpc_of s p) as [| |[w|]| |] eqn:E; try discriminate.
  inversion H; subst. auto.
Qed.
Print Assumptions C07_sentinel_exit_holds_no_task.
