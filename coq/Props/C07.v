(* C07 — idle-timeout exits never lose or duplicate a task (the "never broken / re-spawn" clauses are
   decided by the schedule exploration, see DESIGN.md).  Subject: Model/TokenFlow.v. *)
From Coq Require Import List Arith Bool.
From LokyV Require Import Model.TokenFlow Proofs.TokenFlowInv Proofs.TokenFlowThm.
From LokyV Require Lib.PoolLib Gen.Pool Model.Pool Proofs.PoolThm.
From LokyV Require Lib.WorkerLib Gen.Worker Proofs.WorkerThm.
From LokyV Require Lib.FlowLib Gen.Flow Model.FlowTie Proofs.FlowTieThm Lib.PoolLib Gen.Pool.
Import ListNotations.

(* a worker's idle time-out is not a step of the token flow: whatever the instants at which time-outs,
   re-spawns (WSpawn) and resizes (sentinels through the call queue) happen, *)
Theorem C07_no_duplicate_execution : forall cap s, reachable cap s -> NoDup (executed s).
Proof. exact at_most_once. Qed.
Print Assumptions C07_no_duplicate_execution.

Theorem C07_token_unique :
  forall cap s w, reachable cap s ->
    pre s w + post s w + down s w <= 1 /\ (In w (executed s) -> pre s w + post s w = 0).
Proof. exact token_unique. Qed.
Print Assumptions C07_token_unique.

(* a worker that consumed a sentinel (resize / shutdown) holds no task: in the model a sentinel and a call item
   are different items and [WTakeSentinel] is only enabled on a sentinel *)
Theorem C07_sentinel_exit_holds_no_task :
  forall s p s', step s (WTakeSentinel p) = Some s' -> wpc_of s p = WHold ISent /\ executed s' = executed s.
Proof.
  intros s p s' H. cbn [step] in H. destruct (wpc_of s p) as [| |[w|]| |] eqn:E; try discriminate.
  inversion H; subst. auto.
Qed.
Print Assumptions C07_sentinel_exit_holds_no_task.

(* control side (Model/Pool.v, lists regenerated from the source): an idle exit neither breaks the pool nor touches a future; when
   the manager reaps it while work waits it refills the pool; and submit() registers the job BEFORE it tops the pool up, so an
   exit that lands in between is seen by the manager (pending work) or by the submit itself (short pool) *)
Theorem C07_idle_exit_is_not_a_break :
  forall p i, Pool.broken (Pool.step p (Pool.IdleExit i)) = Pool.broken p /\ Pool.pending (Pool.step p (Pool.IdleExit i)) = Pool.pending p.
Proof. exact PoolThm.idle_exit_is_not_a_break. Qed.
Print Assumptions C07_idle_exit_is_not_a_break.
Theorem C07_reap_refills_when_work_waits :
  forall p i, Pool.in_loop p = true -> nth_error (Pool.procs p) i = Some Pool.WExited -> Pool.user p = true -> Pool.pending p <> 0 ->
    length (Pool.procs p) <= Pool.maxw p ->
    length (Pool.procs (Pool.step p (Pool.Reap i))) = Pool.maxw p /\ Pool.broken (Pool.step p (Pool.Reap i)) = Pool.broken p
    /\ Pool.pending (Pool.step p (Pool.Reap i)) = Pool.pending p.
Proof. exact PoolThm.reap_refills_when_work_waits. Qed.
Print Assumptions C07_reap_refills_when_work_waits.
Theorem C07_submit_registers_before_topping_up :
  PoolThm.index_of PoolLib.SAddPending Pool.submit_prog < PoolThm.index_of PoolLib.SEnsureRunning Pool.submit_prog.
Proof. exact PoolThm.submit_registers_before_topping_up. Qed.
Print Assumptions C07_submit_registers_before_topping_up.
(* submit() is NOT atomic in this theorem: its statements interleave in every possible way with idle exits, reaps and completions.
   On a healthy referenced executor a registered job always has a registered worker, or the submit that registered it still has
   its top-up to do.  (Without the executor reference nobody re-spawns: finding H2.  With the two statements of submit() in the
   other order the job is lost: PoolThm.top_up_before_registering_loses_the_job, seeded change C07_b.) *)
Theorem C07_registered_job_always_has_a_worker_coming :
  forall n es, 0 < n -> forallb PoolThm.healthy_ev es = true -> let p := Pool.run es (Pool.pool0 n) in
    0 < Pool.pending p -> Pool.procs p <> [] \/ Pool.ensure_due p = true.
Proof. exact PoolThm.registered_job_always_has_a_worker_coming. Qed.
Print Assumptions C07_registered_job_always_has_a_worker_coming.
Theorem C07_structure : Pool.clean_exit_reads_counters_after_the_pop_and_respawns_when_work_waits = true.
Proof. reflexivity. Qed.
Print Assumptions C07_structure.

(* ---- inside the worker (Gen/Worker.v) ---- *)
(* an idle worker leaves only if the management lock is free at that moment (nobody is spawning or resizing), it only probes the
   lock (acquire immediately followed by release), announces its pid before it goes and waits for the hand-shake for a bounded time;
   with the lock taken it sends nothing and goes back to the queue *)
Theorem C07_idle_exit_protocol :
  forall e, WorkerLib.get e = WorkerLib.GEmpty ->
    (if WorkerLib.mgmt_free e then WorkerLib.wfin (WorkerThm.it e) = WorkerLib.FReturn
     else WorkerLib.wfin (WorkerThm.it e) = WorkerLib.FContinue /\ WorkerLib.acts (WorkerThm.it e) = []) /\
    (WorkerLib.wfin (WorkerThm.it e) = WorkerLib.FReturn -> WorkerLib.count WorkerLib.is_pid (WorkerLib.acts (WorkerThm.it e)) = 1) /\
    WorkerLib.acquire_then_release (WorkerLib.acts (WorkerThm.it e)) = true /\ WorkerLib.holds_mgmt (WorkerThm.it e) = false /\
    ~ In (WorkerLib.AWaitExit false) (WorkerLib.acts (WorkerThm.it e)).
Proof.
  intros e G. split; [apply WorkerThm.idle_exit_only_with_the_management_lock_free, G|].
  split; [apply WorkerThm.clean_exit_iff_announced|].
  destruct (WorkerThm.management_lock_is_only_probed e) as [A B]. repeat split; try assumption.
  apply WorkerThm.handshake_wait_is_bounded. rewrite G. destruct (WorkerLib.psutil e && WorkerLib.leak e); reflexivity.
Qed.
Print Assumptions C07_idle_exit_protocol.

(* ---- the token-flow model follows the source (Model/FlowTie.v) ----
   Besides trace validation (sampled schedules) the model is tied to the code by the ORDER in which each thread mutates the shared
   structures.  (1) Every step of TokenFlow.step -- any state, any label -- moves the acting thread's program counter along an edge
   of a small automaton and leaves the other threads' counters alone.  (2) The cycles of those automata from idle back to idle are
   exactly the mutation paths of the programs re-read from the source on every run (Gen/Flow.v: add_call_item_to_queue,
   process_result_item, _on_queue_feeder_error + Queue._feed, the forced-shutdown loop; Gen/Pool.v: submit):
     manager, dispatch : work id taken; set_running_or_notify_cancel; then running list, queue slot, buffer -- or, cancelled: del pending
     manager, result   : item popped from the table; future resolved; running list -- or nothing when the item is gone
     feeder            : buffer pop; send -- or slot given back; item popped; running list; future failed if the item was there
     forced shutdown   : popitem; future failed                submit : table entry first, id published second *)
Theorem C07_token_flow_follows_the_source :
  (forall s l s', step s l = Some s' -> FlowTieThm.conforms s l s') /\
  FlowTie.same_paths (FlowLib.paths Flow.add_call_item_prog) (FlowTie.starting_with (FlowTie.EK FlowLib.KTakeId) true FlowTie.mgr_cycles) = true /\
  FlowTie.same_paths (FlowLib.paths Flow.process_result_prog ++ [[]]) (FlowTie.starting_with FlowTie.ERecv false FlowTie.mgr_cycles) = true /\
  FlowTie.same_paths (FlowLib.paths Flow.feed_send_loop
                      ++ map (cons FlowLib.KPopBuffer) (FlowLib.paths (FlowLib.inline_hook Flow.feed_error_tail Flow.feeder_error_prog)))
                     (FlowTie.starting_with (FlowTie.EK FlowLib.KPopBuffer) true FlowTie.fdr_cycles) = true /\
  FlowTie.same_paths (FlowLib.paths Flow.forced_fail_body) (FlowTie.starting_with (FlowTie.EK FlowLib.KPopItem) true FlowTie.mgr_cycles) = true /\
  In (FlowTie.submit_publication Pool.submit_prog) FlowTie.usr_cycles.
Proof.
  split; [exact FlowTieThm.step_conforms|]. split; [exact FlowTieThm.add_call_item_order|]. split; [exact FlowTieThm.process_result_order|].
  split; [exact FlowTieThm.feeder_order|]. split; [exact FlowTieThm.forced_fail_order | exact FlowTieThm.submit_order].
Qed.
Print Assumptions C07_token_flow_follows_the_source.
