(* C08 — parallelism never exceeds max_workers and is actually delivered.  Subject: Model/Pool.v (registered workers) and
   Model/TokenFlow.v (call-queue slots); a worker runs at most one task at a time by construction of the worker loop. *)
From Coq Require Import List Arith Bool.
From LokyV Require Import Lib.LedgerLib Lib.PoolLib Gen.Ledger Gen.Pool Model.Pool Proofs.PoolThm.
From LokyV Require Lib.ResizeLib Gen.Resize.
Module ResizeG := LokyV.Gen.Resize.
Import ListNotations.

(* every history, resize top-ups from user threads included: never more registered workers than max_workers *)
Theorem C08_never_more_than_max :
  forall es p, length (procs p) <= maxw p -> length (procs (run es p)) <= maxw p.
Proof. exact never_more_than_max. Qed.
Print Assumptions C08_never_more_than_max.

(* every accepted submit tops the pool back up to exactly max_workers *)
Theorem C08_accepted_submit_fills_the_pool :
  forall p p', length (procs p) <= maxw p -> sexec submit_prog p = Some p' -> length (procs p') = maxw p /\ pending p' = S (pending p).
Proof. exact accepted_submit_fills_the_pool. Qed.
Print Assumptions C08_accepted_submit_fills_the_pool.

(* "actually delivered": with submit() not atomic, a registered job on a healthy referenced executor always has a registered worker
   or a top-up still to come, whatever the interleaving with idle exits, reaps and completions *)
Theorem C08_registered_job_always_has_a_worker_coming :
  forall n es, 0 < n -> forallb healthy_ev es = true -> let p := run es (pool0 n) in
    0 < pending p -> procs p <> [] \/ ensure_due p = true.
Proof. exact registered_job_always_has_a_worker_coming. Qed.
Print Assumptions C08_registered_job_always_has_a_worker_coming.
Theorem C08_structure :
  ensure_running_tops_up_then_starts_manager = true /\ spawn_creates_exit_lock_and_starts = true
  /\ clean_exit_reads_counters_after_the_pop_and_respawns_when_work_waits = true
  (* the reusable executor's call queue, created once, is sized from the host (2 * cpu_count() + 1 slots) and not from the number of
     workers it happens to start with (Gen/Resize.v).  Delivered parallelism is still bounded by that capacity: known finding H19 *)
  /\ ResizeG.call_queue_is_sized_from_the_host_cpu_count = true.
Proof. repeat split; reflexivity. Qed.
Print Assumptions C08_structure.
