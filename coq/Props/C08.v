(* C08 — parallelism never exceeds max_workers and is actually delivered.  Subject: Model/Pool.v (registered workers) and
   Model/TokenFlow.v (call-queue slots); a worker runs at most one task at a time by construction of the worker loop. *)
From Coq Require Import List Arith Bool.
From LokyV Require Import Lib.LedgerLib Lib.PoolLib Gen.Ledger Gen.Pool Model.Pool Proofs.PoolThm.
From LokyV Require Lib.ResizeLib Gen.Resize Model.QueueCap Proofs.QueueCapThm Lib.WorkerLib Gen.Worker Proofs.WorkerThm.
Module ResizeG := LokyV.Gen.Resize.
Module QC := LokyV.Model.QueueCap.
Import ListNotations.

(* every history, resize top-ups from user threads included: never more registered workers than max_workers *)
Theorem C08_never_more_than_max :
  forall es p, length (procs p) <= maxw p -> length (procs (run es p)) <= maxw p.
Proof. exact never_more_than_max. Qed.
Print Assumptions C08_never_more_than_max.

(* every accepted submit tops the pool back up to exactly max_workers *)
Theorem C08_accepted_submit_fills_the_pool :
  forall p p', length (procs p) <= maxw p -> sexec submit_prog p = Some p' -> length (procs p') = maxw p /\ pending p' = S (pending p).
Proof. exact accepted_submit_fills_the_pool. Qed.
Print Assumptions C08_accepted_submit_fills_the_pool.

(* "actually delivered": with submit() not atomic, a registered job on a healthy referenced executor always has a registered worker
   or a top-up still to come, whatever the interleaving with idle exits, reaps and completions *)
Theorem C08_registered_job_always_has_a_worker_coming :
  forall n es, 0 < n -> forallb healthy_ev es = true -> let p := run es (pool0 n) in
    0 < pending p -> procs p <> [] \/ ensure_due p = true.
Proof. exact registered_job_always_has_a_worker_coming. Qed.
Print Assumptions C08_registered_job_always_has_a_worker_coming.
Theorem C08_structure :
  ensure_running_tops_up_then_starts_manager = true /\ spawn_creates_exit_lock_and_starts = true
  /\ clean_exit_reads_counters_after_the_pop_and_respawns_when_work_waits = true
  (* the reusable executor's call queue, created once, is sized from the host (2 * cpu_count() + 1 slots) and not from the number of
     workers it happens to start with (Gen/Resize.v).  Delivered parallelism is still bounded by that capacity: known finding H19 *)
  /\ ResizeG.call_queue_is_sized_from_the_host_cpu_count = true.
Proof. repeat split; reflexivity. Qed.
Print Assumptions C08_structure.

(* ---- "actually delivered", counting RUNNING TASKS (Model/QueueCap.v: backlog, call-queue slots, busy workers, the sleeping manager) ----
   The full statement: once everything has settled (tasks that never end included) min(workers, unfinished tasks) tasks are running. *)

(* a plain executor (its queue has [plain_queue_slots max_workers] slots, formula regenerated from the source) delivers it, for every
   history of submits, manager rounds, worker takes and task completions *)
Theorem C08_plain_executor_delivers_its_parallelism :
  forall mw es, let s := QC.run false (ResizeG.plain_queue_slots mw) mw es QC.q0 in
    QC.settled (ResizeG.plain_queue_slots mw) mw s = true -> QC.r s = Nat.min mw (QC.unfinished s).
Proof.
  intros mw es. apply QueueCapThm.settled_parallelism_when_the_queue_is_large_enough. unfold ResizeG.plain_queue_slots.
  rewrite Nat.add_comm. simpl. rewrite Nat.add_0_r. apply le_S, Nat.le_add_r.
Qed.
Print Assumptions C08_plain_executor_delivers_its_parallelism.

(* so does the reusable executor as long as it has no more workers than its queue has slots (sized from the host) *)
Theorem C08_reusable_executor_delivers_up_to_its_queue_capacity :
  forall cpus mw es, mw <= ResizeG.reusable_queue_slots cpus ->
    let s := QC.run false (ResizeG.reusable_queue_slots cpus) mw es QC.q0 in
    QC.settled (ResizeG.reusable_queue_slots cpus) mw s = true -> QC.r s = Nat.min mw (QC.unfinished s).
Proof. intros cpus mw es L. apply QueueCapThm.settled_parallelism_when_the_queue_is_large_enough, L. Qed.
Print Assumptions C08_reusable_executor_delivers_up_to_its_queue_capacity.

(* never more running tasks than workers; in general at least min(workers, slots, unfinished) *)
Theorem C08_delivered_parallelism_partial :
  forall cap W es, let s := QC.run false cap W es QC.q0 in
    QC.r s <= Nat.min W (QC.unfinished s) /\ (QC.settled cap W s = true -> Nat.min W (Nat.min cap (QC.unfinished s)) <= QC.r s).
Proof. intros cap W es s. split; [apply QueueCapThm.running_bounded | apply QueueCapThm.settled_parallelism_partial]. Qed.
Print Assumptions C08_delivered_parallelism_partial.

(* the full statement is FALSE for every queue with fewer slots than the pool has workers (the reusable executor resized or created
   beyond 2 * cpu_count() + 1 workers): W tasks that do not end, only [cap] of them run, W - cap workers stay idle -- finding H19 *)
Theorem C08_delivered_parallelism_refuted_for_small_queues :
  forall cap W, cap < W -> exists es, let s := QC.run false cap W es QC.q0 in
    QC.settled cap W s = true /\ QC.r s = cap /\ QC.unfinished s = W /\ QC.r s < Nat.min W (QC.unfinished s).
Proof. intros cap W L. exists (QueueCapThm.small_queue_history cap W). apply QueueCapThm.every_small_queue_starves, L. Qed.
Print Assumptions C08_delivered_parallelism_refuted_for_small_queues.

(* the repair direction: a manager woken whenever a slot is freed would deliver it for every queue size *)
Theorem C08_wake_on_take_would_deliver :
  forall cap W es, 0 < cap -> let s := QC.run true cap W es QC.q0 in
    QC.settled cap W s = true -> QC.r s = Nat.min W (QC.unfinished s).
Proof. exact QueueCapThm.wake_on_take_would_deliver. Qed.
Print Assumptions C08_wake_on_take_would_deliver.

(* which of the two the code is: in the worker's loop as regenerated from the source (Gen/Worker.v) nothing is sent to the parent
   between taking a call item and running it, so the manager is not woken when a slot is freed -- the [false] of the theorems above *)
Theorem C08_worker_taking_an_item_tells_nobody : WorkerThm.wake_on_take = false.
Proof. exact WorkerThm.worker_taking_an_item_tells_nobody. Qed.
Print Assumptions C08_worker_taking_an_item_tells_nobody.
Theorem C08_loky_small_queue_starves :
  forall cap W, cap < W -> exists es, let s := QC.run WorkerThm.wake_on_take cap W es QC.q0 in
    QC.settled cap W s = true /\ QC.r s = cap /\ QC.unfinished s = W.
Proof.
  intros cap W L. rewrite WorkerThm.worker_taking_an_item_tells_nobody. exists (QueueCapThm.small_queue_history cap W).
  destruct (QueueCapThm.every_small_queue_starves cap W L) as (A & B & C & _). repeat split; assumption.
Qed.
Print Assumptions C08_loky_small_queue_starves.
