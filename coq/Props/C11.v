(* C11 — The resource tracker's reference counts are exact.
   Subject: Gen/Tracker.v, regenerated from /repo/loky/backend/resource_tracker.py on every run. *)
From Coq Require Import List String Ascii ZArith Bool.
From LokyV Require Import Lib.PyLib Gen.Tracker Spec.TrackerSpec Model.TrackerAbs
     Proofs.TrackerRefine Proofs.TrackerSweep Proofs.TrackerLaw Proofs.TrackerMain.
Import ListNotations.
Open Scope string_scope.

(* For every input stream, every oracle (cleanup functions may fail arbitrarily) and both
   verbosity settings, the translated main() emits: the signal prologue, then exactly the
   outputs of the abstract count machine on the parsed requests (one error report per
   malformed / unknown / never-registered request, one cleanup per zero-crossing), then one
   cleanup per key whose count is still positive — each once, folders after all other kinds. *)
Theorem C11_tracker_implements_count_machine :
  forall (O : oracle) (lines : list string) (verbose : bool),
  exists reg,
    tracker_main O lines verbose [] =
      (Norm, prologue ++ map out_eff (List.concat (fst (arun zero (requests lines))))
             ++ nonfolder reg ++ folderpart reg)%list
    /\ (forall k, count_of reg k = snd (arun zero (requests lines)) k)
    /\ (forall t n, In (ECall t [n]) (nonfolder reg ++ folderpart reg)
                    <-> 0 < snd (arun zero (requests lines)) (t, n))
    /\ NoDup (nonfolder reg ++ folderpart reg)
    /\ Forall (fun e => exists t n, e = ECall t [n] /\ t <> "folder") (nonfolder reg)
    /\ Forall (fun e => exists n, e = ECall "folder" [n]) (folderpart reg).
Proof. exact tracker_end_to_end. Qed.
Print Assumptions C11_tracker_implements_count_machine.

(* The law: request number i destroys k iff it is a MAYBE_UNLINK of k arriving when
   (registrations - maybe_unlinks since the last unregister) of k is exactly 1. *)
Theorem C11_refcount_law :
  forall (rs : list req) (i : nat) (r : req) (k : key),
    nth_error rs i = Some r ->
    (In (Cleanup k) (nth i (fst (arun zero rs)) []) <-> r = Maybe k /\ count_before zero rs i k = 1).
Proof. exact refcount_law. Qed.
Print Assumptions C11_refcount_law.

Theorem C11_at_most_one_cleanup_per_request :
  forall (rs : list req) (i : nat),
    List.length (filter (fun o => match o with Cleanup _ => true | _ => false end)
                        (nth i (fst (arun zero rs)) [])) <= 1.
Proof. exact cleanup_at_most_once_per_request. Qed.
Print Assumptions C11_at_most_one_cleanup_per_request.

(* what "the count" is: +1 per register, -1 per maybe_unlink (floored at 0), reset by unregister *)
Theorem C11_count_definition :
  forall (c : counts) (r : req) (k : key),
    fst (astep c r) k =
    match r with
    | Reg k0 => if key_eqb k k0 then S (c k) else c k
    | Unreg k0 => if key_eqb k k0 then 0 else c k
    | Maybe k0 => if key_eqb k k0 then pred (c k) else c k
    | _ => c k
    end.
Proof. exact astep_count. Qed.
Print Assumptions C11_count_definition.

(* frame: malformed requests and requests on never-registered names are reported and change nothing *)
Theorem C11_frame :
  forall (c : counts) (r : req),
    (r = Bad \/ (exists k, (r = Unreg k \/ r = Maybe k) /\ c k = 0)) ->
    astep c r = (c, [Report]).
Proof. exact astep_frame. Qed.
Print Assumptions C11_frame.

(* non-vacuity: a concrete stream with a name containing ':' and a malformed line *)
Example C11_example :
  fst (arun zero (requests
        ["REGISTER:a:b:file" ++ "
"; "REGISTER:a:b:file"; "MAYBE_UNLINK:a:b:file"; "garbage"; "MAYBE_UNLINK:a:b:file   ";
         "REGISTER:d:folder"; "UNREGISTER:zz:semlock"]))
  = [[]; []; []; [Report]; [Cleanup ("file", "a:b")]; []; [Report]].
Proof. vm_compute. reflexivity. Qed.
