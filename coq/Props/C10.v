(* C10 — resizing preserves submitted work and surviving workers, and terminates.
   Subject: Model/Resize.v, a counter model of the pool (alive / exited-unreaped / dead-undetected workers, unresolved futures,
   queued sentinels) in which the resizing thread walks the program Gen/Resize.v (regenerated from _resize) one instruction at
   a time, interleaved with completions, sentinel pick-ups, idle exits, deaths, reaps (with respawn when work waits), detection
   of deaths and -- outside a call -- submissions. *)
From Coq Require Import List Arith Bool.
From LokyV Require Import Lib.ResizeLib Gen.Resize Model.Resize Proofs.ResizeThm.
From LokyV Require Model.SentinelPost Proofs.SentinelPostThm.
Import ListNotations.

(* every history from a healthy started pool: sentinels are never posted while a future is unresolved (submitted work keeps its
   workers; submit itself is excluded during the call by the shared lock -- generated fact) *)
Theorem C10_never_posts_while_work_is_pending :
  forall n p es, 0 < n -> bad (run es (pool n p)) = false.
Proof. exact never_posts_while_work_is_pending. Qed.
Print Assumptions C10_never_posts_while_work_is_pending.

(* when the call is about to return on a pool that is not broken and nobody idle-timed-out or died since it began (and nobody had
   left unreaped / died undetected / left a sentinel when it began): exactly the requested number of workers, all alive;
   min(alive-when-it-looked, requested) previous workers kept, each of the others left on its own sentinel, only the difference
   was started *)
Theorem C10_resize_returns_as_asked :
  forall n p es, 0 < n -> let s := run es (pool n p) in
    pc s = Some [] -> clean0 s = true -> faults s = 0 -> broken s = false ->
    maxw s = newv s /\ al s = newv s /\ ex s = 0 /\ de s = 0 /\ sent s = 0 /\
    left s = rsnap s - Nat.min (rsnap s) (newv s) /\ spawned s = newv s - Nat.min (rsnap s) (newv s).
Proof. exact resize_returns_as_asked. Qed.
Print Assumptions C10_resize_returns_as_asked.

(* termination, as far as a model without time can say it: in every reachable state in which the resizing thread is blocked
   (waiting for the jobs, for the pool to shrink, for everybody to be alive; never on the lock), an event of the workers or of
   the manager is enabled that strictly decreases pending + 2*sentinels + exited + dead -- also when workers time out or die
   during the call (they only add finitely much to that quantity) *)
Theorem C10_blocked_resize_can_always_progress :
  forall s, Inv s -> blocked s = true -> exists e, In e [Complete; TakeSentinel; Reap; Detect] /\ mu (step s e) < mu s.
Proof. exact blocked_resize_can_always_progress. Qed.
Print Assumptions C10_blocked_resize_can_always_progress.
Theorem C10_invariant_of_every_history : forall n p es, 0 < n -> Inv (run es (pool n p)).
Proof. intros n p es H. apply run_inv, inv_pool, H. Qed.
Print Assumptions C10_invariant_of_every_history.

Theorem C10_structure :
  wait_job_completion_waits_until_nothing_is_pending = true /\ submit_is_excluded_during_resize = true
  /\ idle_exit_gives_up_when_the_management_lock_is_taken = true
  (* the call queue, created once, is sized from the host (2 * cpu_count() + 1 slots), not from the number of workers the executor
     happens to start with: the blocking put of _resize's sentinels relies on it (and is still not safe: known finding H16) *)
  /\ call_queue_is_sized_from_the_host_cpu_count = true.
Proof. destruct facts_hold as (A & B & C). split; [exact A|]. split; [exact B|]. split; [exact C | reflexivity]. Qed.
Print Assumptions C10_structure.

Example C10_example :
  let s := run (Call (Some 2) :: repeat RStep 3 ++ [Complete] ++ repeat RStep 7 ++ [TakeSentinel; TakeSentinel; Reap; Reap] ++ repeat RStep 5)
               (pool 4 1) in
  pc s = Some [] /\ al s = 2 /\ left s = 2 /\ spawned s = 0 /\ bad s = false /\ faults s = 0.
Proof. exact shrink_example. Qed.

(* ---- the posting of the sentinels with the capacity of the call queue (Model/SentinelPost.v; known finding H16) ----
   _resize() posts with a blocking put while it holds the management lock and counts the workers that have announced their idle exit
   as alive.  REFUTED as stated ("terminates in every case, also when workers time out"): whenever more workers are leaving than the
   queue has slots plus the target, the resizing thread wedges -- the put blocks, the manager cannot reap (lock), nobody reads.
   PARTIAL: when the sentinels to post fit into the free slots plus the workers still reading -- in particular when no worker is
   leaving as the resize looks -- the posting never wedges: whenever something is left to post, a put or a worker's get is enabled. *)
Theorem C10_posting_refuted_when_idle_workers_are_leaving :
  forall cap lv target, cap < lv - target ->
    SentinelPost.wedged (SentinelPost.run (repeat SentinelPost.Post cap) (SentinelPost.begin cap 0 lv target)).
Proof. exact SentinelPostThm.posting_can_wedge. Qed.
Print Assumptions C10_posting_refuted_when_idle_workers_are_leaving.

Theorem C10_posting_partial :
  forall cap rd lv target es, 0 < cap -> (rd + lv) - target <= cap + rd ->
    let s := SentinelPost.run es (SentinelPost.begin cap rd lv target) in
    ~ SentinelPost.wedged s /\
    (SentinelPost.to_post s > 0 -> SentinelPost.step s SentinelPost.Post <> s \/ SentinelPost.step s SentinelPost.Take <> s).
Proof. exact SentinelPostThm.posting_partial. Qed.
Print Assumptions C10_posting_partial.

Example C10_h16_instances :
  SentinelPost.wedged (SentinelPost.run (repeat SentinelPost.Post 5) (SentinelPost.begin 5 0 8 1)) /\
  SentinelPost.wedged (SentinelPost.run (repeat SentinelPost.Post 3) (SentinelPost.begin 3 0 6 1)).
Proof. exact SentinelPostThm.h16_instances. Qed.
