(* C03 — right result to the right future, at-most-once execution (map == builtin map: see C03_map below).
   Subject: Model/TokenFlow.v, the token-flow model of the executor, tied to /repo by trace validation
   (every observable change made by the real code under the simulation kernel is a model step). *)
From Coq Require Import List Arith Bool.
From LokyV Require Import Model.TokenFlow Proofs.TokenFlowInv Proofs.TokenFlowThm.
From LokyV Require Import Lib.MapLib Gen.MapPath Proofs.MapThm.
From LokyV Require Lib.FlowLib Gen.Flow Model.FlowTie Proofs.FlowTieThm Lib.PoolLib Gen.Pool.
Import ListNotations.

(* For every reachable state -- any number of tasks, workers and submitting threads, any interleaving at the
   granularity of single mutations of the shared structures, worker deaths anywhere -- *)
Theorem C03_at_most_once : forall cap s, reachable cap s -> NoDup (executed s).
Proof. exact at_most_once. Qed.
Print Assumptions C03_at_most_once.

Theorem C03_cancelled_never_executed :
  forall cap s w, reachable cap s -> fut s w = Some FCancelled -> ~ In w (executed s).
Proof. exact cancelled_never_executed. Qed.
Print Assumptions C03_cancelled_never_executed.

Theorem C03_cancel_is_final :
  forall s l s' w, (forall w, InvAt s w) -> step s l = Some s' ->
                   fut s w = Some FCancelled -> fut s' w = Some FCancelled.
Proof. exact cancelled_is_final. Qed.
Print Assumptions C03_cancel_is_final.

(* a future resolved with a value / a task exception got it from the execution of its own work id *)
Theorem C03_result_from_own_execution :
  forall cap s w o, reachable cap s -> fut s w = Some (FDone o) -> (o = Val \/ o = TaskExc) -> In w (executed s).
Proof. exact result_comes_from_its_own_execution. Qed.
Print Assumptions C03_result_from_own_execution.

(* each work id is in at most one place of the pipeline (work_ids, manager's hands, feeder buffer, feeder's
   hands, call pipe, a worker's hands, result pipe), and nowhere upstream once executed *)
Theorem C03_token_unique :
  forall cap s w, reachable cap s ->
    pre s w + post s w + down s w <= 1 /\ (In w (executed s) -> pre s w + post s w = 0).
Proof. exact token_unique. Qed.
Print Assumptions C03_token_unique.

(* non-vacuity: a run with two submitters, a cancel, a dispatch, an execution and a result *)
Example C03_example :
  match run (init 3) [USubmitA 0; USubmitA 1; USubmitB 1; USubmitB 0; UCancel 0; MTake; MSetRunning; MAddRunning;
                      MAcqSlot; MBufAppend; MTake; MSetRunning; MDelPending; FPop; FSend; WSpawn 7; WRecv 7;
                      WRelSlot 7; WExec 7; WSendRes 7; MRecv; MPopPending; MSetFuture Val; MDelRunning] with
  | Some s => fut s 0 = Some FCancelled /\ fut s 1 = Some (FDone Val) /\ executed s = [1] /\ slot s = 3
  | None => False
  end.
Proof. vm_compute. repeat split; reflexivity. Qed.

(* map(): _get_chunks, _process_chunk, _chain_from_iterable_of_lists and ProcessPoolExecutor.map are re-read from the source on
   every run (Gen/MapPath.v instantiates Lib/MapLib.v); for every function, every list of argument tuples and every chunksize the
   result is the builtin map's (chunksize < 1 raises), given that Executor.map yields the chunk results in submission order *)
Theorem C03_map : forall (A B : Type) (f : A -> B) (n : nat) (l : list A),
  pool_map chunksize_guard chunk_slice_size chain_element_ops f n l = if Nat.ltb n 1 then None else Some (map f l).
Proof. intros. apply pool_map_is_map. Qed.
Print Assumptions C03_map.
Theorem C03_map_structure : map_composes_process_chunk_get_chunks_chain = true.
Proof. reflexivity. Qed.
Print Assumptions C03_map_structure.

(* ---- the token-flow model follows the source (Model/FlowTie.v) ----
   Besides trace validation (sampled schedules) the model is tied to the code by the ORDER in which each thread mutates the shared
   structures.  (1) Every step of TokenFlow.step -- any state, any label -- moves the acting thread's program counter along an edge
   of a small automaton and leaves the other threads' counters alone.  (2) The cycles of those automata from idle back to idle are
   exactly the mutation paths of the programs re-read from the source on every run (Gen/Flow.v: add_call_item_to_queue,
   process_result_item, _on_queue_feeder_error + Queue._feed, the forced-shutdown loop; Gen/Pool.v: submit):
     manager, dispatch : work id taken; set_running_or_notify_cancel; then running list, queue slot, buffer -- or, cancelled: del pending
     manager, result   : item popped from the table; future resolved; running list -- or nothing when the item is gone
     feeder            : buffer pop; send -- or slot given back; item popped; running list; future failed if the item was there
     forced shutdown   : popitem; future failed                submit : table entry first, id published second *)
Theorem C03_token_flow_follows_the_source :
  (forall s l s', step s l = Some s' -> FlowTieThm.conforms s l s') /\
  FlowTie.same_paths (FlowLib.paths Flow.add_call_item_prog) (FlowTie.starting_with (FlowTie.EK FlowLib.KTakeId) true FlowTie.mgr_cycles) = true /\
  FlowTie.same_paths (FlowLib.paths Flow.process_result_prog ++ [[]]) (FlowTie.starting_with FlowTie.ERecv false FlowTie.mgr_cycles) = true /\
  FlowTie.same_paths (FlowLib.paths Flow.feed_send_loop
                      ++ map (cons FlowLib.KPopBuffer) (FlowLib.paths (FlowLib.inline_hook Flow.feed_error_tail Flow.feeder_error_prog)))
                     (FlowTie.starting_with (FlowTie.EK FlowLib.KPopBuffer) true FlowTie.fdr_cycles) = true /\
  FlowTie.same_paths (FlowLib.paths Flow.forced_fail_body) (FlowTie.starting_with (FlowTie.EK FlowLib.KPopItem) true FlowTie.mgr_cycles) = true /\
  In (FlowTie.submit_publication Pool.submit_prog) FlowTie.usr_cycles.
Proof.
  split; [exact FlowTieThm.step_conforms|]. split; [exact FlowTieThm.add_call_item_order|]. split; [exact FlowTieThm.process_result_order|].
  split; [exact FlowTieThm.feeder_order|]. split; [exact FlowTieThm.forced_fail_order | exact FlowTieThm.submit_order].
Qed.
Print Assumptions C03_token_flow_follows_the_source.
