(* C17 — cpu_count is the minimum of all applicable limits and at least 1.
   Subject: Gen/Cpu.v, regenerated from /repo/loky/backend/context.py on every run. *)
From Coq Require Import List String Ascii ZArith Bool.
From LokyV Require Import Lib.PyLib Lib.CpuCfg Gen.Cpu Spec.CpuSpec Proofs.CpuProps.
Import ListNotations.
Open Scope string_scope.
Open Scope Z_scope.

(* For every configuration on which the three limits can be read (the code does not raise),
   cpu_count() = max(1, min(OS count, affinity, cgroup, override)) and the cache is untouched. *)
Theorem C17_formula :
  forall (cfg : cpu_cfg) (cache : dyn) (eff0 : list eff) (av : Z) (w : bool) (cv ev : Z),
    affinity_spec cfg (os_count cfg) = (Ok av, w) ->
    cgroup_spec cfg (os_count cfg) = Ok cv ->
    env_spec cfg (os_count cfg) = Ok ev ->
    exists l, cpu_count_run cfg false cache eff0
              = (Ret (DInt (Z.max 1 (Z.min (os_count cfg) (Z.min av (Z.min cv ev))))), l)
              /\ cpu_count_v_physical_cores_cache l = cache.
Proof. exact gen_logical_formula. Qed.
Print Assumptions C17_formula.

(* ... where the affinity limit is the mask size (psutil's when sched_getaffinity is unavailable,
   none when neither can be inspected) ... *)
Theorem C17_affinity_limit :
  forall (cfg : cpu_cfg) (av : Z) (w : bool),
    affinity_spec cfg (os_count cfg) = (Ok av, w) ->
    match c_affinity cfg with
    | Ok n => av = n
    | Err _ =>
        match c_psutil_import cfg with
        | None => if c_psutil_has_affinity cfg then av = c_psutil_affinity cfg else av = os_count cfg
        | Some _ => av = os_count cfg
        end
    end.
Proof. exact affinity_limit. Qed.
Print Assumptions C17_affinity_limit.

(* ... the cgroup limit is the exact ceiling of quota/period when a positive quota is set
   (v2 or v1 files), and no limit for 'max', absent files or non-positive values ... *)
Theorem C17_cgroup_limit :
  forall (cfg : cpu_cfg) (cv : Z),
    cgroup_spec cfg (os_count cfg) = Ok cv ->
    match quota_period cfg with
    | Ok (Some (q, p)) => if (0 <? q) && (0 <? p) then (cv - 1) * p < q <= cv * p else cv = os_count cfg
    | Ok None => cv = os_count cfg
    | Err _ => False
    end.
Proof. exact cgroup_limit. Qed.
Print Assumptions C17_cgroup_limit.

(* ... and the override is int(LOKY_MAX_CPU_COUNT) when set. *)
Theorem C17_env_limit :
  forall (cfg : cpu_cfg) (ev : Z),
    env_spec cfg (os_count cfg) = Ok ev ->
    match dget (c_env cfg) "LOKY_MAX_CPU_COUNT" with
    | Some s => py_int_of_str s = Ok ev
    | None => ev = os_count cfg
    end.
Proof. exact env_limit. Qed.
Print Assumptions C17_env_limit.

(* Whatever the flag, a returned value is an integer >= 1 (for every cache state reachable from
   the initial None: None, "not found" or a validated count), and reachable caches stay so. *)
Theorem C17_ge_1 :
  forall (cfg : cpu_cfg) (flag : bool) (cache : dyn) (eff0 : list eff) (n : Z) (l : cpu_count_L),
    cache_ok cache -> cpu_count_run cfg flag cache eff0 = (Ret (DInt n), l) ->
    1 <= n /\ cache_ok (cpu_count_v_physical_cores_cache l).
Proof. exact gen_ge_1. Qed.
Print Assumptions C17_ge_1.

Theorem C17_value_is_int :
  forall (cfg : cpu_cfg) (flag : bool) (cache : dyn) (eff0 : list eff) (v : dyn) (l : cpu_count_L),
    cache_ok cache -> cpu_count_run cfg flag cache eff0 = (Ret v, l) -> exists n, v = DInt n.
Proof. exact gen_value_is_int. Qed.
Print Assumptions C17_value_is_int.

(* only_physical_cores=True: the logical value when a user limit is below the OS count, else the
   detected (or cached) physical count, else the logical value. *)
Theorem C17_physical :
  forall (cfg : cpu_cfg) (cache : dyn) (eff0 : list eff) (u : Z) (w : bool),
    user_spec cfg (os_count cfg) = (Ok u, w) ->
    exists l, cpu_count_run cfg true cache eff0 =
      ((if u <? os_count cfg then Ret (DInt (Z.max 1 (Z.min (os_count cfg) u)))
        else match fst (fst (physical_spec cfg cache)) with
             | DStr "not found" => Ret (DInt (Z.max 1 (Z.min (os_count cfg) u)))
             | v => Ret v
             end), l).
Proof. exact gen_physical. Qed.
Print Assumptions C17_physical.

(* the "could not find the number of physical cores" warning: at most once over ANY sequence of calls *)
Theorem C17_warn_once :
  forall (cfg : cpu_cfg) (flags : list bool) (cache : dyn),
    (n_phys (gen_calls cfg flags cache []) <= 1)%nat.
Proof. exact gen_warn_once. Qed.
Print Assumptions C17_warn_once.

(* the raising inputs, exactly: one of the three limits cannot be read *)
Theorem C17_raises_iff :
  forall (cfg : cpu_cfg) (flag : bool) (cache : dyn) (eff0 : list eff) (e : exn),
    (exists l, cpu_count_run cfg flag cache eff0 = (Raise e, l))
    <-> fst (user_spec cfg (os_count cfg)) = Err e.
Proof. exact gen_raises_iff. Qed.
Print Assumptions C17_raises_iff.

(* non-vacuity: 16 CPUs, affinity 8, cgroup v2 quota 250000/100000 (ceil = 3), override 5 *)
Example C17_example :
  let cfg := Build_cpu_cfg (Some 16) (Ok 8) None false 0
               [("/sys/fs/cgroup/cpu.max", ln "250000 100000")] [("LOKY_MAX_CPU_COUNT", "5")] (Ok 4) in
  fst (cpu_count_run cfg false DNone []) = Ret (DInt 3)
  /\ affinity_spec cfg (os_count cfg) = (Ok 8, false)
  /\ cgroup_spec cfg (os_count cfg) = Ok 3 /\ env_spec cfg (os_count cfg) = Ok 5.
Proof. vm_compute. repeat split; reflexivity. Qed.
