(* C12 — one resource tracker serves the whole process tree and is self-healing.
   Subject: Model/TrackerLife.v whose signal behaviour is computed from facts re-extracted from the source on every
   run (Gen/Lifecycle.v: the spawn is bracketed by SIG_BLOCK/SIG_UNBLOCK; Spec/TrackerSpec.prologue, proved equal to
   the generated main(): SIG_IGN installed for both signals before the unblock), validated against real process trees. *)
From Coq Require Import List Arith Bool String.
From LokyV Require Import Lib.PyLib Gen.Lifecycle Spec.TrackerSpec Model.TrackerLife Proofs.TrackerLifeThm.
Import ListNotations.

(* absent tracker death, every process of any tree -- any depth, any history of spawns, exits, kills, signals,
   semaphore activity -- reports to the root's tracker, which stays alive as long as a member does *)
Theorem C12_single_tracker :
  forall es s', no_tracker_kill es = true -> run init es = Some s' -> single s'.
Proof. intros es s'. apply single_tracker. exact single_init. Qed.
Print Assumptions C12_single_tracker.
(* SIGINT / SIGTERM never take a tracker down, whenever delivered, start-up included *)
Theorem C12_signals :
  forall s t s', step s (Signal t) = Some s' -> tr_alive s t = true /\ tr_alive s' t = true.
Proof. exact signal_never_kills. Qed.
Print Assumptions C12_signals.
Theorem C12_boot_keeps_alive : forall s t s', step s (TrackerBoot t) = Some s' -> tr_alive s' t = true.
Proof. exact boot_keeps_alive. Qed.
Print Assumptions C12_boot_keeps_alive.
(* the end-of-life sweep happens only after the last member holding the pipe is gone, however members died *)
Theorem C12_sweep_after_last :
  forall s t x i p, reachable s -> nth_error (trackers s) t = Some x -> t_swept x = true ->
                    nth_error (procs s) i = Some p -> alive p = true -> handle p <> t.
Proof. exact sweep_only_after_last_member. Qed.
Print Assumptions C12_sweep_after_last.
(* if the tracker was killed, the next tracked operation in any live process starts a new one and does not fail *)
Theorem C12_heals :
  forall s p pr, nth_error (procs s) p = Some pr -> alive pr = true ->
    exists s' pr', step s (Op p) = Some s' /\ nth_error (procs s') p = Some pr' /\ alive pr' = true
                   /\ tr_alive s' (handle pr') = true.
Proof. exact op_heals. Qed.
Print Assumptions C12_heals.
Theorem C12_structure :
  tracker_spawn_bracketed_by_sigmask = true /\ ensure_running_relaunches_under_lock = true
  /\ maybe_unlink_ensures_running = true /\ sig_safe = true
  /\ child_installs_tracker_handle_before_main_module = true
  (* whatever the tracker uses to report a request it cannot serve is guarded: a report that raises (a warning under -W error, which
     the tracker inherits) would end the tracker -- and run its end-of-life sweep -- while its tree is alive *)
  /\ tracker_request_loop_guards_every_report_it_makes = true.
Proof. repeat split; reflexivity. Qed.
Print Assumptions C12_structure.
Example C12_example :
  match run init [Spawn 0; Spawn 1; KillTracker 0; Op 2; Signal 1; TrackerBoot 1; Signal 1; TrackerBoot 1; Die 0; Die 1] with
  | Some s => map handle (procs s) = [0; 0; 1] /\ tr_alive s 1 = true /\ tr_alive s 0 = false
  | None => False end.
Proof. vm_compute. repeat split; reflexivity. Qed.
