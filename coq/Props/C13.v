(* C13 — no named semaphore or tracked resource outlives its process tree.
   Subject: Model/TrackerLife.v (semaphore part), with the SemLock life-cycle facts re-extracted from the source. *)
From Coq Require Import List Arith Bool String.
From LokyV Require Import Lib.PyLib Gen.Lifecycle Model.TrackerLife Proofs.TrackerLifeThm.
Import ListNotations.

(* whatever the history (creations, collections, clean exits, kills of any member at any point, tracker relaunches),
   once the tracker a semaphore was registered with has swept, the semaphore is gone *)
Theorem C13_no_leak_after_sweep :
  forall s j y x, reachable s -> nth_error (sems s) j = Some y -> s_stage y <> Created ->
                  nth_error (trackers s) (s_tracker y) = Some x -> t_swept x = true -> s_exists y = false.
Proof. exact no_leak_after_sweep. Qed.
Print Assumptions C13_no_leak_after_sweep.
(* the hypothesis [s_stage y <> Created] cannot be dropped: a process killed between the kernel creation of the
   semaphore and resource_tracker.register() leaks the name for good (finding W1, model witness) *)
Theorem C13_refuted_creation_window :
  exists s, run init [SemCreate 0; Die 0; TrackerEOF 0] = Some s
            /\ (exists y, nth_error (sems s) 0 = Some y /\ s_exists y = true)
            /\ (exists x, nth_error (trackers s) 0 = Some x /\ t_swept x = true).
Proof. exact creation_window_leaks. Qed.
Print Assumptions C13_refuted_creation_window.
(* a death between the two steps of the finalizer (SemCollect without SemForget) is covered by the theorem above because the
   finalizer, as generated from the source, unlinks first: a name whose UNREGISTER was sent never exists any more *)
Theorem C13_unregistered_is_gone :
  forall s j y, reachable s -> nth_error (sems s) j = Some y -> s_stage y = Unregistered -> s_exists y = false.
Proof. intros s j y Hr. apply (proj2 (reachable_inv12 s Hr)). Qed.
Print Assumptions C13_unregistered_is_gone.
Example C13_finalizer_window :
  match run init [SemCreate 0; SemRegister 0; SemGuard 0; SemCollect 0; Die 0; TrackerEOF 0] with
  | Some s => map s_exists (sems s) = [false] | None => False end.
Proof. vm_compute. reflexivity. Qed.
(* the start-up of a child (its _bootstrap) takes no finalizer away: a semaphore created while the main module was re-imported or
   the process object unpickled is still unlinked when its object is collected (this was false on the pinned tree: finding W2,
   repaired by fix d4e2fc6; with BaseProcess's behaviour the generated fact is false and this theorem does not check) *)
Theorem C13_finalizers_survive_startup :
  forall s p s', step s (Bootstrap p) = Some s' -> sems s' = sems s.
Proof.
  intros s p s' H. unfold step in H. destruct (nth_error (procs s) p) as [[[|] h]|]; try discriminate.
  cbn in H. inversion H. reflexivity.
Qed.
Print Assumptions C13_finalizers_survive_startup.
Theorem C13_structure :
  semlock_registers_then_installs_finalizer = true /\ semlock_cleanup_unlinks_then_unregisters = true
  /\ semlock_copies_do_not_register = true /\ semlock_names_carry_creator_pid = true
  /\ child_keeps_finalizers_registered_during_startup = true
  (* nothing that can raise stands unguarded in the tracker's final sweep: its warning (an exception under -W error, which the tracker
     inherits from the process that started it) and every cleanup call sit in a try that swallows Exception *)
  /\ tracker_sweep_guards_its_warnings_and_cleanup_calls = true.
Proof. repeat split; reflexivity. Qed.
Print Assumptions C13_structure.
Example C13_example :
  match run init [SemCreate 0; SemRegister 0; SemGuard 0; Spawn 0; SemCreate 1; SemRegister 1; Die 1; SemCollect 0; Die 0; TrackerEOF 0] with
  | Some s => map s_exists (sems s) = [false; false]
  | None => False end.
Proof. vm_compute. reflexivity. Qed.
