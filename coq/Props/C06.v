(* C06 — forced shutdown is prompt, total and explicit.  Subject: Model/Pool.v (lists regenerated from the source).
   Killing of descendants is kill_process_tree's job (shape facts below + real process trees in the check). *)
From Coq Require Import List Arith Bool.
From LokyV Require Import Lib.LedgerLib Lib.PoolLib Gen.Ledger Gen.Pool Model.Pool Proofs.PoolThm.
From LokyV Require Model.KillLock Proofs.KillLockThm Lib.WorkerLib Gen.Worker Proofs.WorkerThm.
From LokyV Require Model.Wake Proofs.WakeThm.
From LokyV Require Model.FailLoop Proofs.FailLoopThm.
From LokyV Require Model.FeederPipe Proofs.FeederPipeThm.
From LokyV Require Model.ForcedPop Proofs.ForcedPopThm.
From LokyV Require Lib.KillTreeLib Gen.KillTree Model.KillTree Proofs.KillTreeThm.
From Coq Require Import Permutation.
From LokyV Require Model.GlobalJoin Proofs.GlobalJoinThm.
Module GJ := LokyV.Model.GlobalJoin.
Module KT := LokyV.Model.KillTree.
Module KG := LokyV.Gen.KillTree.
Import ListNotations.

(* whatever happened before (a graceful shutdown included), shutdown(kill_workers=True) sets both flags *)
Theorem C06_forced_flag_always_set :
  forall p, user p = true -> sub p = None -> kill (step p (ShutdownCall true)) = true /\ shut (step p (ShutdownCall true)) = true.
Proof. exact forced_flag_always_set. Qed.
Print Assumptions C06_forced_flag_always_set.

(* from any state of the loop with those flags on a pool that is not broken -- any table, any number of unresolved futures, tasks
   running for ever -- the manager alone reaches the end in 17 of its own steps: every unresolved future failed with
   ShutdownExecutorError, no worker registered; no step of any worker is needed *)
Theorem C06_forced_shutdown_is_prompt :
  forall u gs mx pr pn su okc fb fs rf,
    let p := mkp u true false true gs mx pr pn su okc fb fs rf MLoop None in
    let q := run forced_steps p in
    mgr q = MDone /\ pending q = 0 /\ procs q = [] /\ failS q = fs + pn /\ ok q = okc /\ failB q = fb.
Proof. exact forced_shutdown_is_prompt. Qed.
Print Assumptions C06_forced_shutdown_is_prompt.

Theorem C06_nothing_accepted_after_the_call :
  forall p, user p = true -> sub p = None -> shut p = true ->
    pending (step p Submit) = pending p /\ refused (step p Submit) = S (refused p) /\ submitted (step p Submit) = submitted p.
Proof. exact shut_down_pool_refuses. Qed.
Print Assumptions C06_nothing_accepted_after_the_call.

Theorem C06_structure :
  shutdown_flags_first_with_kill_argument = true /\ kill_workers_pops_and_kills_each = true
  /\ kill_tree_psutil_joins_otherwise = true /\ kill_tree_nopsutil_always_joins = true
  /\ kill_tree_nopsutil_lists_children_by_parent_pid_depth_first = true
  /\ flag_executor_shutting_down_ops = [FlagShutdown; IfKillWorkers [FailPendingShut; KillWorkers]].
Proof. repeat split; reflexivity. Qed.
Print Assumptions C06_structure.

(* ---- the management lock against loky's own kills (Model/KillLock.v; finding H10, fixed) ----
   kill_workers() holds the processes management lock while it SIGKILLs the workers (generated fact of the Ledger unit), and a worker
   only ever probes that lock -- acquire immediately followed by release (Gen/Worker.v).  Hence, whatever the workers and the manager
   do, and absent kills from outside loky, the lock is never left with a dead process: shutdown_workers(), which the forced shutdown
   runs next, can always take it.  With kills from outside this is false (H5, known). *)
Theorem C06_own_kills_never_orphan_the_management_lock :
  forall n es, forallb (fun e => negb (KillLock.external e)) es = true ->
    KillLock.hold (KillLock.run es (KillLock.ks0 n)) <> KillLock.ByDead /\
    KillLock.manager_can_take_the_lock (KillLock.step (KillLock.run es (KillLock.ks0 n)) KillLock.Release) = true.
Proof. exact KillLockThm.own_kills_never_orphan_the_lock. Qed.
Print Assumptions C06_own_kills_never_orphan_the_management_lock.

Theorem C06_worker_only_probes_the_management_lock :
  forall e, WorkerLib.acquire_then_release (WorkerLib.acts (WorkerThm.it e)) = true /\ WorkerLib.holds_mgmt (WorkerThm.it e) = false.
Proof. exact WorkerThm.management_lock_is_only_probed. Qed.
Print Assumptions C06_worker_only_probes_the_management_lock.

Example C06_h10_kill_without_the_lock :
  let s := fold_left (KillLock.step_with false) [KillLock.Probe; KillLock.MgrKillAll] (KillLock.ks0 2) in KillLock.hold s = KillLock.ByDead.
Proof. vm_compute. reflexivity. Qed.

(* a forced shutdown drops every pending item AND forgets the work ids still waiting (generated fact), so the manager's last look at
   the work ids (the re-check added for H11) never finds an id whose item is gone: the manager thread never dies of KeyError and runs
   its clean-up.  The first version of the H11 repair broke exactly this (caught by C20's thorough tier, repaired). *)
Theorem C06_manager_survives_a_forced_shutdown : forall es, Wake.ph (Wake.run es Wake.ws0) <> Wake.MCrashed.
Proof. exact WakeThm.manager_never_crashes. Qed.
Print Assumptions C06_manager_survives_a_forced_shutdown.

Example C06_recheck_without_forgetting_the_ids :
  let s := fold_left (Wake.step_with true false Wake.wake_ops)
             [Wake.Mgr; Wake.SubmitBegin; Wake.SubStep; Wake.SubStep; Wake.SubStep; Wake.ShutdownKill; Wake.Mgr; Wake.Mgr; Wake.Mgr; Wake.Mgr] Wake.ws0 in
  Wake.ph s = Wake.MCrashed.
Proof. vm_compute. reflexivity. Qed.

(* ---- failing the table (Model/FailLoop.v; finding H14, fixed) ----
   the kill_workers branch of flag_executor_shutting_down(): `while pending_work_items: popitem(); set_exception(ShutdownExecutorError)`.
   A future still waiting in the table can be cancelled by its owner at any moment, also between two iterations, and
   Future.set_exception() raises InvalidStateError on a cancelled future.  How the loop guards the call is read off the source
   (forced_path_fail_guard).  For every table and every interleaving of cancellations with the loop: the error never escapes (the
   manager thread survives), when the loop has ended every item has an outcome (failed by the manager, or cancelled by its owner) and
   none was lost, and it ends after one step per item plus one.  On the pinned source the call was bare: one cancelled future killed
   the manager thread, the items after it were never failed, the workers neither killed nor joined (real reproduction
   findings/H14_real.py). *)
Theorem C06_failing_the_table_never_kills_the_manager :
  forall table es, let s := FailLoop.run forced_path_fail_guard es (FailLoop.start table) in
    FailLoop.lphase s <> FailLoop.Crashed /\
    (FailLoop.lphase s = FailLoop.Finished ->
       FailLoop.todo s = [] /\ forallb FailLoop.terminal (FailLoop.handled s) = true /\ length (FailLoop.handled s) = length table) /\
    (length table < FailLoop.mgr_steps es -> FailLoop.lphase s = FailLoop.Finished).
Proof. exact FailLoopThm.guarded_loop_never_crashes. Qed.
Print Assumptions C06_failing_the_table_never_kills_the_manager.

Example C06_h14_bare_call :
  let s := FailLoop.run NoGuard [FailLoop.Cancel 1; FailLoop.Mgr; FailLoop.Mgr] (FailLoop.start [FailLoop.Waiting; FailLoop.Waiting; FailLoop.Waiting]) in
  FailLoop.lphase s = FailLoop.Crashed /\ FailLoop.todo s = [FailLoop.Cancelled; FailLoop.Waiting].
Proof. vm_compute. split; reflexivity. Qed.

(* ---- the feeder thread after the workers have been killed (Model/FeederPipe.v; finding H17, fixed) ----
   a feeder blocked writing a large task into the full call-queue pipe gets EPIPE -- and ends -- only when no read end of the pipe
   is open; the parent holds one although it never reads, and Queue.close() only queues a sentinel the blocked feeder never sees.
   kill_workers() closes the parent's handle once every worker is dead (generated fact).  Hence: after kill_workers() and
   call_queue.close(), in either order, whatever happened before and in between, the feeder ends at its next step and stays ended.
   On the pinned source it stayed blocked for ever: one thread, the queue, two descriptors and three semaphores per forced shutdown
   with a large task in flight (findings/H17_real.py). *)
Theorem C06_forced_shutdown_ends_the_feeder_thread :
  forall es1 es2 es3 s,
    FeederPipe.th (FeederPipe.step kill_workers_closes_the_call_queue_reader
                     (FeederPipe.run kill_workers_closes_the_call_queue_reader
                        (es1 ++ FeederPipe.KillAll :: es2 ++ FeederPipe.CloseQueue :: es3) s) FeederPipe.FeederStep) = FeederPipe.Ended.
Proof. exact FeederPipeThm.forced_shutdown_ends_the_feeder. Qed.
Print Assumptions C06_forced_shutdown_ends_the_feeder_thread.
Example C06_h17_blocked_for_ever :
  let s := FeederPipe.run false [FeederPipe.FeederStep; FeederPipe.FeederStep; FeederPipe.KillAll; FeederPipe.CloseQueue] (FeederPipe.mkfp FeederPipe.Idle 2 false 1 2 true) in
  FeederPipe.th s = FeederPipe.Blocked /\ forall e, FeederPipe.step false s e = s.
Proof. exact FeederPipeThm.h17_blocked_for_ever. Qed.

(* ---- the forced-shutdown loop against the feeder thread (Model/ForcedPop.v; finding H20, fixed) ----
   `while pending_work_items: popitem()` runs while the queue feeder thread pops from the same dict the items it fails to send;
   between the loop's test and popitem() the dict can become empty.  The loop tolerates the KeyError (generated fact).  Hence,
   whatever the feeder takes and whenever: the manager thread survives, every item is failed by the manager or taken (and failed) by
   the feeder, the table is empty when the loop has ended.  On the pinned source popitem() was bare: the manager died before
   kill_workers() -- the workers survived a forced shutdown (simulated schedule findings/H20_sim_replay.json). *)
Theorem C06_forced_loop_survives_the_feeder :
  forall n es, let s := ForcedPop.run forced_loop_tolerates_a_table_emptied_by_the_feeder es (ForcedPop.fstart n) in
    ForcedPop.fphase s <> ForcedPop.LoopCrashed /\
    ForcedPop.items s + ForcedPop.failed_by_manager s + ForcedPop.taken_by_feeder s = n /\
    (ForcedPop.fphase s = ForcedPop.LoopDone -> ForcedPop.items s = 0).
Proof. exact ForcedPopThm.forced_loop_survives_the_feeder. Qed.
Print Assumptions C06_forced_loop_survives_the_feeder.
Example C06_h20_keyerror :
  ForcedPop.fphase (ForcedPop.run false [ForcedPop.MgrStep; ForcedPop.FeederPops; ForcedPop.MgrStep] (ForcedPop.fstart 1)) = ForcedPop.LoopCrashed.
Proof. exact ForcedPopThm.h20_keyerror. Qed.

(* ---- "every worker together with all of its descendant processes is killed", with and without psutil (Model/KillTree.v; the
   statement lists of loky/backend/utils.py are regenerated from the source) ---- *)

(* psutil-less path: for EVERY process tree, of any depth and shape, the kills are exactly the post-order of the processes that exist
   when their parent's children are listed: each of them once, every descendant before its ancestor *)
Theorem C06_posix_kill_reaches_the_whole_tree :
  forall t, let k := KT.exec_posix KG.posix_recursive_kill_prog t in
    k = KT.postorder (KT.prune t) /\ Permutation k (KT.pids (KT.prune t)) /\
    (forall s d, In s (KT.subtrees (KT.prune t)) -> In d (KT.descendants s) -> KT.before k d (KT.root s)).
Proof.
  intros t k. unfold k. rewrite KillTreeThm.posix_is_postorder_of_what_it_sees. split; [reflexivity|]. split.
  - apply KillTreeThm.postorder_perm.
  - intros s d. apply KillTreeThm.postorder_children_first.
Qed.
Print Assumptions C06_posix_kill_reaches_the_whole_tree.

(* psutil path: one snapshot (any tree), killed in reverse: each process of the snapshot once, every descendant before its ancestor,
   the worker itself last, then joined *)
Theorem C06_psutil_kill_reaches_the_whole_tree :
  forall t, let o := KT.exec_psutil KG.psutil_kill_prog t in
    Permutation (KT.ukills o) (KT.pids (KT.prune t)) /\ KT.ujoined o = true /\
    (forall s d, In s (KT.subtrees (KT.prune t)) -> In d (KT.descendants s) -> KT.before (KT.ukills o) d (KT.root s)).
Proof.
  intros t o. split; [apply KillTreeThm.psutil_kills_perm|]. split; [reflexivity|]. intros s d. apply KillTreeThm.psutil_children_first.
Qed.
Print Assumptions C06_psutil_kill_reaches_the_whole_tree.

(* hence, when nothing is forked while the sweep is under way, the whole tree -- every nesting depth -- is killed, by both *)
Theorem C06_quiet_tree_is_killed_entirely :
  forall t, KT.no_late t = true ->
    Permutation (KT.exec_posix KG.posix_recursive_kill_prog t) (KT.pids t)
    /\ Permutation (KT.ukills (KT.exec_psutil KG.psutil_kill_prog t)) (KT.pids t).
Proof.
  intros t N. pose proof (KillTreeThm.prune_no_late t N) as E. split.
  - rewrite KillTreeThm.posix_is_postorder_of_what_it_sees, E. apply KillTreeThm.postorder_perm.
  - rewrite <- E at 2. apply KillTreeThm.psutil_kills_perm.
Qed.
Print Assumptions C06_quiet_tree_is_killed_entirely.

(* the psutil-less wrapper: when the platform kill fails (no pgrep, ...) only the worker itself is killed; it is joined either way *)
Theorem C06_nopsutil_wrapper :
  forall t fails, KT.exec_nopsutil KG.nopsutil_wrapper_prog KG.posix_recursive_kill_prog t fails
    = KT.mku (if fails then [KT.root t] else KT.exec_posix KG.posix_recursive_kill_prog t) true.
Proof. exact KillTreeThm.exec_nopsutil_eq. Qed.
Print Assumptions C06_nopsutil_wrapper.

(* the full statement is false when a descendant forks during the sweep: the new process and everything below it escape both paths
   (inherent to killing by enumeration; the sweep kills children first, so their parents keep running -- and may fork -- meanwhile) *)
Theorem C06_fork_during_the_sweep_escapes_refuted :
  exists t, NoDup (KT.pids t)
    /\ KT.survivors (KT.exec_posix KG.posix_recursive_kill_prog t) t <> []
    /\ KT.survivors (KT.ukills (KT.exec_psutil KG.psutil_kill_prog t)) t <> [].
Proof.
  exists KillTreeThm.racing_tree. split; [apply KillTreeThm.late_fork_escapes|].
  destruct KillTreeThm.late_fork_survivors as [A B]. rewrite A, B. split; discriminate.
Qed.
Print Assumptions C06_fork_during_the_sweep_escapes_refuted.

Theorem C06_kill_tree_structure : KG.kill_workers_kills_whole_trees = true.
Proof. reflexivity. Qed.
Print Assumptions C06_kill_tree_structure.

(* ---- "completes in time independent of how long the running tasks would take" when ANOTHER executor is being shut down gracefully
   at the same time (Model/GlobalJoin.v): shutdown(wait=True) joins its manager thread while holding the module-wide
   _global_shutdown_lock (generated fact) ---- *)
Theorem C06_join_is_under_the_global_lock : shutdown_joins_the_manager_under_the_global_lock = true.
Proof. reflexivity. Qed.
Print Assumptions C06_join_is_under_the_global_lock.

(* the effect of the forced call (executor 2's manager has ended: futures failed, workers killed) needs no tick of anybody's task ... *)
Theorem C06_forced_effect_is_prompt_beside_another_shutdown :
  forall n, let s := GJ.grun shutdown_joins_the_manager_under_the_global_lock [GJ.C2Flag; GJ.M2End] (GlobalJoinThm.held n) in
    GJ.m2_done s = true /\ GJ.ticks s = 0.
Proof. intros n. rewrite C06_join_is_under_the_global_lock. split; reflexivity. Qed.
Print Assumptions C06_forced_effect_is_prompt_beside_another_shutdown.

(* ... but the CALL returns only after the other executor's task has run to its end: for every history *)
Theorem C06_forced_call_waits_for_the_other_executors_task :
  forall n es, let s := GJ.grun shutdown_joins_the_manager_under_the_global_lock es (GlobalJoinThm.held n) in
    GJ.c2 s = GJ.CDone -> n <= GJ.ticks s.
Proof.
  intros n es. rewrite C06_join_is_under_the_global_lock. intros s H.
  apply (GlobalJoinThm.forced_call_waits_for_the_other_executors_task n es). right. exact H.
Qed.
Print Assumptions C06_forced_call_waits_for_the_other_executors_task.

(* so the full statement is false (finding H22): for every n the forced call is still waiting after n ticks *)
Theorem C06_forced_call_promptness_refuted :
  forall n, exists es, let s := GJ.grun shutdown_joins_the_manager_under_the_global_lock es (GlobalJoinThm.held (S n)) in
    GJ.ticks s = n /\ GJ.m2_done s = true /\ GJ.c2 s = GJ.CFlagged /\ GJ.gstep true s GJ.C2Acquire = s.
Proof. intros n. rewrite C06_join_is_under_the_global_lock. apply GlobalJoinThm.forced_call_promptness_refuted. Qed.
Print Assumptions C06_forced_call_promptness_refuted.

(* joined without the lock, the call would return after its own three steps *)
Theorem C06_without_the_lock_the_forced_call_is_prompt :
  forall s0, GJ.c2 s0 = GJ.CStart ->
    let s := GJ.grun false [GJ.C2Flag; GJ.M2End; GJ.C2Acquire; GJ.C2JoinRelease] s0 in GJ.c2 s = GJ.CDone /\ GJ.ticks s = GJ.ticks s0.
Proof. exact GlobalJoinThm.without_the_lock_the_forced_call_is_prompt. Qed.
Print Assumptions C06_without_the_lock_the_forced_call_is_prompt.
