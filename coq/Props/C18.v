(* C18 — every worker is a fresh, initialised interpreter with only intended inheritance.
   Subject: Gen/Spawn.v (shape-directed translation of popen_loky_posix.py, fork_exec.py, spawn.py, process.py and the
   worker prologue), regenerated on every run; the fork_exec system call itself is an oracle. *)
From Coq Require Import List String ZArith Bool.
From LokyV Require Import Lib.PyLib Lib.PosixLib Gen.Spawn Proofs.SpawnThm.
From LokyV Require Lib.InitLib Gen.Init Proofs.InitThm.
Import ListNotations.
Open Scope Z_scope.

(* for every set of descriptors open in the parent and every keep list, the child has stdio and the keep list only *)
Theorem C18_fds :
  forall open keep fd, In fd (gen_child_fds open keep) <-> In fd open /\ (fd = 0 \/ fd = 1 \/ fd = 2 \/ In fd keep).
Proof. exact child_fds_exact. Qed.
Print Assumptions C18_fds.
(* and the keep list is exactly: payload pipe ends, the two tracker handles, descriptors registered while pickling *)
Theorem C18_keep_list :
  forall cr cw tr mtr reg fd,
    In fd (gen_keep_list cr cw tr mtr reg) <-> In fd reg \/ fd = cr \/ fd = cw \/ fd = tr \/ fd = mtr.
Proof. exact keep_list_exact. Qed.
Print Assumptions C18_keep_list.
(* environment: overlay wins, everything else is the parent's, for all maps *)
Theorem C18_env :
  forall overlay parent k, NoDup (dkeys overlay) ->
    dget (gen_child_env parent overlay) k = match dget overlay k with Some v => Some v | None => dget parent k end.
Proof. exact child_env_lookup. Qed.
Print Assumptions C18_env.
(* exit status and terminating signal are reported faithfully (all 256 codes, all 126 signals, with or without core) *)
Theorem C18_status_exit : forall c, 0 <= c <= 255 -> gen_returncode (status_exit c) = Ok c.
Proof. exact returncode_of_exit. Qed.
Print Assumptions C18_status_exit.
Theorem C18_status_signal : forall g core, 1 <= g <= 126 -> gen_returncode (status_signal g core) = Ok (- g).
Proof. exact returncode_of_signal. Qed.
Print Assumptions C18_status_signal.
(* structure read off the sources on this run: the parent closes the child's pipe ends; LokyProcess defaults to
   init_main_module=False and the __main__ fix-up is only scheduled/executed when asked; the tracker handle is
   shipped; the worker runs the initializer first and leaves on failure; every spawn site ships initializer+initargs *)
Theorem C18_structure :
  parent_closes_child_ends = true /\ loky_process_default_no_main = true /\ main_fixup_only_when_asked = true
  /\ tracker_handle_shipped = true /\ worker_runs_initializer_first_and_exits_on_failure = true
  /\ every_spawn_ships_initializer = true.
Proof. exact spawn_structure. Qed.
Print Assumptions C18_structure.
Example C18_example :
  gen_child_fds [0; 1; 2; 3; 4; 7; 9; 200] (gen_keep_list 7 9 4 200 []) = [0; 1; 2; 4; 7; 9; 200]
  /\ dget (gen_child_env [("A"%string, "1"%string); ("B"%string, "2"%string)] [("B"%string, ""%string); ("C"%string, "3"%string)]) "B"%string = Some ""%string.
Proof. vm_compute. split; reflexivity. Qed.

(* ---- what a worker runs before its first task (loky/initializers.py, Gen/Init.v) ----
   the executor stores the pair built by _prepare_initializer: the user's initializer first, then loky's own (profiler propagation),
   combined by _chain_initializers; the worker calls it as initializer( *initargs ) before its loop.  For EVERY list of (initializer or
   None, argument tuple): the calls made in the worker are exactly the initializers that are not None, each once, in the order given,
   each with its own arguments -- never one's arguments for another, never a None called. *)
Theorem C18_prepared_initializer_runs_each_once_in_order :
  forall (I A : Type) (l : list (option I * A)),
    InitLib.calls Init.chained_call (InitLib.chain Init.chain_shape l) = Some (InitLib.wanted l).
Proof. exact InitThm.prepared_initializer_runs_each_once_in_order. Qed.
Print Assumptions C18_prepared_initializer_runs_each_once_in_order.
Theorem C18_initializer_structure :
  Init.prepare_puts_the_users_initializer_first_then_lokys_own = true /\ Init.executor_stores_the_prepared_pair = true
  /\ Init.worker_calls_initializer_with_initargs_before_its_loop = true.
Proof. repeat split; reflexivity. Qed.
Print Assumptions C18_initializer_structure.
