(* C16 — wrap_non_picklable_objects is behaviour-preserving.
   Subject: Gen/Wrapper.v (shape-directed translation of loky/cloudpickle_wrapper.py, regenerated every run),
   over an abstract object universe; cloudpickle is an oracle assumed faithful up to behavioural equality. *)
From Coq Require Import List String Bool Arith.
From LokyV Require Import Lib.PyLib Lib.WrapLib Gen.Wrapper Proofs.WrapperThm.

Section P.
Variables (obj : Type) (callable : obj -> bool) (cprt : obj -> obj) (oeq : obj -> obj -> Prop).
Hypothesis oeq_refl : forall o, oeq o o.
Hypothesis oeq_trans : forall a b c, oeq a b -> oeq b c -> oeq a c.
Hypothesis cprt_faithful : forall o, oeq (cprt o) o.
Hypothesis callable_respects : forall a b, oeq a b -> callable a = callable b.
Notation cv := (callable_v obj callable).

(* callable iff the object is -- for wrapped instances/functions and for instances of a wrapped class *)
Theorem C16_callable_iff : forall x keep, cv (gen_wrap obj cv x keep) = cv x.
Proof. exact (wrap_callable_iff obj callable). Qed.
Theorem C16_class_instance_callable_iff : forall defines_call, gen_class_instance_callable defines_call = defines_call.
Proof. exact class_instance_callable_iff. Qed.

(* a plain-pickle round trip of ANY value (wrappers of wrappers included) yields its normal form: every
   keep_wrapper=False layer is gone, every keep_wrapper=True layer is still there with the same flag,
   the object at the core is behaviourally the same *)
Theorem C16_roundtrip : forall v, veq obj oeq (rt obj callable cprt v) (norm obj callable v).
Proof. exact (roundtrip obj callable cprt oeq cprt_faithful callable_respects). Qed.
(* ... and any number n >= 1 of round trips yields the same *)
Theorem C16_iterated : forall n v, veq obj oeq (rtn obj callable cprt (S n) v) (norm obj callable v).
Proof. exact (iterated_roundtrip obj callable cprt oeq oeq_trans cprt_faithful callable_respects). Qed.
Theorem C16_arrives_unwrapped :
  forall x, veq obj oeq (rt obj callable cprt (gen_wrap obj cv x false)) (norm obj callable x).
Proof. exact (arrives_unwrapped obj callable cprt oeq oeq_refl oeq_trans cprt_faithful callable_respects). Qed.
Theorem C16_arrives_wrapped :
  forall x, veq obj oeq (rt obj callable cprt (gen_wrap obj cv x true))
                (Wrap (cv (norm obj callable x)) (norm obj callable x) true).
Proof. exact (arrives_wrapped obj callable cprt oeq oeq_refl oeq_trans cprt_faithful callable_respects). Qed.
(* attribute reads are forwarded for every name except the wrapper's own two slots (Python consults
   __getattr__ only after normal lookup fails, so names the wrapper class itself defines are not forwarded) *)
Theorem C16_getattr_forwarded :
  forall attr, attr <> "_obj"%string -> attr <> "_keep_wrapper"%string -> gen_getattr_forwards attr = true.
Proof. exact getattr_forwarded. Qed.
End P.
Print Assumptions C16_callable_iff.
Print Assumptions C16_class_instance_callable_iff.
Print Assumptions C16_roundtrip.
Print Assumptions C16_iterated.
Print Assumptions C16_arrives_unwrapped.
Print Assumptions C16_arrives_wrapped.
Print Assumptions C16_getattr_forwarded.

Example C16_example :
  let cv := callable_v bool (fun b => b) in
  rtn bool (fun b => b) (fun b => b) 2 (gen_wrap bool cv (gen_wrap bool cv (Obj true) false) true)
  = Wrap true (Obj true) true.
Proof. vm_compute. reflexivity. Qed.
