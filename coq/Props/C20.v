(* C20 — executor life cycles leak no parent-side resources.
   Subject: Model/Ledger.v, whose operation lists and join/drop facts are Gen/Ledger.v (regenerated from the source). *)
From Coq Require Import List Arith Bool.
From LokyV Require Import Lib.LedgerLib Gen.Ledger Model.Ledger Proofs.LedgerThm.
From LokyV Require Model.FeederPipe Proofs.FeederPipeThm.
Import ListNotations.

(* Repeating any history (any events, any number of executors one after the other, with or without psutil) any number of times
   leaves exactly the world -- hence the same descriptors, threads, children and semaphores -- that running it once leaves,
   provided the history ends with its last executor released and nothing left to happen. *)
Theorem C20_no_accumulation :
  forall psutil h k, done (cur (run psutil h world0)) = true ->
    ledger (run psutil (rep (S k) h) world0) = ledger (run psutil (rep 1 h) world0).
Proof. exact no_accumulation_ledger. Qed.
Print Assumptions C20_no_accumulation.

(* What is left then is known exactly: nothing of the executor itself; only Process objects that were found already reaped when
   the pool was torn down (psutil path of kill_process_tree returns before join): one descriptor and one semaphore each, no
   thread, no child, and the next Process.start() anywhere drops them. *)
Theorem C20_released_owns_nothing :
  forall psutil h, let w := run psutil h world0 in
    done (cur w) = true -> ledger w = mkc (length (stale w)) 0 0 (length (stale w)) /\ table (cur w) = [].
Proof. intros psutil h w D. apply released_ledger; [apply run_inv, inv0 | exact D]. Qed.
Print Assumptions C20_released_owns_nothing.

(* Both ways out of the manager thread's loop, as they read in the current source, leave an empty process table (every worker
   joined or killed-and-joined), a call-queue feeder that has been told to stop, and never join a worker nobody stopped. *)
Theorem C20_exits_release :
  forallb is_prim broken_exit && forallb is_prim normal_exit = true
  /\ aexec broken_exit top = mka false false false false /\ aexec normal_exit top = mka false false false false.
Proof. split; [exact exits_are_primitive | split; [exact broken_exit_good | exact normal_exit_good]]. Qed.
Print Assumptions C20_exits_release.
Theorem C20_abstraction_sound :
  forall psutil ops w a, approx w a -> approx (exec psutil ops w) (aexec ops a).
Proof. exact exec_sound. Qed.
Print Assumptions C20_abstraction_sound.

Theorem C20_structure :
  kill_workers_pops_and_kills_each = true /\ clean_exit_pops_releases_joins = true /\ broken_by_sentinel_polls_exit_codes = true
  /\ shutdown_flags_then_wakes = true /\ shutdown_joins_manager_when_wait = true /\ spawn_creates_exit_lock_and_starts = true
  /\ kill_tree_psutil_joins_otherwise = true /\ kill_tree_nopsutil_always_joins = true
  /\ feeder_thread_holds_queue = true /\ wakeup_close_closes_both_ends_once = true
  /\ shutdown_drop <> DropNever.
Proof. repeat split; try reflexivity. discriminate. Qed.
Print Assumptions C20_structure.

Example C20_example :
  ledger (run true [Start 2; Put] world0) = mkc 8 2 2 8
  /\ ledger (run true (rep 5 (h_broken ++ NewExecutor :: h_plain ++ NewExecutor :: h_broken)) world0) = mkc 1 0 0 1
  /\ ledger (run false (rep 7 h_broken) world0) = mkc 0 0 0 0.
Proof. vm_compute. auto. Qed.

(* ---- the feeder thread after the workers have been killed (Model/FeederPipe.v; finding H17, fixed) ----
   a feeder blocked writing a large task into the full call-queue pipe gets EPIPE -- and ends -- only when no read end of the pipe
   is open; the parent holds one although it never reads, and Queue.close() only queues a sentinel the blocked feeder never sees.
   kill_workers() closes the parent's handle once every worker is dead (generated fact).  Hence: after kill_workers() and
   call_queue.close(), in either order, whatever happened before and in between, the feeder ends at its next step and stays ended.
   On the pinned source it stayed blocked for ever: one thread, the queue, two descriptors and three semaphores per forced shutdown
   with a large task in flight (findings/H17_real.py). *)
Theorem C20_forced_shutdown_ends_the_feeder_thread :
  forall es1 es2 es3 s,
    FeederPipe.th (FeederPipe.step kill_workers_closes_the_call_queue_reader
                     (FeederPipe.run kill_workers_closes_the_call_queue_reader
                        (es1 ++ FeederPipe.KillAll :: es2 ++ FeederPipe.CloseQueue :: es3) s) FeederPipe.FeederStep) = FeederPipe.Ended.
Proof. exact FeederPipeThm.forced_shutdown_ends_the_feeder. Qed.
Print Assumptions C20_forced_shutdown_ends_the_feeder_thread.
Example C20_h17_blocked_for_ever :
  let s := FeederPipe.run false [FeederPipe.FeederStep; FeederPipe.FeederStep; FeederPipe.KillAll; FeederPipe.CloseQueue] (FeederPipe.mkfp FeederPipe.Idle 2 false 1 2 true) in
  FeederPipe.th s = FeederPipe.Blocked /\ forall e, FeederPipe.step false s e = s.
Proof. exact FeederPipeThm.h17_blocked_for_ever. Qed.

(* the `Drop` event of the ledger (the executor object is collected) reaches the manager thread: the weak-reference callback wakes it,
   and it WAITS for the shutdown lock to do so (Gen/Pool.v) -- a callback that gave up when the lock is momentarily held by another
   thread would leave the manager thread, the feeder thread, the workers and their descriptors for ever (seeded change C20_i) *)
From LokyV Require Lib.PoolLib Gen.Pool.
Theorem C20_collected_executor_reaches_the_manager :
  LokyV.Gen.Pool.collected_executor_wakes_the_manager_under_the_shutdown_lock = true
  /\ LokyV.Gen.Pool.manager_thread_holds_only_a_weak_reference_to_its_executor = true.
Proof. split; reflexivity. Qed.
Print Assumptions C20_collected_executor_reaches_the_manager.
