(* C01 — every submitted future resolves and no API call hangs.  The property is a liveness property of the running system; what
   is proved here is its safety core on Model/Pool.v (whose operation lists are regenerated from the source): the manager thread
   never ends leaving a future unresolved, nothing is accepted after it ended, every accepted future is accounted for, and the
   manager's exits never wait for a worker nobody stopped.  The schedules on which the real code does hang are findings
   (H2, H4, H5, H7, H10 in known_findings.json); they involve locks held by dead processes, which this model does not carry. *)
From Coq Require Import List Arith Bool.
From LokyV Require Import Lib.LedgerLib Lib.PoolLib Gen.Ledger Gen.Pool Model.Pool Proofs.PoolThm.
From LokyV Require Proofs.LedgerThm Model.Ledger Model.Wake Proofs.WakeThm.
From LokyV Require Model.FailLoop Proofs.FailLoopThm.
From LokyV Require Lib.LockLib Model.LockOrder Proofs.LockOrderThm.
From LokyV Require Gen.LockOrder.
Module LockOrderG := LokyV.Gen.LockOrder.
From LokyV Require Model.WakePipe Proofs.WakePipeThm.
From LokyV Require Gen.Detect.
Module DetectG := LokyV.Gen.Detect.
Import ListNotations.

Theorem C01_manager_never_leaves_a_future_unresolved :
  forall n es, mgr (run es (pool0 n)) = MDone ->
    pending (run es (pool0 n)) = 0 /\ procs (run es (pool0 n)) = [] /\ closed (run es (pool0 n)) = true.
Proof. exact manager_gone_means_all_settled. Qed.
Print Assumptions C01_manager_never_leaves_a_future_unresolved.

Theorem C01_nothing_is_accepted_afterwards :
  forall n es, let p := run es (pool0 n) in mgr p = MDone -> user p = true ->
    step p Submit = refuse p.
Proof. exact after_the_manager_nothing_is_accepted. Qed.
Print Assumptions C01_nothing_is_accepted_afterwards.

Theorem C01_every_future_is_accounted_for :
  forall n es, let p := run es (pool0 n) in submitted p = ok p + failB p + failS p + pending p.
Proof. exact futures_accounted. Qed.
Print Assumptions C01_every_future_is_accounted_for.

(* both exits of the manager loop: never a join of a process that was neither killed nor sent a sentinel (Model/Ledger.v's stuck bit) *)
Theorem C01_exits_never_join_a_live_worker :
  LedgerThm.aexec Ledger.broken_exit LedgerThm.top = LedgerThm.mka false false false false
  /\ LedgerThm.aexec Ledger.normal_exit LedgerThm.top = LedgerThm.mka false false false false.
Proof. split; [exact LedgerThm.broken_exit_good | exact LedgerThm.normal_exit_good]. Qed.
Print Assumptions C01_exits_never_join_a_live_worker.

(* the wake-up protocol of submit / cancel / shutdown and the manager (Model/Wake.v; submit() is walked in the statement order of the
   source, the re-check flag is read off run()): after any
   history the manager is parked with nothing inside the pool left to wake it only if its table is empty and nobody asked it to
   stop -- the hang H11 (submit, cancel, shutdown(wait=True)) is the failure of this statement on the pinned source *)
Theorem C01_no_wake_up_is_lost :
  forall es, let s := Wake.run es Wake.ws0 in Wake.asleep_for_good s = true -> Wake.shut s = false /\ Wake.in_table s = 0.
Proof. exact WakeThm.no_wake_up_is_lost. Qed.
Print Assumptions C01_no_wake_up_is_lost.

Example C01_h11_without_the_recheck :
  let s := fold_left (Wake.step_with false true Wake.wake_ops)
             [Wake.Mgr; Wake.SubmitBegin; Wake.SubStep; Wake.SubStep; Wake.SubStep; Wake.Cancel; Wake.Shutdown; Wake.Mgr; Wake.Mgr; Wake.Mgr; Wake.Mgr; Wake.Mgr] Wake.ws0 in
  Wake.asleep_for_good s = true /\ Wake.shut s = true.
Proof. vm_compute. auto. Qed.
(* ... and so does a submit() that writes the wake-up byte before it has published the work id *)
Example C01_wake_up_before_publishing :
  let s := fold_left (Wake.step_with true true [PoolLib.SWakeup; PoolLib.SAddPending; PoolLib.SPutWorkId])
             [Wake.Mgr; Wake.SubmitBegin; Wake.SubStep; Wake.Mgr; Wake.Mgr; Wake.Mgr; Wake.Mgr; Wake.Mgr; Wake.SubStep; Wake.SubStep] Wake.ws0 in
  Wake.asleep_for_good s = true /\ Wake.in_table s = 1.
Proof. vm_compute. auto. Qed.

Example C01_example :
  let p := run (submit_all ++ submit_all ++ [Complete 0; ShutdownCall false; CheckShut; MgrOp; MgrOp; MgrOp; Complete 1; CheckShut; MgrOp; MgrOp;
                MgrOp; MgrOp; MgrOp; MgrOp; MgrOp; MgrOp; MgrOp; MgrOp; Submit]) (pool0 2) in
  mgr p = MDone /\ ok p = 2 /\ submitted p = 2 /\ refused p = 1.
Proof. vm_compute. auto. Qed.

(* ---- failing the table (Model/FailLoop.v; finding H14, fixed) ----
   terminate_broken() (the forced-shutdown loop is C06's).
   A future still waiting in the table can be cancelled by its owner at any moment, also between two iterations, and
   Future.set_exception() raises InvalidStateError on a cancelled future.  How the loop guards the call is read off the source
   (broken_path_fail_guard).  For every table and every interleaving of cancellations with the loop: the error never escapes (the
   manager thread survives), when the loop has ended every item has an outcome (failed by the manager, or cancelled by its owner) and
   none was lost, and it ends after one step per item plus one.  On the pinned source the call was bare: one cancelled future killed
   the manager thread, the items after it were never failed, the workers neither killed nor joined (real reproduction
   findings/H14_real.py). *)
Theorem C01_failing_the_table_never_kills_the_manager :
  forall table es, let s := FailLoop.run broken_path_fail_guard es (FailLoop.start table) in
    FailLoop.lphase s <> FailLoop.Crashed /\
    (FailLoop.lphase s = FailLoop.Finished ->
       FailLoop.todo s = [] /\ forallb FailLoop.terminal (FailLoop.handled s) = true /\ length (FailLoop.handled s) = length table) /\
    (length table < FailLoop.mgr_steps es -> FailLoop.lphase s = FailLoop.Finished).
Proof. exact FailLoopThm.guarded_loop_never_crashes. Qed.
Print Assumptions C01_failing_the_table_never_kills_the_manager.

(* ---- no circular wait among the parent's threads (Model/LockOrder.v, Gen/LockOrder.v) ----
   Gen/LockOrder.v is the relation "entered while held", read off the source on every run: every `with <lock>`, every acquire that
   can block for ever, every join() of the manager thread / of a worker, every blocking put on the call queue, every polling loop of
   the resizing thread, every completion of a future (done-callbacks run in the completing thread), transitively through calls --
   with a rank certificate.  Proved: (general) if whatever a thread waits for ranks above everything it holds, no set of threads
   can wait for each other in a circle; (instance) the certificate respects the generated relation, one edge aside; hence threads
   that enter locks along paths of that relation are never deadlocked among themselves.  The excluded edge is finding H15 (a
   done-callback submitting to a reusable executor while another thread is inside get_reusable_executor): with it the relation has
   the cycle LFactory -> TMgr -> UserCb -> LFactory and NO rank exists (C01_lock_order_refuted_with_callbacks_on_a_reusable_executor).
   The simulation compares every (held -> untimed wait) pair of every run with the generated relation. *)
Theorem C01_no_circular_wait :
  (forall (rank : LockLib.lk -> nat) (d : list LockOrder.thread),
     (forall t, In t d -> LockOrder.disciplined rank t) -> ~ LockOrder.deadlocked d) /\
  LockOrder.respects LockOrderG.lock_rank LockOrder.kept = true /\
  (forall d : list LockOrder.thread,
     (forall t h w, In t d -> In h (LockOrder.holds t) -> LockOrder.wants t = Some w -> LockOrder.path LockOrder.kept h w) ->
     ~ LockOrder.deadlocked d).
Proof.
  split; [exact LockOrderThm.no_circular_wait|]. split; [exact LockOrderThm.certificate_ok | exact LockOrderThm.loky_threads_never_wait_in_a_circle].
Qed.
Print Assumptions C01_no_circular_wait.

Theorem C01_lock_order_refuted_with_callbacks_on_a_reusable_executor :
  (~ exists rank, LockOrder.respects rank LockOrderG.lock_edges = true) /\
  LockOrder.deadlocked [LockOrder.mkthread [LockLib.LFactory] (Some LockLib.TMgr);
                        LockOrder.mkthread [LockLib.TMgr; LockLib.UserCb] (Some LockLib.LFactory)].
Proof. split; [exact LockOrderThm.full_relation_refuted | exact LockOrderThm.the_h15_configuration_is_a_circular_wait]. Qed.
Print Assumptions C01_lock_order_refuted_with_callbacks_on_a_reusable_executor.

(* ---- the wake-up pipe as a bounded buffer (Model/WakePipe.v; finding H18, fixed) ----
   wakeup() is always called with the shutdown lock held and blocks when the pipe is full; the manager drains the pipe without a lock
   but takes the shutdown lock itself between two drains when it finds the executor shutting down or broken.  wakeup() writes only
   when no message is pending (generated fact).  Hence, for every capacity >= 2 and every history of writers and manager steps: at most
   one message is ever in the pipe, no writer blocks, the writer inside wakeup() can always finish and free the lock: the deadlock
   "writer blocked on the full pipe with the lock / manager waiting for the lock" is unreachable.  On the pinned source wakeup() always
   wrote: 16384 wake-ups while the manager was busy, then shutdown(), wedged both threads (findings/H18_real.py). *)
Theorem C01_no_deadlock_on_the_wakeup_pipe :
  forall cap es, 2 <= cap ->
    let s := WakePipe.run DetectG.wakeup_writes_only_when_nothing_is_pending cap es WakePipe.wp0 in
    WakePipe.deadlocked s = false /\ WakePipe.msgs s <= 1 /\
    (WakePipe.wr s = WakePipe.WIn -> WakePipe.lock (WakePipe.step DetectG.wakeup_writes_only_when_nothing_is_pending cap s WakePipe.WStep) = WakePipe.Free).
Proof. exact WakePipeThm.no_deadlock_on_the_wakeup_pipe. Qed.
Print Assumptions C01_no_deadlock_on_the_wakeup_pipe.
Example C01_h18_full_pipe_deadlock :
  let s := WakePipe.run false 3 [WakePipe.WEnter; WakePipe.WStep; WakePipe.WEnter; WakePipe.WStep; WakePipe.WEnter; WakePipe.WStep;
                                 WakePipe.WEnter; WakePipe.WStep; WakePipe.MLock] WakePipe.wp0 in
  WakePipe.deadlocked s = true /\ forall e, WakePipe.step false 3 s e = s.
Proof. exact WakePipeThm.h18_full_pipe_deadlock. Qed.
